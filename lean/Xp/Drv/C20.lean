import Xp.Base.JsonIO
import Xp.Model.C20
/-
C20 model driver: parses one scenario (harness/main/c20.go: c20Scn), replays its
runs on the model and prints the same canonical observation as the harness.
Driver glue only; nothing here is used by a theorem.
-/
namespace Xp.C20
open Lean (Json)
open Xp.IOx

def jInt (j : Json) (k : String) : Int := int j k

def blobOf (j : Json) : Blob :=
  match j with
  | .null => .empty
  | _ =>
    match str j "t" with
    | "c" => .cert ⟨nat j "kp", nat j "by", strs j "dns", bool j "ca"⟩
    | "k" => .key (nat j "kp")
    | _ => .junk (jInt j "n")

def blobJson : Blob → Json
  | .empty => .null
  | .junk n => Json.mkObj [("t", .str "j"), ("n", .num (Lean.JsonNumber.fromInt n))]
  | .cert c => Json.mkObj [("t", .str "c"), ("kp", .num (Lean.JsonNumber.fromNat c.kp)), ("by", .num (Lean.JsonNumber.fromNat c.signedBy)),
      ("dns", .arr (c.dns.map Json.str).toArray), ("ca", .bool c.ca)]
  | .key k => Json.mkObj [("t", .str "k"), ("kp", .num (Lean.JsonNumber.fromNat k))]

def num (i : Int) : Json := .num (Lean.JsonNumber.fromInt i)

def refOf (j : Json) : Option Ref :=
  match j with
  | .null => none
  | _ =>
    -- `src` is COMPUTED by the model (xpkg.ParsePackageSourceFromReference as string logic over ref.String());
    -- the value the harness ships (the real function's) is compared through the observation, not used
    some ⟨str j "reg", str j "repo", str j "id", bool j "dig", str j "str", parseSource (str j "str")⟩

def refJson : Option Ref → Json
  | none => .null
  | some r => Json.mkObj [("reg", .str r.reg), ("repo", .str r.repo), ("id", .str r.ident), ("dig", .bool r.digest), ("str", .str r.str), ("src", .str r.src)]

def pkindOf : String → PKind
  | "P" => .provider
  | "C" => .configuration
  | _ => .function

def pkindStr : PKind → String
  | .provider => "P"
  | .configuration => "C"
  | .function => "F"

def pkindRank : PKind → Nat
  | .provider => 0
  | .configuration => 1
  | .function => 2

def wkindOf : String → WKind
  | "M" => .mutating
  | _ => .validating

def wkindStr : WKind → String
  | .validating => "V"
  | .mutating => "M"

def versOf (j : Json) (k : String) : List (String × Bool) := (arr j k).map fun v => (str v "n", bool v "s")
def versJson (vs : List (String × Bool)) : Json := .arr (vs.map fun v => Json.mkObj [("n", .str v.1), ("s", .bool v.2)]).toArray

def svcOf (j : Json) : Svc := ⟨str j "name", str j "ns", jInt j "port"⟩
def svcJson (s : Svc) : Json := Json.mkObj [("name", .str s.name), ("ns", .str s.ns), ("port", num s.port)]

def storeOf (j : Json) : Store :=
  { secrets := (arr j "secrets").map fun x => ⟨str x "name", blobOf (obj x "crt"), blobOf (obj x "key"), blobOf (obj x "ca"), jInt x "others", jInt x "meta"⟩
    pkgs := (arr j "pkgs").map fun x => ⟨pkindOf (str x "kind"), str x "name", str x "raw", refOf (obj x "ref"), jInt x "extra"⟩
    crds := (arr j "crds").map fun x => ⟨str x "name", jInt x "content", versOf x "versions", bool x "conv", blobOf (obj x "bundle"), strs x "stored", jInt x "extra"⟩
    whcs := (arr j "whcs").map fun x => ⟨wkindOf (str x "kind"), str x "name",
      (arr x "hooks").map (fun h => ⟨str h "name", blobOf (obj h "bundle"), svcOf (obj h "svc")⟩), jInt x "extra"⟩
    crs := (arr j "crs").map fun x => ⟨str x "crd", str x "name", jInt x "payload"⟩
    lock := if has j "lock" then some (jInt j "lock") else none
    sc := if has j "sc" then some (str (obj j "sc") "scope", jInt (obj j "sc") "extra") else none
    drc := if has j "drc" then some (jInt j "drc") else none }

def srt {α : Type} (le : α → α → Bool) (l : List α) : List α := l.mergeSort le

def storeJson (s : Store) : Json :=
  Json.mkObj [
    ("secrets", .arr ((srt (fun a b => strLe a.name b.name) s.secrets).map fun x =>
      Json.mkObj [("name", .str x.name), ("crt", blobJson x.crt), ("key", blobJson x.key), ("ca", blobJson x.ca), ("others", num x.others), ("meta", num x.lbl)]).toArray),
    ("pkgs", .arr ((srt (fun a b => pkindRank a.kind < pkindRank b.kind || (a.kind = b.kind && strLe a.name b.name)) s.pkgs).map fun x =>
      Json.mkObj [("kind", .str (pkindStr x.kind)), ("name", .str x.name), ("raw", .str x.raw), ("ref", refJson x.ref), ("extra", num x.extra)]).toArray),
    ("crds", .arr ((srt (fun a b => strLe a.name b.name) s.crds).map fun x =>
      Json.mkObj [("name", .str x.name), ("content", num x.content), ("versions", versJson x.versions), ("conv", .bool x.conv),
        ("bundle", blobJson x.bundle), ("stored", .arr (x.stored.map Json.str).toArray), ("extra", num x.extra)]).toArray),
    ("whcs", .arr ((srt (fun a b => (a.kind = .validating && b.kind = .mutating) || (a.kind = b.kind && strLe a.name b.name)) s.whcs).map fun x =>
      Json.mkObj [("kind", .str (wkindStr x.kind)), ("name", .str x.name),
        ("hooks", .arr (x.hooks.map fun h => Json.mkObj [("name", .str h.name), ("bundle", blobJson h.bundle), ("svc", svcJson h.svc)]).toArray),
        ("extra", num x.extra)]).toArray),
    ("crs", .arr ((srt (fun a b => a.crd < b.crd || (a.crd = b.crd && strLe a.name b.name)) s.crs).map fun x =>
      Json.mkObj [("crd", .str x.crd), ("name", .str x.name), ("payload", num x.payload)]).toArray),
    ("lock", match s.lock with | some n => num n | none => .null),
    ("sc", match s.sc with | some (sc, e) => Json.mkObj [("scope", .str sc), ("extra", num e)] | none => .null),
    ("drc", match s.drc with | some n => num n | none => .null)]

def imgsOf (j : Json) (k : String) : List Img := (arr j k).map fun x => ⟨str x "img", refOf (obj x "ref")⟩

def dirOf (j : Json) : Dir :=
  { parseErr := bool j "parseErr"
    objs := (arr j "objs").map fun o =>
      match str o "t" with
      | "crd" => let c := obj o "crd"; .crd ⟨str c "name", jInt c "content", versOf c "versions", bool c "conv"⟩
      | "whc" => let w := obj o "whc"; .whc ⟨wkindOf (str w "kind"), str w "name", strs w "hooks"⟩
      | _ => .other }

def tlsRefOf (j : Json) (k : String) : Option TlsRef :=
  if has j k then some ⟨str (obj j k) "name", strs (obj j k) "dns"⟩ else none

def stepOf (j : Json) : Step :=
  match str j "t" with
  | "tls" => .tls (str j "ca") (tlsRefOf j "server") (tlsRefOf j "client")
  | "crds" => .crds (optStr j "tlsRef") (dirOf (obj j "dir"))
  | "whcs" => .whcs ((optStr j "tlsRef").getD "") (svcOf (obj j "svc")) (dirOf (obj j "dir"))
  | "mig" => .mig (str j "crd") (str j "old")
  | "lock" => .lock
  | "install" => .install (imgsOf j "p") (imgsOf j "c") (imgsOf j "f")
  | "sc" => .sc (str j "ns")
  | _ => .drc

def cfgOf (j : Json) : Cfg :=
  { ns := str j "ns", sa := str j "sa", webhook := bool j "webhook", svcName := str j "svcName", svcNs := str j "svcNs",
    svcPort := jInt j "svcPort", ca := str j "ca", server := str j "server", client := str j "client", ess := str j "ess",
    p := imgsOf j "p", c := imgsOf j "c", f := imgsOf j "f", crdDir := dirOf (obj j "crdDir"), whcDir := dirOf (obj j "whcDir") }

def planOf (j : Json) : Plan :=
  let k := jInt j "k"
  if k < 0 then Plan.allOk else
  let o : Outcome := match str j "o" with
    | "fail" => .fail | "conflict" => .conflict | "crashBefore" => .crashBefore | "crashAfter" => .crashAfter | _ => .ok
  Plan.at k.toNat o

def reqLine : Req → String
  | .getSecret n => s!"get:S:{n}"
  | .createSecret s => s!"create:S:{s.name}"
  | .updateSecret _ n => s!"update:S:{n.name}"
  | .listPkgs k => s!"list:{pkindStr k}:"
  | .getPkg k n => s!"get:{pkindStr k}:{n}"
  | .createPkg p => s!"create:{pkindStr p.kind}:{p.name}"
  | .patchPkg k n _ => s!"patch:{pkindStr k}:{n}"
  | .getCrd n => s!"get:CRD:{n}"
  | .createCrd c => s!"create:CRD:{c.name}"
  | .patchCrd f _ => s!"patch:CRD:{f.name}"
  | .getWhc k n => s!"get:{wkindStr k}:{n}"
  | .createWhc w => s!"create:{wkindStr w.kind}:{w.name}"
  | .patchWhc k n _ => s!"patch:{wkindStr k}:{n}"
  | .listCrs _ => "list:CR:"
  | .patchCr _ n => s!"patch:CR:{n}"
  | .patchCrdStored n _ => s!"patch/status:CRD:{n}"
  | .getLock => "get:L:lock"
  | .createLock => "create:L:lock"
  | .patchLock => "patch:L:lock"
  | .createSc _ => "create:SC:default"
  | .createDrc => "create:DRC:default"

/-- every request issued (attempted), in order, under the peer's interference `env` -/
def issued {α : Type} (sm : Sem Store Req Resp) (env : Env Store) (plan : Plan) (k : Nat) (p : Prog Req Resp α) (s : Store) : List Req :=
  (callLogE sm env plan k p s).map (·.1)

/-- number of own applied requests that changed the store -/
def changed {α : Type} (sm : Sem Store Req Resp) (env : Env Store) (plan : Plan) (k : Nat) (p : Prog Req Resp α) (s : Store) : Nat :=
  ((ownE sm env plan k p s).filter fun x => decide ((sm.exec x.1 x.2).1 ≠ x.1)).length

/-- (store before, store after) of every action of the environment during the run -/
def envSteps {α : Type} (sm : Sem Store Req Resp) (env : Env Store) (plan : Plan) : Nat → Prog Req Resp α → Store → List (Store × Store)
  | _, .ret _, _ => []
  | k, .call r c, s =>
    (s, env k s) :: match plan k with
    | .ok => envSteps sm env plan (k+1) (c (sm.exec (env k s) r).2) (sm.exec (env k s) r).1
    | .fail => envSteps sm env plan (k+1) (c (sm.errResp .fail r)) (env k s)
    | .conflict => envSteps sm env plan (k+1) (c (sm.errResp .conflict r)) (env k s)
    | .crashBefore => []
    | .crashAfter => []

/-- the class of the error a refused call of this run is answered with -/
def errOf (rj : Json) : Err :=
  if str rj "o" == "fail" then
    match str rj "cls" with
    | "notFound" => .notFound
    | "alreadyExists" => .alreadyExists
    | "conflictErr" => .conflict
    | _ => .other
  else .other

def pkgOf (x : Json) : Pkg := ⟨pkindOf (str x "kind"), str x "name", str x "raw", refOf (obj x "ref"), jInt x "extra"⟩
def crdOf (x : Json) : Crd := ⟨str x "name", jInt x "content", versOf x "versions", bool x "conv", blobOf (obj x "bundle"), strs x "stored", jInt x "extra"⟩
def whcOf (x : Json) : Whc := ⟨wkindOf (str x "kind"), str x "name",
  (arr x "hooks").map (fun h => ⟨str h "name", blobOf (obj h "bundle"), svcOf (obj h "svc")⟩), jInt x "extra"⟩

def opOf (o : Json) : Option PeerOp :=
  match str o "t" with
  | "delSecret" => some (.delSecret (str o "name"))
  | "putPkg" => some (.putPkg (pkgOf (obj o "pkg")))
  | "delPkg" => some (.delPkg (pkindOf (str o "kind")) (str o "name"))
  | "putCrd" => some (.putCrd (crdOf (obj o "crd")))
  | "delCrd" => some (.delCrd (str o "name"))
  | "putWhc" => some (.putWhc (whcOf (obj o "whc")))
  | "delWhc" => some (.delWhc (wkindOf (str o "kind")) (str o "name"))
  | "putCr" => let c := obj o "cr"; some (.putCr ⟨str c "crd", str c "name", jInt c "payload"⟩)
  | "delCr" => some (.delCr (str o "kind") (str o "name"))
  | "lock" => some (.setLock (if has o "n" then some (jInt o "n") else none))
  | "sc" => some (.setSc (if has o "sc" then some (str (obj o "sc") "scope", jInt (obj o "sc") "extra") else none))
  | "drc" => some (.setDrc (if has o "n" then some (jInt o "n") else none))
  | _ => none

def secretOf (x : Json) : Secret :=
  ⟨str x "name", blobOf (obj x "crt"), blobOf (obj x "key"), blobOf (obj x "ca"), jInt x "others", jInt x "meta"⟩

/-- the peer writes of run number `i` -/
def peersOf (scn : Json) (i : Nat) : List PeerWrite :=
  (arr scn "peer").filterMap fun p =>
    if nat p "run" = i then some ⟨nat p "before", (arr p "secrets").map secretOf, (arr p "ops").filterMap opOf⟩ else none

def imgObs (i : Img) : Json :=
  match i.ref with
  | none => Json.mkObj [("img", .str i.img), ("ok", .bool false), ("name", .str ""), ("src", .str "")]
  | some r => Json.mkObj [("img", .str i.img), ("ok", .bool true), ("name", .str (toDNSLabel r.repo)), ("src", .str (parseSource r.str))]

def stepImgs : Step → List Img
  | .install p c f => p ++ c ++ f
  | _ => []

/-- model-side property predicates evaluated on one run: kept material, no duplicate source -/
def keptOk (ca : List String) (before after : Store) : Bool :=
  before.secrets.all fun b =>
    let prot := if ca.contains b.name then isComplete b else hasMaterial b
    !prot || (match findSecret after b.name with
      | some a => a.crt == b.crt && a.key == b.key && a.ca == b.ca
      | none => false)

/-- `NoSecond before after` as a Boolean -/
def noSecondOk (before after : Store) : Bool :=
  after.pkgs.all fun q =>
    match q.ref with
    | none => true
    | some r =>
      let installed := before.pkgs.any fun q' => q'.kind = q.kind && (match q'.ref with | some r' => r'.src == r.src | none => false)
      !installed || before.pkgs.any fun q0 => q0.kind = q.kind && q0.name == q.name

def installCount (steps : List Step) : Nat :=
  (steps.filter fun s => match s with | .install _ _ _ => true | _ => false).length

/-- (b) on one own secret write that was answered ok: at the end of the run the secret is what was written,
and it chains to the complete CA secret stored then -/
def chainOk (ca : String) (t : Store) (new : Secret) : Bool :=
  match findSecret t ca, findSecret t new.name with
  | some sec, some l =>
    l == new && isComplete sec &&
      (match sec.crt, l.crt with
       | .cert C, .cert c => l.key == .key c.kp && l.ca == .cert C && c.signedBy == C.kp
       | _, _ => false)
  | _, _ => false

def respOk : Resp → Bool
  | .ok => true
  | _ => false

def drvCaNames (steps : List Step) : List String :=
  steps.filterMap fun s => match s with
    | .tls ca sv cl => if sv.isSome || cl.isSome then some ca else none
    | _ => none

def handler : Handler := fun scn =>
  if str scn "kind" == "realdirs" then .error "supporting run over the real directories: no model counterpart" else
  let steps : List Step :=
    if str scn "kind" == "init" && has scn "cfg" then initSteps (cfgOf (obj scn "cfg")) else (arr scn "steps").map stepOf
  let s0 := storeOf (obj scn "store")
  let imgs := (steps.flatMap stepImgs) ++ (s0.pkgs.map fun p => (⟨p.raw, p.ref⟩ : Img))
  let cas := drvCaNames steps
  let (outs, _, propOk, why, _) := (arr scn "runs").foldl (fun (acc : List Json × Store × Bool × String × Nat) rj =>
    let (outs, s, okSoFar, why, idx) := acc
    let plan := planOf rj
    let n := nat rj "nonce"
    let prog := runSteps stdGen steps n 0
    let env := peerEnv (peersOf scn idx)
    let sm := semK (errOf rj)
    let (s', r) := runE sm env plan 0 prog s
    let log := (issued sm env plan 0 prog s).map reqLine
    let (res, done) : String × Nat := match r with
      | none => ("crash", 0)
      | some (.ok, _, d) => ("ok", d)
      | some (.err _, _, d) => ("err", d)
    let out := Json.mkObj [("res", .str res), ("done", .num (Lean.JsonNumber.fromNat done)), ("writes", .num (Lean.JsonNumber.fromNat (changed sm env plan 0 prog s))),
      ("log", .arr (log.map Json.str).toArray), ("store", storeJson s')]
    let own := ownE sm env plan 0 prog s
    -- (a) for every environment: no own call rewrites a secret that is protected at that moment
    let ownKeeps := own.all fun x => keptOk cas x.1 (sem.exec x.1 x.2).1
    -- the rely: the peer never rewrites a protected secret
    let rely := (envSteps sm env plan 0 prog s).all fun x => keptOk cas x.1 x.2
    -- under the rely: protected secrets of the start are in place at the end, and (b) what we wrote chains to the stored CA
    let chains := match cas.eraseDups with
      | [ca] => own.all fun x => match x.2.writes with
          | some new => new.name == ca || !respOk (sem.exec x.1 x.2).2 || chainOk ca s' new
          | none => true
      | _ => true
    let kept := ownKeeps && (!rely || (keptOk cas s s' && chains)) && (installCount steps != 1 || !((peersOf scn idx).all fun w => w.ops.isEmpty) || noSecondOk s s')
    (outs ++ [out], s', okSoFar && kept, (if kept then why else "C20:model-property-false (kept material, own writes chain, or no-second-package)"), idx + 1)) ([], s0, true, "", 0)
  let out := Json.mkObj [("imgs", .arr (imgs.map imgObs).toArray), ("runs", .arr outs.toArray)]
  .ok (out, propOk, why)

end Xp.C20

import Xp.Base.JsonIO
import Xp.Drv.C01
import Xp.Model.C02World
/-
Driver of the C02 site "xwE" (harness/main/c02_adopt.go): an XR-world scenario of C01's shape
(`xw`) plus, per round, at most one action of a third party: before API call `k` of that
reconcile the composed resource `kind/name` gets a controller reference to another owner
(`adopt`). Runs `Xp.C01.reconcile` over `Xp.C02World.sem` with `Xp.runE` and prints the
observation in the shape of C01's driver. Model-side verdict: an own request changed an object
that was controlled by somebody else at that moment outside the two windows of
`Xp.C02World.foreign_untouched_under_interference` (never, by that theorem).
-/
namespace Xp.C02World
open Lean (Json)
open Xp.IOx
open Xp.C01

/-- the own calls that changed an object foreign at that moment, outside the windows -/
def badWrites (own : List (W × Req)) : List Req :=
  (own.filter fun x =>
    let after := (exec x.1 x.2).1
    x.1.base.objs.any fun o =>
      o.ctrl == .other && !after.base.objs.contains o &&
        !(x.1.mine.contains ⟨o.kind, o.name⟩ && x.1.stale.contains ⟨o.kind, o.name⟩)).map (·.2)

def handler : Handler := fun top => do
  let scn := obj top "xw"
  let adopts := arr top "adopt"
  let mode := str scn "mode"
  let objs0 := (arr scn "objs").map objOf
  let refs0 : List Ref := (arr scn "refs").map fun j => ⟨str j "kind", str j "name"⟩
  let mut st : St := { xrFin := bool scn "fin", xrRv := 0, refs := refs0,
                       objs := objs0, refsVer := "v1", xrApplied := !(bool scn "fresh"), foreign0 := [] }
  let mut outs : Array Json := #[]
  let mut ok := true
  let mut why := ""
  let mut ri := 0
  for rd in arr scn "rounds" do
    let ds := (arr rd "desired").map desiredOf
    let h := obj rd "hints"
    let gen := (arr h "gen").map fun p => match p with
      | .arr a => ((a[0]?.bind (·.getStr?.toOption)).getD "", (a[1]?.bind (·.getStr?.toOption)).getD "")
      | _ => ("", "")
    let fnErr := str rd "fnErr"
    let ver := if str rd "ver" == "" then "v1" else str rd "ver"
    let ch : Choices := ⟨ver, gen.map (·.2), orderBy (·.annot) (strs h "gc"), orderBy (·.d.rname) (strs h "apply")⟩
    let m : Mode := if mode == "fn" then
        .fn (fun _ => if fnErr == "" then .desired (orderBy (·.rname) (gen.map (·.1)) ds) else .failed) ch
      else .pt ds (gen.map (·.2)) ver
    let plan : Plan := if has rd "fault" then
        let f := obj rd "fault"
        Plan.at (nat f "k") (outcomeOf (str f "o"))
      else Plan.allOk
    let miss : List Ref := (arr rd "miss").map fun j => ⟨str j "kind", str j "name"⟩
    -- the third party's action of this round, if any
    let env : Env W := match adopts.find? (fun a => nat a "round" == ri) with
      | some a => adoptAt (nat a "k") (str a "kind") (str a "name")
      | none => Env.none
    -- a reconcile starts without copies of composed resources
    let w : W := { base := { st with miss := miss }, mine := [], stale := [] }
    let prog := reconcile m
    let log := callLogE sem env plan 0 prog w
    let res := runE sem env plan 0 prog w
    let bad := badWrites (ownE sem env plan 0 prog w)
    if !bad.isEmpty then
      ok := false; why := "C02:foreign-written-outside-window-in-model"
    st := res.1.base
    let result := match res.2 with
      | none => "crashed"
      | some .success => "success"
      | some .handled => "handled"
      | some .error => "error"
    let refs := (st.refs.map fun r => (r.kind, r.name)).mergeSort keyLe
    let objs := st.objs.mergeSort fun a b => keyLe (a.kind, a.name) (b.kind, b.name)
    outs := outs.push <| Json.mkObj [
      ("calls", Json.arr (log.map fun e => Json.str (callStr e)).toArray),
      ("refs", Json.arr (refs.map fun r => refJson ⟨r.1, r.2⟩).toArray),
      ("objs", Json.arr (objs.map objJson).toArray),
      ("result", .str result),
      ("xrFin", .bool st.xrFin)]
    ri := ri + 1
  return (Json.mkObj [("rounds", Json.arr outs)], ok, why)

end Xp.C02World

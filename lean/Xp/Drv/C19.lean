import Xp.Base.JsonIO
import Xp.Model.C19
import Xp.Gen.C19
/-
Driver for C19: parses one scenario (a schedule of user operations, other writers'
edits, delete requests, GC steps and single API calls of reconciles under fault
outcomes, error classes and informer-cache lag),
runs the model and prints the same canonical observation the Go harness prints
for the real code.
-/
namespace Xp.C19
open Lean (Json)
open Xp.IOx

def labelsOf (j : Json) (k : String) : Labels :=
  (kvs j k).filterMap fun (a, v) => v.getStr?.toOption.map fun s => (a, s)

def rspecOf (j : Json) : RSpec :=
  let sel : Option Sel := if has j "sel" then some ⟨labelsOf (obj j "sel") "labels", bool (obj j "sel") "mc"⟩ else none
  ⟨str j "av", str j "kind", str j "name", sel⟩

def outcomeOf : String → Outcome
  | "fail" => .fail
  | "conflict" => .conflict
  | "crashBefore" => .crashBefore
  | "crashAfter" => .crashAfter
  | _ => .ok

def Err.str : Err → String
  | .notFound => "notFound"
  | .conflict => "conflict"
  | .alreadyExists => "alreadyExists"
  | .invalid => "invalid"
  | .other => "other"
  | .crashed => "crashed"

def Result.str : Result → String
  | .none => "none"
  | .noneErr => "none/err"
  | .requeue => "requeue"
  | .poll => "poll"
  | .pollErr => "poll/err"
  | .wait => "wait"
  | .crashed => "crashed"

def usageGK : String := "Usage.apiextensions.crossplane.io"

def gkStr (g k : String) : String := if g = "" then k else k ++ "." ++ g

def Req.str : Req → String
  | .getU n => s!"get {usageGK} {n}"
  | .getR g k n => s!"get {gkStr g k} {n}"
  | .listR g k _ => s!"list {gkStr g k} "
  | .listU _ => s!"list {usageGK} "
  | .updU u => s!"update {usageGK} {u.name}"
  | .updStatus u => s!"update {usageGK} {u.name}/status"
  | .updR r => s!"update {gkStr r.group r.kind} {r.name}"

def replyStr : Option Resp → String
  | none => "crashed"
  | some (.err e) => e.str
  | some _ => "ok"

def Verdict.str : Verdict → String
  | .allowed => "allowed"
  | .denied => "denied"
  | .errored => "errored"

def DelResult.str : DelResult → String
  | .notFound => "notFound"
  | .done hook v => v.str ++ (if hook then "+hook" else "")

def Report.str : Report → String
  | .created none => "ok"
  | .created (some e) => e.str
  | .deletedU found => if found then "ok" else "notFound"
  | .del r => r.str
  | .gc .absent => "gc:absent"
  | .gc .unowned => "gc:unowned"
  | .gc .owned => "gc:owned"
  | .gc .deletedUsage => "gc:ok"
  | .gc (.res r) => "gc:" ++ r.str
  | .reapplied none => "ignored"
  | .reapplied (some true) => "ok"
  | .reapplied (some false) => "notControllable"
  | .started ok => if ok then "started" else "ignored"
  | .ignored => "ignored"
  | .call req reply fin =>
    s!"{req.str} -> {replyStr reply}" ++ (match fin with | some r => ";done:" ++ r.str | none => "")
  | .touched found => if found then "ok" else "notFound"

/-! ### model-side evaluation of the proved statements on the run -/

def resKey (g k n : String) : String := k ++ "." ++ g ++ "/" ++ n

/-- marker invariant (proved for maxc = 1) -/
def markerOk (s : Store) : Bool :=
  s.usages.all fun u => !(u.ready && !u.deleting) || s.res.all fun r => !(u.names r) || r.inUse

/-- owned_by_using (proved for every maxc) -/
def ownedOk (s : Store) : Bool :=
  s.usages.all fun u => !u.ready ||
    match u.by_ with
    | none => true
    | some b => u.owners.any fun o => s.born.contains (o.uid, groupOf b.av, b.kind, b.name)

/-- a step that removes the label is the reconcile of a deleted Usage whose List saw no other Usage -/
def removalOk (pre : Sys) (a : Action) (post : Sys) : Bool :=
  pre.store.res.all fun r =>
    match post.store.res.find? (fun r' => r'.uid == r.uid) with
    | none => true
    | some r' =>
      if r.inUse && !r'.inUse then
        match a with
        | .step n _ _ =>
          match pre.thread? n with
          | some t =>
            (match t.pc with | .dUnlabel _ => true | _ => false) &&
            t.seen.all (fun y => !(y.names r) || (y.name == n && y.deleting))
          | none => false
        | _ => false
      else true

/-- the label was on every used resource before the step that made a Usage ready (maxc = 1) -/
def beforeReadyOk (pre post : Sys) : Bool :=
  post.store.usages.all fun u' =>
    !u'.ready || (pre.store.usages.any fun u => u.name == u'.name && u.uid == u'.uid && u.ready) ||
      pre.store.res.all fun r => !(u'.names r) || r.inUse

/-- webhook verdicts: denied iff some Usage is indexed under the object's key (fresh list, no fault) -/
def hookOk (pre : Sys) (a : Action) (rep : Report) : Bool :=
  match a, rep with
  | .dr g k n _ true true none, .del (.done true v) =>
    let indexed := pre.store.usages.any (·.indexedBy (indexKey g k n))
    (v == .denied) == indexed && (v == .allowed) == !indexed
  | _, _ => true

/-! ### running a schedule -/

/-- an in-flight reconcile of Usage `n` during which, so far, the Usage (uid `V`) and the resource
its spec.by `b` refers to (uid `U`) have existed as the same objects (`Held` in every state) -/
abbrev Tracked := String × Nat × RSpec × Nat

def Tracked.held (e : Tracked) (sys : Sys) : Bool := decide (Held e.1 e.2.1 e.2.2.1 e.2.2.2 sys)

/-- what `owned_by_current_user` starts from: the Usage has a resolved spec.by whose resource exists -/
def trackOf (s : Store) (n : String) : Option Tracked :=
  match s.getU n with
  | none => none
  | some y =>
    match y.by_ with
    | none => none
    | some b =>
      if b.name = "" then none else
      match s.getR (groupOf b.av) b.kind b.name with
      | none => none
      | some g => some (n, y.uid, b, g.uid)

/-- owned_by_current_user (proved for every maxc) evaluated on the run: `trk` are the reconciles
tracked in the state before the action -/
def ownerStep (trk : List Tracked) (a : Action) (rep : Report) (post : Sys) : List Tracked × Bool :=
  let trk := trk.filter (·.held post)
  match a, rep with
  | .start n, .started true =>
    (match trackOf post.store n with
     | some e => (e :: trk.filter (fun x => x.1 != n), true)
     | none => (trk.filter (fun x => x.1 != n), true))
  | .step n _ _, .call _ _ (some r) =>
    let ok := r != .poll || trk.all fun e => e.1 != n ||
      match post.store.getU n with
      | some y => y.owners.any (·.uid == e.2.2.2)
      | none => false
    (trk.filter (fun x => x.1 != n), ok)
  | _, _ => (trk, true)

structure RunSt where
  sys : Sys
  steps : List String   -- reversed
  ok : Bool
  why : String
  trk : List Tracked := []
  /-- the informer cache: the Usage collection after every scenario event (one entry per action,
  oldest first; entry 0 = the empty cluster) and the position the cache has reached -/
  hist : Array (List Usage) := #[[]]
  cpos : Nat := 0
  /-- some read so far was answered by a lagging cache: the statements that assume `listFresh`
  (marker clauses, removed_only_with_last) are no longer evaluated on this run -/
  lagged : Bool := false
  /-- the composer re-applied a Usage through a version `RespectOwnerRefs` does not recognise: the
  ownership statements (which exclude `.xaRaw`) are no longer evaluated on this run -/
  raw : Bool := false
  /-- per-resource serialisation (`keySerial`) held before every action so far: the hypothesis of
  `marker_while_ready_key_serial`, under which the marker statements are evaluated for any `maxc` -/
  ks : Bool := true

/-- the entry a cached read lagging `v` events behind is answered from: `v` entries before the
latest, but never older than what an earlier read was served -/
def RunSt.viewIdx (st : RunSt) (v : Nat) : Nat :=
  let last := st.hist.size - 1
  max st.cpos (if v = 0 then last else last - v)

def RunSt.lagging (st : RunSt) (v : Nat) : Bool := st.viewIdx v != st.hist.size - 1

def RunSt.viewAt (st : RunSt) (v : Nat) : List Usage := st.hist.getD (st.viewIdx v) []

/-- error class of an injected failure as the model names it -/
def errOf : String → Err
  | "notFound" => .notFound
  | "conflict" => .conflict
  | "alreadyExists" => .alreadyExists
  | "invalid" => .invalid
  | _ => .other

def RunSt.act (st : RunSt) (a : Action) : RunSt × String :=
  let (sys', rep) := st.sys.exec a
  let fail (w : String) (st : RunSt) : RunSt := if st.ok then { st with ok := false, why := w } else st
  let (trk', ownOk) := ownerStep st.trk a rep sys'
  let ksNew : Bool := st.ks && decide (keySerial st.sys)
  let st' : RunSt := { st with sys := sys', trk := trk', ks := ksNew }
  let st' := if ownOk || st.raw then st' else fail "C19:model-usage-not-owned-by-current-user" st'
  let st' := if ownedOk sys'.store || st.raw then st' else fail "C19:model-ready-not-owned" st'
  let st' := if removalOk st.sys a sys' || st.lagged then st' else fail "C19:model-marker-removed-with-other-usage" st'
  let st' := if hookOk st.sys a rep then st' else fail "C19:model-webhook-verdict" st'
  let st' := if (sys'.maxc ≤ 1 || ksNew) && !st.lagged && !(markerOk sys'.store) then fail "C19:model-ready-usage-unmarked" st' else st'
  let st' := if (sys'.maxc ≤ 1 || ksNew) && !st.lagged && !(beforeReadyOk st.sys sys') then fail "C19:model-ready-before-marker" st' else st'
  ({ st' with hist := st'.hist.push sys'.store.usages }, rep.str)

/-- the marker statements are proved for the plain world; on a schedule with informer-cache lag
the model-side verdict covers the world-independent statements only -/
def RunSt.actW (st : RunSt) (a : Action) : RunSt × String :=
  let (sys', rep) := st.sys.exec a
  let fail (w : String) (st : RunSt) : RunSt := if st.ok then { st with ok := false, why := w } else st
  let drop : String := match a with | .stepW n _ _ => n | _ => ""
  let trk' := (st.trk.filter fun x => x.held sys').filter fun x => x.1 != drop
  let lag' : Bool := match a with
    | .stepW _ _ c => c.count.isSome || c.usage.isSome
    | .dr _ _ _ _ _ _ stale => stale.isSome
    | _ => false
  let raw' : Bool := match a with | .xaRaw _ _ => true | _ => false
  let ksNew : Bool := st.ks && decide (keySerial st.sys)
  let st' : RunSt := { st with sys := sys', trk := trk', lagged := st.lagged || lag', raw := st.raw || raw', ks := ksNew }
  let st' := if hookOk st.sys a rep then st' else fail "C19:model-webhook-verdict" st'
  ({ st' with hist := st'.hist.push sys'.store.usages }, rep.str)

/-- one API call of the reconcile of `n`: outcome `o`, error class `e`, informer cache `v` events behind -/
def RunSt.stepU (st : RunSt) (n : String) (o : Outcome) (e : String) (v : Nat) : RunSt × String :=
  match st.sys.thread? n with
  | none => st.act (.step n o none)
  | some t =>
    let cached := match t.request with | .getU _ => true | .listU _ => true | _ => false
    let idx := st.viewIdx v
    let lag := cached && o == .ok && st.lagging v
    let view := st.viewAt v
    -- the cache moves when it answers a read
    let st := if cached && o == .ok then { st with cpos := idx } else st
    if !lag && (e == "" || o != .fail) then st.act (.step n o none)
    else
      let c : Call := {
        count := if lag then (match t.request with
          | .listU key => some (view.filter (·.indexedBy key)).length
          | _ => none) else none,
        usage := if lag then (match t.request with
          | .getU nm => some (view.find? (fun x => x.name == nm))
          | _ => none) else none,
        cls := if o == .fail then errOf e else .other }
      st.actW (.stepW n o c)

def RunSt.push (p : RunSt × String) : RunSt := { p.1 with steps := p.2 :: p.1.steps }

/-- `run`: start unless in flight, then API calls (all ok) until the reconcile returns -/
def RunSt.runU (st : RunSt) (n : String) : RunSt :=
  let (st, parts, go) :=
    match st.sys.thread? n with
    | some _ => (st, ([] : List String), true)
    | none => let (st', r) := st.act (.start n); (st', [r], r == "started")
  if !go then { st with steps := "|".intercalate parts :: st.steps } else
  let rec loop (fuel : Nat) (st : RunSt) (parts : List String) : RunSt × List String :=
    match fuel with
    | 0 => (st, parts)
    | fuel + 1 =>
      let (st', r) := st.stepU n .ok "" 0
      let parts := parts ++ [r]
      match st'.sys.thread? n with
      | some _ => loop fuel st' parts
      | none => (st', parts)
  let (st, parts) := loop 40 st parts
  { st with steps := "|".intercalate parts :: st.steps }

def stepOf (st : RunSt) (j : Json) : RunSt :=
  match str j "op" with
  | "cr" => RunSt.push (st.act (.cr (groupOf (str j "av")) (str j "kind") (str j "name") (labelsOf j "labels") (bool j "inuse") (str j "ctrl")))
  | "cu" =>
    let by_ := if has j "by" then some (rspecOf (obj j "by")) else none
    let reason := if str j "reason" = "" then none else some (str j "reason")
    let of := if has j "of" then rspecOf (obj j "of") else ⟨"", "", "", none⟩
    let (st1, rep) := st.act (.cu (str j "name") of by_ reason (bool j "composed") (str j "ctrl"))
    if bool j "fin" && rep == "ok" then
      -- created already carrying the finalizer: ONE event for the informer cache
      let sys2 := (st1.sys.exec (.ef (str j "name"))).1
      RunSt.push ({ st1 with sys := sys2, raw := true, lagged := true, hist := st1.hist.pop.push sys2.store.usages }, rep)
    else RunSt.push (st1, rep)
  | "du" => RunSt.push (st.act (.du (str j "name")))
  | "dr" =>
    let wo := strs j "wo"
    -- the shape of the admission request (`rq`: collection delete with an empty request.name,
    -- request namespace, requestKind version, subresource, grace period, preconditions) does not
    -- enter the model: the verdict depends on the object. Two things do: an operation other than
    -- DELETE is refused unjudged (as a failed List: errored), a dry-run delete deletes nothing.
    let rq := obj j "rq"
    let opBad := str rq "op" != "" && str rq "op" != "DELETE"
    let dry := bool rq "dry"
    let lo := (wo.getD 0 "ok") == "ok" && !opBad
    let po := (wo.getD 1 "ok") == "ok"
    let (g, k, n) := (groupOf (str j "av"), str j "kind", str j "name")
    let v := nat j "v"
    -- the webhook lists (through the cache) iff the stored object carries the label
    let listed := lo && (match st.sys.store.getR g k n with | some r => r.inUse | none => false)
    let lag := listed && st.lagging v
    let stale := if lag then some ((st.viewAt v).filter (·.indexedBy (indexKey g k n))).length else none
    let st := if listed then { st with cpos := st.viewIdx v } else st
    let a : Action := .dr g k n (str j "policy") lo po stale
    let allowed := match (st.sys.exec a).2 with | .del (.done _ .allowed) => true | _ => false
    if dry && allowed then
      -- admitted dry run: the answer is reported, nothing changes
      RunSt.push ({ st with hist := st.hist.push st.sys.store.usages }, (st.sys.exec a).2.str)
    else if lag then RunSt.push (st.actW a)
    else RunSt.push (st.act a)
  | "gc" =>
    if str j "kind" == "Usage" && (str j "av" == "" || groupOf (str j "av") == "apiextensions.crossplane.io") then
      RunSt.push (st.act (.gcU (str j "name")))
    else
      let (g, k, n) := (groupOf (str j "av"), str j "kind", str j "name")
      -- the garbage collector's delete passes the webhook like any other (fresh list)
      let listed := match st.sys.store.getR g k n with
        | some r => r.inUse && r.owners != [] && !(r.owners.any fun o => st.sys.store.alive o.uid)
        | none => false
      let st := if listed then { st with cpos := st.viewIdx 0 } else st
      RunSt.push (st.act (.gcR g k n))
  | "xa" =>
    let av := if str j "av" == "" then "apiextensions.crossplane.io/v1beta1" else str j "av"
    -- does the composer's RespectOwnerRefs option recognise a Usage served in that version? the model's
    -- `composerRespects` (= the table probed from the tree: obligation composer_respects_is_model)
    if composerRespects av "Usage" then
      RunSt.push (st.act (.xa (str j "name") (str j "ctrl")))
    else RunSt.push (st.actW (.xaRaw (str j "name") (str j "ctrl")))
  | "er" => RunSt.push (st.act (.er (groupOf (str j "av")) (str j "kind") (str j "name") (labelsOf j "labels")))
  | "start" => RunSt.push (st.act (.start (str j "u")))
  | "step" => RunSt.push (st.stepU (str j "u") (outcomeOf (str j "o")) (str j "e") (nat j "v"))
  | "run" => st.runU (str j "u")
  | _ => { st with steps := "unknown-op" :: st.steps }

def ownersStr (s : Store) (os : List OwnerRef) : List String :=
  (os.map fun o =>
    let n := match s.res.find? (fun r => r.uid == o.uid) with
      | some r => resKey r.group r.kind r.name
      | none => match s.usages.find? (fun u => u.uid == o.uid) with
        | some u => "Usage/" ++ u.name
        | none => "dead"
    if o.controller then n ++ "!" else n).mergeSort (· ≤ ·)

def handler : Handler := fun scn =>
  let maxc := max 1 (nat scn "maxc")
  let st0 : RunSt := { sys := Sys.init maxc, steps := [], ok := true, why := "" }
  let st := (arr scn "steps").foldl stepOf st0
  let s := st.sys.store
  let us := (s.usages.mergeSort fun a b => a.name ≤ b.name).map fun u =>
    Json.mkObj [("name", .str u.name), ("ofName", .str u.of.name),
      ("byName", .str (match u.by_ with | some b => b.name | none => "")),
      ("fin", .bool u.fin), ("deleting", .bool u.deleting), ("ready", .bool u.ready),
      ("details", .str (u.details.getD "")),
      ("owners", Json.arr ((ownersStr s u.owners).map Json.str).toArray)]
  let rs := (s.res.map fun r => (resKey r.group r.kind r.name, r)).mergeSort (fun a b => a.1 ≤ b.1) |>.map fun (k, r) =>
    Json.mkObj [("key", .str k), ("inUse", .bool r.inUse), ("attempt", .str (r.attempt.getD "")),
      ("owners", Json.arr ((ownersStr s r.owners).map Json.str).toArray)]
  let out := Json.mkObj [
    ("steps", Json.arr (st.steps.reverse.map Json.str).toArray),
    ("usages", Json.arr us.toArray),
    ("res", Json.arr rs.toArray)]
  .ok (out, st.ok, st.why)

end Xp.C19

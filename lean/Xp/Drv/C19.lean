import Xp.Base.JsonIO
import Xp.Model.C19
/-
Driver for C19: parses one scenario (a schedule of user operations, delete
requests, GC steps and single API calls of reconciles under fault outcomes),
runs the model and prints the same canonical observation the Go harness prints
for the real code.
-/
namespace Xp.C19
open Lean (Json)
open Xp.IOx

def labelsOf (j : Json) (k : String) : Labels :=
  (kvs j k).filterMap fun (a, v) => v.getStr?.toOption.map fun s => (a, s)

def rspecOf (j : Json) : RSpec :=
  let sel : Option Sel := if has j "sel" then some ⟨labelsOf (obj j "sel") "labels", bool (obj j "sel") "mc"⟩ else none
  ⟨str j "av", str j "kind", str j "name", sel⟩

def outcomeOf : String → Outcome
  | "fail" => .fail
  | "conflict" => .conflict
  | "crashBefore" => .crashBefore
  | "crashAfter" => .crashAfter
  | _ => .ok

def Err.str : Err → String
  | .notFound => "notFound"
  | .conflict => "conflict"
  | .alreadyExists => "alreadyExists"
  | .invalid => "invalid"
  | .other => "other"
  | .crashed => "crashed"

def Result.str : Result → String
  | .none => "none"
  | .noneErr => "none/err"
  | .requeue => "requeue"
  | .poll => "poll"
  | .pollErr => "poll/err"
  | .wait => "wait"
  | .crashed => "crashed"

def usageGK : String := "Usage.apiextensions.crossplane.io"

def gkStr (g k : String) : String := if g = "" then k else k ++ "." ++ g

def Req.str : Req → String
  | .getU n => s!"get {usageGK} {n}"
  | .getR g k n => s!"get {gkStr g k} {n}"
  | .listR g k _ => s!"list {gkStr g k} "
  | .listU _ => s!"list {usageGK} "
  | .updU u => s!"update {usageGK} {u.name}"
  | .updStatus u => s!"update {usageGK} {u.name}/status"
  | .updR r => s!"update {gkStr r.group r.kind} {r.name}"

def replyStr : Option Resp → String
  | none => "crashed"
  | some (.err e) => e.str
  | some _ => "ok"

def Verdict.str : Verdict → String
  | .allowed => "allowed"
  | .denied => "denied"
  | .errored => "errored"

def DelResult.str : DelResult → String
  | .notFound => "notFound"
  | .done hook v => v.str ++ (if hook then "+hook" else "")

def Report.str : Report → String
  | .created none => "ok"
  | .created (some e) => e.str
  | .deletedU found => if found then "ok" else "notFound"
  | .del r => r.str
  | .gc .absent => "gc:absent"
  | .gc .unowned => "gc:unowned"
  | .gc .owned => "gc:owned"
  | .gc .deletedUsage => "gc:ok"
  | .gc (.res r) => "gc:" ++ r.str
  | .reapplied none => "ignored"
  | .reapplied (some true) => "ok"
  | .reapplied (some false) => "notControllable"
  | .started ok => if ok then "started" else "ignored"
  | .ignored => "ignored"
  | .call req reply fin =>
    s!"{req.str} -> {replyStr reply}" ++ (match fin with | some r => ";done:" ++ r.str | none => "")

/-! ### model-side evaluation of the proved statements on the run -/

def resKey (g k n : String) : String := k ++ "." ++ g ++ "/" ++ n

/-- marker invariant (proved for maxc = 1) -/
def markerOk (s : Store) : Bool :=
  s.usages.all fun u => !(u.ready && !u.deleting) || s.res.all fun r => !(u.names r) || r.inUse

/-- owned_by_using (proved for every maxc) -/
def ownedOk (s : Store) : Bool :=
  s.usages.all fun u => !u.ready ||
    match u.by_ with
    | none => true
    | some b => u.owners.any fun o => s.born.contains (o.uid, groupOf b.av, b.kind, b.name)

/-- a step that removes the label is the reconcile of a deleted Usage whose List saw no other Usage -/
def removalOk (pre : Sys) (a : Action) (post : Sys) : Bool :=
  pre.store.res.all fun r =>
    match post.store.res.find? (fun r' => r'.uid == r.uid) with
    | none => true
    | some r' =>
      if r.inUse && !r'.inUse then
        match a with
        | .step n _ _ =>
          match pre.thread? n with
          | some t =>
            (match t.pc with | .dUnlabel _ => true | _ => false) &&
            t.seen.all (fun y => !(y.names r) || (y.name == n && y.deleting))
          | none => false
        | _ => false
      else true

/-- the label was on every used resource before the step that made a Usage ready (maxc = 1) -/
def beforeReadyOk (pre post : Sys) : Bool :=
  post.store.usages.all fun u' =>
    !u'.ready || (pre.store.usages.any fun u => u.name == u'.name && u.uid == u'.uid && u.ready) ||
      pre.store.res.all fun r => !(u'.names r) || r.inUse

/-- webhook verdicts: denied iff some Usage is indexed under the object's key (fresh list, no fault) -/
def hookOk (pre : Sys) (a : Action) (rep : Report) : Bool :=
  match a, rep with
  | .dr g k n _ true true none, .del (.done true v) =>
    let indexed := pre.store.usages.any (·.indexedBy (indexKey g k n))
    (v == .denied) == indexed && (v == .allowed) == !indexed
  | _, _ => true

/-! ### running a schedule -/

/-- an in-flight reconcile of Usage `n` during which, so far, the Usage (uid `V`) and the resource
its spec.by `b` refers to (uid `U`) have existed as the same objects (`Held` in every state) -/
abbrev Tracked := String × Nat × RSpec × Nat

def Tracked.held (e : Tracked) (sys : Sys) : Bool := decide (Held e.1 e.2.1 e.2.2.1 e.2.2.2 sys)

/-- what `owned_by_current_user` starts from: the Usage has a resolved spec.by whose resource exists -/
def trackOf (s : Store) (n : String) : Option Tracked :=
  match s.getU n with
  | none => none
  | some y =>
    match y.by_ with
    | none => none
    | some b =>
      if b.name = "" then none else
      match s.getR (groupOf b.av) b.kind b.name with
      | none => none
      | some g => some (n, y.uid, b, g.uid)

/-- owned_by_current_user (proved for every maxc) evaluated on the run: `trk` are the reconciles
tracked in the state before the action -/
def ownerStep (trk : List Tracked) (a : Action) (rep : Report) (post : Sys) : List Tracked × Bool :=
  let trk := trk.filter (·.held post)
  match a, rep with
  | .start n, .started true =>
    (match trackOf post.store n with
     | some e => (e :: trk.filter (fun x => x.1 != n), true)
     | none => (trk.filter (fun x => x.1 != n), true))
  | .step n _ _, .call _ _ (some r) =>
    let ok := r != .poll || trk.all fun e => e.1 != n ||
      match post.store.getU n with
      | some y => y.owners.any (·.uid == e.2.2.2)
      | none => false
    (trk.filter (fun x => x.1 != n), ok)
  | _, _ => (trk, true)

structure RunSt where
  sys : Sys
  steps : List String   -- reversed
  ok : Bool
  why : String
  trk : List Tracked := []

def RunSt.act (st : RunSt) (a : Action) : RunSt × String :=
  let (sys', rep) := st.sys.exec a
  let fail (w : String) (st : RunSt) : RunSt := if st.ok then { st with ok := false, why := w } else st
  let (trk', ownOk) := ownerStep st.trk a rep sys'
  let st' : RunSt := { st with sys := sys', trk := trk' }
  let st' := if ownOk then st' else fail "C19:model-usage-not-owned-by-current-user" st'
  let st' := if ownedOk sys'.store then st' else fail "C19:model-ready-not-owned" st'
  let st' := if removalOk st.sys a sys' then st' else fail "C19:model-marker-removed-with-other-usage" st'
  let st' := if hookOk st.sys a rep then st' else fail "C19:model-webhook-verdict" st'
  let st' := if sys'.maxc ≤ 1 && !(markerOk sys'.store) then fail "C19:model-ready-usage-unmarked" st' else st'
  let st' := if sys'.maxc ≤ 1 && !(beforeReadyOk st.sys sys') then fail "C19:model-ready-before-marker" st' else st'
  (st', rep.str)

def RunSt.push (p : RunSt × String) : RunSt := { p.1 with steps := p.2 :: p.1.steps }

/-- `run`: start unless in flight, then API calls (all ok) until the reconcile returns -/
def RunSt.runU (st : RunSt) (n : String) : RunSt :=
  let (st, parts, go) :=
    match st.sys.thread? n with
    | some _ => (st, ([] : List String), true)
    | none => let (st', r) := st.act (.start n); (st', [r], r == "started")
  if !go then { st with steps := "|".intercalate parts :: st.steps } else
  let rec loop (fuel : Nat) (st : RunSt) (parts : List String) : RunSt × List String :=
    match fuel with
    | 0 => (st, parts)
    | fuel + 1 =>
      let (st', r) := st.act (.step n .ok none)
      let parts := parts ++ [r]
      match st'.sys.thread? n with
      | some _ => loop fuel st' parts
      | none => (st', parts)
  let (st, parts) := loop 40 st parts
  { st with steps := "|".intercalate parts :: st.steps }

def stepOf (st : RunSt) (j : Json) : RunSt :=
  match str j "op" with
  | "cr" => RunSt.push (st.act (.cr (groupOf (str j "av")) (str j "kind") (str j "name") (labelsOf j "labels") (bool j "inuse") (str j "ctrl")))
  | "cu" =>
    let by_ := if has j "by" then some (rspecOf (obj j "by")) else none
    let reason := if str j "reason" = "" then none else some (str j "reason")
    let of := if has j "of" then rspecOf (obj j "of") else ⟨"", "", "", none⟩
    RunSt.push (st.act (.cu (str j "name") of by_ reason (bool j "composed") (str j "ctrl")))
  | "du" => RunSt.push (st.act (.du (str j "name")))
  | "dr" =>
    let wo := strs j "wo"
    let lo := (wo.getD 0 "ok") == "ok"
    let po := (wo.getD 1 "ok") == "ok"
    RunSt.push (st.act (.dr (groupOf (str j "av")) (str j "kind") (str j "name") (str j "policy") lo po none))
  | "gc" =>
    if str j "kind" == "Usage" && (str j "av" == "" || groupOf (str j "av") == "apiextensions.crossplane.io") then
      RunSt.push (st.act (.gcU (str j "name")))
    else RunSt.push (st.act (.gcR (groupOf (str j "av")) (str j "kind") (str j "name")))
  | "xa" => RunSt.push (st.act (.xa (str j "name") (str j "ctrl")))
  | "start" => RunSt.push (st.act (.start (str j "u")))
  | "step" => RunSt.push (st.act (.step (str j "u") (outcomeOf (str j "o")) none))
  | "run" => st.runU (str j "u")
  | _ => { st with steps := "unknown-op" :: st.steps }

def ownersStr (s : Store) (os : List OwnerRef) : List String :=
  (os.map fun o =>
    let n := match s.res.find? (fun r => r.uid == o.uid) with
      | some r => resKey r.group r.kind r.name
      | none => match s.usages.find? (fun u => u.uid == o.uid) with
        | some u => "Usage/" ++ u.name
        | none => "dead"
    if o.controller then n ++ "!" else n).mergeSort (· ≤ ·)

def handler : Handler := fun scn =>
  let maxc := max 1 (nat scn "maxc")
  let st0 : RunSt := { sys := Sys.init maxc, steps := [], ok := true, why := "" }
  let st := (arr scn "steps").foldl stepOf st0
  let s := st.sys.store
  let us := (s.usages.mergeSort fun a b => a.name ≤ b.name).map fun u =>
    Json.mkObj [("name", .str u.name), ("ofName", .str u.of.name),
      ("byName", .str (match u.by_ with | some b => b.name | none => "")),
      ("fin", .bool u.fin), ("deleting", .bool u.deleting), ("ready", .bool u.ready),
      ("details", .str (u.details.getD "")),
      ("owners", Json.arr ((ownersStr s u.owners).map Json.str).toArray)]
  let rs := (s.res.map fun r => (resKey r.group r.kind r.name, r)).mergeSort (fun a b => a.1 ≤ b.1) |>.map fun (k, r) =>
    Json.mkObj [("key", .str k), ("inUse", .bool r.inUse), ("attempt", .str (r.attempt.getD "")),
      ("owners", Json.arr ((ownersStr s r.owners).map Json.str).toArray)]
  let out := Json.mkObj [
    ("steps", Json.arr (st.steps.reverse.map Json.str).toArray),
    ("usages", Json.arr us.toArray),
    ("res", Json.arr rs.toArray)]
  .ok (out, st.ok, st.why)

end Xp.C19

import Xp.Drv.C01
import Xp.Drv.C09
namespace Xp.C02
open Xp.IOx
/-- C02 scenarios are wrapped: {"site": id, "scn": scenario of that site's model}. -/
def handler : Handler := fun w =>
  match str w "site" with
  | "C01" => Xp.C01.handler (obj w "scn")
  | "C09" => Xp.C09.handler (obj w "scn")
  | s => .error s!"unknown site {s}"
end Xp.C02

import Xp.Drv.C01
import Xp.Drv.C09
import Xp.Drv.C06
import Xp.Drv.C14
import Xp.Drv.C16
import Xp.Drv.C18
import Xp.Drv.C02Crd
import Xp.Drv.C02World
import Xp.Drv.C02Two
import Xp.Drv.C02Unpub
namespace Xp.C02
open Xp.IOx
/-- C02 scenarios are wrapped: {"site": id, "scn": scenario of that site's model}. -/
def handler : Handler := fun w =>
  match str w "site" with
  | "C01" => Xp.C01.handler (obj w "scn")
  | "C09" => Xp.C09.handler (obj w "scn")
  | "C06" => Xp.C06.handler (obj w "scn")
  | "C14" => Xp.C14.handler (obj w "scn")
  | "C16" => Xp.C16.handler (obj w "scn")
  | "C18" => Xp.C18.handler (obj w "scn")
  | "crd" => Xp.C02Crd.handler (obj w "scn")
  | "xwE" => Xp.C02World.handler (obj w "scn")
  | "two" => Xp.C02Two.handler (obj w "scn")
  | "unpub" => Xp.C02Unpub.handler (obj w "scn")
  | s => .error s!"unknown site {s}"
end Xp.C02

import Xp.Base.JsonIO
import Xp.Model.C05
import Xp.Model.C05Fn
import Xp.Model.C05Claim
import Xp.Model.C05Ready
import Xp.Drv.C01
namespace Xp.C05
open Lean (Json)
open Xp.IOx

def condOf (j : Json) : Cond := ⟨str j "type", str j "status", str j "reason"⟩

def condJson (c : Cond) : Json := Json.mkObj [("type", .str c.type), ("status", .str c.status), ("reason", .str c.reason)]

def sortConds (cs : List Cond) : List Cond := cs.mergeSort (fun a b => a.type ≤ b.type)

def claimHandler : Handler := fun scn =>
  let old := (arr scn "old").map condOf
  let xr := (arr scn "xrConds").map condOf
  let out := claimReconcile old xr (strs scn "claimTypes")
  let ready := statusOf out "Ready" == some "True"
  let ok := !ready || statusOf xr "Ready" == some "True"
  .ok (Json.mkObj [("conds", Json.arr ((sortConds out).map condJson).toArray), ("claimTypes", Json.arr #[]), ("wrote", .bool true)],
       ok, if ok then "" else "C05:claim-ready-without-xr-ready")

def ecOf : String → Option EC
  | "generic" => some .generic | "invalid" => some .invalid | "conflict" => some .conflict
  | "notFound" => some .notFound | "alreadyExists" => some .alreadyExists | "forbidden" => some .forbidden
  | "temporary" => some .temporary | "deadline" => some .deadline | _ => none

def phaseOf : String → Option Phase
  | "get" => some .get | "finalizer" => some .finalizer | "select" => some .select | "fetch" => some .fetch
  | "validate" => some .validate | "configure" => some .configure | "compose" => some .compose
  | "publish" => some .publish | _ => none

def resOf (j : Json) : Res := ⟨str j "name", bool j "synced", bool j "ready"⟩
def fnCondOf (j : Json) : FnCond := ⟨condOf j, bool j "claim"⟩
def explicitOf (j : Json) : Option Bool :=
  match str j "explicit" with | "true" => some true | "false" => some false | _ => none

def callOf (j : Json) : Call :=
  { paused := bool j "paused", composed := (arr j "composed").map resOf, explicit := explicitOf j,
    fn := (arr j "fnConds").map fnCondOf,
    fault := match phaseOf (str j "phase"), ecOf (str j "err") with
      | some p, some e => some (p, e) | _, _ => none,
    lost := str j "lost" != "" || str j "disturb" != "" }

def stJson (st : St) (wrote : Bool) : Json := Json.mkObj [
  ("conds", Json.arr ((sortConds st.conds).map condJson).toArray),
  ("claimTypes", Json.arr ((st.claimTypes.mergeSort (· ≤ ·)).map Json.str).toArray),
  ("wrote", .bool wrote)]

/-- model-side verdict of one step: the property predicate on the model's own run -/
def stepOk (old : St) (c : Call) (new : St) : Bool :=
  let ready := statusOf new.conds "Ready" == some "True"
  let synced := statusOf new.conds "Synced" == some "True"
  let clean := !c.lost && !c.paused && c.fault.isNone
  if clean then
    (!ready || c.explicit == some true || (c.explicit == none && c.composed.all (·.ready))) &&
    (!synced || c.composed.all (·.synced))
  else
    (!ready || statusOf old.conds "Ready" == some "True") && (!synced || statusOf old.conds "Synced" == some "True")

def seqHandler : Handler := fun scn =>
  let sts : List St := (arr scn "xrs").map fun j => ⟨(arr j "old").map condOf, []⟩
  let steps : List Step := (arr scn "steps").map fun j => ⟨nat j "xr", callOf j⟩
  let tr := traceSeq sts steps
  let out := Json.mkObj [("steps", Json.arr (tr.map fun (st, w) => stJson (st.getD ⟨[], []⟩) w).toArray)]
  -- verdict: walk the sequence again
  let rec go (sts : List St) : List Step → Bool
    | [] => true
    | s :: ss =>
      let r := stepSeq sts s
      (match sts[s.xr]?, r.1[s.xr]? with
        | some o, some n => stepOk o s.call n
        | _, _ => true) && go r.1 ss
  let ok := go sts steps
  .ok (out, ok, if ok then "" else "C05:overstated")

def readyOf (s : String) : Option Bool := match s with | "true" => some true | "false" => some false | _ => none

def fnStepOf (j : Json) : FnStep :=
  { conds := (arr j "conds").map fun c =>
      (⟨⟨str c "type", (if str c "status" == "Unspecified" then "Unknown" else str c "status"), str c "reason"⟩, bool c "claim"⟩ : FnCond),
    fatal := (strs j "results").contains "fatal", err := bool j "err",
    res := (arr j "res").map fun r => (⟨str r "name", readyOf (str r "ready"), bool r "invalid"⟩ : FnRes),
    xrReady := readyOf (str j "xrReady"), statusConds := (arr j "statusConds").map condOf }

def fnPointOf : String → Option FnPoint
  | "refs" => some .refs | "apply" => some .apply | "statusPatch" => some .statusPatch | _ => none

def fnHandler : Handler := fun scn =>
  let sts : List FnXR := (arr scn "xrs").map fun j => ⟨⟨(arr j "old").map condOf, []⟩, [], [], false⟩
  let recs : List (Nat × FnRec × Option (FnPoint × EC)) := (arr scn "recs").map fun j =>
    (nat j "xr", ⟨(arr j "steps").map fnStepOf, ecOf (str j "publish"), str j "lost" != ""⟩,
     match fnPointOf (str j "fault"), ecOf (str j "faultErr") with
     | some p, some e => some (p, e) | _, _ => none)
  let tr := fnTrace sts recs
  let out := Json.mkObj [("steps", Json.arr (tr.map fun (st, w) => stJson (st.getD ⟨[], []⟩) w).toArray)]
  .ok (out, true, "")

def viewOf (j : Json) : XRView := ⟨(arr j "conds").map condOf, strs j "claimTypes"⟩
def optView (j : Json) (k : String) : Option XRView := if has j k then some (viewOf (obj j k)) else none
def refOf (j : Json) : Ref := ⟨str j "apiVersion", str j "kind", str j "ns", str j "name"⟩

def cpointOf : String → Option CPoint
  | "getClaim" => some .getClaim | "getXR" => some .getXR | "sync" => some .sync
  | "propagate" => some .propagate | "status" => some .status | _ => none

def claimSeqHandler : Handler := fun scn =>
  let claimsJ := arr scn "claims"
  let w : CWorld := {
    claims := claimsJ.map fun j => (arr j "old").map condOf,
    xrs := (arr scn "xrs").map fun j =>
      { present := bool j "present", ref := (if has j "ref" then some (refOf (obj j "ref")) else none),
        view := if bool j "present" then viewOf (obj j "view") else emptyView } }
  let steps : List CStep := (arr scn "steps").map fun j =>
    let ci := nat j "claim"
    let cj := claimsJ.getD ci Json.null
    { claim := ci, xr := nat cj "xr", set := optView j "set",
      call := { ssa := bool scn "ssa", self := ⟨"example.org/v1", "Thing", str cj "ns", str cj "name"⟩,
                paused := bool j "paused", stale := bool j "stale", flip := optView j "flip",
                fault := match cpointOf (str j "point"), ecOf (str j "err") with
                  | some p, some e => some (p, e) | _, _ => none } }
  let tr := ctrace w steps
  let out := Json.mkObj [("steps", Json.arr (tr.map fun (cs, wrote) =>
    Json.mkObj [("conds", Json.arr ((sortConds (cs.getD [])).map condJson).toArray),
                ("claimTypes", Json.arr #[]), ("wrote", .bool wrote)]).toArray)]
  .ok (out, true, "")

def robjOf (oj : Json) : RObj := {
  s := (match optStr oj "s" with | some v => .str v | none => .absent),
  n := (match (oj.getObjValAs? Int "n").toOption with | some v => .int v | none => .absent),
  b := (match optBool oj "b" with | some v => .bool v | none => .absent),
  conds := (arr oj "conds").map condOf }

def rcheckOf (j : Json) : RCheck :=
  ⟨str j "type", str j "path", str j "ms", int j "mi", bool j "hasCond", str j "ct", str j "cs"⟩

def readyHandler : Handler := fun scn =>
  let o := robjOf (obj scn "obj")
  let cs : List RCheck := (arr scn "checks").map rcheckOf
  let r := match isReady o cs with | some true => "true" | some false => "false" | none => "error"
  .ok (Json.mkObj [("result", .str r)], true, "")

def ptPointOf : String → Option PTPoint
  | "refs" => some .refs | "apply" => some .apply | "xrApply" => some .xrApply | _ => none

def ptRecOf (j : Json) : PTRec :=
  { res := (arr j "res").map fun r =>
      (⟨str r "name", bool r "rendered", bool r "invalid", robjOf (obj r "obj"), (arr r "checks").map rcheckOf⟩ : PTRes),
    patch := (if int j "patch" ≥ 0 then
      some ((int j "patch").toNat, (if str j "patchField" == "reason" then CField.reason else CField.status), str j "patchTo") else none),
    fault := (match ptPointOf (str j "fault"), ecOf (str j "faultErr") with
      | some p, some e => some (p, e) | _, _ => none),
    publish := ecOf (str j "publish"), lost := str j "lost" != "" }

def ptHandler : Handler := fun scn =>
  let sts : List St := (arr scn "xrs").map fun j => ⟨(arr j "old").map condOf, []⟩
  let recs : List (Nat × PTRec) := (arr scn "recs").map fun j => (nat j "xr", ptRecOf j)
  let tr := ptTrace sts recs
  let out := Json.mkObj [("steps", Json.arr (tr.map fun (st, w) => stJson (st.getD ⟨[], []⟩) w).toArray)]
  .ok (out, true, "")

def dphaseOf : String → Option DPhase
  | "unpublish" => some .unpublish | "removeFinalizer" => some .removeFinalizer | _ => none

def delHandler : Handler := fun scn =>
  let x : DelXR := ⟨⟨(arr scn "old").map condOf, []⟩, bool scn "fin", bool scn "held"⟩
  let calls : List DelCall := (arr scn "steps").map fun j =>
    { getFails := str j "get" != "", paused := bool j "paused",
      fault := (match dphaseOf (str j "phase"), ecOf (str j "err") with
        | some p, some e => some (p, e) | _, _ => none),
      lost := str j "lost" != "" }
  let tr := delTrace reassertsDeleting (some x) calls
  let out := Json.mkObj [("steps", Json.arr (tr.map fun (st, w) =>
    Json.mkObj [("conds", Json.arr ((sortConds ((st.map (·.conds)).getD [])).map condJson).toArray),
                ("claimTypes", Json.arr #[]), ("wrote", .bool w), ("gone", .bool st.isNone)]).toArray)]
  .ok (out, true, "")

def cdphaseOf : String → Option CDPhase
  | "deleteXR" => some .deleteXR | "unpublish" => some .unpublish | "removeFinalizer" => some .removeFinalizer | _ => none

def cdelHandler : Handler := fun scn =>
  let w : CDelWorld := ⟨(arr scn "old").map condOf, bool scn "fin", bool scn "held", bool scn "xr"⟩
  let calls : List CDelCall := (arr scn "steps").map fun j =>
    { getFails := str j "get" != "", paused := bool j "paused", xrGet := ecOf (str j "xrGet"),
      fault := (match cdphaseOf (str j "phase"), ecOf (str j "err") with
        | some p, some e => some (p, e) | _, _ => none),
      lost := str j "lost" != "" }
  let tr := cdelTrace claimReassertsDeleting (some w) calls
  let out := Json.mkObj [("steps", Json.arr (tr.map fun (cs, wr) =>
    Json.mkObj [("conds", Json.arr ((sortConds (cs.getD [])).map condJson).toArray),
                ("claimTypes", Json.arr #[]), ("wrote", .bool wr), ("gone", .bool cs.isNone)]).toArray)]
  .ok (out, true, "")

def handler : Handler := fun scn =>
  if has scn "mode" then Xp.C01.handler scn else   -- an XR world: the reconcile model of C01
  if str scn "kind" == "claim" then claimHandler scn else
  if str scn "kind" == "seq" then seqHandler scn else
  if str scn "kind" == "fn" then fnHandler scn else
  if str scn "kind" == "ptst" then ptHandler scn else
  if str scn "kind" == "del" then delHandler scn else
  if str scn "kind" == "cdel" then cdelHandler scn else
  if str scn "kind" == "ready" then readyHandler scn else
  if str scn "kind" == "claimseq" then claimSeqHandler scn else
  let old : St := ⟨(arr scn "old").map condOf, []⟩
  let composed := (arr scn "composed").map fun j => (⟨str j "name", bool j "synced", bool j "ready"⟩ : Res)
  let explicit := match str scn "explicit" with | "true" => some true | "false" => some false | _ => none
  let fn := (arr scn "fnConds").map fun j => (⟨condOf j, bool j "claim"⟩ : FnCond)
  let err : Err := match str scn "err" with | "generic" => .generic | "invalid" => .invalid | "conflict" => .conflict | _ => .none
  let r := reconcile old composed explicit fn err
  let st := r.getD old
  let out := Json.mkObj [
    ("conds", Json.arr ((sortConds st.conds).map condJson).toArray),
    ("claimTypes", Json.arr ((st.claimTypes.mergeSort (· ≤ ·)).map Json.str).toArray),
    ("wrote", .bool r.isSome)]
  -- model-side monitor: the property predicate evaluated on the model's own run
  let allReady := composed.all (·.ready)
  let allSynced := composed.all (·.synced)
  let ready := statusOf st.conds "Ready" == some "True"
  let synced := statusOf st.conds "Synced" == some "True"
  let ok := match err with
    | .none => (!ready || explicit == some true || (explicit == none && allReady)) && (!synced || allSynced)
    | _ => (!ready || statusOf old.conds "Ready" == some "True") && (!synced || statusOf old.conds "Synced" == some "True")
  .ok (out, ok, if ok then "" else "C05:overstated")

end Xp.C05

import Xp.Base.JsonIO
import Xp.Model.C05
import Xp.Drv.C01
namespace Xp.C05
open Lean (Json)
open Xp.IOx

def condOf (j : Json) : Cond := ⟨str j "type", str j "status", str j "reason"⟩

def condJson (c : Cond) : Json := Json.mkObj [("type", .str c.type), ("status", .str c.status), ("reason", .str c.reason)]

def sortConds (cs : List Cond) : List Cond := cs.mergeSort (fun a b => a.type ≤ b.type)

def claimHandler : Handler := fun scn =>
  let old := (arr scn "old").map condOf
  let xr := (arr scn "xrConds").map condOf
  let out := claimReconcile old xr (strs scn "claimTypes")
  let ready := statusOf out "Ready" == some "True"
  let ok := !ready || statusOf xr "Ready" == some "True"
  .ok (Json.mkObj [("conds", Json.arr ((sortConds out).map condJson).toArray), ("claimTypes", Json.arr #[]), ("wrote", .bool true)],
       ok, if ok then "" else "C05:claim-ready-without-xr-ready")

def handler : Handler := fun scn =>
  if has scn "mode" then Xp.C01.handler scn else   -- an XR world: the reconcile model of C01
  if str scn "kind" == "claim" then claimHandler scn else
  let old : St := ⟨(arr scn "old").map condOf, []⟩
  let composed := (arr scn "composed").map fun j => (⟨str j "name", bool j "synced", bool j "ready"⟩ : Res)
  let explicit := match str scn "explicit" with | "true" => some true | "false" => some false | _ => none
  let fn := (arr scn "fnConds").map fun j => (⟨condOf j, bool j "claim"⟩ : FnCond)
  let err : Err := match str scn "err" with | "generic" => .generic | "invalid" => .invalid | "conflict" => .conflict | _ => .none
  let r := reconcile old composed explicit fn err
  let st := r.getD old
  let out := Json.mkObj [
    ("conds", Json.arr ((sortConds st.conds).map condJson).toArray),
    ("claimTypes", Json.arr ((st.claimTypes.mergeSort (· ≤ ·)).map Json.str).toArray),
    ("wrote", .bool r.isSome)]
  -- model-side monitor: the property predicate evaluated on the model's own run
  let allReady := composed.all (·.ready)
  let allSynced := composed.all (·.synced)
  let ready := statusOf st.conds "Ready" == some "True"
  let synced := statusOf st.conds "Synced" == some "True"
  let ok := match err with
    | .none => (!ready || explicit == some true || (explicit == none && allReady)) && (!synced || allSynced)
    | _ => (!ready || statusOf old.conds "Ready" == some "True") && (!synced || statusOf old.conds "Synced" == some "True")
  .ok (out, ok, if ok then "" else "C05:overstated")

end Xp.C05

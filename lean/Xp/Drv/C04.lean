import Xp.Base.JsonIO
import Xp.Model.C04
import Xp.Model.C04Conn
import Xp.Model.C04Compose
namespace Xp.C04
open Lean (Json)
open Xp.IOx

/-! The rule DSL of the correspondence harness (harness/main/c04.go c04Eval), interpreted. -/

inductive Cond where
  | always | hasExtra (k : String) | lacksExtra (k : String) | ctxHas (k : String) | ctxLacks (k : String)
  | ctxEq (k v : String) | desiredHas (k : String) | observedHas (k : String)
  | xrConnHas (k : String) | obsConnHas (rname k : String) | credHas (name k : String) | credVal (name v : String)
  | hasInput

inductive Act where
  | add (r : Res) | del (rname : String) | ctx (k v : String) | delctx (k : String)
  | require (k : String) (s : Sel) | result (r : Result) | cond (c : FnCond) | xrReady (b : Bool) | error
  | ttl     -- sets response meta.ttl: Compose never reads it

structure Rule where
  cond : Cond
  acts : List Act

def setKV {β : Type} (l : List (String × β)) (k : String) (v : β) : List (String × β) :=
  if l.any (·.1 == k) then l.map (fun p => if p.1 == k then (k, v) else p) else l ++ [(k, v)]

def holds (c : Cond) (xreq : XRequest) : Bool :=
  let req := xreq.base
  match c with
  | .always => true
  | .hasExtra k => match req.extra.lookup k with | some (some l) => !l.isEmpty | _ => false
  | .lacksExtra k => match req.extra.lookup k with | some (some l) => l.isEmpty | _ => true
  | .ctxHas k => (req.ctx.lookup k).isSome
  | .ctxLacks k => (req.ctx.lookup k).isNone
  | .ctxEq k v => req.ctx.lookup k == some v
  | .desiredHas k => req.desired.any (·.rname == k)
  | .observedHas k => req.observed.any (·.rname == k)
  | .xrConnHas k => (xreq.xrConn.lookup k).isSome
  | .obsConnHas n k => match xreq.obsConn.lookup n with | some d => (d.lookup k).isSome | none => false
  | .credHas n k => match xreq.credData.lookup n with | some d => (d.lookup k).isSome | none => false
  | .credVal n v => match xreq.credData.lookup n with | some d => d.any (·.2 == v) | none => false
  | .hasInput => xreq.hasInput

def applyAct (rsp : Response) : Act → Option Response
  | .add r => some { rsp with desired := (rsp.desired.filter (·.rname != r.rname)) ++ [r] }
  | .del n => some { rsp with desired := rsp.desired.filter (·.rname != n) }
  | .ctx k v => some { rsp with ctx := setKV rsp.ctx k v }
  | .delctx k => some { rsp with ctx := rsp.ctx.filter (·.1 != k) }
  | .require k s => some { rsp with reqs := setKV rsp.reqs k s }
  | .result r => some { rsp with results := rsp.results ++ [r] }
  | .cond c => some { rsp with conds := rsp.conds ++ [c] }
  | .xrReady b => some { rsp with xrReady := some b }
  | .error => none
  | .ttl => some rsp

def evalRules (rules : List Rule) (req : XRequest) : Option Response := do
  let mut rsp : Response := ⟨req.base.desired, req.base.xrReady, req.base.ctx, [], [], []⟩
  for r in rules do
    if holds r.cond req then
      for a in r.acts do
        rsp ← applyAct rsp a
  return { rsp with reqs := rsp.reqs.mergeSort (fun a b => a.1 ≤ b.1) }

def condOf (j : Json) : Cond :=
  let k := str j "k"
  match str j "t" with
  | "hasExtra" => .hasExtra k | "lacksExtra" => .lacksExtra k | "ctxHas" => .ctxHas k | "ctxLacks" => .ctxLacks k
  | "ctxEq" => .ctxEq k (str j "v") | "desiredHas" => .desiredHas k | "observedHas" => .observedHas k
  | "xrConnHas" => .xrConnHas k | "obsConnHas" => .obsConnHas k (str j "v") | "credHas" => .credHas k (str j "v")
  | "credVal" => .credVal k (str j "v") | "hasInput" => .hasInput
  | _ => .always

def kvsOf (j : Json) (k : String) : List (String × String) :=
  ((kvs j k).map fun (a, b) => (a, b.getStr?.toOption.getD "")).mergeSort (fun a b => a.1 ≤ b.1)

def selOf (j : Json) : Sel := ⟨str j "kind", str j "name", kvsOf j "labels"⟩

def sevOf : String → Sev
  | "fatal" => .fatal | "warning" => .warning | "normal" => .normal | _ => .unspecified

def actOf (j : Json) : Act :=
  match str j "t" with
  | "add" => .add ⟨str j "rname", str j "kind", "", nat j "content", bool j "ready"⟩
  | "del" => .del (str j "rname")
  | "ctx" => .ctx (str j "k") (str j "v")
  | "delctx" => .delctx (str j "k")
  | "require" => .require (str j "k") (selOf (obj j "sel"))
  | "result" => .result ⟨sevOf (str j "sev"), str j "msg", bool j "claim"⟩
  | "cond" => .cond ⟨str j "k", str j "status", str j "reason", bool j "claim", str j "msg"⟩
  | "xrReady" => .xrReady (bool j "ready")
  | "ttl" => .ttl
  | _ => .error

def ruleOf (j : Json) : Rule := ⟨condOf (obj j "if"), (arr j "do").map actOf⟩

def resJson (r : Res) : Json := Json.mkObj [("rname", .str r.rname), ("kind", .str r.kind), ("name", .str r.name),
  ("content", .num r.content), ("ready", .bool r.ready)]

def sortRes (l : List Res) : List Res := l.mergeSort (fun a b => a.rname ≤ b.rname)

def kvJson (d : KV) : Json := Json.arr ((d.mergeSort (fun a b => a.1 ≤ b.1)).map fun p => Json.arr #[.str p.1, .str p.2]).toArray

def reqJson (i : Nat) (fn : String) (x : XRequest) : Json :=
  let r := x.base
  Json.mkObj [
  ("step", .num i), ("fn", .str fn),
  ("observed", Json.arr ((sortRes r.observed).map resJson).toArray),
  ("desired", Json.arr ((sortRes r.desired).map resJson).toArray),
  ("ctx", Json.arr ((r.ctx.mergeSort (fun a b => a.1 ≤ b.1)).map fun p => Json.arr #[.str p.1, .str p.2]).toArray),
  ("extra", Json.arr ((r.extra.mergeSort (fun a b => a.1 ≤ b.1)).map fun p => Json.mkObj [
      ("key", .str p.1), ("nil", .bool p.2.isNone),
      ("names", Json.arr (((p.2.getD []).mergeSort (· ≤ ·)).map Json.str).toArray)]).toArray),
  ("input", .str r.input),
  ("hasInput", .bool x.hasInput),
  ("meta", .str x.metaTag),
  ("xrName", .str x.xrName),
  ("xrConn", kvJson x.xrConn),
  ("obsConn", Json.arr ((x.obsConn.mergeSort (fun a b => a.1 ≤ b.1)).map fun p => Json.mkObj [
      ("rname", .str p.1), ("data", kvJson p.2)]).toArray),
  ("creds", Json.arr ((r.creds.mergeSort (fun a b => a.1 ≤ b.1)).map fun p => Json.mkObj [
      ("name", .str p.1), ("keys", Json.arr ((p.2.mergeSort (· ≤ ·)).map Json.str).toArray),
      ("data", kvJson ((x.credData.lookup p.1).getD []))]).toArray)]

open Xp.C04Conn in
def connHandler : Handler := fun scn => do
  let mut conns : Conns := []
  let mut revs : List Rev := []
  let mut fns : List String := []
  let mut steps : Array Json := #[]
  let mut ok := true
  for op in arr scn "ops" do
    let mut target := ""
    let mut err := false
    let mut closed := 0
    let mut got := ""
    match str op "op" with
    | "set" =>
      fns := strs op "fns"
      -- the API server lists revisions sorted by name
      revs := ((arr op "revs").map fun j => (⟨str j "name", str j "fn", bool j "active", str j "endpoint"⟩ : Rev)).mergeSort
        (fun a b => a.name ≤ b.name)
    | "run" =>
      let (t, c') := getConnF (bool op "listFail") revs conns (str op "name")
      conns := c'
      target := t.getD ""
      err := t.isNone
      -- model-side monitor: the target is the endpoint of an active revision of that function
      if let some ep := t then
        if !(revs.any fun r => r.fn == str op "name" && r.active && r.endpoint == ep) then ok := false
    | "call" =>
      -- PackagedFunctionRunner.RunFunction: getClientConn, then the RPC to the connection's target
      let (t, c') := if bool op "listFail" then (none, conns) else runPackaged revs conns (str op "name")
      conns := c'
      got := (t.bind delivered).getD ""
      target := got
      err := got == ""
      if let some ep := t then
        if !(revs.any fun r => r.fn == str op "name" && r.active && r.endpoint == ep) then ok := false
    | _ =>
      let (n, c') := gcF (bool op "listFail") fns conns
      closed := n.getD 0
      err := n.isNone
      conns := c'
    steps := steps.push <| Json.mkObj [("target", .str target), ("err", .bool err), ("closed", .num closed),
      ("got", .str got), ("beta", .bool (servesOnlyBeta got)),
      ("conns", Json.arr ((conns.mergeSort fun a b => a.1 ≤ b.1).map fun p => Json.arr #[.str p.1, .str p.2]).toArray)]
  return (Json.mkObj [("steps", Json.arr steps)], ok, if ok then "" else "C04:sent-to-non-active-endpoint")

def handler : Handler := fun scn => do
  if bool scn "conn" then return ← connHandler scn
  let refs := (arr scn "refs").map fun j => (str j "kind", str j "name")
  let objConn := (arr scn "objConn").map fun j => (str j "obj", str j "secret")
  let objs := (arr scn "objs").map fun j =>
    (⟨str j "kind", str j "name", str j "annot", str j "ctrl", nat j "content", objConn.lookup (str j "name")⟩ : CObj)
  let cluster := (arr scn "cluster").map fun j => (⟨str j "kind", str j "name", kvsOf j "labels"⟩ : ClusterObj)
  -- the value of key k of Secret n is "n:k" (harness/main/c04.go)
  -- a Secret is identified by namespace AND name: key "name" in the default namespace, "ns/name" elsewhere
  let secKey (ns name : String) : String := if ns == "" || ns == "creds" then name else s!"{ns}/{name}"
  let secrets : SecretStore :=
    ⟨(arr scn "secrets").map fun j =>
        let key := secKey (str j "ns") (str j "name")
        (key, ((strs j "keys").mergeSort (· ≤ ·)).map fun k => (k, s!"{key}:{k}")),
     -- an unreadable Secret name is unreadable in every namespace
     (strs scn "failGet").flatMap fun n => [n, secKey "other" n]⟩
  let stepsJ := arr scn "steps"
  let xsteps : List XStep := stepsJ.zipIdx.map fun (j, i) =>
    { name := s!"s{i}", fn := evalRules ((arr j "rules").map ruleOf),
      input := if bool j "badInput" then some none else if str j "input" == "" then none else some (some (str j "input")),
      creds := (arr j "creds").map fun c => ⟨str c "name", str c "src" != "none", if bool c "noRef" then none else some (secKey (str c "ns") (str c "secret"))⟩ }
  let fnNames := stepsJ.map fun j => str j "fn"
  let emptyOut (err : Bool) := Json.mkObj [("reqs", Json.arr #[]), ("err", .bool err), ("events", Json.arr #[]),
      ("conds", Json.arr #[]), ("desired", Json.arr #[]), ("xrReady", .str "unset"), ("writes", .num 0)]
  let w : XWorld := ⟨"xr", if str scn "xrConn" == "" then none else some (str scn "xrConn"), refs, objs, secrets, cluster⟩
  match composeX w xsteps with
  | .observeFailed => return (emptyOut true, true, "")
  | .ran o r =>
    let observed := o.resources.map (·.res)
    let (st, err, surfaced) := match r with
      | .done st => (st, false, true)
      | .failed st fatal => (st, true, fatal)
    let evJson (e : Ev) : Json := match e with
      | .mk t m c d => Json.mkObj [("type", .str t), ("msg", .str m), ("claim", .bool c), ("step", .str d)]
    let condJson (c0 : FnCond) : Json :=
      let c := convCond c0
      Json.mkObj [("type", .str c.type), ("status", .str c.status),
        ("reason", .str c.reason), ("claim", .bool c.claim), ("msg", .str c.message)]
    let undesired := observed.filter fun o => !(st.desired.any (·.rname == o.rname))
    let writes := if err then 0 else 2 * undesired.length + 1 + st.desired.length
    let out := Json.mkObj [
      ("reqs", Json.arr ((xtrace secrets o xsteps st.trace).map fun (i, rq) => reqJson i (fnNames.getD i "") rq).toArray),
      ("err", .bool err),
      ("events", Json.arr (if surfaced then st.events.map evJson else []).toArray),
      ("conds", Json.arr (if surfaced then st.conds.map condJson else []).toArray),
      ("desired", Json.arr (if err then [] else (sortRes st.desired).map fun d => resJson { d with kind := "", name := "", content := 0 }).toArray),
      ("xrReady", .str (if err then "unset" else match st.xrReady with | some true => "true" | some false => "false" | none => "unset")),
      ("writes", .num writes)]
    -- model-side monitor (C03): a failed pipeline implies zero writes; rounds per step bounded
    let perStep := (List.range xsteps.length).map fun i => (st.trace.filter (·.1 == i)).length
    let ok := perStep.all (· ≤ Xp.Gen.maxRequirementsIterations + 1)
    return (out, ok, if ok then "" else "C04:too-many-rounds")

end Xp.C04

import Xp.Base.JsonIO
import Xp.Model.C06
namespace Xp.C06
open Lean (Json)
open Xp.IOx

/-- the fault plan entries of the harness: outcomes, a lost reply, the API error classes (Forbidden, a
transport timeout and a context deadline are errors the code has no branch for: `.other`) -/
def outcomeOf : String → Flt
  | "fail" => .fail | "conflict" => .conflict | "crashBefore" => .crashBefore | "crashAfter" => .crashAfter
  | "lost" => .lost .other
  | "lostNoop" => .cls .other   -- oracle: the lost write changed nothing (no new resourceVersion): as if it never arrived
  | "notFound" => .cls .notFound | "exists" => .cls .exists | "invalid" => .cls .invalid
  | "forbidden" => .cls .other | "timeout" => .cls .other | "deadline" => .cls .other
  | _ => .ok

def errStr : Err → String
  | .notFound => "notFound" | .conflict => "conflict" | .invalid => "invalid" | .exists => "alreadyExists" | .other => "other"

def apiVersion (g v : String) : String := if g == "" then v else g ++ "/" ++ v

/-- canonical text of a spec.resourceRef: apiVersion|kind|name ("" = unset) -/
def xrefStr : Option XRef → String
  | some r => apiVersion r.group r.version ++ "|" ++ r.kind ++ "|" ++ r.name
  | none => ""

/-- canonical text of a spec.claimRef: apiVersion|kind|namespace|name[+uid] ("" = unset) -/
def crefStr (r : Option CRef) (uid : Bool) : String :=
  match r with
  | some r => apiVersion r.group r.version ++ "|" ++ r.kind ++ "|" ++ r.ns ++ "|" ++ r.name ++ (if uid then "+uid" else "")
  | none => ""

/-- the claim labels of an XR as "namespace/name" ("" = none) -/
def lblStr : Option (String × String) → String
  | some (n, ns) => ns ++ "/" ++ n
  | none => ""

def xrefOf (j : Json) : Option XRef :=
  if str j "name" == "" then none else some ⟨str j "name", str j "group", str j "version", str j "kind"⟩

def crefOf (j : Json) : Option CRef :=
  if str j "name" == "" then none else some ⟨str j "name", str j "ns", str j "group", str j "version", str j "kind"⟩

/-- the claim the harness reconciles, and the GroupKind of its XRs -/
def meRef : CRef := ⟨"c", "ns", "example.org", "v1", "Thing"⟩

def xrtOf (ver : String) : GVK := ⟨"example.org", if ver == "" then "v1" else ver, "XThing"⟩

def envOf (j : Json) : EnvAct :=
  match str j "act" with
  | "xrTouch" => .xrTouch (str j "name") (nat j "id")
  | "xrRemove" => .xrRemove (str j "name")
  | "xrDelete" => .xrDelete (str j "name")
  | "xrCreate" => .xrCreate (str j "name") (crefOf (obj j "ref")) (bool (obj j "ref") "uid")
  | "xrBind" =>
    match crefOf (obj j "ref") with
    | some r => .xrBind (str j "name") r (bool (obj j "ref") "uid")
    | none => .xrTouch "" 0   -- (not generated) no such XR: a no-op
  | "claimDelete" => .claimDelete
  | "claimRetype" => .claimRetype ⟨str j "g", str j "v", str j "k"⟩
  | _ => .claimTouch

def isClaimAct (j : Json) : Bool := (str j "act").startsWith "claim"

/-- the slot of `St.others` that holds claim `t` while claim `w` is under reconciliation (0 = the main
claim, i = peer i-1): claim `w` is the current one and the main claim sits in `w`'s slot -/
def slotOf (w t : Nat) : Nat := if t == 0 then w - 1 else t - 1

/-- an environment action of the scenario as seen while claim `w` is reconciled -/
def envFor (w : Nat) (j : Json) : EnvAct :=
  let t := nat j "who"
  if isClaimAct j && t != w then .other (slotOf w t) (envOf j) else envOf j

/-- (verb, obj, name, sub, patch type) of a request, as the harness logs it -/
def reqDesc (me : String) : Req → String × String × String × String × String
  | .getClaim _ => ("get", "claim", me, "", "")
  | .getXR n _ => ("get", "xr", n, "", "")
  | .updClaim _ => ("update", "claim", me, "", "")
  | .updClaimStatus _ => ("update", "claim", me, "status", "")
  | .upgradeXR n _ _ => ("patch", "xr", n, "", "json")
  | .deleteXR n _ => ("delete", "xr", n, "", "")
  | .createXR n _ _ => ("create", "xr", n, "", "")
  | .patchXR n _ _ => ("patch", "xr", n, "", "merge")
  | .applyXR n _ => ("patch", "xr", n, "", "apply")

/-- which of Upgrade's two JSON patches a request is ("" for every other request) -/
def reqOp : Req → String
  | .upgradeXR _ _ .clear => "clear"
  | .upgradeXR _ _ (.removeAt i) => "remove:" ++ toString i
  | _ => ""

/-- `ostr` = the fault plan entry of the scenario for this call ("ok" if none) -/
def callJson (me : String) (ostr : String) (c : CallRec) : Json :=
  let (verb, obj, name, sub, pt) := reqDesc me c.req
  let isErr := match c.resp with | some (.err _) => true | _ => false
  let err := match c.outcome with
    | .ok => (match c.resp with | some (.err e) => errStr e | _ => "")
    | .crashBefore | .crashAfter => "crashed"
    | f => errStr (fltErr f c.req)
  let took := match c.outcome with | .ok | .crashAfter | .lost _ => true | _ => false
  let applied := c.req.isWrite && !isErr && took
  Json.mkObj [("verb", .str verb), ("obj", .str obj), ("name", .str name), ("sub", .str sub), ("pt", .str pt),
    ("op", .str (reqOp c.req)),
    ("outcome", .str ostr), ("err", .str err), ("applied", .bool applied)]

def claimJson (s : St) : Json :=
  match s.claim with
  | some c => Json.mkObj [("exists", .bool true), ("ref", .str (xrefStr c.ref)), ("fin", .bool c.fin), ("deleting", .bool c.deleting)]
  | none => Json.mkObj [("exists", .bool false), ("ref", .str ""), ("fin", .bool false), ("deleting", .bool false)]

/-- managed fields are compared in the server-side wiring only (the client-side one has the Nop upgrader and
never reads them; whether a client-side merge patch that changes nothing records its manager is not modelled) -/
def mfObs (ssa : Bool) (x : XR) : List String := if ssa then x.mf else []

def xrsJson (ssa : Bool) (s : St) (names : List Name) : Json :=
  Json.arr (names.filterMap fun n => (s.xrs n).map fun x =>
    Json.mkObj [("name", .str n), ("ref", .str (crefStr x.cref x.crefUid)), ("lbl", .str (lblStr x.lbl)), ("fin", .bool x.fin),
      ("deleting", .bool x.deleting), ("status", .bool x.status), ("mf", Json.arr ((mfObs ssa x).map Json.str).toArray)]).toArray

def dedupSorted (l : List String) : List String :=
  (l.mergeSort (· ≤ ·)).eraseDups

/-- model-side monitor: the clauses of the property on the model's own state, from the viewpoint of
the claim that is current in `s`. In a world with other claims' controllers (`s.peers`) only the writes
that carry a resourceVersion are claimed never to hit a foreign-bound XR (`no_hijack_guarded`). -/
def propOk (s : St) (names : List Name) (initRefs : List Name) : Bool × String :=
  let bound := names.filter fun n => match s.xrs n with | some x => x.cref == some s.me | none => false
  let hijack := s.trace.any fun e => match e with
    | .xrWrite _ (some r) => !s.peers && r != s.me
    | .xrWriteG _ (some r) => r != s.me
    | _ => false
  -- trace is newest first: every create must have an older ack (or an initial ref)
  let rec before : List Ev → Bool
    | [] => true
    | .create n :: t => (t.contains (.ack n) || initRefs.contains n) && before t
    | _ :: t => before t
  let refd := match s.claim with
    | some c => bound.all fun n => c.refName == some n
    | none => true
  if bound.length > 1 then (false, "C06:second-xr")
  else if hijack then (false, "C06:hijack")
  else if !before s.trace then (false, "C06:create-before-ref")
  else if !refd then (false, "C06:bound-not-referenced")
  else (true, "")

def claimOf (me : CRef) (cj : Json) : Claim := ⟨1, me, xrefOf (obj cj "ref"), bool cj "fin", bool cj "deleting", bool cj "foreground"⟩

def handler : Handler := fun scn =>
  let cj := obj scn "claim"
  let claim0 := claimOf meRef cj
  let peerJs := arr scn "peers"
  let sides : List Side := peerJs.map fun pj =>
    let me : CRef := ⟨str pj "name", str pj "ns", meRef.group, meRef.version, meRef.kind⟩
    let c := claimOf me (obj pj "claim")
    ⟨me, some c, [c], []⟩
  let refsOf (c : Option Claim) : List Name := match c.bind (·.refName) with | some n => [n] | none => []
  -- initial reference names per claim (index = who)
  let initRefs : List (List Name) := refsOf (some claim0) :: sides.map fun d => refsOf d.claim
  let xrs0 := (arr scn "xrs").map fun j =>
    let r := crefOf (obj j "ref")
    let lbl : Option (String × String) :=
      if bool j "labeled" then some (meRef.name, meRef.ns)
      else match r with
        | some r => if r.name != meRef.name || r.ns != meRef.ns then some (r.name, r.ns) else none
        | none => none
    (str j "name", (⟨2, r, bool (obj j "ref") "uid", lbl, bool j "fin", bool j "deleting", bool j "status", 0, strs j "mgrs"⟩ : XR))
  let s0 : St := { me := meRef, claim := some claim0, hist := [claim0], xrs := fun n => xrs0.lookup n, xhist := fun n => [xrs0.lookup n],
                   nextRv := 10, trace := [], peers := !sides.isEmpty, others := sides }
  let recs := arr scn "recs"
  let names := dedupSorted (xrs0.map (·.1) ++ strs scn "cands" ++ (recs.flatMap fun r => strs r "names") ++
    (recs.flatMap fun r => (arr r "env").map fun e => str e "name").filter (· != "") ++ initRefs.flatten)
  let ssa := str scn "syncer" == "ssa"
  let step (acc : St × List Json × Option String) (rj : Json) : St × List Json × Option String :=
    let (s, outs, bad) := acc
    let w := if nat rj "who" ≤ sides.length then nat rj "who" else 0
    -- the claim under reconciliation becomes the current one
    let s := if w == 0 then s else swap s (w - 1)
    let meStr := s.me.ns ++ "/" ++ s.me.name
    let envs := ((arr rj "env").filter fun e => str e "act" != "claimCreate").map fun e => (int e "after", envFor w e)
    let envAt (k : Nat) : List EnvAct := (envs.filter fun p => p.1 == (k : Int)).map (·.2)
    -- scripted actions before the reconcile starts; `claimCreate` (a second incarnation of the claim) is not an
    -- `EnvAct`: it is outside the environment of the theorems (`recreateClaim`)
    let s := ((arr rj "env").filter fun e => int e "after" < 0).foldl
      (fun s e => if str e "act" == "claimCreate" then recreateClaim s else applyEnv s (envFor w e)) s
    let faults := (arr rj "faults").map fun f => (nat f "k", str f "o")
    -- the first fault listed for an index wins on the Go side only if it is the last map write; the harness
    -- builds a map, so the last one wins
    let ostrAt (k : Nat) : String := (faults.reverse.lookup k).getD "ok"
    let plan : Nat → Flt := fun k => outcomeOf (ostrAt k)
    let rd := obj rj "read"
    let want : String × Bool × Bool := (str rd "ref", bool rd "fin", bool rd "deleting")
    let isWant (c : Claim) : Bool := (xrefStr c.ref, c.fin, c.deleting) == want
    let (pick, bad) : Option Nat × Option String :=
      if bool rd "found" && bool rd "stale" then
        -- a claim that is gone: its last stored version is a version the cache may serve, too
        let skip := if s.claim.isSome then 1 else 0
        match (s.hist.drop skip).findIdx? isWant with
        | some i => (some (i + skip), bad)
        | none => (none, bad.or (some "the cache served a stale claim version the model's history does not contain"))
      else (none, bad)
    -- XR reads in order of occurrence: with a reference, the Get of Reconcile (site 0) and the Get of the
    -- client-side Apply (site 1); without, the availability Gets of the drawn names (sites 2..), then site 1
    let nNames := (strs rj "names").length
    let siteOf (occ : Nat) : Nat :=
      if bool rd "found" && str rd "ref" != "" then occ
      else if occ < nNames then 2 + occ else 1
    let xsel : List (Nat × (List (Option XR) → Option (Option XR))) := ((arr rj "xreads").zipIdx.filterMap fun (xj, occ) =>
      if bool xj "stale" then
        let p : Option XR → Bool :=
          if bool xj "found" then
            let want := (str xj "ref", str xj "lbl", bool xj "fin", bool xj "deleting", bool xj "status", nat xj "gen", strs xj "mf")
            fun ox => match ox with
              | some x => (crefStr x.cref x.crefUid, lblStr x.lbl, x.fin, x.deleting, x.status, x.gen, mfObs ssa x) == want
              | none => false
          else fun ox => ox.isNone
        -- the older state with that content in the right incarnation of the name (exactly `absAfter`
        -- absences lie between it and the stored state), skipping the `dupAfter` newer states of that
        -- incarnation that have the same content
        let k := nat xj "absAfter"
        let d := nat xj "dupAfter"
        let rec go : List (Option XR) → Nat → Nat → Option (Option XR)
          | [], _, _ => none
          | e :: rest, cnt, dup =>
            if p e && cnt == k then (if dup == d then some e else go rest cnt (dup + 1))
            else go rest (cnt + (if e.isNone then 1 else 0)) dup
        some (siteOf occ, fun older => go older 0 0)
      else none)
    let cfg : Cfg := { ssa := ssa, xrt := xrtOf (str rj "xrv"), pick := pick, xpick := fun site => xsel.lookup site, cands := strs rj "names" }
    let (s', calls, res) := runRec plan envAt 0 (reconcile cfg) s
    let resStr := match res with | some .ok => "ok" | some .requeue => "requeue" | some .err => "err" | none => "crashed"
    let o := Json.mkObj [("calls", Json.arr (calls.zipIdx.map fun (c, k) => callJson meStr (ostrAt k) c).toArray), ("res", .str resStr),
      ("claim", claimJson s'), ("xrs", xrsJson ssa s' names)]
    let s' := if w == 0 then s' else swap s' (w - 1)
    (s', outs ++ [o], bad)
  let (sf, outs, bad) := recs.foldl step (s0, [], none)
  -- a scenario in which the claim is created again under its name is outside the environment of the theorems
  -- (two incarnations): the model-side verdict is not evaluated there (correspondence + direct monitors remain)
  let recreated := recs.any fun r => (arr r "env").any fun e => str e "act" == "claimCreate"
  match bad with
  | some b => .ok (Json.mkObj [("bad", .str b)], true, "")
  | none =>
    if recreated then .ok (Json.mkObj [("recs", Json.arr outs.toArray)], true, "") else
    -- the property from every claim's viewpoint
    let views : List (St × List Name) := (sf, initRefs.headD []) ::
      (List.range sides.length).map fun j => (swap sf j, (initRefs.drop (j + 1)).headD [])
    let verdict := views.foldl (fun (acc : Bool × String) v => if acc.1 then propOk v.1 names v.2 else acc) (true, "")
    .ok (Json.mkObj [("recs", Json.arr outs.toArray)], verdict.1, verdict.2)

end Xp.C06

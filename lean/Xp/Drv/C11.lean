import Xp.Base.JsonIO
import Xp.Model.C11
/-
C11 driver: scenario JSON -> model run -> canonical observation (same shape as
harness/main/c11.go prints). Only parsing and printing live here.
-/
namespace Xp.C11
open Lean (Json)
open Xp.IOx

/-- the JSONSchemaProps keys that have a field in XSchema (same set as dump_xcrd.go: xschemaKnown) -/
def knownKeys : List String :=
  ["type", "description", "properties", "required", "x-kubernetes-validations", "oneOf",
   "x-kubernetes-preserve-unknown-fields", "maxLength", "default"]

instance : Inhabited Schema := ⟨{}⟩

partial def schemaOfJson (j : Json) : Schema :=
  match j with
  | .obj o =>
    let kv := o.toList
    { type := str j "type"
      description := str j "description"
      props := (kvs j "properties").map fun (k, v) => (k, schemaOfJson v)
      required := strs j "required"
      xValidations := (arr j "x-kubernetes-validations").map (·.compress)
      oneOf := (arr j "oneOf").map (·.compress)
      preserveUnknown := optBool j "x-kubernetes-preserve-unknown-fields"
      maxLength := (j.getObjValAs? Int "maxLength").toOption
      default := match j.getObjVal? "default" with | .ok v => some v.compress | _ => none
      rest := (kv.filter fun (k, _) => !knownKeys.contains k).map fun (k, v) => (k, v.compress) }
  | _ => {}

def rawJson (s : String) : Json := (Json.parse s).toOption.getD (.str ("unparsable:" ++ s))

/-- mirrors the `omitempty` tags of extv1.JSONSchemaProps -/
partial def schemaToJson (s : Schema) : Json :=
  Json.mkObj (
    (if s.type = "" then [] else [("type", Json.str s.type)]) ++
    (if s.description = "" then [] else [("description", Json.str s.description)]) ++
    (if s.props.isEmpty then [] else [("properties", Json.mkObj (s.props.map fun (k, v) => (k, schemaToJson v)))]) ++
    (if s.required.isEmpty then [] else [("required", Json.arr (s.required.map Json.str).toArray)]) ++
    (if s.xValidations.isEmpty then [] else [("x-kubernetes-validations", Json.arr (s.xValidations.map rawJson).toArray)]) ++
    (if s.oneOf.isEmpty then [] else [("oneOf", Json.arr (s.oneOf.map rawJson).toArray)]) ++
    (match s.preserveUnknown with | some b => [("x-kubernetes-preserve-unknown-fields", Json.bool b)] | none => []) ++
    (match s.maxLength with | some n => [("maxLength", Json.num (Lean.JsonNumber.fromInt n))] | none => []) ++
    (match s.default with | some d => [("default", rawJson d)] | none => []) ++
    s.rest.map fun (k, v) => (k, rawJson v))

def namesOf (j : Json) : Names :=
  { kind := str j "kind", plural := str j "plural", singular := str j "singular", listKind := str j "listKind",
    shortNames := strs j "shortNames", categories := strs j "categories" }

def strMap (j : Json) (k : String) : List (String × String) :=
  (kvs j k).filterMap fun (a, v) => v.getStr?.toOption.map fun s => (a, s)

def convOf (j : Json) : Option Conversion :=
  match j.getObjVal? "conversion" with
  | .ok (.obj o) =>
    let c := Json.obj o
    some { strategy := str c "strategy", hasWebhook := has c "webhook", hasClientConfig := has (obj c "webhook") "clientConfig",
           raw := c.compress }
  | _ => none

def versionOf (j : Json) : Version :=
  let sj := obj j "schema"
  { name := str j "name", served := bool j "served", referenceable := bool j "referenceable",
    deprecated := optBool j "deprecated", deprecationWarning := optStr j "deprecationWarning",
    columns := (arr j "columns").map (·.compress),
    schema := match str sj "state" with
      | "ok" => .ok (schemaOfJson (obj sj "parsed"))
      | "absent" => .absent
      | _ => .bad }

def xrdOf (j : Json) : Xrd :=
  { name := str j "name", uid := str j "uid", labels := strMap j "labels",
    metaLabels := if bool j "hasMeta" then strMap j "metaLabels" else [],
    metaAnnotations := if bool j "hasMeta" then strMap j "metaAnnotations" else [],
    group := str j "group", names := namesOf (obj j "names"),
    claimNames := if has j "claimNames" then some (namesOf (obj j "claimNames")) else none,
    versions := (arr j "versions").map versionOf,
    conversion := convOf j,
    defaultCompositionUpdatePolicy := optStr j "defCUP",
    defaultCompositeDeletePolicy := optStr j "defCDP" }

def errStr : Err → String
  | .parseSchema => "parseSchema"
  | .nilValidation => "nilValidation"
  | .missingClaimNames => "missingClaimNames"
  | .conflictingClaimName n => "conflictingClaimName:" ++ n

def strMapJson (m : List (String × String)) : Json := Json.mkObj (m.map fun (k, v) => (k, Json.str v))
def strsJson (l : List String) : Json := Json.arr (l.map Json.str).toArray

def crdJson (c : Crd) : Json :=
  Json.mkObj [
    ("name", .str c.name), ("labels", strMapJson c.labels), ("annotations", strMapJson c.annotations),
    ("owners", Json.arr (c.owners.map fun o => Json.mkObj [
        ("apiVersion", .str o.apiVersion), ("kind", .str o.kind), ("name", .str o.name), ("uid", .str o.uid),
        ("controller", .bool o.controller), ("blockOwnerDeletion", .bool o.blockOwnerDeletion)]).toArray),
    ("scope", .str c.scope), ("group", .str c.group),
    ("names", Json.mkObj [("kind", .str c.names.kind), ("plural", .str c.names.plural), ("singular", .str c.names.singular),
        ("listKind", .str c.names.listKind), ("shortNames", strsJson c.names.shortNames), ("categories", strsJson c.names.categories)]),
    ("versions", Json.arr (c.versions.map fun v => Json.mkObj [
        ("name", .str v.name), ("served", .bool v.served), ("storage", .bool v.storage), ("deprecated", .bool v.deprecated),
        ("deprecationWarning", match v.deprecationWarning with | some w => .str w | none => .null),
        ("columns", Json.arr (v.columns.map rawJson).toArray),
        ("schema", schemaToJson v.schema),
        ("subresources", Json.mkObj ((if v.statusSubresource then [("status", Json.mkObj [])] else []) ++
                                      (if v.scaleSubresource then [("scale", Json.mkObj [])] else [])))]).toArray),
    ("conversion", match c.conversion with | some cv => rawJson cv.raw | none => .null)]

def crdObs (r : Except Err Crd) : Json :=
  match r with
  | .ok c => Json.mkObj [("err", .str ""), ("crd", crdJson c)]
  | .error e => Json.mkObj [("err", .str (errStr e)), ("crd", .null)]

def admissionStr : Admission → String
  | .allowed => "allowed"
  | .invalid _ => "invalid"
  | .crdError w e => "crdError:" ++ w ++ ":" ++ errStr e
  | .rejectedByServer w => "rejected:" ++ w

/-! model-side monitor: the property predicates evaluated on the model's own run -/

def specOf (v : CrdVersion) : Schema := prop v.schema "spec"
def statusOf (v : CrdVersion) : Schema := prop v.schema "status"

def sameKeys (a b : List String) : Bool := a.all b.contains && b.all a.contains

def checkCrd (xrd : Xrd) (c : Crd) (mach : List (String × Schema)) (scope : String) : Option String :=
  if c.scope != scope then some "C11:scope" else
  if c.owners.length != 1 || !(c.owners.all fun o => o.controller && o.uid == xrd.uid && o.name == xrd.name) then some "C11:controller-ref" else
  if c.versions.map (·.name) != xrd.versions.map (·.name) then some "C11:version-lost" else
  if c.versions.map (·.storage) != xrd.versions.map (·.referenceable) then some "C11:storage-not-referenceable" else
  if !(c.versions.all (·.statusSubresource)) then some "C11:no-status-subresource" else
  if !(c.versions.all fun v => (keys mach).all fun k => (lookup k (specOf v).props).isSome) then some "C11:machinery-missing" else
  if !(c.versions.all fun v => (keys Xp.Gen.xcrdStatusProps).all fun k => (lookup k (statusOf v).props).isSome) then some "C11:machinery-missing" else
  none

def handler : Handler := fun scn =>
  let xrd := xrdOf (obj scn "xrd")
  let old : Option Xrd := if has scn "old" then some (xrdOf (obj scn "old")) else none
  let srv := obj scn "server"
  let server : Crd → Bool := fun c => if c.scope == "Cluster" then !(bool srv "rejectXR") else !(bool srv "rejectClaim")
  let xr := forXR xrd
  let claim := forClaim xrd
  let upd := old.map fun o => validateUpdate xrd o
  let out := Json.mkObj [
    ("xr", crdObs xr),
    ("claim", crdObs claim),
    ("validate", strsJson (validate xrd)),
    ("update", match upd with | some l => strsJson l | none => .null),
    ("admitCreate", .str (admissionStr (admissionCreate xrd server))),
    ("admitUpdate", .str (match old with | some o => admissionStr (admissionUpdate xrd o server) | none => ""))]
  let bad : Option String :=
    (match xr with | .ok c => checkCrd xrd c (xrSpecMachinery xrd) "Cluster" | _ => none) <|>
    (match claim with | .ok c => checkCrd xrd c (claimSpecMachinery xrd) "Namespaced" | _ => none)
  .ok (out, bad.isNone, bad.getD "")

end Xp.C11

import Xp.Base.JsonIO
import Xp.Model.C11
import Xp.Model.C11Hook
/-
C11 driver: scenario JSON -> model run -> canonical observation (same shape as
harness/main/c11.go prints). Only parsing and printing live here.
-/
namespace Xp.C11
open Lean (Json)
open Xp.IOx

/-- the JSONSchemaProps keys that have a field in XSchema (same set as dump_xcrd.go: xschemaKnown) -/
def knownKeys : List String :=
  ["type", "description", "properties", "required", "x-kubernetes-validations", "oneOf",
   "x-kubernetes-preserve-unknown-fields", "maxLength", "default"]

instance : Inhabited Schema := ⟨{}⟩

partial def schemaOfJson (j : Json) : Schema :=
  match j with
  | .obj o =>
    let kv := o.toList
    { type := str j "type"
      description := str j "description"
      props := (kvs j "properties").map fun (k, v) => (k, schemaOfJson v)
      required := strs j "required"
      xValidations := (arr j "x-kubernetes-validations").map (·.compress)
      oneOf := (arr j "oneOf").map (·.compress)
      preserveUnknown := optBool j "x-kubernetes-preserve-unknown-fields"
      maxLength := (j.getObjValAs? Int "maxLength").toOption
      default := match j.getObjVal? "default" with | .ok v => some v.compress | _ => none
      rest := (kv.filter fun (k, _) => !knownKeys.contains k).map fun (k, v) => (k, v.compress) }
  | _ => {}

def rawJson (s : String) : Json := (Json.parse s).toOption.getD (.str ("unparsable:" ++ s))

/-- mirrors the `omitempty` tags of extv1.JSONSchemaProps -/
partial def schemaToJson (s : Schema) : Json :=
  Json.mkObj (
    (if s.type = "" then [] else [("type", Json.str s.type)]) ++
    (if s.description = "" then [] else [("description", Json.str s.description)]) ++
    (if s.props.isEmpty then [] else [("properties", Json.mkObj (s.props.map fun (k, v) => (k, schemaToJson v)))]) ++
    (if s.required.isEmpty then [] else [("required", Json.arr (s.required.map Json.str).toArray)]) ++
    (if s.xValidations.isEmpty then [] else [("x-kubernetes-validations", Json.arr (s.xValidations.map rawJson).toArray)]) ++
    (if s.oneOf.isEmpty then [] else [("oneOf", Json.arr (s.oneOf.map rawJson).toArray)]) ++
    (match s.preserveUnknown with | some b => [("x-kubernetes-preserve-unknown-fields", Json.bool b)] | none => []) ++
    (match s.maxLength with | some n => [("maxLength", Json.num (Lean.JsonNumber.fromInt n))] | none => []) ++
    (match s.default with | some d => [("default", rawJson d)] | none => []) ++
    s.rest.map fun (k, v) => (k, rawJson v))

def namesOf (j : Json) : Names :=
  { kind := str j "kind", plural := str j "plural", singular := str j "singular", listKind := str j "listKind",
    shortNames := strs j "shortNames", categories := strs j "categories" }

def strMap (j : Json) (k : String) : List (String × String) :=
  (kvs j k).filterMap fun (a, v) => v.getStr?.toOption.map fun s => (a, s)

def convOf (j : Json) : Option Conversion :=
  match j.getObjVal? "conversion" with
  | .ok (.obj o) =>
    let c := Json.obj o
    some { strategy := str c "strategy", hasWebhook := has c "webhook", hasClientConfig := has (obj c "webhook") "clientConfig",
           raw := c.compress }
  | _ => none

def versionOf (j : Json) : Version :=
  let sj := obj j "schema"
  { name := str j "name", served := bool j "served", referenceable := bool j "referenceable",
    deprecated := optBool j "deprecated", deprecationWarning := optStr j "deprecationWarning",
    columns := (arr j "columns").map (·.compress),
    schema := match str sj "state" with
      | "ok" => .ok (schemaOfJson (obj sj "parsed"))
      | "absent" => .absent
      | _ => .bad }

def xrdOf (j : Json) : Xrd :=
  { name := str j "name", uid := str j "uid", labels := strMap j "labels",
    metaLabels := if bool j "hasMeta" then strMap j "metaLabels" else [],
    metaAnnotations := if bool j "hasMeta" then strMap j "metaAnnotations" else [],
    group := str j "group", names := namesOf (obj j "names"),
    claimNames := if has j "claimNames" then some (namesOf (obj j "claimNames")) else none,
    versions := (arr j "versions").map versionOf,
    conversion := convOf j,
    defaultCompositionUpdatePolicy := optStr j "defCUP",
    defaultCompositeDeletePolicy := optStr j "defCDP" }

def errStr : Err → String
  | .parseSchema => "parseSchema"
  | .nilValidation => "nilValidation"
  | .missingClaimNames => "missingClaimNames"
  | .conflictingClaimName n => "conflictingClaimName:" ++ n

def strMapJson (m : List (String × String)) : Json := Json.mkObj (m.map fun (k, v) => (k, Json.str v))
def strsJson (l : List String) : Json := Json.arr (l.map Json.str).toArray

def crdJson (c : Crd) : Json :=
  Json.mkObj [
    ("name", .str c.name), ("labels", strMapJson c.labels), ("annotations", strMapJson c.annotations),
    ("owners", Json.arr (c.owners.map fun o => Json.mkObj [
        ("apiVersion", .str o.apiVersion), ("kind", .str o.kind), ("name", .str o.name), ("uid", .str o.uid),
        ("controller", .bool o.controller), ("blockOwnerDeletion", .bool o.blockOwnerDeletion)]).toArray),
    ("scope", .str c.scope), ("group", .str c.group),
    ("names", Json.mkObj [("kind", .str c.names.kind), ("plural", .str c.names.plural), ("singular", .str c.names.singular),
        ("listKind", .str c.names.listKind), ("shortNames", strsJson c.names.shortNames), ("categories", strsJson c.names.categories)]),
    ("versions", Json.arr (c.versions.map fun v => Json.mkObj [
        ("name", .str v.name), ("served", .bool v.served), ("storage", .bool v.storage), ("deprecated", .bool v.deprecated),
        ("deprecationWarning", match v.deprecationWarning with | some w => .str w | none => .null),
        ("columns", Json.arr (v.columns.map rawJson).toArray),
        ("schema", schemaToJson v.schema),
        ("subresources", Json.mkObj ((if v.statusSubresource then [("status", Json.mkObj [])] else []) ++
                                      (if v.scaleSubresource then [("scale", Json.mkObj [])] else [])))]).toArray),
    ("conversion", match c.conversion with | some cv => rawJson cv.raw | none => .null)]

def crdObs (r : Except Err Crd) : Json :=
  match r with
  | .ok c => Json.mkObj [("err", .str ""), ("crd", crdJson c)]
  | .error e => Json.mkObj [("err", .str (errStr e)), ("crd", .null)]

def admissionStr : Admission → String
  | .allowed => "allowed"
  | .invalid _ => "invalid"
  | .crdError w e => "crdError:" ++ w ++ ":" ++ errStr e
  | .rejectedByServer w => "rejected:" ++ w

/-! model-side monitor: the property predicates evaluated on the model's own run -/

def specOf (v : CrdVersion) : Schema := prop v.schema "spec"
def statusOf (v : CrdVersion) : Schema := prop v.schema "status"

def sameKeys (a b : List String) : Bool := a.all b.contains && b.all a.contains

def checkCrd (xrd : Xrd) (c : Crd) (mach : List (String × Schema)) (scope : String) : Option String :=
  if c.scope != scope then some "C11:scope" else
  if c.owners.length != 1 || !(c.owners.all fun o => o.controller && o.uid == xrd.uid && o.name == xrd.name) then some "C11:controller-ref" else
  if c.versions.map (·.name) != xrd.versions.map (·.name) then some "C11:version-lost" else
  if c.versions.map (·.storage) != xrd.versions.map (·.referenceable) then some "C11:storage-not-referenceable" else
  if !(c.versions.all (·.statusSubresource)) then some "C11:no-status-subresource" else
  if !(c.versions.all fun v => (keys mach).all fun k => (lookup k (specOf v).props).isSome) then some "C11:machinery-missing" else
  if !(c.versions.all fun v => (keys Xp.Gen.xcrdStatusProps).all fun k => (lookup k (statusOf v).props).isSome) then some "C11:machinery-missing" else
  none

/-! the world of an admission request (Model/C11Hook) -/

def classOf : String → ErrClass
  | "notFound" => .notFound
  | "alreadyExists" => .alreadyExists
  | "conflict" => .conflict
  | "invalid" => .invalid
  | "forbidden" => .forbidden
  | "timeout" => .timeout
  | "bare" => .bare
  | "transport" => .transport
  | "deadline" => .deadline
  | _ => .internal

def classStr : ErrClass → String
  | .notFound => "notFound"
  | .alreadyExists => "alreadyExists"
  | .conflict => "conflict"
  | .invalid => "invalid"
  | .forbidden => "forbidden"
  | .timeout => "timeout"
  | .internal => "internal"
  | .bare => "bare"
  | .transport => "transport"
  | .deadline => "deadline"

def actOf (j : Json) : Option (Nat × Act) :=
  let k := nat j "k"
  let n := str j "name"
  match str j "do" with
  | "bump" => some (k, .bump n)
  | "delete" => some (k, .delete n)
  | "create" => some (k, .create n)
  | "sync" => some (k, .sync n)
  | "err" => some (k, .err (classOf (str j "class")))
  | _ => none

/-- the API server's validation of a CRD: by scope and by a property name it refuses under spec -/
def acceptOf (srv : Json) : Crd → Bool := fun c =>
  let p := str srv "rejectProp"
  !((bool srv "rejectXR" && c.scope == "Cluster") || (bool srv "rejectClaim" && c.scope == "Namespaced")) &&
  (p == "" || !(c.versions.any fun v => (lookup p (prop v.schema "spec").props).isSome))

def verdictStr : Verdict → String
  | .allowed => "allowed"
  | .invalid _ => "invalid"
  | .crdError w e => "crdError:" ++ w ++ ":" ++ errStr e
  | .rejected w e => "rejected:" ++ w ++ ":" ++ classStr e
  | .panic w => "panic:" ++ w

def callStr (x : Req × Outcome × Option Resp) : String :=
  let verb := match x.1 with
    | .get _ => "get"
    | .update dry _ _ => if dry then "update" else "update"
    | .create dry _ => if dry then "create" else "create"
  let res := match x.2.2 with
    | some (.found _) => "found"
    | some .ok => "ok"
    | some (.err e) => classStr e
    | none => "crashed"
  verb ++ ":" ++ x.1.name ++ ":" ++ res ++ (if x.1.harmless then "" else ":PERSISTED")

/-- run one admission request in the world `wj` of the scenario -/
def runHook (accept : Crd → Bool) (wj : Json) (p : Prog Req Resp Verdict) : String × List String :=
  let w0 := World.initial (strs wj "exists")
  let env := scriptEnv ((arr wj "acts").filterMap actOf)
  let sem := hookSem accept
  let v := (runE sem env Plan.allOk 0 p w0).2
  ((v.map verdictStr).getD "crashed", (callLogE sem env Plan.allOk 0 p w0).map callStr)

/-- one request of the sequence: derivations, validation, the two admission decisions -/
def stepObs (scn : Json) : List (String × Json) × Option String :=
  let xrd := xrdOf (obj scn "xrd")
  let old : Option Xrd := if has scn "old" then some (xrdOf (obj scn "old")) else none
  let srv := obj scn "server"
  let accept := acceptOf srv
  let xr := forXR xrd
  let claim := forClaim xrd
  let upd := old.map fun o => validateUpdate xrd o
  let (admC, callsC) := runHook accept (obj srv "worldC") (hookCreate xrd)
  let (admU, callsU) := match old with
    | some o => runHook accept (obj srv "worldU") (hookUpdate xrd o)
    | none => ("", [])
  let out := [
    ("xr", crdObs xr),
    ("claim", crdObs claim),
    ("xrRepeat", Json.bool true),
    ("validate", strsJson (validate xrd)),
    ("update", match upd with | some l => strsJson l | none => .null),
    ("admitCreate", .str admC),
    ("callsCreate", strsJson callsC),
    ("admitUpdate", .str admU),
    ("callsUpdate", strsJson callsU)]
  let bad : Option String :=
    (match xr with | .ok c => checkCrd xrd c (xrSpecMachinery xrd) "Cluster" | _ => none) <|>
    (match claim with | .ok c => checkCrd xrd c (claimSpecMachinery xrd) "Namespaced" | _ => none)
  (out, bad)

/-- the reconcilers over the CRDs of an earlier state (harness/main/c11_recon.go): per round the
result class and the stored CRD = the model's `reconcileStep` -/
def reconObs (scn : Json) : Json :=
  if !(has scn "recon") then .null else
  let rc := obj scn "recon"
  let xrd := xrdOf (obj scn "xrd")
  let prev : Option Xrd := if has rc "prev" then some (xrdOf (obj rc "prev")) else none
  let rounds := max 1 (min 2 (nat rc "rounds"))
  let conds0 : List (String × String) := (arr rc "storedConds").filterMap fun c =>
    match c.getArr? with
    | .ok #[.str a, .str b] => some (a, b)
    | _ => none
  let one (w : Which) : Json :=
    -- live: the earlier XRD and its CRDs are gone when the current XRD is reconciled
    let stored : Option Crd := if bool rc "live" then none else match derive w xrd, prev.map (derive w) with
      | .ok d, some (.ok p) => if p.name == d.name && p.name != "" then some p else none
      | _, _ => none
    -- status of the CRD the Apply returns: the stored one's (Update keeps it), none after a Create;
    -- the API server establishes a CRD that is not established before the next reconcile
    let rec go (n : Nat) (conds : List (String × String)) : List Json :=
      match n with
      | 0 => []
      | n+1 =>
        match reconcileStep w xrd stored with
        | .error _ => Json.mkObj [("res", .str "err"), ("crd", .null)] :: go n conds
        | .ok c => Json.mkObj [("res", .str (reconcileResult conds)), ("crd", crdJson c)] ::
                   go n (if isEstablished conds then conds else [("Established", "True")])
    Json.arr (go rounds (if stored.isSome then conds0 else [])).toArray
  Json.mkObj [("definition", one .xr),
              ("offered", if xrd.claimNames.isSome then one .claim else Json.arr #[])]

/-- the scenario's own request, then the `more` requests: the model is per request (nothing is
carried from one to the next), which is what exposes state the implementation carries over -/
def handler : Handler := fun scn =>
  let (out, bad) := stepObs scn
  let more := (arr scn "more").map stepObs
  let moreJson := Json.arr (more.map fun (o, _) => Json.mkObj (o ++ [("more", Json.arr #[]), ("recon", Json.null)])).toArray
  let bad := more.foldl (fun b (_, x) => b <|> x) bad
  .ok (Json.mkObj (out ++ [("more", moreJson), ("recon", reconObs scn)]), bad.isNone, bad.getD "")

end Xp.C11

import Xp.Drv.C01
import Xp.Drv.C04
namespace Xp.C03
open Xp.IOx
/-- C03 scenarios are either XR worlds (C01 model) or pipelines (C04 model). -/
def handler : Handler := fun scn =>
  if has scn "steps" then Xp.C04.handler scn else Xp.C01.handler scn
end Xp.C03

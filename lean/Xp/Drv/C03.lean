import Xp.Drv.C01
import Xp.Drv.C04
import Xp.Model.C03
namespace Xp.C03
open Lean (Json)
open Xp.IOx

/-! The fetch family (harness/main/c03_fetch.go): one `RunFunction` of the real
FetchingFunctionRunner + ExistingExtraResourcesFetcher under a fault plan, replayed on
`runFunctionP`. -/

structure Answer where
  err : Bool
  fatal : Bool
  reqs : Option Reqs

def selOfJ (j : Json) : Option Selector :=
  if j.isNull then none else
  let kind := str j "kind"
  match str j "match" with
  | "name" => some ⟨kind, .name (str j "name")⟩
  | "labels" => some ⟨kind, .labels (Xp.C04.kvsOf j "labels")⟩
  | _ => some ⟨kind, .unset⟩

def answerOf (j : Json) : Answer :=
  let rs : Reqs := ((arr j "reqs").map fun r => (str r "key", selOfJ (obj r "sel"))).mergeSort (fun a b => a.1 ≤ b.1)
  ⟨bool j "err", bool j "fatal", if bool j "hasReqs" then some rs else none⟩

/-- the scripted function: finds its call index in the context, answers with that entry of the
script (the last one from then on) and hands the next index back through the context -/
def scripted (answers : List Answer) : XFn := fun rq =>
  let i := ((rq.ctx.lookup "n").bind String.toNat?).getD 0
  match answers[min i (answers.length - 1)]? with
  | none => none
  | some a =>
    if a.err then none else
    some ⟨{ desired := rq.desired, xrReady := none, ctx := [("n", toString (i + 1))], reqs := [],
            results := if a.fatal then [{ sev := .normal, msg := "fine", claim := false }, { sev := .fatal, msg := "fatal", claim := false }] else [],
            conds := [] }, a.reqs⟩

def freqStr : FReq → String
  | .getExtra k n => s!"get {k}/{n}"
  | .listExtra k _ => s!"list {k}"

def fcallStr (e : FReq × Outcome × Option FResp) : String :=
  let err := match e.2.1, e.2.2 with
    | .crashBefore, _ | .crashAfter, _ => "crashed"
    | _, some .notFound => "notFound"
    | _, some .err => "other"
    | _, _ => ""
  s!"{freqStr e.1} {Xp.C01.outcomeStr e.2.1}>{err}"

def fetchHandler : Handler := fun scn => do
  let cluster := (arr scn "cluster").map fun j => (⟨str j "kind", str j "name", Xp.C04.kvsOf j "labels"⟩ : Xp.C04.ClusterObj)
  let answers := (arr scn "answers").map answerOf
  -- Go's map order over the requirements of each fetching round, as observed (hint); round i is
  -- answered with entry min(i, last) of the script
  let orders : List (Reqs × List String) := (arr scn "orders").map fun j =>
    (((answers[min (nat j "round") (answers.length - 1)]?).bind (·.reqs)).getD [], strs j "keys")
  -- the model's order is a function of the requirements: the same requirements visited in two
  -- different map orders in one scenario cannot be replayed
  for a in orders do
    for b in orders do
      if a.1 == b.1 && a.2 != b.2 then
        throw "the same requirements were visited in two different map orders"
  let order : Reqs → Reqs := fun rs =>
    match orders.find? (fun h => h.1 == rs) with
    | some h => Xp.C01.orderBy (·.1) h.2 rs
    | none => rs
  let plan : Plan := if has scn "fault" then
      let f := obj scn "fault"
      Plan.at (nat f "k") (Xp.C01.outcomeOf (str f "o"))
    else Plan.allOk
  let req : Xp.C04.Request := { observed := [], desired := [], xrReady := none, ctx := [], extra := [], input := "", creds := [] }
  let prog := runFunctionTop (scripted answers) order req
  let log := callLog fsem plan 0 prog cluster
  let res := (run fsem plan 0 prog cluster).2
  let (reqs, result) : List Xp.C04.Request × String := match res with
    | none => ([], "crashed")
    | some (tr, .err) => (tr, "err")
    | some (tr, .ok rsp) => (tr, "ok:" ++ (rsp.base.ctx.lookup "n").getD "")
  let reqJ (r : Xp.C04.Request) : Json := Json.mkObj [
    ("n", .str ((r.ctx.lookup "n").getD "")),
    ("extra", Json.arr ((r.extra.mergeSort (fun a b => a.1 ≤ b.1)).map fun p => Json.mkObj [
      ("key", .str p.1), ("nil", .bool p.2.isNone),
      ("names", Json.arr (((p.2.getD []).mergeSort (· ≤ ·)).map Json.str).toArray)]).toArray)]
  -- model-side verdict: the clauses proved in Props (accepted ⇒ fatal or stable; bounded)
  let ok := reqs.length ≤ Xp.Gen.c03MaxRequirementsIterations + 1
  return (Json.mkObj [
      ("calls", Json.arr (log.map fun e => Json.str (fcallStr e)).toArray),
      ("reqs", Json.arr (reqs.map reqJ).toArray),
      ("result", .str result)], ok, if ok then "" else "C03:function-called-beyond-bound")

/-- C03 scenarios are XR worlds (C01 model), pipelines (C04 model) or single RunFunction calls. -/
def handler : Handler := fun scn =>
  -- the direct family (harness/main/c03_direct.go) is monitor-only: nothing to compare
  -- (the ptdup family, harness/main/c03_ptdup.go, likewise)
  if has scn "direct" || has scn "ptdup" then pure (Json.mkObj [], true, "")
  else if has scn "fetch" then fetchHandler scn
  else if has scn "steps" then Xp.C04.handler scn else Xp.C01.handler scn
end Xp.C03

import Xp.Base.JsonIO
import Xp.Model.C08
/-
C08 driver: parses a scenario (initial objects, running controllers, schedule),
runs the interleaved system `Xp.C08.Sys` and prints, per step, the call made, the
reply class, the reconcile result if it ended and the canonical diff of the store;
plus the final store. The model-side monitor evaluates `safeReq` on every request
that is applied.
-/
namespace Xp.C08
open Lean (Json)
open Xp.IOx

def kindOfStr : String → Kind
  | "claim" => .claim | "xr" => .xr | "xrd" => .xrd | "crd" => .crd
  | "rev" => .rev | "lock" => .lock | "usage" => .usage | "res2" => .res2 | "res3" => .res3 | _ => .res

def Kind.str : Kind → String
  | .claim => "claim" | .xr => "xr" | .xrd => "xrd" | .crd => "crd"
  | .rev => "rev" | .lock => "lock" | .usage => "usage" | .res => "res" | .res2 => "res2" | .res3 => "res3"

def ctlOfStr : String → Option Ctl
  | "claim" => some .claim | "xr" => some .xr | "defined" => some .defined
  | "offered" => some .offered | "rev" => some .rev | "usage" => some .usage | _ => none

def outcomeOfStr : String → Outcome
  | "fail" => .fail | "conflict" => .conflict | "crashBefore" => .crashBefore
  | "crashAfter" => .crashAfter | _ => .ok

def uidOfIdx (j : Json) : Nat :=
  match (j.getObjValAs? Int "idx").toOption with
  | some i => if i < 0 then 999 else i.toNat + 1
  | none => 999

def objOf (idx : Nat) (j : Json) : Obj :=
  { key := ⟨kindOfStr (str j "kind"), str j "name"⟩
    uid := idx + 1
    rv := idx + 1
    fins := strs j "fins"
    del := bool j "del"
    owners := (arr j "owners").map fun o => ⟨uidOfIdx o, bool o "ctrl", bool o "block"⟩
    conds := []
    paused := bool j "paused"
    ref := str j "ref"
    of := str j "of"
    flag := bool j "flag"
    inuse := bool j "inuse"
    pkgs := strs j "pkgs"
    inactive := bool j "inactive"
    skipDeps := bool j "skipDeps"
    refKind := kindOfStr (str j "refKind")
    ofKind := kindOfStr (str j "ofKind")
    refVer := str j "refVer"
    sel := bool j "sel" }

def enumFrom {α : Type} : Nat → List α → List (Nat × α)
  | _, [] => []
  | n, x :: xs => (n, x) :: enumFrom (n + 1) xs

def actOf (j : Json) : Except String Act :=
  match str j "op" with
  | "spawn" => match ctlOfStr (str j "c") with
    | some c => .ok (.spawn c (str j "name"))
    | none => .error "unknown controller"
  | "step" =>
    if bool j "miss" then .error "a read missed an existing object (informer cache older than its creation): outside the model"
    else if nat j "at" > 0 && str j "o" == "ok" then .ok (.lagStep (nat j "t") (nat j "at" - 1))
    else .ok (.step (nat j "t") (outcomeOfStr (str j "o")))
  | "edit" =>
    let k : Key := ⟨kindOfStr (str j "kind"), str j "name"⟩
    let w := str j "w"
    if w == "flip" then .ok (.edit k .flip)
    else if w.startsWith "ref=" then .ok (.edit k (.ref (w.drop 4).toString))
    else .error s!"unknown edit {w}"
  | "del" => .ok (.del ⟨kindOfStr (str j "kind"), str j "name"⟩)
  | "gc" => .ok .gc
  | "unfin" => .ok (.unfin ⟨kindOfStr (str j "kind"), str j "name"⟩ (str j "fin"))
  | "live" => .error "live"
  | o => .error s!"unknown op {o}"

/-- the kind of object a controller reconciles -/
def Ctl.kind : Ctl → Kind
  | .claim => .claim | .xr => .xr | .defined => .xrd | .offered => .xrd | .rev => .rev | .usage => .usage

/-- reason string the real condition carries for a model condition token -/
def reasonOf (tok : String) : String :=
  if tok.startsWith "err:" then "ReconcileError"
  else match tok with
    | "Deleting" => "Deleting"
    | "Success" => "ReconcileSuccess"
    | "Paused" => "ReconcilePaused"
    | "TerminatingComposite" => Xp.Gen.c08ReasonTerminatingComposite
    | "TerminatingClaim" => Xp.Gen.c08ReasonTerminatingClaim
    | "WatchingComposite" => Xp.Gen.c08ReasonWatchingComposite
    | "WatchingClaim" => Xp.Gen.c08ReasonWatchingClaim
    | "Waiting" => Xp.Gen.c08ReasonWaiting
    | t => t

def b01 (b : Bool) : String := if b then "1" else "0"

def sortStrs (l : List String) : List String := l.mergeSort (fun a b => a ≤ b)

def Obj.repr (o : Obj) : String :=
  let conds := sortStrs (o.conds.map fun c => c.1 ++ ":" ++ reasonOf c.2)
  (if o.del then "del " else "") ++ "fins=" ++ ",".intercalate o.fins ++
  (if o.pkgs.isEmpty then "" else " pkgs=" ++ ",".intercalate o.pkgs) ++
  (if o.inuse then " inuse" else "") ++
  (if (o.key.kind == .usage || o.key.kind == .crd) && !o.owners.isEmpty then s!" owners={o.owners.length}" else "") ++
  (if conds.isEmpty then "" else " conds=" ++ ",".intercalate conds)

def Obj.keyStr (o : Obj) : String := o.key.kind.str ++ "/" ++ o.key.name

def ctrlNames (s : St) : List String :=
  (s.objs.filter (fun o => o.key.kind = .xrd)).flatMap fun d => [compositeCtrl d.key.name, claimCtrl d.key.name]

def St.lines (s : St) : List String :=
  sortStrs (s.objs.map (fun o => o.keyStr ++ " " ++ o.repr) ++ s.running.eraseDups.map (fun n => "run " ++ n))

def diff (a b : St) : List String :=
  let chg := b.objs.filterMap fun o =>
    match find a o.key with
    | some p => if p.repr = o.repr then none else some (o.keyStr ++ " " ++ o.repr)
    | none => some (o.keyStr ++ " " ++ o.repr)
  let gone := a.objs.filterMap fun o => if (find b o.key).isSome then none else some (o.keyStr ++ " gone")
  let names := (a.running ++ b.running).eraseDups
  let run := names.filterMap fun n =>
    if a.running.contains n = b.running.contains n then none
    else some ("run " ++ n ++ " " ++ b01 (b.running.contains n))
  sortStrs (chg ++ gone ++ run)

def Req.desc : Req → String
  | .get k => s!"get:{k.kind.str}:{k.name}"
  | .list kd => s!"list:{kd.str}"
  | .listUsagesOf _ _ => "list:usage"
  | .listSel kd _ => s!"list:{kd.str}"
  | .setStatus k _ _ => s!"update:{k.kind.str}:{k.name}:status"
  | .removeFin k _ _ => s!"update:{k.kind.str}:{k.name}"
  | .delete k fg => s!"delete:{k.kind.str}:{k.name}" ++ (if fg then ":fg" else "")
  | .deleteAll kd => s!"deleteAllOf:{kd.str}"
  | .lockRemove _ _ => s!"update:lock:{Xp.Gen.c08LockName}"
  | .unlabel k _ => s!"update:{k.kind.str}:{k.name}"
  | .stop c => s!"stop:{c}"
  | .cacheDelete n => s!"cacheDelete:{n}"

def Resp.classStr : Resp → String
  | .ok | .obj _ | .list _ => "ok"
  | .notFound => "notFound"
  | .conflict => "conflict"
  | .err => "other"

def Res.str : Res → String
  | .ok => "ok" | .requeue => "requeue" | .err => "err" | .oos => "oos" | .crashed => "crashed"

structure StepObs where
  call : String := ""
  resp : String := ""
  res : String := ""
  chg : List String := []

def StepObs.json (o : StepObs) : Json :=
  let opt (k v : String) : List (String × Json) := if v.isEmpty then [] else [(k, .str v)]
  Json.mkObj (opt "call" o.call ++ opt "resp" o.resp ++ opt "res" o.res ++ [("chg", Json.arr (o.chg.map Json.str).toArray)])

/-- one step with its observation; the Bool is the model-side monitor, the last
component tells whether the model left its domain (a live object was reconciled) -/
def stepObs (s : Sys) (a : Act) : Sys × StepObs × Bool × Bool :=
  let s' := s.act a
  let chg := diff s.st s'.st
  match a with
  | .step i o =>
    match s.ths[i]? with
    | none => (s', { chg := chg }, true, false)
    | some t =>
      match t.prog with
      | .ret _ => (s', { chg := chg }, true, false)
      | .call r _ =>
        let applied := o == .ok || o == .crashAfter
        let safe := !applied || safeReq s.st t.ctl t.name r
        let resp := match o with
          | .ok => (exec s.st r).2.classStr
          | .fail => (errResp .fail r).classStr
          | .conflict => (errResp .conflict r).classStr
          | _ => "crashed"
        let (res, oos) := match s'.ths[i]? with
          | some t' => (match t'.prog with | .ret x => (x.str, x == .oos) | _ => ("", false))
          | none => ("", false)
        (s', { call := r.desc, resp := resp, res := res, chg := chg }, safe, oos)
  | .lagStep i j =>
    match s.ths[i]? with
    | none => (s', { chg := chg }, true, false)
    | some t =>
      match t.prog with
      | .ret _ => (s', { chg := chg }, true, false)
      | .call r _ =>
        let safe := safeReq s.st t.ctl t.name r
        let src := if r.isRead then (s.past[j]?).getD s.st else s.st
        let (res, oos) := match s'.ths[i]? with
          | some t' => (match t'.prog with | .ret x => (x.str, x == .oos) | _ => ("", false))
          | none => ("", false)
        (s', { call := r.desc, resp := (exec src r).2.classStr, res := res, chg := chg }, safe, oos)
  | _ => (s', { chg := chg }, true, false)

def handler : Handler := fun scn => do
  let objs := (enumFrom 0 (arr scn "objs")).map fun (i, j) => objOf i j
  let st0 : St := { objs := objs, nextRv := objs.length + 1, running := strs scn "running" }
  let mut s : Sys := { st := st0, ths := [] }
  let mut out : Array Json := #[]
  let mut ok := true
  let mut why := ""
  -- every step so far stayed outside the windows (`Sys.calmB`); inside a window the ordering
  -- constraint is not claimed (`trace_order_all`)
  let mut calm := true
  -- starts[g] = length of `past` when scenario step g began (a `live` step is several model steps)
  let mut starts : Array Nat := #[]
  for j in arr scn "steps" do
    starts := starts.push s.past.length
    if str j "op" == "live" then
      -- ONE whole reconcile of a live object, run atomically by the real code
      match ctlOfStr (str j "c") with
      | none => throw "unknown controller"
      | some c =>
        let n := str j "name"
        match find s.st ⟨c.kind, n⟩ with
        | none => throw "live step on an absent object: outside the model"
        | some o =>
          if o.del then throw "live step on a deleted object: outside the model"
          let before := s.st
          for l in liveActs s.st c n do
            calm := calm && s.calmB (.live l)
            s := s.act (.live l)
          out := out.push ({ chg := diff before s.st } : StepObs).json
    else
      let a ← actOf j
      let a := match a with
        | .lagStep i g => .lagStep i (starts.getD g 0)
        | a => a
      calm := calm && s.calmB a
      let (s', o, safe, oos) := stepObs s a
      if oos then throw "a live (not deleted) object was reconciled: outside the model"
      if !safe && ok && calm then
        ok := false
        why := "C08:order-violated at " ++ o.call
      out := out.push o.json
      s := s'
  let final := Json.arr (s.st.lines.map Json.str).toArray
  return (Json.mkObj [("steps", Json.arr out), ("final", final)], ok, why)

end Xp.C08

import Xp.Base.JsonIO
import Xp.Model.C02Two
/-
Driver of the C02 site "two" (harness/main/c02_twoxr.go): two XRs (name, kind, the explicit
name of the composed resource their pipeline asks for) and a schedule of reconciles. The model's
field-manager function is "kind/name" of the XR: `mgrSame` is predicted true only for two XRs of
one kind and name (never generated) — the real `ComposedFieldOwnerName` is compared with that on
every scenario. Model-side verdict: an object controlled by one XR changed in a reconcile of the
other.
-/
namespace Xp.C02Two
open Lean (Json)
open Xp.IOx

def objJson (o : Obj) : Json := Json.mkObj [
  ("name", .str o.name),
  ("ctrl", match o.ctrl with | some i => Json.num (i : Nat) | none => Json.num (-1 : Int)),
  ("content", .num o.content)]

def nameLe (a b : Obj) : Bool := a.name ≤ b.name

def handler : Handler := fun scn => do
  let xrs := arr scn "xrs"
  let nameOf (i : Nat) : String := match xrs[i]? with | some x => str x "name" | none => ""
  let kindOf (i : Nat) : String := match xrs[i]? with | some x => str x "kind" | none => ""
  let res (i : Nat) : String := match xrs[i]? with | some x => str x "res" | none => ""
  let mgr (i : Nat) : String := kindOf i ++ "/" ++ nameOf i
  let mut s : St := { objs := [], hasRef := [] }
  let mut outs : Array Json := #[]
  let mut bad := ""
  for stp in arr scn "steps" do
    let x := nat stp "xr"
    let c := nat stp "content"
    let (s', o) := step mgr res x c s
    -- objects controlled by the other XR must be in the store unchanged
    if !(s.objs.all fun ob => match ob.ctrl with
        | some y => y == x || s'.objs.contains ob
        | none => true) then bad := "C02:other-xr-resource-changed-in-model"
    let objs := s'.objs.mergeSort nameLe
    outs := outs.push (Json.mkObj [
      ("calls", Json.arr (o.calls.map Json.str).toArray),
      ("synced", .bool o.synced),
      ("objs", Json.arr (objs.map objJson).toArray)])
    s := s'
  return (Json.mkObj [("mgrSame", .bool (mgr 0 == mgr 1)), ("steps", Json.arr outs)], bad == "", bad)

end Xp.C02Two

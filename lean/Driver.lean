import Xp.Base.JsonIO
import Xp.Drv.C05

open Xp.IOx

def handlers : List (String × Handler) := [
  ("C05", Xp.C05.handler)
]

def main (args : List String) : IO UInt32 := do
  match args with
  | [pid] =>
    match handlers.lookup pid with
    | some h =>
      loop (← IO.getStdin) (← IO.getStdout) h
      return 0
    | none =>
      IO.eprintln s!"xpdrv: no model driver for {pid}"
      return 2
  | _ =>
    IO.eprintln "usage: xpdrv <property id>"
    return 2

import Xp.Base.Prog
import Xp.Base.Json
import Xp.Base.JsonIO

//go:build verif

package main

// C05, family "cdel": the deletion branch of the REAL claim Reconciler.Reconcile (long-lived),
// driven through 1..3 reconciles of ONE claim that carries a deletion timestamp (background
// composite deletion): with or without the claim finalizer, held by another finalizer or not, bound
// to an XR that exists (kept by a finalizer of its own) or to none; every reconcile paused / failing
// at the first Get / at the read of the XR / at the Delete of the XR / at UnpublishConnection / at
// RemoveFinalizer's Update with any error class / losing its final status update. A claim being
// deleted must never be set Ready=True.

import (
	"context"
	"fmt"
	"sort"

	corev1 "k8s.io/api/core/v1"
	metav1 "k8s.io/apimachinery/pkg/apis/meta/v1"
	"k8s.io/apimachinery/pkg/apis/meta/v1/unstructured"
	"k8s.io/apimachinery/pkg/runtime"
	"k8s.io/apimachinery/pkg/types"
	"sigs.k8s.io/controller-runtime/pkg/reconcile"

	xpv1 "github.com/crossplane/crossplane-runtime/apis/common/v1"
	"github.com/crossplane/crossplane-runtime/pkg/fieldpath"
	"github.com/crossplane/crossplane-runtime/pkg/reconciler/managed"
	"github.com/crossplane/crossplane-runtime/pkg/resource"
	uclaim "github.com/crossplane/crossplane-runtime/pkg/resource/unstructured/claim"
	ucomposite "github.com/crossplane/crossplane-runtime/pkg/resource/unstructured/composite"
	"github.com/crossplane/crossplane-runtime/pkg/resource/unstructured/reference"

	"github.com/crossplane/crossplane/internal/controller/apiextensions/claim"
)

type c05CDelStep struct {
	Get    string `json:"get"` // class of the error answering the Get of the claim ("" = it succeeds)
	Paused bool   `json:"paused"`
	XRGet  string `json:"xrGet"` // class of the error answering the read of the XR
	Phase  string `json:"phase"` // "" | deleteXR | unpublish | removeFinalizer
	Err    string `json:"err"`
	Wrap   bool   `json:"wrap"`
	Lost   string `json:"lost"`
}

type c05CDelScn struct {
	Kind  string        `json:"kind"` // "cdel"
	Old   []c05Cond     `json:"old"`
	Fin   bool          `json:"fin"`
	Held  bool          `json:"held"`
	XR    bool          `json:"xr"` // a bound XR exists
	Steps []c05CDelStep `json:"steps"`
}

const c05ClaimFinalizer = "finalizer.apiextensions.crossplane.io"

func c05GenCDel(r *Rng) c05CDelScn {
	s := c05CDelScn{Kind: "cdel", Old: c05DropSystem(c05GenConds(r, 4, []string{"Old", "Available", "Waiting", "ReconcileSuccess"})), Fin: r.Chance(4, 5), Held: r.Bool(), XR: r.Chance(3, 4)}
	if !s.Fin {
		s.Held = true
	}
	switch r.Intn(3) {
	case 0, 1:
		s.Old = append([]c05Cond{{Type: "Ready", Status: "True", Reason: "Available"}, {Type: "Synced", Status: "True", Reason: "ReconcileSuccess"}}, s.Old...)
	case 2:
		s.Old = append([]c05Cond{{Type: "Ready", Status: "False", Reason: "Waiting"}}, s.Old...)
	}
	for i, n := 0, r.Range(1, 3); i < n; i++ {
		st := c05CDelStep{}
		switch r.Intn(14) {
		case 0:
			st.Paused = true
		case 1:
			st.Get = Pick(r, c05ErrClasses)
		case 2:
			st.XRGet = Pick(r, c05ErrClasses)
		case 3, 4, 5, 6, 7:
			st.Phase = Pick(r, []string{"deleteXR", "unpublish", "removeFinalizer", "removeFinalizer"})
			st.Err = Pick(r, c05ErrClasses)
			st.Wrap = r.Bool()
		}
		if r.Chance(1, 10) {
			st.Lost = Pick(r, c05ErrClasses)
		}
		s.Steps = append(s.Steps, st)
	}
	return s
}

func c05RunCDel(s c05CDelScn) (c05DelObs, []Mon) {
	st := NewStore(runtime.NewScheme())
	st.Namespaced[c05ClaimGVK.GroupKind()] = true
	cl := &c05Client{Store: st, StrictRV: true}
	gk := c05ClaimGVK.GroupKind()
	const ns, name, xrName = "ns", "claim", "xr1"
	if s.XR {
		xr := ucomposite.New(ucomposite.WithGroupVersionKind(c05XRGVK))
		xr.SetName(xrName)
		xr.SetLabels(map[string]string{"crossplane.io/claim-name": name, "crossplane.io/claim-namespace": ns})
		xr.SetClaimReference(&reference.Claim{APIVersion: "example.org/v1", Kind: c05ClaimGVK.Kind, Namespace: ns, Name: name})
		xr.SetFinalizers([]string{c05Finalizer}) // its own controller's finalizer keeps it
		xr.SetConditions(xpv1.Condition{Type: xpv1.TypeReady, Status: corev1.ConditionTrue, Reason: "Available", LastTransitionTime: metav1.Unix(1, 0)})
		st.Seed(xr)
	}
	cm := uclaim.New(uclaim.WithGroupVersionKind(c05ClaimGVK))
	cm.SetName(name)
	cm.SetNamespace(ns)
	fins := []string{}
	if s.Fin {
		fins = append(fins, c05ClaimFinalizer)
	}
	if s.Held {
		fins = append(fins, "example.org/hold")
	}
	cm.SetFinalizers(fins)
	if s.XR {
		cm.SetResourceReference(&reference.Composite{APIVersion: "example.org/v1", Kind: c05XRGVK.Kind, Name: xrName})
	}
	for _, c := range s.Old {
		cm.SetConditions(xpv1.Condition{Type: xpv1.ConditionType(c.Type), Status: corev1.ConditionStatus(c.Status), Reason: xpv1.ConditionReason(c.Reason), LastTransitionTime: metav1.Unix(1, 0)})
	}
	st.Seed(cm)
	_ = st.Delete(context.Background(), cm.DeepCopy())

	var cur *c05CDelStep
	synced := false
	rec := claim.NewReconciler(cl, resource.CompositeClaimKind(c05ClaimGVK), resource.CompositeKind(c05XRGVK),
		claim.WithCompositeSyncer(claim.CompositeSyncerFn(func(context.Context, *uclaim.Unstructured, *ucomposite.Unstructured) error {
			synced = true
			return nil
		})),
		claim.WithConnectionUnpublisher(claim.ConnectionUnpublisherFn(func(context.Context, resource.LocalConnectionSecretOwner, managed.ConnectionDetails) error {
			if cur != nil && cur.Phase == "unpublish" {
				return c05MkErr(cur.Err, cur.Wrap)
			}
			return nil
		})),
	)

	state := func() (map[string]c05OCond, []c05OCond, bool) {
		m := map[string]c05OCond{}
		l := []c05OCond{}
		u := st.Peek(gk, ns, name)
		if u == nil {
			return m, l, true
		}
		cs := xpv1.ConditionedStatus{}
		_ = fieldpath.Pave(u.Object).GetValueInto("status", &cs)
		for _, x := range cs.Conditions {
			oc := c05OCond{Type: string(x.Type), Status: string(x.Status), Reason: string(x.Reason)}
			m[oc.Type] = oc
			l = append(l, oc)
		}
		sort.SliceStable(l, func(i, j int) bool { return l[i].Type < l[j].Type })
		return m, l, false
	}

	obs := c05DelObs{Steps: []c05DelStepObs{}}
	var mons []Mon
	seen := map[string]bool{}
	mon := func(sig, why string) {
		if !seen[sig] {
			seen[sig] = true
			mons = append(mons, Mon{Sig: sig, Why: why})
		}
	}
	for i := range s.Steps {
		step := &s.Steps[i]
		if st.Peek(gk, ns, name) != nil {
			st.Mutate(gk, ns, name, func(u *unstructured.Unstructured) {
				a := u.GetAnnotations()
				if a == nil {
					a = map[string]string{}
				}
				if step.Paused {
					a["crossplane.io/paused"] = "true"
				} else {
					delete(a, "crossplane.io/paused")
				}
				if len(a) == 0 {
					a = nil
				}
				u.SetAnnotations(a)
			})
		}
		before, _, goneBefore := state()
		finBefore := false
		if u := st.Peek(gk, ns, name); u != nil {
			for _, f := range u.GetFinalizers() {
				finBefore = finBefore || f == c05ClaimFinalizer
			}
		}
		cur = step
		st.Log = nil
		cl.Inject = func(c c05Call) error {
			switch {
			case c.Kind == c05ClaimGVK.Kind && c.Verb == "get" && step.Get != "":
				return c05MkErr(step.Get, step.Wrap)
			case c.Kind == c05XRGVK.Kind && c.Verb == "get" && step.XRGet != "":
				return c05MkErr(step.XRGet, step.Wrap)
			case c.Kind == c05XRGVK.Kind && c.Verb == "delete" && step.Phase == "deleteXR":
				return c05MkErr(step.Err, step.Wrap)
			case c.Kind == c05ClaimGVK.Kind && c.Verb == "update" && c.Sub == "" && step.Phase == "removeFinalizer":
				return c05MkErr(step.Err, step.Wrap)
			case c.Kind == c05ClaimGVK.Kind && c.Verb == "update" && c.Sub == "status" && step.Lost != "":
				return c05MkErr(step.Lost, step.Wrap)
			}
			return nil
		}
		if p := Guard(func() {
			_, _ = rec.Reconcile(context.Background(), reconcile.Request{NamespacedName: types.NamespacedName{Namespace: ns, Name: name}})
		}); p != "" {
			mon("C05:panic", p)
		}
		cl.Inject = nil
		after, list, gone := state()
		so := c05DelStepObs{Conds: list, ClaimTypes: []string{}, Gone: gone}
		for _, l := range st.Log {
			if l.Verb == "update" && l.Sub == "status" && l.Applied && l.GK == "Thing.example.org" {
				so.Wrote = true
			}
		}
		obs.Steps = append(obs.Steps, so)

		// ---- direct monitors (model-free)
		if synced {
			mon("C05:synced-xr-while-deleting", fmt.Sprintf("step %d: Sync was called for a claim that carries a deletion timestamp", i))
		}
		if goneBefore || gone {
			continue
		}
		// exactly the recorded finding and nothing else (see c05_del.go): THIS reconcile removed the
		// claim finalizer, another finalizer keeps the claim, the status update took effect - and the
		// stored Ready condition is the one the claim had before instead of Deleting
		lostDeleting := finBefore && !step.Paused && step.Get == "" && (step.XRGet == "" || step.XRGet == "notFound" || !s.XR) &&
			(step.Phase == "" || step.Phase == "deleteXR" && (step.Err == "notFound" || !s.XR || step.XRGet == "notFound")) &&
			so.Wrote && after["Ready"] == before["Ready"]
		sigReady := "C05:claim-ready-true-while-deleting"
		if lostDeleting {
			sigReady = "C05:claim-deleting-condition-lost-on-finalizer-removal"
		}
		if step.Paused && after["Ready"] != before["Ready"] {
			mon("C05:ready-set-on-error", fmt.Sprintf("step %d: a paused claim reconcile changed Ready from %q to %q", i, before["Ready"].Status, after["Ready"].Status))
		}
		if !step.Paused && after["Ready"].Status == "True" && (so.Wrote || before["Ready"].Status != "True") &&
			!(s.XR && step.XRGet != "" && step.XRGet != "notFound") {
			mon(sigReady, fmt.Sprintf("step %d: a reconcile of a claim being deleted stored Ready=True (phase %q err %q)", i, step.Phase, step.Err))
		}
		if lostDeleting && (after["Ready"].Status != "False" || after["Ready"].Reason != "Deleting") {
			mon(sigReady, fmt.Sprintf("step %d: the status stored for a claim being deleted does not carry Ready=False/Deleting but %q/%q", i, after["Ready"].Status, after["Ready"].Reason))
		}
		if after["Ready"].Status == "True" && before["Ready"].Status != "True" {
			mon("C05:claim-ready-without-xr-ready", fmt.Sprintf("step %d: a claim being deleted was set Ready=True", i))
		}
		for t, c := range before {
			if t == "Ready" || t == "Synced" {
				continue
			}
			if after[t] != c {
				mon("C05:custom-condition-changed-by-deletion", fmt.Sprintf("step %d: the claim's deletion branch changed the custom condition %q", i, t))
			}
		}
	}
	return obs, mons
}

func c05CDelCls(s c05CDelScn) string {
	first := "-"
	paused, lost, get, xrget := 0, 0, 0, 0
	for _, st := range s.Steps {
		if st.Phase != "" && first == "-" {
			first = st.Phase + "=" + st.Err
		}
		if st.Paused {
			paused++
		}
		if st.Lost != "" {
			lost++
		}
		if st.Get != "" {
			get++
		}
		if st.XRGet != "" {
			xrget++
		}
	}
	return fmt.Sprintf("cdel/fin=%v/held=%v/xr=%v/steps=%d/paused=%d/get=%d/xrGet=%d/lost=%d/%s", s.Fin, s.Held, s.XR, len(s.Steps), paused, get, xrget, lost, first)
}

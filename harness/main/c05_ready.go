//go:build verif

package main

// C05, family "ready": what "a desired composed resource is ready" means for the P&T composer
// (ready.go): composite.IsReady over 0..5 readiness checks of every type (valid, invalid, pointing
// at fields of the wrong type), built from the Composition's v1.ReadinessCheck the way the
// composer builds them. The XR may be reported ready only if EVERY check of EVERY resource holds.

import (
	"context"
	"fmt"
	"strings"

	corev1 "k8s.io/api/core/v1"
	metav1 "k8s.io/apimachinery/pkg/apis/meta/v1"

	xpv1 "github.com/crossplane/crossplane-runtime/apis/common/v1"
	"github.com/crossplane/crossplane-runtime/pkg/resource/unstructured/composed"

	v1 "github.com/crossplane/crossplane/apis/apiextensions/v1"
	"github.com/crossplane/crossplane/internal/controller/apiextensions/composite"
)

type c05RObj struct {
	S     *string   `json:"s"` // status.s
	N     *int64    `json:"n"` // status.n
	B     *bool     `json:"b"` // status.b
	Conds []c05Cond `json:"conds"`
}

type c05RCheck struct {
	Type    string `json:"type"`
	Path    string `json:"path"`
	MS      string `json:"ms"`
	MI      int64  `json:"mi"`
	HasCond bool   `json:"hasCond"`
	CT      string `json:"ct"`
	CS      string `json:"cs"`
}

type c05ReadyScn struct {
	Kind   string      `json:"kind"` // "ready"
	Obj    c05RObj     `json:"obj"`
	Checks []c05RCheck `json:"checks"`
}

type c05ReadyObs struct {
	Result string `json:"result"` // true false error
}

var c05RPaths = []string{"status.s", "status.n", "status.b", "status.missing", ""}

func c05GenRCheck(r *Rng, o c05RObj, wantTrue bool) c05RCheck {
	c := c05RCheck{Type: Pick(r, []string{"None", "NonEmpty", "MatchString", "MatchInteger", "MatchTrue", "MatchFalse", "MatchCondition", "MatchCondition"})}
	if r.Chance(1, 40) {
		c.Type = "Bogus"
	}
	switch c.Type {
	case "NonEmpty":
		c.Path = Pick(r, c05RPaths)
	case "MatchString":
		c.Path = Pick(r, []string{"status.s", "status.s", "status.s", "status.n", "status.missing", ""})
		c.MS = Pick(r, []string{"ok", "ok", "no", "OK", "ok ", "o", ""})
		if o.S != nil && len(*o.S) > 1 && r.Chance(1, 2) {
			// near misses of the stored value: a strict prefix, another case, a trailing separator
			v := *o.S
			c.Path = "status.s"
			c.MS = Pick(r, []string{v[:len(v)-1], strings.ToUpper(v), strings.ToLower(v), v + " ", v + "/"})
		}
	case "MatchInteger":
		c.Path = Pick(r, []string{"status.n", "status.n", "status.n", "status.s", "status.missing", ""})
		c.MI = int64(r.Intn(4))
	case "MatchTrue", "MatchFalse":
		c.Path = Pick(r, []string{"status.b", "status.b", "status.b", "status.s", "status.missing", ""})
	case "MatchCondition":
		c.HasCond = !r.Chance(1, 12)
		c.CT = Pick(r, []string{"Ready", "Ready", "Synced", "Custom", "ready", "Read"})
		c.CS = Pick(r, []string{"True", "True", "False", "Unknown"})
	}
	if wantTrue {
		// aim at a check that holds on this object, so that lists of several holding checks (and
		// exactly one failing) are frequent
		c = c05RCheck{Type: "None"}
		for try := 0; try < 6; try++ {
			var k c05RCheck
			switch r.Intn(5) {
			case 0:
				k = c05RCheck{Type: "None"}
			case 1:
				if o.S != nil && *o.S != "" {
					k = c05RCheck{Type: "MatchString", Path: "status.s", MS: *o.S}
				} else if o.S != nil {
					k = c05RCheck{Type: "NonEmpty", Path: "status.s"}
				}
			case 2:
				if o.N != nil && *o.N != 0 {
					k = c05RCheck{Type: "MatchInteger", Path: "status.n", MI: *o.N}
				}
			case 3:
				if o.B != nil {
					k = c05RCheck{Type: "MatchTrue", Path: "status.b"}
					if !*o.B {
						k.Type = "MatchFalse"
					}
				}
			case 4:
				if len(o.Conds) > 0 {
					x := o.Conds[r.Intn(len(o.Conds))]
					k = c05RCheck{Type: "MatchCondition", HasCond: true, CT: x.Type, CS: x.Status}
				}
			}
			if k.Type != "" {
				c = k
				break
			}
		}
	}
	if !wantTrue && r.Chance(1, 2) {
		// a NEAR MISS of a check that would hold: one component of the comparison is off
		switch r.Intn(4) {
		case 0:
			if o.S != nil && len(*o.S) > 1 {
				v := *o.S
				c = c05RCheck{Type: "MatchString", Path: "status.s", MS: Pick(r, []string{v[:len(v)-1], strings.ToUpper(v), v + " ", v + "/"})}
				if c.MS == v {
					c.MS = v + "x"
				}
			}
		case 1:
			if o.N != nil {
				c = c05RCheck{Type: "MatchInteger", Path: "status.n", MI: *o.N + 1}
			}
		case 2:
			if o.B != nil {
				c = c05RCheck{Type: "MatchFalse", Path: "status.b"}
				if !*o.B {
					c.Type = "MatchTrue"
				}
			}
		case 3:
			if len(o.Conds) > 0 {
				x := o.Conds[r.Intn(len(o.Conds))]
				c = c05RCheck{Type: "MatchCondition", HasCond: true, CT: x.Type, CS: x.Status}
				if r.Bool() {
					c.CT = strings.ToLower(x.Type[:1]) + x.Type[1:]
					if c.CT == x.Type {
						c.CT = strings.ToUpper(x.Type[:1]) + x.Type[1:]
					}
					for _, y := range o.Conds {
						if y.Type == c.CT { // that type exists too: ask for a status it does not have
							c.CS = map[string]string{"True": "False", "False": "True", "Unknown": "True"}[y.Status]
						}
					}
					if c.CS == "Unknown" {
						c.CS = "True" // an absent condition reads as Unknown
					}
				} else {
					c.CS = map[string]string{"True": "False", "False": "Unknown", "Unknown": "True"}[x.Status]
				}
			}
		}
	}
	return c
}

func c05GenReady(r *Rng) c05ReadyScn {
	s := c05ReadyScn{Kind: "ready", Checks: []c05RCheck{}}
	if r.Chance(3, 4) {
		v := Pick(r, []string{"ok", "no", "", "OK"})
		s.Obj.S = &v
	}
	if r.Chance(3, 4) {
		v := int64(r.Intn(4))
		s.Obj.N = &v
	}
	if r.Chance(3, 4) {
		v := r.Bool()
		s.Obj.B = &v
	}
	s.Obj.Conds = []c05Cond{}
	seen := map[string]bool{}
	for i, n := 0, r.Intn(4); i < n; i++ {
		t := Pick(r, []string{"Ready", "Ready", "Synced", "Custom", "ready"})
		if seen[t] {
			continue
		}
		seen[t] = true
		s.Obj.Conds = append(s.Obj.Conds, c05Cond{Type: t, Status: Pick(r, []string{"True", "True", "False", "Unknown"}), Reason: "P"})
	}
	n := r.Intn(6)
	bad := -1
	if n > 0 && r.Chance(1, 2) {
		bad = r.Intn(n)
	}
	for i := 0; i < n; i++ {
		s.Checks = append(s.Checks, c05GenRCheck(r, s.Obj, i != bad && r.Chance(9, 10)))
	}
	return s
}

func c05RObject(o c05RObj) *composed.Unstructured {
	cd := composed.New()
	cd.SetAPIVersion("example.org/v1")
	cd.SetKind("KA")
	cd.SetName("cd")
	st := map[string]any{}
	if o.S != nil {
		st["s"] = *o.S
	}
	if o.N != nil {
		st["n"] = *o.N
	}
	if o.B != nil {
		st["b"] = *o.B
	}
	cd.Object["status"] = st
	for _, c := range o.Conds {
		cd.SetConditions(xpv1.Condition{Type: xpv1.ConditionType(c.Type), Status: corev1.ConditionStatus(c.Status), Reason: xpv1.ConditionReason(c.Reason), LastTransitionTime: metav1.Unix(1, 0)})
	}
	return cd
}

// c05RChecks builds the checks the way the P&T composer does: from the template's v1 checks.
func c05RChecks(cs []c05RCheck) []composite.ReadinessCheck {
	t := &v1.ComposedTemplate{}
	for _, c := range cs {
		rc := v1.ReadinessCheck{Type: v1.ReadinessCheckType(c.Type), FieldPath: c.Path, MatchString: c.MS, MatchInteger: c.MI}
		if c.HasCond {
			rc.MatchCondition = &v1.MatchConditionReadinessCheck{Type: xpv1.ConditionType(c.CT), Status: corev1.ConditionStatus(c.CS)}
		}
		t.ReadinessChecks = append(t.ReadinessChecks, rc)
	}
	return composite.ReadinessChecksFromComposedTemplate(t)
}

func c05RCall(o c05RObj, cs []c05RCheck) (string, string) {
	var ready bool
	var err error
	if p := Guard(func() { ready, err = composite.IsReady(context.Background(), c05RObject(o), c05RChecks(cs)...) }); p != "" {
		return "error", p
	}
	switch {
	case err != nil:
		return "error", ""
	case ready:
		return "true", ""
	}
	return "false", ""
}

// c05ROracle is the harness's own reading of one readiness check (independent of ready.go and of
// the Lean model): "true", "false" or "error".
func c05ROracle(o c05RObj, c c05RCheck) string {
	field := func() (any, bool) {
		switch c.Path {
		case "status.s":
			if o.S != nil {
				return *o.S, true
			}
		case "status.n":
			if o.N != nil {
				return *o.N, true
			}
		case "status.b":
			if o.B != nil {
				return *o.B, true
			}
		}
		return nil, false
	}
	b := func(x bool) string {
		if x {
			return "true"
		}
		return "false"
	}
	switch c.Type {
	case "None":
		return "true"
	case "NonEmpty":
		if c.Path == "" {
			return "error"
		}
		_, ok := field()
		return b(ok)
	case "MatchString":
		if c.MS == "" || c.Path == "" {
			return "error"
		}
		v, ok := field()
		if !ok {
			return "false"
		}
		s, isS := v.(string)
		if !isS {
			return "error"
		}
		return b(s == c.MS)
	case "MatchInteger":
		if c.MI == 0 || c.Path == "" {
			return "error"
		}
		v, ok := field()
		if !ok {
			return "false"
		}
		n, isN := v.(int64)
		if !isN {
			return "error"
		}
		return b(n == c.MI)
	case "MatchTrue", "MatchFalse":
		if c.Path == "" {
			return "error"
		}
		v, ok := field()
		if !ok {
			return "false"
		}
		x, isB := v.(bool)
		if !isB {
			return "error"
		}
		return b(x == (c.Type == "MatchTrue"))
	case "MatchCondition":
		if !c.HasCond {
			return "error"
		}
		st := "Unknown"
		for _, k := range o.Conds {
			if k.Type == c.CT {
				st = k.Status
			}
		}
		return b(st == c.CS)
	}
	return "error"
}

func c05RunReady(s c05ReadyScn) (c05ReadyObs, []Mon) {
	var mons []Mon
	res, p := c05RCall(s.Obj, s.Checks)
	if p != "" {
		mons = append(mons, Mon{Sig: "C05:panic", Why: p})
	}
	if res == "true" {
		if len(s.Checks) == 0 {
			ready := false
			for _, k := range s.Obj.Conds {
				if k.Type == "Ready" && k.Status == "True" {
					ready = true
				}
			}
			if !ready {
				mons = append(mons, Mon{Sig: "C05:resource-ready-despite-failing-readiness-check", Why: "no readiness checks and no Ready=True condition, but the resource counts as ready"})
			}
		}
		for i, c := range s.Checks {
			// every single check must hold: by the harness's own reading, and by the code's own
			// verdict on that check alone
			if o := c05ROracle(s.Obj, c); o != "true" {
				mons = append(mons, Mon{Sig: "C05:resource-ready-despite-failing-readiness-check", Why: fmt.Sprintf("the resource counts as ready although readiness check %d (%s %s) is %s", i, c.Type, c.Path, o)})
				break
			}
			if one, _ := c05RCall(s.Obj, []c05RCheck{c}); one != "true" {
				mons = append(mons, Mon{Sig: "C05:resource-ready-despite-failing-readiness-check", Why: fmt.Sprintf("the resource counts as ready with all %d checks although check %d (%s %s) alone gives %s", len(s.Checks), i, c.Type, c.Path, one)})
				break
			}
		}
	}
	return c05ReadyObs{Result: res}, mons
}

func c05ReadyCls(s c05ReadyScn, o c05ReadyObs) string {
	return fmt.Sprintf("ready/checks=%d/%s", len(s.Checks), o.Result)
}

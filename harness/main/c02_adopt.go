//go:build verif

package main

// C02, site "xwE": the XR world (harness/main/xrworld.go, read-only here) with a THIRD PARTY
// that takes a composed resource over between two API calls of one reconcile.
//
// A scenario is an XR-world scenario plus, for one round, an adoption: immediately before API
// call k of that reconcile (simstore's Before hook, i.e. after call k-1 has been answered) the
// composed resource kind/name gets a controller reference to another owner (Store.Mutate: the
// resourceVersion moves on, as on a real API server). The REAL composite.Reconciler with the
// REAL function / P&T composer runs against it; the observation (complete API-call trace,
// references, objects, result per round) is compared with the Lean model Xp.C02World
// (Xp.C01.reconcile over a store with resourceVersions, run with Xp.runE).
//
// Direct monitors (evaluated on the real store around EVERY API call, independent of the
// model): a write that changes or deletes a composed resource that is controlled by another
// owner AT THE MOMENT OF THE WRITE is a violation. Two windows are recorded findings of the
// unchanged code and keep their own signatures:
//   C02:composer-deleted-resource-taken-over-after-label-cleanup   (D36) Delete right after this
//       reconcile's own successful label clean-up Update of an object that was not foreign then
//   C02:composer-took-back-resource-taken-over-after-apply-read    (D37) P&T merge patch right
//       after the Apply's own Get of an object that was not foreign then
// everything else (an Update applied to a foreign object, a Delete after a refused clean-up,
// a write after a re-read that showed the foreign controller, ...) is
//   C02:composer-wrote-adopted-resource.

import (
	"encoding/json"
	"fmt"
	"strings"

	metav1 "k8s.io/apimachinery/pkg/apis/meta/v1"
	"k8s.io/apimachinery/pkg/apis/meta/v1/unstructured"
	"k8s.io/apimachinery/pkg/runtime/schema"
)

type c02Adopt struct {
	Round int    `json:"round"`
	K     int    `json:"k"`
	Kind  string `json:"kind"` // model kind (KA, KB, KA2)
	Name  string `json:"name"`
}

type c02XwEScn struct {
	Xw    xwScn      `json:"xw"`
	Adopt []c02Adopt `json:"adopt"`
}

const c02AdopterUID = "adopter-uid"

// c02DoAdopt is the third party's write: the controller reference now names another owner.
func c02DoAdopt(w *xwWorld, a c02Adopt) {
	tr := true
	w.St.Mutate(xwKindGVK(a.Kind).GroupKind(), "", a.Name, func(u *unstructured.Unstructured) {
		if c := metav1.GetControllerOf(u); c != nil && string(c.UID) != w.XRUID {
			return // already somebody else's
		}
		refs := []metav1.OwnerReference{}
		for _, r := range u.GetOwnerReferences() {
			if r.Controller == nil || !*r.Controller {
				refs = append(refs, r)
			}
		}
		refs = append(refs, metav1.OwnerReference{APIVersion: xwGroup + "/v1", Kind: xwXRGVK.Kind, Name: "another-xr", UID: c02AdopterUID, Controller: &tr, BlockOwnerDeletion: &tr})
		u.SetOwnerReferences(refs)
	})
}

type c02LastOK struct {
	verb    string
	pt      string
	foreign bool // the object was controlled by another owner when that call completed
}

// c02RunXwE runs the scenario; returns the observation, the monitors and a class string.
func c02RunXwE(s *c02XwEScn) (c01Obs, []Mon, string) {
	w := xwNewWorld(s.Xw)
	obs := c01Obs{}
	var mons []Mon
	seen := map[string]bool{}
	mon := func(sig, why string) {
		if !seen[sig] {
			seen[sig] = true
			mons = append(mons, Mon{Sig: sig, Why: why})
		}
	}
	cls := "none"
	foreignNow := func(gk schema.GroupKind, name string) (bool, string) {
		u := w.St.Peek(gk, "", name)
		if u == nil {
			return false, ""
		}
		c := metav1.GetControllerOf(u)
		return c != nil && string(c.UID) != w.XRUID, mustJSON(u.Object)
	}
	for i := range s.Xw.Rounds {
		var ad *c02Adopt
		for j := range s.Adopt {
			if s.Adopt[j].Round == i {
				ad = &s.Adopt[j]
			}
		}
		lastOK := map[string]c02LastOK{}
		var preForeign bool
		var preBytes string
		var preKey string
		w.St.Before = func(c CallInfo) {
			if ad != nil && c.Index == ad.K {
				c02DoAdopt(w, *ad)
			}
			preKey = ""
			gk := schema.ParseGroupKind(c.GK)
			if gk.Kind == xwXRGVK.Kind || c.Name == "" {
				return
			}
			preKey = c.GK + "/" + c.Name
			preForeign, preBytes = foreignNow(gk, c.Name)
		}
		check := func() {
			if len(w.St.Log) == 0 || preKey == "" {
				return
			}
			c := w.St.Log[len(w.St.Log)-1]
			if c.GK+"/"+c.Name != preKey {
				return
			}
			gk := schema.ParseGroupKind(c.GK)
			nowForeign, nowBytes := foreignNow(gk, c.Name)
			if c.IsWrite() && !c.DryRun && preForeign && nowBytes != preBytes {
				what := "modified"
				if nowBytes == "" {
					what = "deleted"
				}
				d := fmt.Sprintf("call %d (%s %s/%s %s) %s an object that was controlled by another owner at that moment", c.Index, c.Verb, xwModelKind(gk.Group, gk.Kind), c.Name, c.PatchType, what)
				prev := lastOK[preKey]
				switch {
				case c.Verb == "delete" && prev.verb == "update" && !prev.foreign:
					mon("C02:composer-deleted-resource-taken-over-after-label-cleanup", d+" (taken over between this reconcile's own label clean-up Update and the Delete)")
				case c.Verb == "patch" && c.PatchType == "merge" && prev.verb == "get" && !prev.foreign:
					mon("C02:composer-took-back-resource-taken-over-after-apply-read", d+" (taken over between the Apply's Get and its merge patch)")
				default:
					mon("C02:composer-wrote-adopted-resource", d+fmt.Sprintf("; the latest call of this reconcile that succeeded on it was %q (object foreign then: %v)", prev.verb, prev.foreign))
				}
			}
			if c.Outcome == "ok" && c.Err == "" {
				lastOK[preKey] = c02LastOK{verb: c.Verb, pt: c.PatchType, foreign: nowForeign}
			}
		}
		o := w.xwRunRound(s.Xw.Mode, &s.Xw.Rounds[i], check)
		w.St.Before = nil
		if ad != nil {
			// where the adoption fell relative to this reconcile's calls on that object
			prevV, nextV := "none", "none"
			for k, c := range o.Calls {
				f := strings.Fields(c)
				if len(f) < 2 || f[1] != ad.Kind+"/"+ad.Name {
					continue
				}
				v := f[0]
				if strings.HasSuffix(c, ">conflict") {
					v += "!409"
				}
				if k < ad.K {
					prevV = v
				} else if nextV == "none" {
					nextV = v
				}
			}
			cls = prevV + ".." + nextV
		}
		obs.Rounds = append(obs.Rounds, o)
	}
	return obs, mons, cls
}

// c02XwEGen: a world with a few composed resources the XR controls (or nobody controls), a
// desired state that keeps some and drops others, and one adoption aimed (by a pilot run of the
// same scenario without the third party) at the calls this reconcile addresses to one of them.
func c02XwEGen(r *Rng) c02XwEScn {
	s := xwScn{Mode: Pick(r, []string{"fn", "pt"}), Fin: r.Chance(3, 4), Refs: []xwRef{}, Objs: []xwObj{}}
	i := 0
	for _, n := range c01RNames {
		if !r.Chance(3, 5) {
			continue
		}
		i++
		o := xwObj{Kind: c01KindOf[n], Name: fmt.Sprintf("xr-pre%d", i), Annot: n, Ctrl: "xr", Content: r.Intn(3), SSA: s.Mode == "fn"}
		switch r.Intn(8) {
		case 0:
			o.Ctrl = "none"
		case 1:
			o.Fin = true
		case 2:
			o.Ctrl = "other"
		}
		s.Objs = append(s.Objs, o)
		s.Refs = append(s.Refs, xwRef{Kind: o.Kind, Name: o.Name})
	}
	if len(s.Objs) == 0 {
		s.Objs = append(s.Objs, xwObj{Kind: "KA", Name: "xr-pre1", Annot: "a", Ctrl: "xr", SSA: s.Mode == "fn"})
		s.Refs = append(s.Refs, xwRef{Kind: "KA", Name: "xr-pre1"})
	}
	n := r.Range(1, 2)
	for j := 0; j < n; j++ {
		rd := xwRound{Desired: c01Desired(r)}
		if r.Chance(1, 5) {
			rd.Fault = &xwFault{K: r.Intn(12), O: Pick(r, []string{"fail", "conflict", "crashBefore", "crashAfter"})}
		}
		if j == 0 && r.Chance(1, 5) {
			o := Pick(r, s.Objs)
			rd.Miss = []xwRef{{Kind: o.Kind, Name: o.Name}}
		}
		s.Rounds = append(s.Rounds, rd)
	}
	out := c02XwEScn{Xw: s}
	// pilot: the same scenario without the third party tells where this reconcile touches the target
	var pilot c02XwEScn
	b, _ := json.Marshal(out)
	_ = json.Unmarshal(b, &pilot)
	pobs, _, _ := c02RunXwE(&pilot)
	round := r.Intn(len(s.Rounds))
	cands := []xwObj{}
	for _, o := range s.Objs {
		if o.Ctrl != "other" {
			cands = append(cands, o)
		}
	}
	if len(cands) == 0 {
		return out
	}
	t := Pick(r, cands)
	ks := []int{}
	if round < len(pobs.Rounds) {
		for k, c := range pobs.Rounds[round].Calls {
			f := strings.Fields(c)
			if len(f) >= 2 && f[1] == t.Kind+"/"+t.Name {
				ks = append(ks, k, k+1)
			}
		}
	}
	k := r.Intn(12)
	if len(ks) > 0 && r.Chance(7, 8) {
		k = Pick(r, ks)
	}
	out.Adopt = []c02Adopt{{Round: round, K: k, Kind: t.Kind, Name: t.Name}}
	// A fault in the adoption round is kept only when no name can be generated in that round
	// (round 0, every desired resource has a referenced object the XR may observe, and the
	// adopted object is not desired): xrworld reconstructs which desired resource a FAILED
	// name probe belonged to from the state at the start of the round, which an adoption before
	// the observation invalidates.
	if rd := &out.Xw.Rounds[round]; rd.Fault != nil {
		keep := round == 0
		observed := map[string]bool{}
		for _, o := range s.Objs {
			if o.Ctrl != "other" && o.Annot != "" && !(o.Kind == t.Kind && o.Name == t.Name) {
				observed[o.Annot] = true
			}
		}
		for _, d := range rd.Desired {
			if !observed[d.RName] {
				keep = false
			}
		}
		if !keep {
			rd.Fault = nil
		}
	}
	return out
}

//go:build verif

package main

// C10 "compose" scenarios: the real PTComposer.Compose over simstore with
// templates some of which fail to render (a failing from-XR patch, a missing
// name-prefix label, a failing name generator); a recording client in front of
// the store logs every write attempt, what is sent with it (the created object,
// the body of the merge patch) and what the store holds afterwards, and injects
// Invalid / other errors for chosen resources. Existing resources hold a
// generated (stale) spec, patches carry merge options.
//
// Monitors evaluated on the real run, without the model:
//   unrendered-applied / rendered-not-applied / reference-dropped – on the write log;
//   present-source-skipped, half-rendered-applied – every template is rendered on its own,
//     patch by patch, with the real Apply: a patch whose source resolves must fail or write its
//     destination, and a resource one of whose patches did not take effect must not be written;
//   apply-depends-on-other-template – the real Compose is run again on each template alone
//     (same XR, same existing resource): what is sent for it must be the same.

import (
	"bytes"
	"context"
	"encoding/json"
	"errors"
	"fmt"
	"reflect"
	"sort"
	"strings"

	corev1 "k8s.io/api/core/v1"
	kerrors "k8s.io/apimachinery/pkg/api/errors"
	kmeta "k8s.io/apimachinery/pkg/api/meta"
	"k8s.io/apimachinery/pkg/apis/meta/v1/unstructured"
	"k8s.io/apimachinery/pkg/runtime"
	"k8s.io/apimachinery/pkg/runtime/schema"
	"k8s.io/apimachinery/pkg/types"
	kjson "k8s.io/apimachinery/pkg/util/json"
	"sigs.k8s.io/controller-runtime/pkg/client"

	"github.com/crossplane/crossplane-runtime/pkg/fieldpath"
	"github.com/crossplane/crossplane-runtime/pkg/resource"
	ucomposed "github.com/crossplane/crossplane-runtime/pkg/resource/unstructured/composed"
	ucomposite "github.com/crossplane/crossplane-runtime/pkg/resource/unstructured/composite"

	v1 "github.com/crossplane/crossplane/apis/apiextensions/v1"
	"github.com/crossplane/crossplane/internal/controller/apiextensions/composite"
	"github.com/crossplane/crossplane/internal/names"
)

type c10Tpl struct {
	Name          *string    `json:"name"`
	BaseSrc       string     `json:"baseSrc"`
	Base          any        `json:"base"`
	Patches       []c10Patch `json:"patches"`
	RefKind       string     `json:"refKind"`
	RefAPIVersion string     `json:"refApiVersion"`
	RefName       string     `json:"refName"`
	NameGen       string     `json:"nameGen"` // "fail", or the name the generator hands out
	Apply         string     `json:"apply"`   // ok | invalid | error
	Status        any        `json:"status"`  // status of the stored resource (existing ones only)
	CurSpec       any        `json:"curSpec"` // spec of the stored resource (existing ones only; default {"stored":"x"})
	Cur           any        `json:"cur"`     // filled by the harness: the stored resource as the API server returns it
	// Unserved: the template's kind ("Ghost") is one the API server does not serve (CRD not
	// installed): every Get, Create and Patch of it is answered with a NoKindMatchError. Only for
	// templates without an existing resource; the REAL name generator (internal/names) runs for
	// it - its availability probe meets that error, so name generation fails (nameGen = "fail").
	Unserved bool `json:"unserved,omitempty"`
}

const c10GhostKind = "Ghost"

func c10NoKindMatch(kind string) error {
	return &kmeta.NoKindMatchError{GroupKind: schema.GroupKind{Group: "example.org", Kind: kind}, SearchedVersions: []string{"v1"}}
}

type c10ComposeScn struct {
	XR          any      `json:"xr"`
	Tpls        []c10Tpl `json:"tpls"`
	UpdateFails bool     `json:"updateFails"`
}

type c10Write struct {
	Verb   string `json:"verb"`
	Target string `json:"target"`
}

// c10RecClient records write attempts and injects faults per target resource.
type c10RecClient struct {
	*Store
	target func(kind, name string) string
	fault  map[string]string // target -> "invalid" | "error"
	writes []c10Write
	// what was sent for composed resources (created object / merge-patch body), in write order,
	// with the template it was sent for
	bodies   []any
	bodyOf   map[string]any
	stored   []any // spec held by the store after every accepted write to a composed resource
	storedOf map[string]any
}

// Get: a kind the API server does not serve has no REST mapping.
func (c *c10RecClient) Get(ctx context.Context, key client.ObjectKey, obj client.Object, opts ...client.GetOption) error {
	if kind := obj.GetObjectKind().GroupVersionKind().Kind; kind == c10GhostKind {
		return c10NoKindMatch(kind)
	}
	return c.Store.Get(ctx, key, obj, opts...)
}

func (c *c10RecClient) note(verb string, obj client.Object, body any) (string, error) {
	kind := obj.GetObjectKind().GroupVersionKind().Kind
	t := c.target(kind, obj.GetName())
	c.writes = append(c.writes, c10Write{Verb: verb, Target: t})
	if kind == c10GhostKind {
		return t, c10NoKindMatch(kind)
	}
	if body != nil && t != "xr" {
		c.bodies = append(c.bodies, body)
		if c.bodyOf == nil {
			c.bodyOf = map[string]any{}
		}
		c.bodyOf[t] = body
	}
	switch c.fault[t] {
	case "invalid":
		return t, kerrors.NewInvalid(schema.GroupKind{Group: "example.org", Kind: kind}, obj.GetName(), nil)
	case "error":
		return t, errors.New("injected failure")
	}
	return t, nil
}

// accepted records what the store holds for a composed resource after a write it accepted.
func (c *c10RecClient) accepted(t string, obj client.Object) {
	if t == "xr" {
		return
	}
	gvk := obj.GetObjectKind().GroupVersionKind()
	var spec any
	if u := c.Store.Peek(gvk.GroupKind(), obj.GetNamespace(), obj.GetName()); u != nil {
		spec = c10Enc(c10MaskNumbers(c10CopyMap(u.Object)["spec"]))
	}
	c.stored = append(c.stored, spec)
	if c.storedOf == nil {
		c.storedOf = map[string]any{}
	}
	c.storedOf[t] = spec
}

func (c *c10RecClient) Create(ctx context.Context, obj client.Object, opts ...client.CreateOption) error {
	var body any
	if u, ok := obj.(runtime.Unstructured); ok {
		body = c10Enc(c10CopyMap(u.UnstructuredContent()))
	}
	t, err := c.note("create", obj, body)
	if err != nil {
		return err
	}
	if err := c.Store.Create(ctx, obj, opts...); err != nil {
		return err
	}
	c.accepted(t, obj)
	return nil
}

func (c *c10RecClient) Update(ctx context.Context, obj client.Object, opts ...client.UpdateOption) error {
	if _, err := c.note("update", obj, nil); err != nil {
		return err
	}
	return c.Store.Update(ctx, obj, opts...)
}

func (c *c10RecClient) Patch(ctx context.Context, obj client.Object, p client.Patch, opts ...client.PatchOption) error {
	var body any
	if data, err := p.Data(obj); err == nil {
		d := json.NewDecoder(bytes.NewReader(data))
		d.UseNumber()
		var v any
		if d.Decode(&v) == nil {
			body = c10Enc(c10Dec(v))
		}
	}
	t, err := c.note("patch", obj, body)
	if err != nil {
		return err
	}
	if err := c.Store.Patch(ctx, obj, p, opts...); err != nil {
		return err
	}
	c.accepted(t, obj)
	return nil
}

func (c *c10RecClient) Delete(ctx context.Context, obj client.Object, opts ...client.DeleteOption) error {
	if _, err := c.note("delete", obj, nil); err != nil {
		return err
	}
	return c.Store.Delete(ctx, obj, opts...)
}

func c10ComposeErrClass(err error) string {
	if err == nil {
		return ""
	}
	msg := err.Error()
	switch {
	case strings.Contains(msg, "cannot parse base template"):
		return "parseBase"
	case strings.Contains(msg, "cannot apply composed resource"):
		return "apply"
	case strings.Contains(msg, "cannot render ToComposite patches"):
		return "toXR"
	case strings.Contains(msg, "cannot update composite resource"):
		return "update"
	}
	return "other:" + msg
}

const c10XRUID = "uid-xr"

var c10ThingGK = schema.GroupKind{Group: "example.org", Kind: "Thing"}

// c10ComposeXR is the content of the composite resource handed to the store for a reconcile
// over the templates `sel` (indices into cs.Tpls): the harness owns identity and references.
func c10ComposeXR(cs *c10ComposeScn, sel []int) map[string]any {
	xrC, _ := c10Dec(cs.XR).(map[string]any)
	xrC = c10CopyMap(xrC)
	xrC["apiVersion"], xrC["kind"] = "example.org/v1", "XThing"
	md, _ := xrC["metadata"].(map[string]any)
	if md == nil {
		md = map[string]any{}
	}
	md["name"] = "my-xr"
	md["uid"] = c10XRUID
	xrC["metadata"] = md
	spec, _ := xrC["spec"].(map[string]any)
	if spec == nil {
		spec = map[string]any{}
	}
	refs := []any{}
	for _, i := range sel {
		ref := map[string]any{"apiVersion": "example.org/v1", "kind": "Thing"}
		if cs.Tpls[i].Unserved {
			ref["kind"] = c10GhostKind
		}
		if cs.Tpls[i].RefName != "" {
			ref["name"] = cs.Tpls[i].RefName
		}
		refs = append(refs, ref)
	}
	spec["resourceRefs"] = refs
	xrC["spec"] = spec
	return xrC
}

// c10SeedExisting stores the existing composed resource of template t.
func c10SeedExisting(st *Store, t *c10Tpl) {
	anno := map[string]any{}
	if t.Name != nil {
		anno["crossplane.io/composition-resource-name"] = *t.Name
	}
	var spec any = map[string]any{"stored": "x"}
	if cs, ok := c10Dec(t.CurSpec).(map[string]any); ok && cs != nil {
		spec = c10CopyMap(cs)
	}
	o := map[string]any{
		"apiVersion": "example.org/v1", "kind": "Thing",
		"metadata": map[string]any{
			"name": t.RefName, "annotations": anno,
			"labels":          map[string]any{"crossplane.io/composite": "my-xr"},
			"ownerReferences": []any{map[string]any{"apiVersion": "example.org/v1", "kind": "XThing", "name": "my-xr", "uid": c10XRUID, "controller": true, "blockOwnerDeletion": true}},
		},
		"spec": spec,
	}
	if stt := c10Dec(t.Status); stt != nil {
		o["status"] = stt
	}
	st.Seed(&unstructured.Unstructured{Object: o})
}

// c10ComposeOut is what one real PTComposer.Compose did.
type c10ComposeOut struct {
	revMutated string
	ec         string
	noMatch    bool // Compose returned an error caused by a no-match (unserved kind) error
	pn         string
	cl         *c10RecClient
	xr         *ucomposite.Unstructured
	synced     []any
}

// c10ComposeOnce runs the real PTComposer.Compose for the templates `sel` of the scenario (in
// that order) over a fresh store holding the XR and the existing resources of those templates.
// Write targets are reported as indices into cs.Tpls. With `faults` the scenario's injected
// API-server answers apply.
func c10ComposeOnce(cs *c10ComposeScn, sel []int, faults bool) (*c10ComposeOut, error) {
	st := NewStore(runtime.NewScheme())
	st.Seed(&unstructured.Unstructured{Object: c10ComposeXR(cs, sel)})
	xr := ucomposite.New()
	if err := st.Get(context.Background(), types.NamespacedName{Name: "my-xr"}, xrGet(xr)); err != nil {
		return nil, err
	}
	nameIdx := map[string]int{}
	for _, i := range sel {
		t := &cs.Tpls[i]
		if t.RefName != "" {
			nameIdx[t.RefName] = i
			c10SeedExisting(st, t)
		} else if t.NameGen != "" && t.NameGen != "fail" {
			nameIdx[t.NameGen] = i
		}
	}
	cl := &c10RecClient{Store: st, fault: map[string]string{}}
	cl.target = func(kind, name string) string {
		if kind == "XThing" {
			return "xr"
		}
		if i, ok := nameIdx[name]; ok {
			return fmt.Sprint(i)
		}
		return "?" + name
	}
	if faults {
		if cs.UpdateFails {
			cl.fault["xr"] = "error"
		}
		for _, i := range sel {
			if a := cs.Tpls[i].Apply; a == "invalid" || a == "error" {
				cl.fault[fmt.Sprint(i)] = a
			}
		}
	}
	// the name oracle: the k-th template's resource gets the scenario's name or a failure
	call := 0
	namer := names.NameGeneratorFn(func(_ context.Context, cd resource.Object) error {
		k := call
		call++
		if cd.GetName() != "" || cd.GetGenerateName() == "" {
			return nil
		}
		if k < len(sel) && cs.Tpls[sel[k]].Unserved {
			// the real generator of internal/names against the API server that does not serve the kind
			return names.NewNameGenerator(cl).GenerateName(context.Background(), cd)
		}
		if k >= len(sel) || cs.Tpls[sel[k]].NameGen == "fail" || cs.Tpls[sel[k]].NameGen == "" {
			return errors.New("cannot generate a name")
		}
		cd.SetName(cs.Tpls[sel[k]].NameGen)
		return nil
	})
	rev := &v1.CompositionRevision{}
	for _, i := range sel {
		t := cs.Tpls[i]
		ct := v1.ComposedTemplate{Name: t.Name, Base: runtime.RawExtension{Raw: []byte(t.BaseSrc)}}
		for _, p := range t.Patches {
			ct.Patches = append(ct.Patches, c10RealPatch(p))
		}
		rev.Spec.Resources = append(rev.Spec.Resources, ct)
	}
	comp := composite.NewPTComposer(cl, cl, composite.WithComposedNameGenerator(namer))
	out := &c10ComposeOut{cl: cl, xr: xr, synced: []any{}}
	// the revision as the API server delivers it (decoded from JSON: the decoder's slice capacities)
	rev = c10WireRevision(rev)
	snap := c10SnapshotRevision(rev)
	var res composite.CompositionResult
	var cerr error
	out.pn = Guard(func() {
		res, cerr = comp.Compose(context.Background(), xr, composite.CompositionRequest{Revision: rev})
	})
	out.revMutated = c10RevisionMutated(snap, rev)
	out.ec = c10ComposeErrClass(cerr)
	out.noMatch = cerr != nil && (kmeta.IsNoMatchError(errors.Unwrap(cerr)) || strings.Contains(cerr.Error(), "no matches for kind"))
	if out.pn != "" {
		out.ec = "panic"
	}
	if out.ec == "" {
		for _, c := range res.Composed {
			out.synced = append(out.synced, c.Synced)
		}
	}
	return out, nil
}

// c10TplRender is what rendering ONE template on its own with the real functions gives
// (RenderFromJSON, then its from-XR patches one by one, metadata, the name oracle).
type c10TplRender struct {
	obj        *ucomposed.Unstructured // the rendered resource (name set when the generator hands one out)
	parseErr   bool
	unrendered bool // a from-XR patch, the metadata rendering or the name generation failed
	// some from-XR patch that is not an optional patch with a missing source did not take
	// effect (it failed, or it neither failed nor wrote its destination)
	halfRendered bool
	skipped      bool // a patch whose source is present was treated as a no-op
	readsRefs    bool // a from-XR patch reads the whole spec or the resource references of the XR
}

func c10IsFromXR(p *c10Patch) bool {
	return p.Type == "FromCompositeFieldPath" || p.Type == "CombineFromComposite"
}

// c10SourcePaths: the source path(s) of a patch, nil when the patch is malformed.
func c10SourcePaths(p *c10Patch) []c10Path {
	switch p.Type {
	case "", "FromCompositeFieldPath", "ToCompositeFieldPath":
		if p.From == nil {
			return nil
		}
		return []c10Path{*p.From}
	case "CombineFromComposite", "CombineToComposite":
		if p.Combine == nil || p.To == nil || len(p.Combine.Vars) == 0 {
			return nil
		}
		return p.Combine.Vars
	}
	return nil
}

// c10SourceState reads the source path(s): present = all resolve; missing = the first one that
// cannot be read is not found.
func c10SourceState(p *c10Patch, src map[string]any) (present, missing bool) {
	paths := c10SourcePaths(p)
	if paths == nil {
		return false, false
	}
	for _, sp := range paths {
		if _, err := c10Lookup(src, sp.Raw); err != nil {
			return false, fieldpath.IsNotFound(err)
		}
	}
	return true, false
}

func c10Optional(p *c10Patch) bool {
	return p.Policy == nil || p.Policy.From == nil || *p.Policy.From == "Optional"
}

// c10JSONNorm is what a value looks like once it is part of an unstructured object that went
// through JSON (integral floats are int64).
func c10JSONNorm(v any) (any, bool) {
	b, err := json.Marshal(map[string]any{"x": v})
	if err != nil {
		return nil, false
	}
	m := map[string]any{}
	if err := kjson.Unmarshal(b, &m); err != nil {
		return nil, false
	}
	return m["x"], true
}

// c10DestHolds: after a patch that reported success, does the destination object hold the
// patched value at the destination path? (Judged on the object only: for a destination without
// wildcard and merge options the value itself is compared, otherwise that the path(s) resolve.)
// The second result is false when there is nothing to judge (a destination path without segments).
func c10DestHolds(p *c10Patch, dstAfter map[string]any, out any) (holds, judged bool) {
	to := p.To
	if to == nil {
		to = p.From
	}
	if to == nil {
		return true, false
	}
	segs, err := fieldpath.Parse(to.Raw)
	if err != nil || len(segs) == 0 {
		return true, false
	}
	combine := p.Type == "CombineFromComposite" || p.Type == "CombineToComposite"
	want, ok := c10JSONNorm(out)
	if !ok {
		return true, false
	}
	if strings.Contains(to.Raw, "[*]") && !combine {
		var ex []string
		var xerr error
		if pn := Guard(func() { ex, xerr = fieldpath.Pave(c10CopyMap(dstAfter)).ExpandWildcards(to.Raw) }); pn != "" {
			return true, false
		}
		if xerr != nil || len(ex) == 0 {
			return false, true
		}
		for _, path := range ex {
			if _, err := c10Lookup(dstAfter, path); err != nil {
				return false, true
			}
		}
		return true, true
	}
	got, err := c10Lookup(dstAfter, to.Raw)
	if err != nil {
		return false, true
	}
	if combine || c10RealMO(p.Policy) == nil {
		return reflect.DeepEqual(c10Enc(got), c10Enc(want)), true
	}
	return true, true
}

// c10PresentSourceSkipped evaluates, on one real Apply of a patch that was not filtered out,
// the clause "only an optional patch whose SOURCE path is missing is a no-op": the source
// path(s) resolve and the transforms succeed (`reached`, `out` = the value to be written), yet
// the patch reported success, left the destination object untouched and the destination does
// not hold the value.
func c10PresentSourceSkipped(p *c10Patch, reached bool, out any, ec string, dstBefore, dstAfter map[string]any) bool {
	if !reached || ec != "" || !reflect.DeepEqual(dstBefore, dstAfter) {
		return false
	}
	holds, judged := c10DestHolds(p, dstAfter, out)
	return judged && !holds
}

// c10RenderAlone renders template i on its own, patch by patch, filling the oracle tables of
// its patches on the way (a from-XR patch with merge options merges into whatever the base and
// the earlier patches left at its destination).
func c10RenderAlone(cs *c10ComposeScn, i int, xrC map[string]any, mons *[]Mon) *c10TplRender {
	t := &cs.Tpls[i]
	out := &c10TplRender{}
	r := ucomposed.New(ucomposed.FromReference(corev1.ObjectReference{APIVersion: t.RefAPIVersion, Kind: t.RefKind, Name: t.RefName}))
	out.obj = r
	xrc := &ucomposite.Unstructured{Unstructured: unstructured.Unstructured{Object: c10CopyMap(xrC)}}
	var e1 error
	Guard(func() { e1 = composite.RenderFromJSON(r, []byte(t.BaseSrc)) })
	shadowCD := map[string]any{"metadata": map[string]any{"name": c10Or(t.RefName, t.NameGen)}}
	if st := c10Dec(t.Status); st != nil && t.RefName != "" {
		shadowCD["status"] = st
	}
	stopped := false
	for j := range t.Patches {
		p := &t.Patches[j]
		c10PrepPatch(p)
		if !c10IsFromXR(p) {
			// to-XR patches (and the ones the from-XR filter drops) read the stored resource
			c10FillPatchOracles(p, xrC, shadowCD, nil)
			continue
		}
		for _, sp := range c10SourcePaths(p) {
			if segs, err := fieldpath.Parse(sp.Raw); err == nil && len(segs) >= 1 && segs[0].Field == "spec" &&
				(len(segs) == 1 || segs[1].Field == "resourceRefs") {
				out.readsRefs = true
			}
		}
		if e1 != nil || stopped {
			c10FillPatchOracles(p, xrC, c10CopyMap(r.Object), nil)
			continue
		}
		before := c10CopyMap(r.Object)
		reached := c10FillPatchOracles(p, xrC, before, nil)
		var err error
		pn := Guard(func() {
			err = composite.Apply(c10RealPatch(*p), xrc, r, v1.PatchTypeFromCompositeFieldPath, v1.PatchTypeCombineFromComposite)
		})
		ec := c10ErrClass(err)
		if pn != "" {
			ec = "panic"
		}
		if mons != nil && !reflect.DeepEqual(xrc.Object, xrC) {
			*mons = append(*mons, Mon{Sig: "C10:source-modified", Why: fmt.Sprintf("template %d patch %d: the composite resource was modified by a patch that reads from it", i, j)})
			xrc.Object = c10CopyMap(xrC)
		}
		_, missing := c10SourceState(p, xrC)
		if c10PresentSourceSkipped(p, reached, p.out, ec, before, r.Object) {
			out.skipped = true
			out.halfRendered = true
			if mons != nil {
				*mons = append(*mons, Mon{Sig: "C10:present-source-skipped", Why: fmt.Sprintf("template %d patch %d: the source resolves on the XR, the patch reported success, yet the destination was not written", i, j)})
			}
		}
		if ec != "" {
			if !(missing && c10Optional(p)) {
				out.halfRendered = true
			}
			// RenderFromCompositePatches stops at the first error
			stopped = true
		} else if !reached && !(missing && c10Optional(p)) {
			// the source cannot be read or transformed, yet no error
			out.halfRendered = true
		}
	}
	if e1 != nil {
		out.parseErr = true
		return out
	}
	// the verdict of the real render functions on a fresh object
	r2 := ucomposed.New(ucomposed.FromReference(corev1.ObjectReference{APIVersion: t.RefAPIVersion, Kind: t.RefKind, Name: t.RefName}))
	var e2, e3 error
	Guard(func() {
		if composite.RenderFromJSON(r2, []byte(t.BaseSrc)) != nil {
			return
		}
		var ps []v1.Patch
		for _, p := range t.Patches {
			ps = append(ps, c10RealPatch(p))
		}
		e2 = composite.RenderFromCompositePatches(r2, xrc, ps)
		e3 = composite.RenderComposedResourceMetadata(r2, xrc, composite.ResourceName(c10Deref(t.Name)))
	})
	nameFails := r2.GetName() == "" && r2.GetGenerateName() != "" && (t.NameGen == "fail" || t.NameGen == "")
	out.unrendered = e2 != nil || e3 != nil || nameFails
	if r2.GetName() == "" && r2.GetGenerateName() != "" && !nameFails {
		r2.SetName(t.NameGen)
	}
	out.obj = r2
	return out
}

// c10FillApplyOracles computes, for an existing resource, the mergo verdicts the apply options
// of template t's own patches need: every option is `withMergeOptions(toFieldPath, mergeOptions)`
// run against the stored resource and the rendered one; the operands are read before each
// option, the verdict comes from crossplane-runtime's MergeValue on a scratch object, and the
// rendered object is stepped forward with the real mergeReplace.
//
// The result is the object the apply options leave to be sent (false: an option failed) - built
// from the real mergeReplace alone, it is the reference the monitor sent-differs-from-rendered
// compares the body of the real Compose with.
func c10FillApplyOracles(t *c10Tpl, cur map[string]any, rendered *ucomposed.Unstructured) (*ucomposed.Unstructured, bool) {
	desired := &ucomposed.Unstructured{Unstructured: unstructured.Unstructured{Object: c10CopyMap(rendered.Object)}}
	current := &ucomposed.Unstructured{Unstructured: unstructured.Unstructured{Object: c10CopyMap(cur)}}
	for j := range t.Patches {
		p := &t.Patches[j]
		p.ApplyOrc = nil
		if !c10IsFromXR(p) || p.Policy == nil || p.To == nil {
			continue
		}
		mo := c10RealMO(p.Policy)
		if mo != nil {
			v, e1 := c10Lookup(desired.Object, p.To.Raw)
			d, e2 := c10Lookup(current.Object, p.To.Raw)
			if e1 == nil && e2 == nil && v != nil && d != nil {
				e := map[string]any{"dst": c10Enc(d), "src": c10Enc(v)}
				scratch := fieldpath.Pave(map[string]any{"x": c10Copy(d)})
				var merr error
				pn := Guard(func() { merr = scratch.MergeValue("x", c10Copy(v), mo) })
				if pn == "" && merr == nil {
					if r, gerr := scratch.GetValue("x"); gerr == nil {
						e["out"] = c10Enc(r)
					}
				}
				p.ApplyOrc = append(p.ApplyOrc, e)
			}
		}
		var err error
		if pn := Guard(func() { err = composite.VerifC10MergeReplace(p.To.Raw, current, desired, mo) }); pn != "" || err != nil {
			return desired, false
		}
	}
	return desired, true
}

func c10RunCompose(s *c10Scn) (any, []Mon, string) {
	cs := s.Compose
	all := make([]int, len(cs.Tpls))
	allNamed := true
	for i, t := range cs.Tpls {
		all[i] = i
		allNamed = allNamed && t.Name != nil
	}
	// read the XR back from the store: this is the object Compose is handed (server-set metadata included)
	st0 := NewStore(runtime.NewScheme())
	st0.Seed(&unstructured.Unstructured{Object: c10ComposeXR(cs, all)})
	xr0 := ucomposite.New()
	if err := st0.Get(context.Background(), types.NamespacedName{Name: "my-xr"}, xrGet(xr0)); err != nil {
		return map[string]any{}, []Mon{{Sig: "C10:harness", Why: "cannot read the seeded XR: " + err.Error()}}, "trivial/harness-error"
	}
	xrC := c10CopyMap(xr0.Object)
	cs.XR = c10Enc(xrC)

	// prepare templates: decoded bases, parsed paths, oracle tables, the stored resources
	var mons []Mon
	rnd := make([]*c10TplRender, len(cs.Tpls))
	for i := range cs.Tpls {
		t := &cs.Tpls[i]
		if allNamed && t.RefName == "" {
			// the by-name associator leaves the reference of a template without a resource empty
			t.RefKind, t.RefAPIVersion = "", ""
		} else if t.Unserved {
			t.RefKind, t.RefAPIVersion = c10GhostKind, "example.org/v1"
		} else if t.RefKind == "" {
			t.RefKind, t.RefAPIVersion = "Thing", "example.org/v1"
		}
		t.Base = c10DecodeBase(t.BaseSrc)
		if stt := c10Dec(t.Status); stt != nil && t.RefName != "" {
			t.Status = c10Enc(stt)
		} else {
			t.Status = nil
		}
		t.Cur = nil
		if t.RefName != "" {
			if csp, ok := c10Dec(t.CurSpec).(map[string]any); ok && csp != nil {
				t.CurSpec = c10Enc(csp)
			} else {
				t.CurSpec = c10Enc(map[string]any{"stored": "x"})
			}
			c10SeedExisting(st0, t)
			if u := st0.Peek(c10ThingGK, "", t.RefName); u != nil {
				t.Cur = c10Enc(c10CopyMap(u.Object))
			}
		} else {
			t.CurSpec = nil
		}
		// render the template on its own with the real functions (fills the patch oracles)
		rnd[i] = c10RenderAlone(cs, i, xrC, &mons)
		if t.RefName != "" && !rnd[i].parseErr && !rnd[i].unrendered {
			cur, _ := c10Dec(t.Cur).(map[string]any)
			c10FillApplyOracles(t, cur, rnd[i].obj)
		}
	}

	// ---- the real reconcile
	run, err := c10ComposeOnce(cs, all, true)
	if err != nil {
		return map[string]any{}, []Mon{{Sig: "C10:harness", Why: "cannot read the seeded XR: " + err.Error()}}, "trivial/harness-error"
	}
	cl, xr, ec, pn := run.cl, run.xr, run.ec, run.pn
	if pn != "" {
		mons = append(mons, Mon{Sig: "C10:panic", Why: "Compose panicked: " + c10Short(pn)})
	}
	if strings.HasPrefix(ec, "other:") {
		mons = append(mons, Mon{Sig: "C10:unclassified-error", Why: ec})
	}
	// A composed resource whose name generation failed is skipped "while the other resources still
	// are" composed: a new resource of a kind the API server does not serve cannot be given a
	// verified name, so it must be left out of this reconcile - Compose must not come back with
	// that kind's no-match error, and the templates after it must still be written.
	for i := range cs.Tpls {
		if !cs.Tpls[i].Unserved || cs.Tpls[i].RefName != "" || !run.noMatch {
			continue
		}
		seen := map[string]bool{}
		for _, w := range cl.writes {
			seen[w.Target] = true
		}
		left := []string{}
		for j := i + 1; j < len(cs.Tpls); j++ {
			if !seen[fmt.Sprint(j)] {
				left = append(left, fmt.Sprint(j))
			}
		}
		mons = append(mons, Mon{Sig: "C10:name-failure-blocks-other-templates", Why: fmt.Sprintf("template %d is a new resource of a kind the API server does not serve (its name cannot be generated): instead of skipping it Compose failed with that kind's no-match error (%s); templates never written in this reconcile: %v", i, ec, left)})
		break
	}
	if run.revMutated != "" {
		mons = append(mons, Mon{Sig: "C10:revision-mutated", Why: "Compose wrote to the CompositionRevision it was handed: " + run.revMutated})
	}
	if pn == "" && !reflect.DeepEqual(c10UserPart(xr.Object), c10UserPart(xrC)) {
		mons = append(mons, Mon{Sig: "C10:source-modified", Why: "the spec or the metadata of the composite resource was modified by Compose"})
	}
	obs := map[string]any{"err": ec}
	writes := []any{}
	for _, w := range cl.writes {
		writes = append(writes, map[string]any{"verb": w.Verb, "target": w.Target})
	}
	obs["writes"] = writes
	if cl.bodies == nil {
		cl.bodies = []any{}
	}
	obs["bodies"] = cl.bodies
	if cl.stored == nil {
		cl.stored = []any{}
	}
	obs["stored"] = cl.stored
	orefs := []any{}
	if ec != "parseBase" {
		for _, r := range xr.GetResourceReferences() {
			orefs = append(orefs, map[string]any{"kind": r.Kind, "name": r.Name})
		}
	}
	obs["refs"] = orefs
	obs["synced"] = run.synced

	// ---- direct monitors
	parseOK := true
	nun, nex := 0, 0
	moKinds := map[string]bool{}
	for i, t := range cs.Tpls {
		if rnd[i].parseErr {
			parseOK = false
		}
		if rnd[i].unrendered {
			nun++
		}
		if t.RefName != "" {
			nex++
		}
		for _, p := range t.Patches {
			if c10IsFromXR(&p) && p.Policy != nil && p.To != nil {
				mo := p.Policy.MO
				switch {
				case mo == nil:
					moKinds["policy"] = true
				case mo.Append != nil && *mo.Append && mo.Keep != nil && *mo.Keep:
					moKinds["both"] = true
				case mo.Append != nil && *mo.Append:
					moKinds["append"] = true
				case mo.Keep != nil && *mo.Keep:
					moKinds["keep"] = true
				default:
					moKinds["plain"] = true
				}
			}
		}
	}
	if parseOK && pn == "" {
		wrote := map[string]bool{}
		for _, w := range cl.writes {
			wrote[w.Target] = true
			if strings.HasPrefix(w.Target, "?") {
				mons = append(mons, Mon{Sig: "C10:write-to-unknown-resource", Why: "a write was addressed to " + w.Target})
			}
		}
		for i, t := range cs.Tpls {
			ti := fmt.Sprint(i)
			if rnd[i].unrendered && wrote[ti] {
				mons = append(mons, Mon{Sig: "C10:unrendered-applied", Why: "template " + ti + " failed to render but a write was addressed to its resource"})
			}
			if rnd[i].halfRendered && wrote[ti] {
				mons = append(mons, Mon{Sig: "C10:half-rendered-applied", Why: "a from-XR patch of template " + ti + " (not an optional patch with a missing source) did not take effect, yet its resource was created or updated"})
			}
			if !rnd[i].unrendered && ec == "" && !wrote[ti] {
				mons = append(mons, Mon{Sig: "C10:rendered-not-applied", Why: "template " + ti + " rendered and the reconcile succeeded but its resource was not written"})
			}
			if t.RefName != "" && ec != "parseBase" {
				got := xr.GetResourceReferences()
				if i >= len(got) || got[i].Name != t.RefName {
					mons = append(mons, Mon{Sig: "C10:reference-dropped", Why: "the reference to the existing resource of template " + ti + " was not kept"})
				}
			}
		}
		// purity of the apply step: what is sent for template j must not depend on the other
		// templates. Re-run the real Compose on template j alone against the same XR and the same
		// existing resource j and compare what is sent for j. (Not judged for a template that
		// reads the XR's resource references, which name the other templates' resources.)
		if len(cs.Tpls) > 1 {
			for j := range cs.Tpls {
				tj := fmt.Sprint(j)
				full, sentFull := cl.bodyOf[tj]
				if !sentFull || rnd[j].readsRefs {
					continue
				}
				alone, err := c10ComposeOnce(cs, []int{j}, false)
				if err != nil || alone.pn != "" {
					continue
				}
				single, sentAlone := alone.cl.bodyOf[tj]
				if !sentAlone {
					mons = append(mons, Mon{Sig: "C10:apply-depends-on-other-template", Why: "template " + tj + ": composed together with the other templates its resource is written, composed alone (same XR, same existing resource) it is not"})
					continue
				}
				if !reflect.DeepEqual(full, single) {
					mons = append(mons, Mon{Sig: "C10:apply-depends-on-other-template", Why: "template " + tj + ": what is sent for its resource differs between composing it together with the other templates and composing it alone (same XR, same existing resource): " + c10Short(mustJSON(full)) + " vs " + c10Short(mustJSON(single))})
				}
			}
		}
	}
	// apply options of the composition: policy = a policy without merge options, plain = merge
	// options with no flag set, append / keep / both
	kinds := make([]string, 0, len(moKinds))
	for k := range moKinds {
		kinds = append(kinds, k)
	}
	sort.Strings(kinds)
	opts := "none"
	switch {
	case len(kinds) == 1:
		opts = kinds[0]
	case len(kinds) > 1:
		opts = "mixed"
	}
	if nex == 0 {
		// no existing resource: the apply options never run
		opts += "-allnew"
	}
	unserved := ""
	for i := range cs.Tpls {
		if cs.Tpls[i].Unserved {
			unserved = "unserved-kind/"
			if i+1 < len(cs.Tpls) {
				unserved = "unserved-kind-then-others/"
			}
			break
		}
	}
	return obs, mons, fmt.Sprintf("compose/%sopts=%s/unrendered=%d/%s", unserved, opts, c10Cap(nun, 1), c10Or(ec, "ok"))
}

// c10MaskNumbers: the simulated API server decodes a merge patch through float64, so integers
// beyond 2^53 lose precision in the STORED object (the body that is sent is compared exactly).
// Floats and integers of that magnitude are not compared in the stored object.
func c10MaskNumbers(v any) any {
	switch x := v.(type) {
	case int64:
		if x >= 1<<53 || x <= -(1<<53) {
			return "$num"
		}
		return x
	case float64:
		return "$num"
	case []any:
		out := make([]any, len(x))
		for i := range x {
			out[i] = c10MaskNumbers(x[i])
		}
		return out
	case map[string]any:
		out := make(map[string]any, len(x))
		for k, e := range x {
			out[k] = c10MaskNumbers(e)
		}
		return out
	}
	return v
}

func c10Cap(n, m int) int {
	if n > m {
		return m
	}
	return n
}

func xrGet(xr *ucomposite.Unstructured) client.Object {
	xr.SetGroupVersionKind(schema.GroupVersionKind{Group: "example.org", Version: "v1", Kind: "XThing"})
	return xr
}

func c10Deref(s *string) string {
	if s == nil {
		return ""
	}
	return *s
}

// ---------------------------------------------------------------- generator

// c10GenMO draws merge options: appendSlice, keepMapValues, both, explicit false, empty.
func c10GenMO(r *Rng) *c10MO {
	switch r.Intn(6) {
	case 0:
		return &c10MO{Append: c10P(true)}
	case 1:
		return &c10MO{Keep: c10P(true)}
	case 2:
		return &c10MO{Append: c10P(true), Keep: c10P(true)}
	case 3:
		return &c10MO{Append: c10P(r.Bool()), Keep: c10P(r.Bool())}
	case 4:
		return &c10MO{}
	}
	return &c10MO{Append: c10P(true), Keep: c10P(false)}
}

// c10GenComposeShared draws a composition whose templates patch the SAME destination paths
// from the same XR fields with different policies (none / policy without merge options /
// appendSlice / keepMapValues / both), most of them for resources that already exist and hold
// stale values at those paths (entries since removed from the XR's lists, changed map values),
// and wildcard destinations over a list that is populated, empty, absent or an explicit null.
func c10GenComposeShared(r *Rng) *c10Scn {
	alpha := []string{"a", "b", "c", "stale", "d"}
	pickList := func(max int) []any {
		l := []any{}
		for i, n := 0, r.Intn(max+1); i < n; i++ {
			l = append(l, Pick(r, alpha))
		}
		return l
	}
	pickMap := func() map[string]any {
		m := map[string]any{}
		for i, n := 0, r.Intn(4); i < n; i++ {
			m[Pick(r, []string{"env", "team", "tier", "k"})] = Pick(r, []any{"prod", "dev", "x", int64(1)})
		}
		return m
	}
	sp := map[string]any{"region": Pick(r, []string{"eu-west-1", "us-east-1a"})}
	if !r.Chance(1, 8) {
		sp["groups"] = pickList(3)
	}
	if !r.Chance(1, 8) {
		sp["tags"] = pickMap()
	}
	if r.Chance(1, 2) {
		sp["nested"] = map[string]any{"list": pickList(2), "m": pickMap()}
	}
	xr := map[string]any{"spec": sp, "metadata": map[string]any{"labels": map[string]any{"crossplane.io/composite": "my-xr"}}}
	cs := &c10ComposeScn{XR: c10Enc(xr)}
	type pair struct{ from, to string }
	pairs := []pair{
		{"spec.groups", "spec.forProvider.groups"}, {"spec.groups", "spec.forProvider.groups"},
		{"spec.tags", "spec.forProvider.tags"}, {"spec.tags", "spec.forProvider.tags"},
		{"spec.nested", "spec.forProvider.nested"}, {"spec.region", "spec.forProvider.region"},
		{"spec.region", "spec.rules[*].owner"}, {"spec.groups", "spec.rules[*].groups"},
		{"spec.groups[0]", "spec.forProvider.groups[0]"}, {"spec.missing", "spec.forProvider.groups"},
	}
	n := r.Range(2, 4)
	named := r.Chance(2, 3)
	for i := 0; i < n; i++ {
		t := c10Tpl{RefAPIVersion: "example.org/v1", RefKind: "Thing", Apply: "ok", NameGen: fmt.Sprintf("gen-%d", i)}
		if named {
			t.Name = c10P(fmt.Sprintf("res-%d", i))
		}
		fp := map[string]any{}
		if r.Chance(1, 3) {
			fp["groups"] = pickList(2)
		}
		if r.Chance(1, 3) {
			fp["tags"] = pickMap()
		}
		bspec := map[string]any{"forProvider": fp}
		switch r.Intn(6) {
		case 0:
			bspec["rules"] = nil
		case 1:
			bspec["rules"] = []any{}
		case 2, 3:
			bspec["rules"] = []any{map[string]any{"port": int64(80)}, map[string]any{"port": int64(443), "owner": "x"}}
		}
		t.BaseSrc = mustJSON(map[string]any{"apiVersion": "example.org/v1", "kind": "Thing", "spec": bspec})
		if r.Chance(4, 5) {
			t.RefName = fmt.Sprintf("cd-%d", i)
			cfp := map[string]any{}
			if !r.Chance(1, 5) {
				cfp["groups"] = Pick(r, []any{pickList(3), pickList(3), []any{"a", "stale"}, "scalar", nil})
			}
			if !r.Chance(1, 5) {
				cfp["tags"] = Pick(r, []any{pickMap(), pickMap(), map[string]any{"env": "old", "gone": "y"}, []any{"x"}})
			}
			if r.Chance(1, 3) {
				cfp["nested"] = map[string]any{"list": pickList(3), "m": pickMap()}
			}
			if r.Chance(1, 3) {
				cfp["region"] = "old-region"
			}
			cur := map[string]any{"forProvider": cfp}
			if r.Chance(1, 2) {
				cur["rules"] = Pick(r, []any{[]any{map[string]any{"port": int64(80), "owner": "old"}}, []any{}, nil})
			}
			t.CurSpec = c10Enc(cur)
			if r.Chance(1, 3) {
				t.Status = c10Enc(map[string]any{"id": "abc-123"})
			}
		}
		for j, m := 0, r.Range(1, 3); j < m; j++ {
			pr := Pick(r, pairs)
			p := c10Patch{Type: "FromCompositeFieldPath", From: &c10Path{Raw: pr.from}, To: &c10Path{Raw: pr.to}}
			switch r.Intn(6) {
			case 0, 1:
				// no policy: the destination is replaced
			case 2:
				p.Policy = &c10Policy{From: c10P(Pick(r, []string{"Optional", "Required"}))}
			default:
				p.Policy = &c10Policy{MO: c10GenMO(r)}
				if r.Chance(1, 4) {
					p.Policy.From = c10P(Pick(r, []string{"Optional", "Required"}))
				}
			}
			if r.Chance(1, 10) {
				p.Type = "CombineFromComposite"
				p.From = nil
				p.Combine = &c10Combine{Strategy: "string", Fmt: c10P("%v-%v"), Vars: []c10Path{{Raw: "spec.region"}, {Raw: pr.from}}}
				if strings.Contains(pr.to, "[*]") {
					p.To = &c10Path{Raw: "spec.forProvider.combined"}
				}
			}
			t.Patches = append(t.Patches, p)
		}
		if r.Chance(1, 4) {
			t.Patches = append(t.Patches, c10Patch{Type: "ToCompositeFieldPath", From: &c10Path{Raw: "status.id"}, To: &c10Path{Raw: "status.id"}})
		}
		if r.Chance(1, 12) {
			t.Apply = Pick(r, []string{"invalid", "error"})
		}
		cs.Tpls = append(cs.Tpls, t)
	}
	return &c10Scn{Kind: "compose", Compose: cs}
}

func c10GenComposeScn(r *Rng) *c10Scn {
	if r.Chance(2, 5) {
		return c10GenComposeShared(r)
	}
	xr := map[string]any{"spec": c10GenObj(r, 2)}
	// make some well-known fields present most of the time so that patches succeed often
	sp := xr["spec"].(map[string]any)
	if r.Chance(3, 4) {
		sp["region"] = Pick(r, []string{"eu-west-1", "us-east-1a", "abc"})
	}
	if r.Chance(3, 4) {
		sp["size"] = Pick(r, c10Ints)
	}
	if r.Chance(1, 2) {
		sp["enabled"] = r.Bool()
	}
	md := map[string]any{}
	if !r.Chance(1, 12) {
		l := map[string]any{"crossplane.io/composite": "my-xr"}
		if r.Bool() {
			l["crossplane.io/claim-name"] = "claim"
			l["crossplane.io/claim-namespace"] = "team-a"
		}
		md["labels"] = l
	}
	xr["metadata"] = md
	cs := &c10ComposeScn{XR: c10Enc(xr), UpdateFails: r.Chance(1, 15)}
	n := r.Range(1, 4)
	named := r.Chance(2, 3)
	for i := 0; i < n; i++ {
		t := c10Tpl{RefAPIVersion: "example.org/v1", RefKind: "Thing", Apply: "ok"}
		if named {
			t.Name = c10P(fmt.Sprintf("res-%d", i))
		}
		existing := r.Chance(1, 2)
		if existing {
			t.RefName = fmt.Sprintf("cd-%d", i)
			if r.Chance(2, 3) {
				t.Status = c10Enc(map[string]any{"id": Pick(r, []any{"abc-123", int64(7), true}), "atProvider": c10GenObj(r, 1)})
			}
			if r.Chance(3, 4) {
				// what the API server holds: an earlier rendering that has gone stale
				cur := c10GenObj(r, 2)
				if r.Chance(1, 2) {
					cur["forProvider"] = map[string]any{"region": Pick(r, []any{"old-region", int64(3), []any{"a"}})}
				}
				if r.Chance(1, 3) {
					cur["list"] = Pick(r, []any{[]any{"x", "y", "z"}, []any{}, "scalar"})
				}
				if r.Chance(1, 3) {
					cur["m"] = Pick(r, []any{map[string]any{"k": "old", "j": int64(1)}, []any{int64(1)}, nil})
				}
				if r.Chance(1, 3) {
					cur["tags"] = []any{map[string]any{"v": "old", "w": true}, map[string]any{"v": "second"}}
				}
				t.CurSpec = c10Enc(cur)
			}
		}
		t.NameGen = fmt.Sprintf("gen-%d", i)
		if r.Chance(1, 6) {
			t.NameGen = "fail"
		}
		// a new resource of a kind the API server does not serve (provider not installed yet)
		unserved := !existing && r.Chance(1, 7)
		switch r.Intn(10) {
		case 0:
			t.Apply = "invalid"
		case 1:
			t.Apply = "error"
		}
		base := map[string]any{"apiVersion": "example.org/v1", "kind": "Thing", "spec": c10GenObj(r, 2)}
		if r.Chance(1, 3) {
			base["metadata"] = map[string]any{"labels": map[string]any{"app": "x"}, "name": "ignored"}
		}
		if r.Chance(1, 30) {
			base["kind"] = "Other"
		}
		if unserved {
			t.Unserved, t.NameGen, t.RefKind, t.RefAPIVersion = true, "fail", c10GhostKind, "example.org/v1"
			base["kind"] = c10GhostKind
		}
		t.BaseSrc = mustJSON(base)
		if r.Chance(1, 40) {
			t.BaseSrc = "{bad"
		}
		cdShadow := map[string]any{"apiVersion": "example.org/v1", "kind": "Thing", "spec": base["spec"], "status": c10Dec(t.Status), "metadata": map[string]any{"name": "x"}}
		for j, m := 0, r.Intn(4); j < m; j++ {
			p := &c10Patch{}
			switch r.Intn(8) {
			case 0, 1, 2, 3:
				p.Type = Pick(r, []string{"FromCompositeFieldPath", "FromCompositeFieldPath", ""})
				p.From = &c10Path{Raw: c10GenComposeFrom(r, xr)}
				if r.Chance(2, 3) || !strings.HasPrefix(p.From.Raw, "spec") {
					p.To = &c10Path{Raw: "spec." + Pick(r, []string{"forProvider.region", "size", "a", "list[1]", "m.k", "tags[0].v"})}
				}
				if v, ok := c10ValueAt(xr, p.From.Raw); ok {
					p.Xfs = c10GenChain(r, v, 2)
				}
			case 4:
				p.Type = "CombineFromComposite"
				p.Combine = &c10Combine{Strategy: "string", Fmt: c10P(Pick(r, []string{"%s-%s", "%v/%v", "%s-%d"})), Vars: []c10Path{{Raw: c10GenComposeFrom(r, xr)}, {Raw: c10GenComposeFrom(r, xr)}}}
				p.To = &c10Path{Raw: "spec.combined"}
			default:
				p.Type = "ToCompositeFieldPath"
				p.From = &c10Path{Raw: Pick(r, []string{"status.id", "status.atProvider.a", "status.missing", "metadata.name", "status.atProvider"})}
				p.To = &c10Path{Raw: "status." + Pick(r, []string{"id", "observed.x", "list[0]"})}
				if v, ok := c10ValueAt(cdShadow, p.From.Raw); ok && r.Chance(1, 3) {
					p.Xfs = c10GenChain(r, v, 1)
				}
			}
			switch r.Intn(5) {
			case 0:
				p.Policy = &c10Policy{From: c10P("Required")}
			case 1:
				p.Policy = &c10Policy{From: c10P("Optional")}
			}
			if (p.Type == "FromCompositeFieldPath" || p.Type == "CombineFromComposite") && r.Chance(1, 3) {
				// merge options (from-XR patches only: the final apply of the XR is outside the model)
				if p.Policy == nil {
					p.Policy = &c10Policy{}
				}
				p.Policy.MO = c10GenMO(r)
			}
			t.Patches = append(t.Patches, *p)
		}
		cs.Tpls = append(cs.Tpls, t)
	}
	return &c10Scn{Kind: "compose", Compose: cs}
}

// c10GenComposeFrom picks a source path under spec (patches that overwrite the composed
// resource's metadata – and with it its identity – are outside the compose model).
func c10GenComposeFrom(r *Rng, xr map[string]any) string {
	if r.Chance(1, 2) {
		return "spec." + Pick(r, []string{"region", "size", "enabled", "missing"})
	}
	sp, _ := xr["spec"].(map[string]any)
	if r.Chance(1, 8) {
		return Pick(r, []string{"metadata.name", "metadata.labels[crossplane.io/composite]", "metadata.missing"})
	}
	p := c10GenPath(r, map[string]any{"spec": sp}, false)
	if !strings.HasPrefix(p, "spec") {
		return "spec.region"
	}
	return p
}

var _ = sort.Strings
var _ = reflect.DeepEqual

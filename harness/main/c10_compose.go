//go:build verif

package main

// C10 "compose" scenarios: the real PTComposer.Compose over simstore with
// templates some of which fail to render (a failing from-XR patch, a missing
// name-prefix label, a failing name generator); a recording client in front of
// the store logs every write attempt and injects Invalid / other errors for
// chosen resources. The monitor evaluates "an unrendered resource is neither
// created nor updated while the others are, and its reference is kept"
// directly on the write log.

import (
	"context"
	"errors"
	"fmt"
	"reflect"
	"sort"
	"strings"

	corev1 "k8s.io/api/core/v1"
	kerrors "k8s.io/apimachinery/pkg/api/errors"
	"k8s.io/apimachinery/pkg/apis/meta/v1/unstructured"
	"k8s.io/apimachinery/pkg/runtime"
	"k8s.io/apimachinery/pkg/runtime/schema"
	"k8s.io/apimachinery/pkg/types"
	"sigs.k8s.io/controller-runtime/pkg/client"

	"github.com/crossplane/crossplane-runtime/pkg/resource"
	ucomposed "github.com/crossplane/crossplane-runtime/pkg/resource/unstructured/composed"
	ucomposite "github.com/crossplane/crossplane-runtime/pkg/resource/unstructured/composite"

	v1 "github.com/crossplane/crossplane/apis/apiextensions/v1"
	"github.com/crossplane/crossplane/internal/controller/apiextensions/composite"
	"github.com/crossplane/crossplane/internal/names"
)

type c10Tpl struct {
	Name          *string    `json:"name"`
	BaseSrc       string     `json:"baseSrc"`
	Base          any        `json:"base"`
	Patches       []c10Patch `json:"patches"`
	RefKind       string     `json:"refKind"`
	RefAPIVersion string     `json:"refApiVersion"`
	RefName       string     `json:"refName"`
	NameGen       string     `json:"nameGen"` // "fail", or the name the generator hands out
	Apply         string     `json:"apply"`   // ok | invalid | error
	Status        any        `json:"status"`  // status of the stored resource (existing ones only)
}

type c10ComposeScn struct {
	XR          any      `json:"xr"`
	Tpls        []c10Tpl `json:"tpls"`
	UpdateFails bool     `json:"updateFails"`
}

type c10Write struct {
	Verb   string `json:"verb"`
	Target string `json:"target"`
}

// c10RecClient records write attempts and injects faults per target resource.
type c10RecClient struct {
	*Store
	target func(kind, name string) string
	fault  map[string]string // target -> "invalid" | "error"
	writes []c10Write
	bodies []any
}

func (c *c10RecClient) note(verb string, obj client.Object) (string, error) {
	kind := obj.GetObjectKind().GroupVersionKind().Kind
	t := c.target(kind, obj.GetName())
	c.writes = append(c.writes, c10Write{Verb: verb, Target: t})
	if verb == "create" {
		if u, ok := obj.(runtime.Unstructured); ok {
			c.bodies = append(c.bodies, c10Enc(c10CopyMap(u.UnstructuredContent())))
		}
	}
	switch c.fault[t] {
	case "invalid":
		return t, kerrors.NewInvalid(schema.GroupKind{Group: "example.org", Kind: kind}, obj.GetName(), nil)
	case "error":
		return t, errors.New("injected failure")
	}
	return t, nil
}

func (c *c10RecClient) Create(ctx context.Context, obj client.Object, opts ...client.CreateOption) error {
	if _, err := c.note("create", obj); err != nil {
		return err
	}
	return c.Store.Create(ctx, obj, opts...)
}

func (c *c10RecClient) Update(ctx context.Context, obj client.Object, opts ...client.UpdateOption) error {
	if _, err := c.note("update", obj); err != nil {
		return err
	}
	return c.Store.Update(ctx, obj, opts...)
}

func (c *c10RecClient) Patch(ctx context.Context, obj client.Object, p client.Patch, opts ...client.PatchOption) error {
	if _, err := c.note("patch", obj); err != nil {
		return err
	}
	return c.Store.Patch(ctx, obj, p, opts...)
}

func (c *c10RecClient) Delete(ctx context.Context, obj client.Object, opts ...client.DeleteOption) error {
	if _, err := c.note("delete", obj); err != nil {
		return err
	}
	return c.Store.Delete(ctx, obj, opts...)
}

func c10ComposeErrClass(err error) string {
	if err == nil {
		return ""
	}
	msg := err.Error()
	switch {
	case strings.Contains(msg, "cannot parse base template"):
		return "parseBase"
	case strings.Contains(msg, "cannot apply composed resource"):
		return "apply"
	case strings.Contains(msg, "cannot render ToComposite patches"):
		return "toXR"
	case strings.Contains(msg, "cannot update composite resource"):
		return "update"
	}
	return "other:" + msg
}

const c10XRUID = "uid-xr"

func c10RunCompose(s *c10Scn) (any, []Mon, string) {
	cs := s.Compose
	xrC, _ := c10Dec(cs.XR).(map[string]any)
	if xrC == nil {
		xrC = map[string]any{}
	}
	// the harness owns identity and references of the XR
	xrC["apiVersion"], xrC["kind"] = "example.org/v1", "XThing"
	md, _ := xrC["metadata"].(map[string]any)
	if md == nil {
		md = map[string]any{}
	}
	md["name"] = "my-xr"
	md["uid"] = c10XRUID
	xrC["metadata"] = md
	spec, _ := xrC["spec"].(map[string]any)
	if spec == nil {
		spec = map[string]any{}
	}
	refs := []any{}
	for _, t := range cs.Tpls {
		ref := map[string]any{"apiVersion": "example.org/v1", "kind": "Thing"}
		if t.RefName != "" {
			ref["name"] = t.RefName
		}
		refs = append(refs, ref)
	}
	spec["resourceRefs"] = refs
	xrC["spec"] = spec

	allNamed := true
	for _, t := range cs.Tpls {
		allNamed = allNamed && t.Name != nil
	}
	// read the XR back from the store: this is the object Compose is handed (server-set metadata included)
	st := NewStore(runtime.NewScheme())
	st.Seed(&unstructured.Unstructured{Object: c10CopyMap(xrC)})
	xr := ucomposite.New()
	if err := st.Get(context.Background(), types.NamespacedName{Name: "my-xr"}, xrGet(xr)); err != nil {
		return map[string]any{}, []Mon{{Sig: "C10:harness", Why: "cannot read the seeded XR: " + err.Error()}}, "trivial/harness-error"
	}
	xrC = c10CopyMap(xr.Object)
	cs.XR = c10Enc(xrC)

	// prepare templates: decoded bases, parsed paths, oracle tables
	nameIdx := map[string]int{}
	for i := range cs.Tpls {
		t := &cs.Tpls[i]
		if allNamed && t.RefName == "" {
			// the by-name associator leaves the reference of a template without a resource empty
			t.RefKind, t.RefAPIVersion = "", ""
		} else if t.RefKind == "" {
			t.RefKind, t.RefAPIVersion = "Thing", "example.org/v1"
		}
		t.Base = c10DecodeBase(t.BaseSrc)
		if t.RefName != "" {
			nameIdx[t.RefName] = i
		} else if t.NameGen != "" && t.NameGen != "fail" {
			nameIdx[t.NameGen] = i
		}
		shadowCD := map[string]any{"metadata": map[string]any{"name": c10Or(t.RefName, t.NameGen)}}
		if st := c10Dec(t.Status); st != nil && t.RefName != "" {
			shadowCD["status"] = st
			t.Status = c10Enc(st)
		} else {
			t.Status = nil
		}
		for j := range t.Patches {
			p := &t.Patches[j]
			c10PrepPatch(p)
			c10FillPatchOracles(p, xrC, shadowCD, nil)
		}
	}

	for _, t := range cs.Tpls {
		if t.RefName == "" {
			continue
		}
		anno := map[string]any{}
		if t.Name != nil {
			anno["crossplane.io/composition-resource-name"] = *t.Name
		}
		o := map[string]any{
			"apiVersion": "example.org/v1", "kind": "Thing",
			"metadata": map[string]any{
				"name": t.RefName, "annotations": anno,
				"labels": map[string]any{"crossplane.io/composite": "my-xr"},
				"ownerReferences": []any{map[string]any{"apiVersion": "example.org/v1", "kind": "XThing", "name": "my-xr", "uid": c10XRUID, "controller": true, "blockOwnerDeletion": true}},
			},
			"spec": map[string]any{"stored": "x"},
		}
		if stt := c10Dec(t.Status); stt != nil {
			o["status"] = stt
		}
		st.Seed(&unstructured.Unstructured{Object: o})
	}
	cl := &c10RecClient{Store: st, fault: map[string]string{}}
	cl.target = func(kind, name string) string {
		if kind == "XThing" {
			return "xr"
		}
		if i, ok := nameIdx[name]; ok {
			return fmt.Sprint(i)
		}
		return "?" + name
	}
	if cs.UpdateFails {
		cl.fault["xr"] = "error"
	}
	for i, t := range cs.Tpls {
		if t.Apply == "invalid" || t.Apply == "error" {
			cl.fault[fmt.Sprint(i)] = t.Apply
		}
	}
	// the name oracle: template i's resource gets the scenario's name or a failure
	call := 0
	namer := names.NameGeneratorFn(func(_ context.Context, cd resource.Object) error {
		i := call
		call++
		if cd.GetName() != "" || cd.GetGenerateName() == "" {
			return nil
		}
		if i >= len(cs.Tpls) || cs.Tpls[i].NameGen == "fail" || cs.Tpls[i].NameGen == "" {
			return errors.New("cannot generate a name")
		}
		cd.SetName(cs.Tpls[i].NameGen)
		return nil
	})
	rev := &v1.CompositionRevision{}
	for _, t := range cs.Tpls {
		ct := v1.ComposedTemplate{Name: t.Name, Base: runtime.RawExtension{Raw: []byte(t.BaseSrc)}}
		for _, p := range t.Patches {
			ct.Patches = append(ct.Patches, c10RealPatch(p))
		}
		rev.Spec.Resources = append(rev.Spec.Resources, ct)
	}
	comp := composite.NewPTComposer(cl, cl, composite.WithComposedNameGenerator(namer))
	var mons []Mon
	cl.writes, cl.bodies = nil, nil
	var res composite.CompositionResult
	var cerr error
	pn := Guard(func() { res, cerr = comp.Compose(context.Background(), xr, composite.CompositionRequest{Revision: rev}) })
	ec := c10ComposeErrClass(cerr)
	if pn != "" {
		mons = append(mons, Mon{Sig: "C10:panic", Why: "Compose panicked: " + c10Short(pn)})
		ec = "panic"
	}
	if strings.HasPrefix(ec, "other:") {
		mons = append(mons, Mon{Sig: "C10:unclassified-error", Why: ec})
	}
	obs := map[string]any{"err": ec}
	writes := []any{}
	for _, w := range cl.writes {
		writes = append(writes, map[string]any{"verb": w.Verb, "target": w.Target})
	}
	obs["writes"] = writes
	if cl.bodies == nil {
		cl.bodies = []any{}
	}
	obs["bodies"] = cl.bodies
	orefs := []any{}
	if ec != "parseBase" {
		for _, r := range xr.GetResourceReferences() {
			orefs = append(orefs, map[string]any{"kind": r.Kind, "name": r.Name})
		}
	}
	obs["refs"] = orefs
	synced := []any{}
	if ec == "" {
		for _, c := range res.Composed {
			synced = append(synced, c.Synced)
		}
	}
	obs["synced"] = synced

	// ---- direct monitor: which templates do not render, established by rendering each one
	// separately with the real functions
	unrendered := make([]bool, len(cs.Tpls))
	parseOK := true
	for i, t := range cs.Tpls {
		r := ucomposed.New(ucomposed.FromReference(corev1.ObjectReference{APIVersion: t.RefAPIVersion, Kind: t.RefKind, Name: t.RefName}))
		xrc := &ucomposite.Unstructured{Unstructured: unstructured.Unstructured{Object: c10CopyMap(xrC)}}
		var e1, e2, e3 error
		Guard(func() {
			e1 = composite.RenderFromJSON(r, []byte(t.BaseSrc))
			if e1 != nil {
				return
			}
			var ps []v1.Patch
			for _, p := range t.Patches {
				ps = append(ps, c10RealPatch(p))
			}
			e2 = composite.RenderFromCompositePatches(r, xrc, ps)
			e3 = composite.RenderComposedResourceMetadata(r, xrc, composite.ResourceName(c10Deref(t.Name)))
		})
		if e1 != nil {
			parseOK = false
		}
		nameFails := r.GetName() == "" && r.GetGenerateName() != "" && (t.NameGen == "fail" || t.NameGen == "")
		unrendered[i] = e2 != nil || e3 != nil || nameFails
	}
	if parseOK && pn == "" {
		wrote := map[string]bool{}
		for _, w := range cl.writes {
			wrote[w.Target] = true
			if strings.HasPrefix(w.Target, "?") {
				mons = append(mons, Mon{Sig: "C10:write-to-unknown-resource", Why: "a write was addressed to " + w.Target})
			}
		}
		for i, t := range cs.Tpls {
			ti := fmt.Sprint(i)
			if unrendered[i] && wrote[ti] {
				mons = append(mons, Mon{Sig: "C10:unrendered-applied", Why: "template " + ti + " failed to render but a write was addressed to its resource"})
			}
			if !unrendered[i] && ec == "" && !wrote[ti] {
				mons = append(mons, Mon{Sig: "C10:rendered-not-applied", Why: "template " + ti + " rendered and the reconcile succeeded but its resource was not written"})
			}
			if t.RefName != "" && ec != "parseBase" {
				got := xr.GetResourceReferences()
				if i >= len(got) || got[i].Name != t.RefName {
					mons = append(mons, Mon{Sig: "C10:reference-dropped", Why: "the reference to the existing resource of template " + ti + " was not kept"})
				}
			}
		}
	}
	nun := 0
	for _, u := range unrendered {
		if u {
			nun++
		}
	}
	return obs, mons, fmt.Sprintf("compose/n=%d/unrendered=%d/%s", len(cs.Tpls), nun, c10Or(ec, "ok"))
}

func xrGet(xr *ucomposite.Unstructured) client.Object {
	xr.SetGroupVersionKind(schema.GroupVersionKind{Group: "example.org", Version: "v1", Kind: "XThing"})
	return xr
}

func c10Deref(s *string) string {
	if s == nil {
		return ""
	}
	return *s
}

// ---------------------------------------------------------------- generator

func c10GenComposeScn(r *Rng) *c10Scn {
	xr := map[string]any{"spec": c10GenObj(r, 2)}
	// make some well-known fields present most of the time so that patches succeed often
	sp := xr["spec"].(map[string]any)
	if r.Chance(3, 4) {
		sp["region"] = Pick(r, []string{"eu-west-1", "us-east-1a", "abc"})
	}
	if r.Chance(3, 4) {
		sp["size"] = Pick(r, c10Ints)
	}
	if r.Chance(1, 2) {
		sp["enabled"] = r.Bool()
	}
	md := map[string]any{}
	if !r.Chance(1, 12) {
		l := map[string]any{"crossplane.io/composite": "my-xr"}
		if r.Bool() {
			l["crossplane.io/claim-name"] = "claim"
			l["crossplane.io/claim-namespace"] = "team-a"
		}
		md["labels"] = l
	}
	xr["metadata"] = md
	cs := &c10ComposeScn{XR: c10Enc(xr), UpdateFails: r.Chance(1, 15)}
	n := r.Range(1, 4)
	named := r.Chance(2, 3)
	for i := 0; i < n; i++ {
		t := c10Tpl{RefAPIVersion: "example.org/v1", RefKind: "Thing", Apply: "ok"}
		if named {
			t.Name = c10P(fmt.Sprintf("res-%d", i))
		}
		existing := r.Chance(1, 2)
		if existing {
			t.RefName = fmt.Sprintf("cd-%d", i)
			if r.Chance(2, 3) {
				t.Status = c10Enc(map[string]any{"id": Pick(r, []any{"abc-123", int64(7), true}), "atProvider": c10GenObj(r, 1)})
			}
		}
		t.NameGen = fmt.Sprintf("gen-%d", i)
		if r.Chance(1, 6) {
			t.NameGen = "fail"
		}
		switch r.Intn(10) {
		case 0:
			t.Apply = "invalid"
		case 1:
			t.Apply = "error"
		}
		base := map[string]any{"apiVersion": "example.org/v1", "kind": "Thing", "spec": c10GenObj(r, 2)}
		if r.Chance(1, 3) {
			base["metadata"] = map[string]any{"labels": map[string]any{"app": "x"}, "name": "ignored"}
		}
		if r.Chance(1, 30) {
			base["kind"] = "Other"
		}
		t.BaseSrc = mustJSON(base)
		if r.Chance(1, 40) {
			t.BaseSrc = "{bad"
		}
		cdShadow := map[string]any{"apiVersion": "example.org/v1", "kind": "Thing", "spec": base["spec"], "status": c10Dec(t.Status), "metadata": map[string]any{"name": "x"}}
		for j, m := 0, r.Intn(4); j < m; j++ {
			p := &c10Patch{}
			switch r.Intn(8) {
			case 0, 1, 2, 3:
				p.Type = Pick(r, []string{"FromCompositeFieldPath", "FromCompositeFieldPath", ""})
				p.From = &c10Path{Raw: c10GenComposeFrom(r, xr)}
				if r.Chance(2, 3) || !strings.HasPrefix(p.From.Raw, "spec") {
					p.To = &c10Path{Raw: "spec." + Pick(r, []string{"forProvider.region", "size", "a", "list[1]", "m.k", "tags[0].v"})}
				}
				if v, ok := c10ValueAt(xr, p.From.Raw); ok {
					p.Xfs = c10GenChain(r, v, 2)
				}
			case 4:
				p.Type = "CombineFromComposite"
				p.Combine = &c10Combine{Strategy: "string", Fmt: c10P(Pick(r, []string{"%s-%s", "%v/%v", "%s-%d"})), Vars: []c10Path{{Raw: c10GenComposeFrom(r, xr)}, {Raw: c10GenComposeFrom(r, xr)}}}
				p.To = &c10Path{Raw: "spec.combined"}
			default:
				p.Type = "ToCompositeFieldPath"
				p.From = &c10Path{Raw: Pick(r, []string{"status.id", "status.atProvider.a", "status.missing", "metadata.name", "status.atProvider"})}
				p.To = &c10Path{Raw: "status." + Pick(r, []string{"id", "observed.x", "list[0]"})}
				if v, ok := c10ValueAt(cdShadow, p.From.Raw); ok && r.Chance(1, 3) {
					p.Xfs = c10GenChain(r, v, 1)
				}
			}
			switch r.Intn(5) {
			case 0:
				p.Policy = &c10Policy{From: c10P("Required")}
			case 1:
				p.Policy = &c10Policy{From: c10P("Optional")}
			}
			t.Patches = append(t.Patches, *p)
		}
		cs.Tpls = append(cs.Tpls, t)
	}
	return &c10Scn{Kind: "compose", Compose: cs}
}

// c10GenComposeFrom picks a source path under spec (patches that overwrite the composed
// resource's metadata – and with it its identity – are outside the compose model).
func c10GenComposeFrom(r *Rng, xr map[string]any) string {
	if r.Chance(1, 2) {
		return "spec." + Pick(r, []string{"region", "size", "enabled", "missing"})
	}
	sp, _ := xr["spec"].(map[string]any)
	if r.Chance(1, 8) {
		return Pick(r, []string{"metadata.name", "metadata.labels[crossplane.io/composite]", "metadata.missing"})
	}
	p := c10GenPath(r, map[string]any{"spec": sp}, false)
	if !strings.HasPrefix(p, "spec") {
		return "spec.region"
	}
	return p
}

var _ = sort.Strings
var _ = reflect.DeepEqual

//go:build verif

package main

type c10ComposeScn struct{}

func c10GenComposeScn(r *Rng) *c10Scn { return c10GenResolveScn(r) }

func c10RunCompose(s *c10Scn) (any, []Mon, string) { return map[string]any{}, nil, "trivial/compose-stub" }

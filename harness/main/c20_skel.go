//go:build verif

package main

// C20 regenerated call skeletons (tie "a"): for EVERY Go function the C20 model mirrors, the
// ordered list of the calls the model cares about, extracted with go/ast (skel.go) from the
// CURRENT tree on every run and emitted into lean/Xp/Gen/C20Skel.lean. lean/Xp/Model/C20Skel.lean
// declares, next to the name of the model definition that mirrors each call, the skeleton the
// model was written from; lean/Xp/Props/C20.lean proves the two equal (`skeleton_*`), so that
// inserting, removing or reordering a call in one of these functions breaks an obligation
// before any scenario is run.

import (
	"bytes"
	"fmt"
	"go/ast"
	"go/parser"
	"go/printer"
	"go/token"
	"path/filepath"
	"reflect"
	"runtime"
	"strings"

	"github.com/crossplane/crossplane-runtime/pkg/resource"
)

// c20ModFile: the file a function of a dependency was COMPILED from (module cache), relative to
// the repo root so that SkelOf can be used on it.
func c20ModFile(fn any) string {
	f := runtime.FuncForPC(reflect.ValueOf(fn).Pointer())
	if f == nil {
		return "unknown"
	}
	file, _ := f.FileLine(f.Entry())
	rel, err := filepath.Rel(SkelRepo(), file)
	if err != nil {
		return file
	}
	return rel
}

func c20Only(names ...string) map[string]bool {
	m := map[string]bool{}
	for _, n := range names {
		m[n] = true
	}
	return m
}

// c20FirstArgs: the printed first argument of every call of `sel` (final selector name) in
// function fn of relFile, source order (which predicate resource.Ignore is given).
func c20FirstArgs(relFile, fn, sel string) []string {
	fset := token.NewFileSet()
	f, err := parser.ParseFile(fset, filepath.Join(SkelRepo(), relFile), nil, 0)
	if err != nil {
		return []string{"EXTRACTION FAILED: " + err.Error()}
	}
	out := []string{}
	found := false
	for _, d := range f.Decls {
		fd, ok := d.(*ast.FuncDecl)
		if !ok || fd.Name.Name != fn || fd.Body == nil {
			continue
		}
		found = true
		ast.Inspect(fd.Body, func(n ast.Node) bool {
			ce, ok := n.(*ast.CallExpr)
			if !ok {
				return true
			}
			se, ok := ce.Fun.(*ast.SelectorExpr)
			if !ok || se.Sel.Name != sel || len(ce.Args) == 0 {
				return true
			}
			var b bytes.Buffer
			_ = printer.Fprint(&b, fset, ce.Args[0])
			out = append(out, strings.Join(strings.Fields(b.String()), " "))
			return true
		})
	}
	if !found {
		return []string{"EXTRACTION FAILED: " + fn + " not found in " + relFile}
	}
	return out
}

// c20Args: the printed argument list of every call of `sel` (final selector name) in function fn of
// relFile, source order.
func c20Args(relFile, fn, sel string) []string {
	return c20Visit(relFile, fn, func(fset *token.FileSet, n ast.Node) (string, bool) {
		ce, ok := n.(*ast.CallExpr)
		if !ok {
			return "", false
		}
		se, ok := ce.Fun.(*ast.SelectorExpr)
		if !ok || se.Sel.Name != sel {
			return "", false
		}
		parts := []string{}
		for _, a := range ce.Args {
			parts = append(parts, c20Print(fset, a))
		}
		return strings.Join(parts, ", "), true
	})
}

// c20KeyVals: `key=value` for every key/value pair of a composite literal in function fn whose key is
// one of keys, source order (the fields of the x509 template the model's generator call mirrors).
func c20KeyVals(relFile, fn string, keys ...string) []string {
	want := c20Only(keys...)
	return c20Visit(relFile, fn, func(fset *token.FileSet, n ast.Node) (string, bool) {
		kv, ok := n.(*ast.KeyValueExpr)
		if !ok {
			return "", false
		}
		k, ok := kv.Key.(*ast.Ident)
		if !ok || !want[k.Name] {
			return "", false
		}
		return k.Name + "=" + c20Print(fset, kv.Value), true
	})
}

// c20Assigns: `name:=value` for every assignment to the variable `name` in function fn, source order.
func c20Assigns(relFile, fn, name string) []string {
	return c20Visit(relFile, fn, func(fset *token.FileSet, n ast.Node) (string, bool) {
		as, ok := n.(*ast.AssignStmt)
		if !ok || len(as.Lhs) != 1 || len(as.Rhs) != 1 {
			return "", false
		}
		if id, ok := as.Lhs[0].(*ast.Ident); !ok || id.Name != name {
			return "", false
		}
		return name + ":=" + c20Print(fset, as.Rhs[0]), true
	})
}

func c20Visit(relFile, fn string, f func(*token.FileSet, ast.Node) (string, bool)) []string {
	fset := token.NewFileSet()
	file, err := parser.ParseFile(fset, filepath.Join(SkelRepo(), relFile), nil, 0)
	if err != nil {
		return []string{"EXTRACTION FAILED: " + err.Error()}
	}
	out := []string{}
	found := false
	for _, d := range file.Decls {
		fd, ok := d.(*ast.FuncDecl)
		if !ok || fd.Name.Name != fn || fd.Body == nil {
			continue
		}
		found = true
		ast.Inspect(fd.Body, func(n ast.Node) bool {
			if n == nil {
				return true
			}
			if s, ok := f(fset, n); ok {
				out = append(out, s)
			}
			return true
		})
	}
	if !found {
		return []string{"EXTRACTION FAILED: " + fn + " not found in " + relFile}
	}
	return out
}

func init() {
	RegisterDump("C20Skel", func() string {
		var sb strings.Builder
		dir := "internal/initializer/"
		api := SkelVerbs()
		with := func(extra ...string) SkelOpts { return SkelOpts{Verbs: SkelVerbs(extra...), DropRecv: true} }
		only := func(names ...string) SkelOpts { return SkelOpts{Verbs: c20Only(names...), DropRecv: true} }
		_ = api

		// Initializer.Init: every call but logging / reflection (a retry wrapper, a second Run, ... show up)
		sb.WriteString(SkelDef("c20SkelInit", dir+"initializer.go", "Initializer", "Init", SkelOpts{
			Verbs: c20Only("Run"),
			Match: func(ch string) bool {
				for _, p := range []string{"c.log.", "reflect.", "t.", "fmt."} {
					if strings.HasPrefix(ch, p) {
						return false
					}
				}
				return true
			},
		}))
		sb.WriteString(SkelDef("c20SkelStepFuncRun", dir+"initializer.go", "StepFunc", "Run", SkelOpts{
			Match: func(string) bool { return true }, Idents: c20Only("f")}))

		// tls.go
		sb.WriteString(SkelDef("c20SkelTlsRun", dir+"tls.go", "TLSCertificateGenerator", "Run",
			only("loadOrGenerateCA", "ensureServerCertificate", "ensureClientCertificate")))
		tlsOpts := SkelOpts{Verbs: SkelVerbs("Generate", "IgnoreNotFound", "useSigner"), DropRecv: true,
			Idents: c20Only("parseCertificateSigner")}
		sb.WriteString(SkelDef("c20SkelLoadOrGenerateCA", dir+"tls.go", "TLSCertificateGenerator", "loadOrGenerateCA", tlsOpts))
		sb.WriteString(SkelDef("c20SkelEnsureServer", dir+"tls.go", "TLSCertificateGenerator", "ensureServerCertificate", tlsOpts))
		sb.WriteString(SkelDef("c20SkelEnsureClient", dir+"tls.go", "TLSCertificateGenerator", "ensureClientCertificate", tlsOpts))
		sb.WriteString(SkelDef("c20SkelParseSigner", dir+"tls.go", "", "parseCertificateSigner",
			only("Decode", "ParsePKCS1PrivateKey", "ParsePKCS8PrivateKey", "ParseECPrivateKey", "ParseCertificate")))

		// cert_generator.go: CertGenerator.Generate (the model's `stdGen`) and what tls.go asks of it
		sb.WriteString(SkelDef("c20SkelGenerate", dir+"cert_generator.go", "CertGenerator", "Generate",
			only("GenerateKey", "CreateCertificate", "Encode", "MarshalPKCS1PrivateKey")))
		fmt.Fprintf(&sb, "/-- the arguments of x509.CreateCertificate in CertGenerator.Generate: rand, template, parent, public key, signing key -/\ndef c20CreateCertificateArgs : List String := %s\n",
			leanStrList(c20Args(dir+"cert_generator.go", "Generate", "CreateCertificate")))
		for _, f := range [][2]string{{"c20GenCallCA", "loadOrGenerateCA"}, {"c20GenCallServer", "ensureServerCertificate"}, {"c20GenCallClient", "ensureClientCertificate"}} {
			l := append(c20Assigns(dir+"tls.go", f[1], "dnsNames"), c20KeyVals(dir+"tls.go", f[1], "DNSNames", "IsCA")...)
			l = append(l, c20Args(dir+"tls.go", f[1], "Generate")...)
			fmt.Fprintf(&sb, "/-- %s: DNS names and CA flag of the x509 template, and the arguments of certificate.Generate -/\ndef %s : List String := %s\n", f[1], f[0], leanStrList(l))
		}

		// crds.go, webhook_configurations.go
		dirOpts := with("Init", "Parse", "GetObjects", "NewAPIPatchingApplicator", "SetName", "GetName", "Ignore", "AddAnnotations")
		sb.WriteString(SkelDef("c20SkelCrdsRun", dir+"crds.go", "CoreCRDs", "Run", dirOpts))
		sb.WriteString(SkelDef("c20SkelWhcsRun", dir+"webhook_configurations.go", "WebhookConfigurations", "Run", dirOpts))

		// crds_migrator.go
		sb.WriteString(SkelDef("c20SkelMigratorRun", dir+"crds_migrator.go", "CoreCRDsMigrator", "Run",
			with("IsNotFound", "Has")))

		// lock.go, store_config.go, deployment_runtime_config.go
		objOpts := with("Ignore", "IgnoreNotFound", "IsNotFound")
		sb.WriteString(SkelDef("c20SkelLockRun", dir+"lock.go", "LockObject", "Run", objOpts))
		sb.WriteString(SkelDef("c20SkelStoreConfigRun", dir+"store_config.go", "StoreConfigObject", "Run", objOpts))
		sb.WriteString(SkelDef("c20SkelDrcRun", dir+"deployment_runtime_config.go", "", "DefaultDeploymentRuntimeConfig", objOpts))
		ign := append(c20FirstArgs(dir+"store_config.go", "Run", "Ignore"),
			c20FirstArgs(dir+"deployment_runtime_config.go", "DefaultDeploymentRuntimeConfig", "Ignore")...)
		fmt.Fprintf(&sb, "/-- the error predicate resource.Ignore is given by StoreConfigObject.Run and DefaultDeploymentRuntimeConfig -/\ndef c20IgnoredErrors : List String := %s\n", leanStrList(ign))

		// installer.go
		sb.WriteString(SkelDef("c20SkelInstallerRun", dir+"installer.go", "PackageInstaller", "Run", SkelOpts{
			Verbs: SkelVerbs("IsNotFound", "ParseReference", "ParsePackageSourceFromReference", "NewAPIPatchingApplicator"), DropRecv: true,
			Idents: c20Only("buildPack")}))
		sb.WriteString(SkelDef("c20SkelBuildPack", dir+"installer.go", "", "buildPack", SkelOpts{
			Verbs: c20Only("ParseReference", "ToDNSLabel", "RepositoryStr", "RegistryStr", "Name", "ParsePackageSourceFromReference", "String"),
			Match: func(ch string) bool { // every setter of the package object
				i := strings.LastIndex(ch, ".")
				return i >= 0 && strings.HasPrefix(ch[i+1:], "Set")
			}}))

		// xpkg/name.go
		sb.WriteString(SkelDef("c20SkelParseSource", "internal/xpkg/name.go", "", "ParsePackageSourceFromReference", SkelOpts{
			Match: func(string) bool { return true }}))
		sb.WriteString(SkelDef("c20SkelToDNSLabel", "internal/xpkg/name.go", "", "ToDNSLabel", SkelOpts{
			Match: func(string) bool { return true }}))

		// crossplane-runtime APIPatchingApplicator.Apply, read from the module source this binary was compiled from
		sb.WriteString(SkelDef("c20SkelApply", c20ModFile(resource.NewAPIPatchingApplicator), "APIPatchingApplicator", "Apply",
			with("IsNotFound", "GetName", "GetGenerateName")))
		return sb.String()
	})
}

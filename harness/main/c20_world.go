//go:build verif

package main

// C20 world: abstract store <-> real objects in simstore, the registry that maps
// TLS bytes to abstract blobs, and the CertificateGenerator handed to the real
// TLS steps (the "Generate" parameter of the model).

import (
	"bytes"
	"crypto/rand"
	"crypto/rsa"
	"crypto/x509"
	"crypto/x509/pkix"
	"encoding/json"
	"encoding/pem"
	"fmt"
	"math/big"
	"sort"
	"strconv"
	"strings"
	"sync"
	"time"

	"github.com/spf13/afero"
	admv1 "k8s.io/api/admissionregistration/v1"
	corev1 "k8s.io/api/core/v1"
	extv1 "k8s.io/apiextensions-apiserver/pkg/apis/apiextensions/v1"
	metav1 "k8s.io/apimachinery/pkg/apis/meta/v1"
	"k8s.io/apimachinery/pkg/apis/meta/v1/unstructured"
	"k8s.io/apimachinery/pkg/runtime"
	"k8s.io/apimachinery/pkg/runtime/schema"

	xpv1 "github.com/crossplane/crossplane-runtime/apis/common/v1"

	"github.com/crossplane/crossplane/apis"
	pkgv1 "github.com/crossplane/crossplane/apis/pkg/v1"
	pkgv1beta1 "github.com/crossplane/crossplane/apis/pkg/v1beta1"
	scv1alpha1 "github.com/crossplane/crossplane/apis/secrets/v1alpha1"
	"github.com/crossplane/crossplane/internal/initializer"
)

var (
	c20GKSecret = schema.GroupKind{Kind: "Secret"}
	c20GKCRD    = schema.GroupKind{Group: "apiextensions.k8s.io", Kind: "CustomResourceDefinition"}
	c20GKV      = schema.GroupKind{Group: "admissionregistration.k8s.io", Kind: "ValidatingWebhookConfiguration"}
	c20GKM      = schema.GroupKind{Group: "admissionregistration.k8s.io", Kind: "MutatingWebhookConfiguration"}
	c20GKLock   = schema.GroupKind{Group: "pkg.crossplane.io", Kind: "Lock"}
	c20GKDRC    = schema.GroupKind{Group: "pkg.crossplane.io", Kind: "DeploymentRuntimeConfig"}
	c20GKSC     = schema.GroupKind{Group: "secrets.crossplane.io", Kind: "StoreConfig"}
	c20PkgGK    = map[string]schema.GroupKind{
		"P": {Group: "pkg.crossplane.io", Kind: "Provider"},
		"C": {Group: "pkg.crossplane.io", Kind: "Configuration"},
		"F": {Group: "pkg.crossplane.io", Kind: "Function"},
	}
)

const c20Label = "verif.example.org/extra"

var (
	c20SchemeOnce sync.Once
	c20TheScheme  *runtime.Scheme
)

func c20Scheme() *runtime.Scheme {
	c20SchemeOnce.Do(func() {
		s := runtime.NewScheme()
		_ = corev1.AddToScheme(s)
		_ = extv1.AddToScheme(s)
		_ = admv1.AddToScheme(s)
		_ = apis.AddToScheme(s)
		c20TheScheme = s
	})
	return c20TheScheme
}

// ---------------------------------------------------------------- TLS material

// c20KeyPool: RSA keys are expensive; key pair ids of one scenario are mapped to
// distinct pooled keys (distinct ids in one scenario never share a key).
var c20KeyPool []*rsa.PrivateKey

func c20PoolKey(i int) *rsa.PrivateKey {
	for len(c20KeyPool) <= i {
		k, err := rsa.GenerateKey(rand.Reader, 2048)
		if err != nil {
			panic(err)
		}
		c20KeyPool = append(c20KeyPool, k)
	}
	return c20KeyPool[i]
}

var c20PkixName = pkix.Name{CommonName: "Crossplane", Organization: []string{"Crossplane"}, Country: []string{"Earth"}, Province: []string{"Earth"}, Locality: []string{"Earth"}}

// c20Crypto implements initializer.CertificateGenerator.
type c20Crypto struct {
	real   bool
	next   int                       // id of the next generated key pair
	calls  int                       // Generate invocations
	slot   int                       // next pool slot
	keys   map[int]*rsa.PrivateKey   // kp -> private key
	modKP  map[string]int            // modulus -> kp
	blobOf map[string]*c20Blob       // bytes -> abstract blob
	pemOf  map[string][]byte         // canonical blob key -> bytes (seeded material)
	certs  map[int]*x509.Certificate // kp -> a CA certificate for that key pair (seeding)
}

func c20NewCrypto(real bool, fresh int) *c20Crypto {
	return &c20Crypto{real: real, next: fresh, keys: map[int]*rsa.PrivateKey{}, modKP: map[string]int{}, blobOf: map[string]*c20Blob{}, pemOf: map[string][]byte{}, certs: map[int]*x509.Certificate{}}
}

func (g *c20Crypto) keyFor(kp int) *rsa.PrivateKey {
	if k, ok := g.keys[kp]; ok {
		return k
	}
	k := c20PoolKey(g.slot)
	g.slot++
	g.keys[kp] = k
	g.modKP[k.N.String()] = kp
	return k
}

func c20PEM(typ string, der []byte) []byte {
	b := new(bytes.Buffer)
	_ = pem.Encode(b, &pem.Block{Type: typ, Bytes: der})
	return b.Bytes()
}

func (g *c20Crypto) keyPEM(kp int) []byte {
	b := c20PEM("RSA PRIVATE KEY", x509.MarshalPKCS1PrivateKey(g.keyFor(kp)))
	g.blobOf[string(b)] = &c20Blob{T: "k", KP: kp}
	return b
}

// Generate is the certificate generator handed to the real TLS steps. Unless
// `real` it is initializer.CertGenerator.Generate with the RSA key taken from a
// pool instead of rsa.GenerateKey; it signs with the signer it is given.
func (g *c20Crypto) Generate(tmpl *x509.Certificate, signer *initializer.CertificateSigner) ([]byte, []byte, error) {
	id := g.next
	g.next++
	g.calls++
	var keyB, crtB []byte
	if g.real {
		var err error
		keyB, crtB, err = initializer.NewCertGenerator().Generate(tmpl, signer)
		if err != nil {
			return nil, nil, err
		}
		blk, _ := pem.Decode(keyB)
		k, err := x509.ParsePKCS1PrivateKey(blk.Bytes)
		if err != nil {
			return nil, nil, err
		}
		g.keys[id] = k
		g.modKP[k.N.String()] = id
	} else {
		priv := g.keyFor(id)
		parent, sk := tmpl, priv
		if signer != nil {
			parent, sk, _ = initializer.VerifSignerParts(signer)
		}
		der, err := x509.CreateCertificate(rand.Reader, tmpl, parent, &priv.PublicKey, sk)
		if err != nil {
			return nil, nil, err
		}
		crtB = c20PEM("CERTIFICATE", der)
		keyB = c20PEM("RSA PRIVATE KEY", x509.MarshalPKCS1PrivateKey(priv))
	}
	by := id
	if signer != nil {
		_, sk, _ := initializer.VerifSignerParts(signer)
		if kp, ok := g.modKP[sk.N.String()]; ok {
			by = kp
		} else {
			by = -1
		}
	}
	c := c20ParseCertPEM(crtB)
	if c == nil {
		return nil, nil, fmt.Errorf("c20: generated certificate does not parse")
	}
	dns := append([]string{}, c.DNSNames...)
	g.blobOf[string(crtB)] = &c20Blob{T: "c", KP: id, By: by, DNS: dns, CA: c.IsCA}
	g.blobOf[string(keyB)] = &c20Blob{T: "k", KP: id}
	// another writer that copies this material (a CA bundle, a secret) writes these very bytes
	g.pemOf[c20BlobKey(g.blobOf[string(crtB)])] = crtB
	g.pemOf[c20BlobKey(g.blobOf[string(keyB)])] = keyB
	return keyB, crtB, nil
}

// caCert returns (creating on demand) a self-signed CA certificate for key pair kp.
func (g *c20Crypto) caCert(kp int) *x509.Certificate {
	if c, ok := g.certs[kp]; ok {
		return c
	}
	b := g.bytesOf(&c20Blob{T: "c", KP: kp, By: kp, DNS: []string{"crossplane-root-ca"}, CA: true})
	c := c20ParseCertPEM(b)
	g.certs[kp] = c
	return c
}

func c20BlobKey(b *c20Blob) string {
	if b == nil {
		return ""
	}
	return fmt.Sprintf("%s/%d/%d/%s/%v/%d", b.T, b.KP, b.By, strings.Join(b.DNS, ","), b.CA, b.N)
}

// bytesOf materialises a seeded abstract blob as real bytes.
func (g *c20Crypto) bytesOf(b *c20Blob) []byte {
	if b == nil {
		return nil
	}
	if p, ok := g.pemOf[c20BlobKey(b)]; ok {
		return p
	}
	var out []byte
	switch b.T {
	case "k":
		out = g.keyPEM(b.KP)
	case "c":
		priv := g.keyFor(b.KP)
		tmpl := &x509.Certificate{
			SerialNumber: big.NewInt(2022), Subject: c20PkixName, DNSNames: b.DNS,
			NotBefore: time.Now().Add(-time.Hour), NotAfter: time.Now().AddDate(10, 0, 0),
			IsCA: b.CA, BasicConstraintsValid: true,
		}
		if b.CA {
			tmpl.Issuer = c20PkixName
			tmpl.KeyUsage = x509.KeyUsageCRLSign | x509.KeyUsageCertSign
		} else {
			tmpl.KeyUsage = x509.KeyUsageDigitalSignature | x509.KeyUsageKeyEncipherment | x509.KeyUsageDataEncipherment
			tmpl.ExtKeyUsage = []x509.ExtKeyUsage{x509.ExtKeyUsageServerAuth, x509.ExtKeyUsageClientAuth}
		}
		parent, sk := tmpl, priv
		if b.By != b.KP {
			parent, sk = g.caCert(b.By), g.keyFor(b.By)
		}
		der, err := x509.CreateCertificate(rand.Reader, tmpl, parent, &priv.PublicKey, sk)
		if err != nil {
			panic(err)
		}
		out = c20PEM("CERTIFICATE", der)
		cp := *b
		if cp.DNS == nil {
			cp.DNS = []string{}
		}
		g.blobOf[string(out)] = &cp
	default:
		out = []byte("junk-" + strconv.Itoa(b.N))
		g.blobOf[string(out)] = &c20Blob{T: "j", N: b.N}
	}
	g.pemOf[c20BlobKey(b)] = out
	return out
}

// blob abstracts stored bytes.
func (g *c20Crypto) blob(b []byte) *c20Blob {
	if len(b) == 0 {
		return nil
	}
	if x, ok := g.blobOf[string(b)]; ok {
		cp := *x
		return &cp
	}
	return &c20Blob{T: "j", N: -1}
}

// ---------------------------------------------------------------- world

type c20World struct {
	scheme  *runtime.Scheme
	st      *Store
	crypto  *c20Crypto
	crds    map[string]bool    // CRD names whose custom resources are observed
	issued  map[string]string  // leaf secrets issued during the scenario (name -> by whom), see chainMonitor
	decoys  map[string]string  // Decoy scenarios: the look-alike secrets as seeded
	steps   []initializer.Step // Reuse scenarios: the step objects, built once
	touched map[string]bool    // objects another writer changed during the current run ("S/name", "P/name", "CRD/name", "L", ...)
	peerAt  func(call int)     // lets the other writers of the window of that call of the current run act (idempotent)
}

func c20Extra(n int) map[string]string {
	if n == 0 {
		return nil
	}
	return map[string]string{c20Label: strconv.Itoa(n)}
}

func c20ExtraOf(l map[string]string) int {
	n, _ := strconv.Atoi(l[c20Label])
	return n
}

// c20CrdParts: naming convention for generated CRDs: <plural>.<group>.
func c20CrdParts(name string) (group, kind, listKind, plural string) {
	i := strings.Index(name, ".")
	if i < 0 {
		return "example.org", "K" + name, "K" + name + "List", name
	}
	plural, group = name[:i], name[i+1:]
	return group, "K" + plural, "K" + plural + "List", plural
}

func c20Versions(vs []c20Ver, content int) []extv1.CustomResourceDefinitionVersion {
	out := []extv1.CustomResourceDefinitionVersion{}
	for _, v := range vs {
		out = append(out, extv1.CustomResourceDefinitionVersion{Name: v.N, Served: true, Storage: v.S,
			Schema: &extv1.CustomResourceValidation{OpenAPIV3Schema: &extv1.JSONSchemaProps{Type: "object", Description: "content-" + strconv.Itoa(content)}}})
	}
	return out
}

// ---- seeding of abstract objects (initial cluster contents and the writes of other clients)

func (w *c20World) secretData(x c20Secret) map[string][]byte {
	data := map[string][]byte{}
	if x.Crt != nil {
		data[corev1.TLSCertKey] = w.crypto.bytesOf(x.Crt)
	}
	if x.Key != nil {
		data[corev1.TLSPrivateKeyKey] = w.crypto.bytesOf(x.Key)
	}
	if x.CA != nil {
		data[initializer.SecretKeyCACert] = w.crypto.bytesOf(x.CA)
	}
	if x.Others != 0 {
		data["other"] = []byte(strconv.Itoa(x.Others))
	}
	return data
}

func (w *c20World) seedSecret(ns string, x c20Secret) {
	w.st.Seed(&corev1.Secret{ObjectMeta: metav1.ObjectMeta{Name: x.Name, Namespace: ns, Labels: c20Extra(x.Meta)}, Data: w.secretData(x)})
}

func (w *c20World) seedPkg(x c20Pkg) {
	var o pkgv1.Package
	switch x.Kind {
	case "P":
		o = &pkgv1.Provider{}
	case "C":
		o = &pkgv1.Configuration{}
	default:
		o = &pkgv1.Function{}
	}
	o.SetName(x.Name)
	o.SetSource(x.Raw)
	if x.Extra != 0 {
		// an operator has set EVERY field the installer does not declare (to values that are not the CRD defaults)
		n := int64(x.Extra)
		tag := strconv.Itoa(x.Extra)
		manual := pkgv1.ManualActivation
		never := corev1.PullNever
		yes := true
		o.SetRevisionHistoryLimit(&n)
		o.SetActivationPolicy(&manual)
		o.SetPackagePullPolicy(&never)
		o.SetPackagePullSecrets([]corev1.LocalObjectReference{{Name: "pull-" + tag}})
		o.SetIgnoreCrossplaneConstraints(&yes)
		o.SetSkipDependencyResolution(&yes)
		o.SetCommonLabels(map[string]string{"team": "t" + tag})
		o.SetLabels(map[string]string{c20Label: tag})
		o.SetAnnotations(map[string]string{c20Label: "note-" + tag})
		if pwr, ok := o.(pkgv1.PackageWithRuntime); ok {
			pwr.SetRuntimeConfigRef(&pkgv1.RuntimeConfigReference{Name: "custom-" + tag})
		}
	}
	o.SetConditions(xpv1.Available())
	w.st.Seed(o)
}

// c20PkgForeign: every field of a stored package that the installer does not declare (everything in spec but
// `package`, labels, annotations), by name.
func c20PkgForeign(u *unstructured.Unstructured) map[string]string {
	out := map[string]string{}
	spec, _, _ := unstructured.NestedMap(u.Object, "spec")
	for k, v := range spec {
		if k != "package" {
			out["spec."+k] = mustJSON(v)
		}
	}
	if l := u.GetLabels(); len(l) > 0 {
		out["metadata.labels"] = mustJSON(l)
	}
	if a := u.GetAnnotations(); len(a) > 0 {
		out["metadata.annotations"] = mustJSON(a)
	}
	return out
}

// c20PkgExtraOf abstracts the undeclared fields of a stored package: n if they are exactly what seedPkg writes
// for Extra = n (0: none is set), -1 if some field has another value.
func (w *c20World) pkgExtraOf(kind string, u *unstructured.Unstructured) int {
	lim, _, _ := unstructured.NestedInt64(u.Object, "spec", "revisionHistoryLimit")
	probe := &c20World{scheme: w.scheme, crds: map[string]bool{}, st: NewStore(w.scheme)}
	probe.seedPkg(c20Pkg{Kind: kind, Name: u.GetName(), Raw: "x/y", Extra: int(lim)})
	want := probe.st.Peek(c20PkgGK[kind], "", u.GetName())
	if want != nil && mustJSON(c20PkgForeign(want)) == mustJSON(c20PkgForeign(u)) {
		return int(lim)
	}
	return -1
}

func (w *c20World) seedCrd(x c20Crd) {
	w.crds[x.Name] = true
	group, kind, listKind, plural := c20CrdParts(x.Name)
	stored := x.Stored
	if stored == nil {
		stored = []string{}
	}
	crd := &extv1.CustomResourceDefinition{ObjectMeta: metav1.ObjectMeta{Name: x.Name, Labels: c20Extra(x.Extra)},
		Spec: extv1.CustomResourceDefinitionSpec{Group: group, Scope: extv1.ClusterScoped,
			Names:    extv1.CustomResourceDefinitionNames{Kind: kind, ListKind: listKind, Plural: plural, Singular: strings.ToLower(kind)},
			Versions: c20Versions(x.Versions, x.Content)},
		Status: extv1.CustomResourceDefinitionStatus{StoredVersions: stored}}
	if x.Conv {
		path := "/convert"
		crd.Spec.Conversion = &extv1.CustomResourceConversion{Strategy: extv1.WebhookConverter, Webhook: &extv1.WebhookConversion{
			ConversionReviewVersions: []string{"v1"},
			ClientConfig:             &extv1.WebhookClientConfig{Service: &extv1.ServiceReference{Name: "webhook-service", Namespace: "system", Path: &path}, CABundle: w.crypto.bytesOf(x.Bundle)}}}
	}
	w.st.Seed(crd)
}

func (w *c20World) seedWhc(x c20Whc) {
	mk := func(h c20Hook) admv1.WebhookClientConfig {
		port := int32(h.Svc.Port)
		path := "/validate"
		return admv1.WebhookClientConfig{CABundle: w.crypto.bytesOf(h.Bundle), Service: &admv1.ServiceReference{Name: h.Svc.Name, Namespace: h.Svc.NS, Port: &port, Path: &path}}
	}
	none := admv1.SideEffectClassNone
	fail := admv1.Fail
	if x.Kind == "V" {
		o := &admv1.ValidatingWebhookConfiguration{ObjectMeta: metav1.ObjectMeta{Name: x.Name, Labels: c20Extra(x.Extra)}}
		for _, h := range x.Hooks {
			o.Webhooks = append(o.Webhooks, admv1.ValidatingWebhook{Name: h.Name, ClientConfig: mk(h), SideEffects: &none, FailurePolicy: &fail, AdmissionReviewVersions: []string{"v1"}})
		}
		w.st.Seed(o)
	} else {
		o := &admv1.MutatingWebhookConfiguration{ObjectMeta: metav1.ObjectMeta{Name: x.Name, Labels: c20Extra(x.Extra)}}
		for _, h := range x.Hooks {
			o.Webhooks = append(o.Webhooks, admv1.MutatingWebhook{Name: h.Name, ClientConfig: mk(h), SideEffects: &none, FailurePolicy: &fail, AdmissionReviewVersions: []string{"v1"}})
		}
		w.st.Seed(o)
	}
}

func (w *c20World) seedCr(x c20Cr) {
	w.crds[x.Crd] = true
	group, kind, _, _ := c20CrdParts(x.Crd)
	u := &unstructured.Unstructured{Object: map[string]any{"apiVersion": group + "/v1", "kind": kind,
		"metadata": map[string]any{"name": x.Name}, "spec": map[string]any{"payload": int64(x.Payload)}}}
	w.st.Seed(u)
}

func (w *c20World) seedLock(n int) {
	l := &pkgv1beta1.Lock{ObjectMeta: metav1.ObjectMeta{Name: "lock"}}
	for i := 0; i < n; i++ {
		t := pkgv1beta1.ProviderPackageType
		l.Packages = append(l.Packages, pkgv1beta1.LockPackage{Name: fmt.Sprintf("p-%d", i), Type: &t, Source: "xpkg.upbound.io/x/p", Version: "v1.0.0"})
	}
	w.st.Seed(l)
}

func (w *c20World) seedSC(x c20SC) {
	w.st.Seed(&scv1alpha1.StoreConfig{ObjectMeta: metav1.ObjectMeta{Name: "default", Labels: c20Extra(x.Extra)},
		Spec: scv1alpha1.StoreConfigSpec{SecretStoreConfig: xpv1.SecretStoreConfig{DefaultScope: x.Scope}}})
}

func (w *c20World) seedDRC(n int) {
	w.st.Seed(&pkgv1beta1.DeploymentRuntimeConfig{ObjectMeta: metav1.ObjectMeta{Name: "default", Labels: c20Extra(n)}})
}

// c20DecoyNS is the namespace of the look-alike secrets of a Decoy scenario.
const c20DecoyNS = "decoy-system"

func c20NewWorld(s *c20Scn) *c20World {
	w := &c20World{scheme: c20Scheme(), crypto: c20NewCrypto(s.Real, s.Fresh), crds: map[string]bool{}, issued: map[string]string{}}
	st := NewStore(w.scheme)
	w.st = st
	for _, m := range c20Migrators() {
		w.crds[m[0]] = true
	}
	a := s.Store
	for _, x := range a.Secrets {
		w.seedSecret(s.NS, x)
	}
	for _, x := range a.Pkgs {
		w.seedPkg(x)
	}
	for _, x := range a.Crds {
		w.seedCrd(x)
	}
	for _, x := range a.Whcs {
		w.seedWhc(x)
	}
	for _, x := range a.Crs {
		w.seedCr(x)
	}
	if a.Lock != nil {
		w.seedLock(*a.Lock)
	}
	if a.SC != nil {
		w.seedSC(*a.SC)
	}
	if a.DRC != nil {
		w.seedDRC(*a.DRC)
	}
	steps := w.stepsOf(s)
	for _, stp := range steps {
		if stp.Dir != nil {
			for _, o := range stp.Dir.Objs {
				if o.T == "crd" {
					w.crds[o.Crd.Name] = true
				}
			}
		}
	}
	if s.Decoy {
		// every secret name the steps look at exists, complete and issued by a foreign authority, in ANOTHER namespace
		seen := map[string]bool{}
		decoy := func(n string, ca bool) {
			if n == "" || seen[n] {
				return
			}
			seen[n] = true
			x := c20Secret{Name: n, Crt: &c20Blob{T: "c", KP: 31, By: 30, DNS: []string{"decoy.example.org"}}, Key: &c20Blob{T: "k", KP: 31}, CA: c20CACert(30)}
			if ca {
				x = c20Secret{Name: n, Crt: c20CACert(30), Key: &c20Blob{T: "k", KP: 30}}
			}
			w.seedSecret(c20DecoyNS, x)
		}
		for _, stp := range steps {
			if stp.T == "tls" {
				decoy(stp.CA, true)
				for _, l := range []*c20TLSRef{stp.Server, stp.Client} {
					if l != nil {
						decoy(l.Name, false)
					}
				}
			}
			if stp.TLSRef != nil {
				decoy(*stp.TLSRef, false)
			}
		}
		w.decoys = c20DecoySnap(st)
	}
	return w
}

// c20DecoySnap: bytes of every secret outside the scenario's namespace.
func c20DecoySnap(st *Store) map[string]string {
	out := map[string]string{}
	for _, u := range st.OfKind(c20GKSecret) {
		if u.GetNamespace() == c20DecoyNS {
			b, _ := json.Marshal(u.Object)
			out[u.GetName()] = string(b)
		}
	}
	return out
}

func c20From(u *unstructured.Unstructured, into any) {
	if err := runtime.DefaultUnstructuredConverter.FromUnstructured(u.Object, into); err != nil {
		panic(err)
	}
}

func c20ContentOf(vs []extv1.CustomResourceDefinitionVersion) int {
	if len(vs) == 0 || vs[0].Schema == nil || vs[0].Schema.OpenAPIV3Schema == nil {
		return 0
	}
	n, _ := strconv.Atoi(strings.TrimPrefix(vs[0].Schema.OpenAPIV3Schema.Description, "content-"))
	return n
}

// canon abstracts the current simstore contents.
func (w *c20World) canon(s *c20Scn) c20Store {
	st := w.st
	out := c20Store{Secrets: []c20Secret{}, Pkgs: []c20Pkg{}, Crds: []c20Crd{}, Whcs: []c20Whc{}, Crs: []c20Cr{}}
	for _, u := range st.OfKind(c20GKSecret) {
		if u.GetNamespace() == c20DecoyNS {
			continue // look-alikes in another namespace: judged by their own monitor, unknown to the model
		}
		sec := &corev1.Secret{}
		c20From(u, sec)
		x := w.secretOf(sec)
		if u.GetNamespace() != s.NS {
			x.Name = u.GetNamespace() + "/" + x.Name // written into a namespace nobody configured
		}
		out.Secrets = append(out.Secrets, x)
	}
	for _, k := range []string{"P", "C", "F"} {
		for _, u := range st.OfKind(c20PkgGK[k]) {
			raw, _, _ := unstructured.NestedString(u.Object, "spec", "package")
			out.Pkgs = append(out.Pkgs, c20Pkg{Kind: k, Name: u.GetName(), Raw: raw, Ref: c20Parse(raw), Extra: w.pkgExtraOf(k, u)})
		}
	}
	for _, u := range st.OfKind(c20GKCRD) {
		crd := &extv1.CustomResourceDefinition{}
		c20From(u, crd)
		x := c20Crd{Name: crd.Name, Content: c20ContentOf(crd.Spec.Versions), Versions: []c20Ver{}, Stored: []string{}, Extra: c20ExtraOf(crd.Labels)}
		for _, v := range crd.Spec.Versions {
			x.Versions = append(x.Versions, c20Ver{N: v.Name, S: v.Storage})
		}
		x.Stored = append(x.Stored, crd.Status.StoredVersions...)
		if c := crd.Spec.Conversion; c != nil {
			x.Conv = c.Strategy == extv1.WebhookConverter
			if c.Webhook != nil && c.Webhook.ClientConfig != nil {
				x.Bundle = w.crypto.blob(c.Webhook.ClientConfig.CABundle)
			}
		}
		out.Crds = append(out.Crds, x)
	}
	hook := func(name string, cc admv1.WebhookClientConfig) c20Hook {
		h := c20Hook{Name: name, Bundle: w.crypto.blob(cc.CABundle)}
		if cc.Service != nil {
			h.Svc = c20Svc{Name: cc.Service.Name, NS: cc.Service.Namespace}
			if cc.Service.Port != nil {
				h.Svc.Port = int(*cc.Service.Port)
			}
		}
		return h
	}
	for _, u := range st.OfKind(c20GKV) {
		o := &admv1.ValidatingWebhookConfiguration{}
		c20From(u, o)
		x := c20Whc{Kind: "V", Name: o.Name, Hooks: []c20Hook{}, Extra: c20ExtraOf(o.Labels)}
		for _, h := range o.Webhooks {
			x.Hooks = append(x.Hooks, hook(h.Name, h.ClientConfig))
		}
		out.Whcs = append(out.Whcs, x)
	}
	for _, u := range st.OfKind(c20GKM) {
		o := &admv1.MutatingWebhookConfiguration{}
		c20From(u, o)
		x := c20Whc{Kind: "M", Name: o.Name, Hooks: []c20Hook{}, Extra: c20ExtraOf(o.Labels)}
		for _, h := range o.Webhooks {
			x.Hooks = append(x.Hooks, hook(h.Name, h.ClientConfig))
		}
		out.Whcs = append(out.Whcs, x)
	}
	names := []string{}
	for n := range w.crds {
		names = append(names, n)
	}
	sort.Strings(names)
	for _, n := range names {
		group, kind, _, _ := c20CrdParts(n)
		for _, u := range st.OfKind(schema.GroupKind{Group: group, Kind: kind}) {
			p, _, _ := unstructured.NestedInt64(u.Object, "spec", "payload")
			out.Crs = append(out.Crs, c20Cr{Crd: n, Name: u.GetName(), Payload: int(p)})
		}
	}
	if u := st.Peek(c20GKLock, "", "lock"); u != nil {
		l := &pkgv1beta1.Lock{}
		c20From(u, l)
		n := len(l.Packages)
		out.Lock = &n
	}
	if u := st.Peek(c20GKSC, "", "default"); u != nil {
		o := &scv1alpha1.StoreConfig{}
		c20From(u, o)
		out.SC = &c20SC{Scope: o.Spec.DefaultScope, Extra: c20ExtraOf(o.Labels)}
	}
	if u := st.Peek(c20GKDRC, "", "default"); u != nil {
		n := c20ExtraOf(u.GetLabels())
		out.DRC = &n
	}
	return out
}

// ---------------------------------------------------------------- the peer

// c20SecretOf abstracts one stored secret.
func (w *c20World) secretOf(sec *corev1.Secret) c20Secret {
	x := c20Secret{Name: sec.Name, Crt: w.crypto.blob(sec.Data[corev1.TLSCertKey]), Key: w.crypto.blob(sec.Data[corev1.TLSPrivateKeyKey]),
		CA: w.crypto.blob(sec.Data[initializer.SecretKeyCACert]), Meta: c20ExtraOf(sec.Labels)}
	for k, v := range sec.Data {
		switch k {
		case corev1.TLSCertKey, corev1.TLSPrivateKeyKey, initializer.SecretKeyCACert:
		case "other":
			x.Others, _ = strconv.Atoi(string(v))
		default:
			x.Others = -1
		}
	}
	return x
}

// adoptStored makes the seeding registry know the CA certificates that are stored right now, so that what the
// peer derives from them (a leaf signed by the stored CA, ca.crt of a leaf) is built from the stored bytes and
// not from a second certificate for the same key pair.
func (w *c20World) adoptStored(ns string) {
	g := w.crypto
	for _, u := range w.st.OfKind(c20GKSecret) {
		sec := &corev1.Secret{}
		c20From(u, sec)
		b := sec.Data[corev1.TLSCertKey]
		a := g.blob(b)
		if a == nil || a.T != "c" || !a.CA || a.KP != a.By {
			continue
		}
		if _, ok := g.keys[a.KP]; !ok {
			continue
		}
		if _, ok := g.pemOf[c20BlobKey(a)]; !ok {
			g.pemOf[c20BlobKey(a)] = b
		}
		if _, ok := g.certs[a.KP]; !ok {
			if c := c20ParseCertPEM(b); c != nil {
				g.certs[a.KP] = c
			}
		}
	}
}

// ---------------------------------------------------------------- files

func c20CrdYAML(f *c20CrdFile) string {
	group, kind, listKind, plural := c20CrdParts(f.Name)
	var b strings.Builder
	fmt.Fprintf(&b, "apiVersion: apiextensions.k8s.io/v1\nkind: CustomResourceDefinition\nmetadata:\n  name: %s\nspec:\n  group: %s\n  scope: Cluster\n  names:\n    kind: %s\n    listKind: %s\n    plural: %s\n    singular: %s\n",
		f.Name, group, kind, listKind, plural, strings.ToLower(kind))
	if len(f.Versions) == 0 {
		b.WriteString("  versions: []\n")
	} else {
		b.WriteString("  versions:\n")
	}
	for _, v := range f.Versions {
		fmt.Fprintf(&b, "  - name: %s\n    served: true\n    storage: %v\n    schema:\n      openAPIV3Schema:\n        type: object\n        description: content-%d\n", v.N, v.S, f.Content)
	}
	if f.Conv {
		b.WriteString("  conversion:\n    strategy: Webhook\n")
		switch f.WH {
		case 0:
			b.WriteString("    webhook:\n      conversionReviewVersions: [v1]\n      clientConfig:\n        service:\n          name: webhook-service\n          namespace: system\n          path: /convert\n")
		case 2:
			b.WriteString("    webhook:\n      conversionReviewVersions: [v1]\n")
		}
	}
	return b.String()
}

func c20WhcYAML(f *c20WhcFile) string {
	kind := "ValidatingWebhookConfiguration"
	if f.Kind == "M" {
		kind = "MutatingWebhookConfiguration"
	}
	var b strings.Builder
	fmt.Fprintf(&b, "apiVersion: admissionregistration.k8s.io/v1\nkind: %s\nmetadata:\n  name: %s\n", kind, f.Name)
	if len(f.Hooks) == 0 {
		b.WriteString("webhooks: []\n")
	} else {
		b.WriteString("webhooks:\n")
	}
	for _, h := range f.Hooks {
		fmt.Fprintf(&b, "- name: %s\n  admissionReviewVersions: [v1]\n  sideEffects: None\n  failurePolicy: Fail\n  clientConfig:\n    service:\n      name: webhook-service\n      namespace: system\n      path: /validate\n", h)
	}
	return b.String()
}

func c20WriteDir(fs afero.Fs, dir string, d *c20Dir, _ int) {
	_ = fs.MkdirAll(dir, 0o755)
	if d == nil {
		return
	}
	for i, o := range d.Objs {
		var y string
		switch o.T {
		case "crd":
			y = c20CrdYAML(o.Crd)
		case "whc":
			y = c20WhcYAML(o.Whc)
		default:
			y = "apiVersion: v1\nkind: ConfigMap\nmetadata:\n  name: stray\n"
		}
		_ = afero.WriteFile(fs, fmt.Sprintf("%s/%03d.yaml", dir, i), []byte(y), 0o644)
	}
	if d.ParseErr {
		_ = afero.WriteFile(fs, fmt.Sprintf("%s/%03d.yaml", dir, len(d.Objs)), []byte("apiVersion: v1\nkind: [unterminated\n"), 0o644)
	}
}

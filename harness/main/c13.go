//go:build verif

package main

// C13: dynamic controllers and watches stay consistent under any interleaving.
//
// A scenario is a list of engine calls ("threads"), grouped into phases (a phase starts
// when all earlier phases have finished; a phase with one thread is a sequential call),
// and a scheduling script. The calls run on the REAL engine.ControllerEngine +
// engine.InformerTrackingCache + watch.GarbageCollector (see c13_sched.go); after every
// scheduling round the harness records which thread it released, whether it injected a
// fault, and the status of every thread. The Lean model (lean/Xp/Model/C13.lean) replays
// that record at its own lock granularity: the real run must be a run of the model, and
// the final observations must agree.

import (
	"fmt"
	"os"
	"sort"
	"strings"
)

type c13WidJ struct {
	T string `json:"t"` // claim | xr | composed | rev
	G int    `json:"g"`
}

// c13Ref is one spec.resourceRefs entry of an XR the collector lists. Bad = "" (well formed),
// "nokind" (empty kind) or "noapi" (empty apiVersion): a malformed reference names no watched kind.
type c13Ref struct {
	G   int    `json:"g"`
	Bad string `json:"bad"`
}

// c13XR is one XR the collector lists. None of the state flags may influence what the
// collector stops: an XR references its kinds as long as it exists.
type c13XR struct {
	Del      bool     `json:"del"`      // deletionTimestamp set, finalizer pending
	Paused   bool     `json:"paused"`   // crossplane.io/paused annotation
	NoComp   bool     `json:"nocomp"`   // no spec.compositionRef
	NotReady bool     `json:"notready"` // Ready=False
	Unsynced bool     `json:"unsynced"` // Synced=False
	Rev      int      `json:"rev"`      // spec.compositionRevisionRef.name: 0 = none yet, k = "rev-k"; XRs of one list often share one
	Refs     []c13Ref `json:"refs"`
}

type c13Op struct {
	Op    string    `json:"op"` // start stop isRunning startWatches stopWatches getWatches gc removeInformer cacheRead
	Via   string    `json:"via"` // cacheRead: get | list | forkind
	N     int       `json:"n"`
	Ws    []c13WidJ `json:"ws"`
	Refs  []int     `json:"refs"` // legacy input form of Xrs: one live XR per kind plus one referencing all of them
	Xrs   []c13XR   `json:"xrs"`
	Oxrs  []c13XR   `json:"oxrs"` // gc: the XRs of OTHER composite kinds (what a List of any other group/version/kind returns)
	G     int       `json:"g"`
	Phase int       `json:"phase"`
	Asked []c13WidJ `json:"asked"` // gc, recorded by the run: the watches the collector asked StopWatches to stop, in its order (GetWatches' map order)
}

type c13Event struct {
	T  int      `json:"t"`
	F  bool     `json:"f"`
	Fc int      `json:"fc"` // class of the injected error (index into c13ErrClasses)
	St []string `json:"st"`
}

type c13NW struct {
	N int      `json:"n"`
	W []string `json:"w"`
}

type c13Obs struct {
	Res       []string `json:"res"`
	Running   []int    `json:"running"`
	Watches   []c13NW  `json:"watches"`
	Regs      []string `json:"regs"`
	Tracked   []int    `json:"tracked"`
	Live      []int    `json:"live"`
	Cancelled []int    `json:"cancelled"`
	Deadlock  bool     `json:"deadlock"`
}

type c13Scn struct {
	Names   int        `json:"names"`
	Threads []c13Op    `json:"threads"`
	Script  []int      `json:"script"`
	Events  []c13Event `json:"events"` // recorded by the run
	Final   *c13Obs    `json:"final"`  // recorded by the run (hint for the model when several resolutions remain)
}

func c13Norm(s *c13Scn) {
	for i := range s.Threads {
		if s.Threads[i].Ws == nil {
			s.Threads[i].Ws = []c13WidJ{}
		}
		if s.Threads[i].Op == "gc" && s.Threads[i].Xrs == nil {
			all := c13XR{}
			for _, g := range s.Threads[i].Refs {
				s.Threads[i].Xrs = append(s.Threads[i].Xrs, c13XR{Refs: []c13Ref{{G: g}}})
				all.Refs = append(all.Refs, c13Ref{G: g})
			}
			s.Threads[i].Xrs = append(s.Threads[i].Xrs, all)
		}
		s.Threads[i].Refs = []int{}
		s.Threads[i].Asked = []c13WidJ{}
		if s.Threads[i].Xrs == nil {
			s.Threads[i].Xrs = []c13XR{}
		}
		if s.Threads[i].Oxrs == nil {
			s.Threads[i].Oxrs = []c13XR{}
		}
		for k := range s.Threads[i].Xrs {
			if s.Threads[i].Xrs[k].Refs == nil {
				s.Threads[i].Xrs[k].Refs = []c13Ref{}
			}
		}
		for k := range s.Threads[i].Oxrs {
			if s.Threads[i].Oxrs[k].Refs == nil {
				s.Threads[i].Oxrs[k].Refs = []c13Ref{}
			}
		}
	}
	if s.Script == nil {
		s.Script = []int{}
	}
	if s.Names < 1 {
		s.Names = 1
		for _, t := range s.Threads {
			if t.N+1 > s.Names {
				s.Names = t.N + 1
			}
		}
	}
}

// c13Run1 runs one scenario; returns the completed scenario, the observation, the monitors
// and the branching factors of the rounds.
func c13Run1(s c13Scn) (c13Scn, c13Obs, []Mon, []int) {
	c13Norm(&s)
	r := c13NewRun(s.Threads)
	dead := r.run(s.Script, 200+40*len(s.Threads))
	obs := r.observe(s.Names, dead)
	if !dead {
		r.cleanup(s.Names)
	}
	s.Events = r.events
	for i, t := range r.th {
		s.Threads[i].Asked = append([]c13WidJ{}, t.asked...)
	}
	s.Final = &obs
	return s, obs, r.mons, r.branch
}

func c13Cls(s c13Scn, obs c13Obs) string {
	// the largest phase
	cnt := map[int][]string{}
	for _, t := range s.Threads {
		cnt[t.Phase] = append(cnt[t.Phase], t.Op)
	}
	best := []string{}
	for _, ops := range cnt {
		if len(ops) > len(best) {
			best = ops
		}
	}
	sort.Strings(best)
	short := map[string]string{"start": "S", "stop": "P", "isRunning": "I", "startWatches": "W", "stopWatches": "X", "getWatches": "G", "gc": "C", "removeInformer": "R", "cacheRead": "A"}
	par := ""
	for _, o := range best {
		par += short[o]
	}
	faults, blocked := 0, 0
	fcls := ""
	for _, e := range s.Events {
		if e.F {
			faults++
			if fcls == "" {
				fcls = ":" + c13ErrClasses[e.Fc%len(c13ErrClasses)]
			}
		}
		for _, st := range e.St {
			if st == "b" {
				blocked = 1
			}
		}
	}
	if faults > 1 {
		faults = 1
	}
	// several collections by one controller's (long-lived) collector; kinds that differ from
	// another one only in version, group, case or by a suffix
	gcs, tag := map[int]int{}, ""
	for _, t := range s.Threads {
		if t.Op == "gc" {
			gcs[t.N]++
			if gcs[t.N] == 2 {
				tag = "/gc2"
			}
		}
	}
	if len(best) <= 1 {
		return fmt.Sprintf("seq/f%d%s%s", faults, fcls, tag)
	}
	return fmt.Sprintf("par=%s/f%d%s/b%d%s", par, faults, fcls, blocked, tag)
}

// ---------------------------------------------------------------- generators

var c13Types = []string{"claim", "xr", "composed", "rev"}

func c13GenWids(r *Rng, kinds int, max int) []c13WidJ {
	n := r.Range(1, max)
	ws := []c13WidJ{}
	for i := 0; i < n; i++ {
		t := "composed"
		if r.Chance(1, 3) {
			t = Pick(r, c13Types)
		}
		ws = append(ws, c13WidJ{T: t, G: c13GenKind(r, kinds)})
	}
	if r.Chance(1, 5) { // the same watch twice in one call (an XR composing two resources of one kind)
		ws = append(ws, ws[0])
	}
	return ws
}

// c13Pool is the kind pool of the scenario being generated: for each base kind the form it
// mostly appears in (plain, or one look-alike / awkwardly named form, see c13GVK), so that the
// same odd kind is watched, re-watched, removed, referenced and read several times in one scenario.
var c13Pool []int

func c13NewPool(r *Rng, kinds int) {
	c13Pool = make([]int, kinds)
	for g := range c13Pool {
		c13Pool[g] = g
		if r.Chance(1, 3) {
			c13Pool[g] = 1000*r.Range(1, c13Variants-1) + g
		}
	}
}

// c13GenKind draws a kind: mostly the scenario's form of one of `kinds` base kinds, sometimes the
// plain form or another form that differs from it in one identity dimension only (another version,
// another API group, a Kind it is a prefix of, another case, a name ending in "List", ...: see
// c13GVK), each a different GVK.
func c13GenKind(r *Rng, kinds int) int {
	g := r.Intn(kinds)
	switch {
	case r.Chance(1, 8):
		return 1000*r.Range(1, c13Variants-1) + g
	case r.Chance(1, 8) || g >= len(c13Pool):
		return g
	}
	return c13Pool[g]
}

// c13GenXRs draws the XRs the collector lists: 0-4 XRs in every state a collector could be
// tempted to filter on, with 0-3 references each (duplicates, malformed ones, several versions
// of one kind, kinds related by group / prefix / case).
func c13GenXRs(r *Rng, kinds int) []c13XR {
	xrs := []c13XR{}
	for i, n := 0, r.Intn(5); i < n; i++ {
		x := c13XR{Del: r.Chance(1, 3), Paused: r.Chance(1, 5), NoComp: r.Chance(1, 5), NotReady: r.Chance(1, 4), Unsynced: r.Chance(1, 5), Refs: []c13Ref{}}
		// most XRs of a controller sit on the same one or two composition revisions; some have
		// not selected one yet. Two XRs on one revision may well compose different kinds (a
		// pipeline renders per XR; a new XR has no references yet).
		x.Rev = Pick(r, []int{0, 1, 1, 1, 2})
		for j, m := 0, r.Intn(4); j < m; j++ {
			ref := c13Ref{G: c13GenKind(r, kinds)}
			if r.Chance(1, 10) {
				ref.Bad = Pick(r, []string{"nokind", "noapi"})
			}
			x.Refs = append(x.Refs, ref)
			if r.Chance(1, 6) {
				x.Refs = append(x.Refs, ref)
			}
		}
		xrs = append(xrs, x)
	}
	if r.Chance(1, 3) {
		// two XRs on the SAME revision with different reference sets, in either list order; the
		// one listed first often has no references yet (just created)
		a := c13XR{Rev: 1, Refs: []c13Ref{}}
		b := c13XR{Rev: 1, Refs: []c13Ref{{G: c13GenKind(r, kinds)}}}
		if r.Chance(1, 2) {
			a.Refs = append(a.Refs, c13Ref{G: c13GenKind(r, kinds)})
		}
		if r.Chance(1, 2) {
			b.Refs = append(b.Refs, c13Ref{G: c13GenKind(r, kinds)})
		}
		pair := []c13XR{a, b}
		if r.Chance(1, 2) {
			pair = []c13XR{b, a}
		}
		if r.Chance(1, 2) {
			xrs = append(pair, xrs...)
		} else {
			xrs = append(xrs, pair...)
		}
	}
	return xrs
}

// c13GenGC draws one collector call: the XRs of the controller's own composite kind and,
// mostly, XRs of other composite kinds (with other references) that only a List for another
// group, version or kind would return.
func c13GenGC(r *Rng, n, kinds int) c13Op {
	op := c13Op{Op: "gc", N: n, Xrs: c13GenXRs(r, kinds)}
	if r.Chance(2, 3) {
		op.Oxrs = c13GenXRs(r, kinds)
	}
	return op
}

func c13GenOp(r *Rng, names, kinds int) c13Op {
	n := r.Intn(names)
	switch r.Intn(16) {
	case 0, 1:
		return c13Op{Op: "start", N: n}
	case 2, 3:
		return c13Op{Op: "stop", N: n}
	case 4:
		return c13Op{Op: "isRunning", N: n}
	case 5, 6, 7, 8:
		max := 3
		if r.Chance(1, 5) {
			max = 5
		}
		return c13Op{Op: "startWatches", N: n, Ws: c13GenWids(r, kinds, max)}
	case 9, 10:
		return c13Op{Op: "stopWatches", N: n, Ws: c13GenWids(r, kinds, 3)}
	case 11:
		return c13Op{Op: "getWatches", N: n}
	case 12, 13:
		return c13GenGC(r, n, kinds)
	case 14:
		return c13Op{Op: "removeInformer", G: c13GenKind(r, kinds)}
	default:
		if r.Chance(1, 2) {
			return c13Op{Op: "removeInformer", G: c13GenKind(r, kinds)}
		}
		return c13Op{Op: "cacheRead", G: c13GenKind(r, kinds), Via: Pick(r, []string{"get", "list", "forkind"})}
	}
}

// c13GenGCStory appends what one controller's collector sees over time: the controller watches
// some composed kinds; the (one, long-lived) collector of that controller runs 2-3 times, each
// time against another set of XRs (XRs appear, disappear, start and stop referencing kinds),
// with watches started in between. Every call must decide from the XRs IT listed.
func c13GenGCStory(r *Rng, n, kinds int, add func(c13Op)) {
	composed := func() []c13WidJ {
		ws := []c13WidJ{}
		for i, k := 0, r.Range(1, 3); i < k; i++ {
			ws = append(ws, c13WidJ{T: "composed", G: c13GenKind(r, kinds)})
		}
		if r.Chance(1, 3) {
			ws = append(ws, c13WidJ{T: Pick(r, []string{"xr", "rev"}), G: c13GenKind(r, kinds)})
		}
		return ws
	}
	add(c13Op{Op: "startWatches", N: n, Ws: composed()})
	for i, k := 0, r.Range(2, 3); i < k; i++ {
		add(c13GenGC(r, n, kinds))
		if r.Chance(1, 2) {
			add(c13Op{Op: "startWatches", N: n, Ws: composed()})
		}
	}
	if r.Chance(1, 2) {
		add(c13Op{Op: "getWatches", N: n})
	}
}

func c13GenRandom(r *Rng) c13Scn {
	names := r.Range(1, 2)
	if r.Chance(1, 6) {
		names = 3
	}
	kinds := r.Range(1, 3)
	c13NewPool(r, kinds)
	s := c13Scn{Names: names}
	phase := 0
	add := func(op c13Op) {
		op.Phase = phase
		s.Threads = append(s.Threads, op)
	}
	seq := func(op c13Op) {
		add(op)
		phase++
	}
	// sequential prefix
	for n := 0; n < names; n++ {
		if r.Chance(4, 5) {
			seq(c13Op{Op: "start", N: n})
			if r.Chance(2, 3) {
				seq(c13Op{Op: "startWatches", N: n, Ws: c13GenWids(r, kinds, 3)})
			}
		}
	}
	if r.Chance(1, 4) {
		seq(c13Op{Op: "removeInformer", G: c13GenKind(r, kinds)})
	}
	story := r.Chance(1, 4)
	if story && r.Chance(1, 2) {
		c13GenGCStory(r, r.Intn(names), kinds, seq)
		story = false
	}
	// one or two concurrent phases (after a collector story mostly a short one)
	for k, np := 0, r.Range(1, 2); k < np; k++ {
		for i, n := 0, r.Range(2, 4); i < n; i++ {
			add(c13GenOp(r, names, kinds))
		}
		phase++
	}
	// sequential suffix
	if story {
		c13GenGCStory(r, r.Intn(names), kinds, seq)
	}
	for i, n := 0, r.Range(0, 4); i < n; i++ {
		seq(c13GenOp(r, names, kinds))
	}
	for i := 0; i < 120; i++ {
		v := r.Intn(8)
		if r.Chance(1, 25) {
			v += 1000 * r.Range(1, len(c13ErrClasses)) // the call fails, with an error of that class
		}
		s.Script = append(s.Script, v)
	}
	return s
}

// small-scope alphabet for exhaustive schedule enumeration (2 controllers x 2 kinds)
func c13Alphabet() []c13Op {
	w := func(t string, g int) c13WidJ { return c13WidJ{T: t, G: g} }
	return []c13Op{
		{Op: "start", N: 0},
		{Op: "stop", N: 0},
		{Op: "isRunning", N: 0},
		{Op: "startWatches", N: 0, Ws: []c13WidJ{w("composed", 0)}},
		{Op: "startWatches", N: 0, Ws: []c13WidJ{w("composed", 0), w("composed", 0)}},
		{Op: "startWatches", N: 0, Ws: []c13WidJ{w("xr", 0), w("composed", 1)}},
		{Op: "stopWatches", N: 0, Ws: []c13WidJ{w("composed", 0)}},
		{Op: "getWatches", N: 0},
		{Op: "gc", N: 0, Xrs: []c13XR{}},
		{Op: "gc", N: 0, Xrs: []c13XR{{Refs: []c13Ref{{G: 0}}}}},
		{Op: "gc", N: 0, Xrs: []c13XR{{Del: true, NotReady: true, Refs: []c13Ref{{G: 0}}}, {Refs: []c13Ref{{G: 1000}}}}},
		{Op: "gc", N: 0, Xrs: []c13XR{{Rev: 1, Refs: []c13Ref{}}, {Rev: 1, Refs: []c13Ref{{G: 0}}}, {Refs: []c13Ref{{G: 1}}}}},
		{Op: "removeInformer", G: 0},
		{Op: "startWatches", N: 1, Ws: []c13WidJ{w("composed", 0)}},
		{Op: "stop", N: 1},
	}
}

func c13Setups() [][]c13Op {
	w := func(t string, g int) c13WidJ { return c13WidJ{T: t, G: g} }
	return [][]c13Op{
		{},
		{{Op: "start", N: 0}},
		{{Op: "start", N: 0}, {Op: "start", N: 1}},
		{{Op: "start", N: 0}, {Op: "startWatches", N: 0, Ws: []c13WidJ{w("xr", 0), w("composed", 0), w("composed", 1)}}},
		{{Op: "start", N: 0}, {Op: "start", N: 1}, {Op: "startWatches", N: 0, Ws: []c13WidJ{w("composed", 0)}}, {Op: "startWatches", N: 1, Ws: []c13WidJ{w("composed", 0)}}},
		{{Op: "start", N: 0}, {Op: "startWatches", N: 0, Ws: []c13WidJ{w("composed", 0)}}, {Op: "removeInformer", G: 0}},
	}
}

// c13Exhaustive enumerates every schedule (no faults) of the scenario: calls emit for each;
// stops when emit returns false or after max schedules. Returns the number of schedules run
// and whether the enumeration was complete.
func c13Exhaustive(base c13Scn, max int, emit func(c13Scn, c13Obs, []Mon) bool) (int, bool) {
	script := []int{}
	n := 0
	for {
		s := base
		s.Script = append([]int{}, script...)
		done, obs, mons, br := c13Run1(s)
		// the script actually followed: explicit prefix, then zeros
		full := make([]int, len(br))
		copy(full, script)
		done.Script = full
		n++
		if !emit(done, obs, mons) {
			return n, false
		}
		// next script in the odometer order
		k := len(br) - 1
		for k >= 0 && full[k]+1 >= br[k] {
			k--
		}
		if k < 0 {
			return n, true
		}
		script = append(full[:k:k], full[k]+1)
		if n >= max {
			return n, false
		}
	}
}

func c13Post(setup []c13Op, par []c13Op) c13Scn {
	s := c13Scn{Names: 2}
	phase := 0
	for _, op := range setup {
		op.Phase = phase
		phase++
		s.Threads = append(s.Threads, op)
	}
	for _, op := range par {
		op.Phase = phase
		s.Threads = append(s.Threads, op)
	}
	phase++
	// closing sequential calls: what the property talks about "afterwards"
	for _, op := range []c13Op{{Op: "startWatches", N: 0, Ws: []c13WidJ{{T: "composed", G: 0}}}, {Op: "stop", N: 0}, {Op: "stop", N: 1}} {
		op.Phase = phase
		phase++
		s.Threads = append(s.Threads, op)
	}
	return s
}

func init() {
	Register("C13", func(c *Ctx) {
		emitted := 0
		emit := func(s c13Scn, obs c13Obs, mons []Mon, tag string) {
			cls := c13Cls(s, obs)
			if tag != "" {
				cls = tag + ":" + cls
			}
			c.Emit(s, obs, mons, cls)
			emitted++
		}
		for _, raw := range c.Corpus {
			var s c13Scn
			if err := jsonUnmarshalStrict(raw, &s); err == nil && len(s.Threads) > 0 {
				done, obs, mons, _ := c13Run1(s)
				emit(done, obs, mons, "corpus")
			}
		}
		shard := int(c.Seed % 1000)
		budget := c.N
		if c.Tier == "thorough" {
			// exhaustive small scope: every schedule of every pair of calls, then of triples (capped),
			// partitioned over the shards
			alpha := c13Alphabet()
			idx := 0
			exh := budget * 3 / 4
			pairs, complete, skipped := 0, 0, 0
			for _, setup := range c13Setups() {
				for i := 0; i < len(alpha); i++ {
					for j := i; j < len(alpha); j++ {
						idx++
						if idx%8 != shard%8 {
							continue
						}
						pairs++
						if emitted >= exh {
							skipped++
							continue
						}
						base := c13Post(setup, []c13Op{alpha[i], alpha[j]})
						_, done := c13Exhaustive(base, 4000, func(s c13Scn, o c13Obs, m []Mon) bool {
							emit(s, o, m, "exh2")
							return emitted < exh
						})
						if done {
							complete++
						}
					}
				}
			}
			fmt.Fprintf(os.Stderr, "c13: shard %d: %d of %d call pairs enumerated exhaustively (%d not reached), %d schedules\n", shard%8, complete, pairs, skipped, emitted)
			rr := c.Rng.Fork()
			for emitted < exh {
				setup := Pick(rr, c13Setups())
				base := c13Post(setup, []c13Op{Pick(rr, alpha), Pick(rr, alpha), Pick(rr, alpha)})
				c13Exhaustive(base, 1000, func(s c13Scn, o c13Obs, m []Mon) bool {
					emit(s, o, m, "exh3")
					return emitted < exh
				})
			}
		}
		for emitted < budget+len(c.Corpus) {
			s := c13GenRandom(c.Rng)
			done, obs, mons, _ := c13Run1(s)
			emit(done, obs, mons, "")
		}
	})
	// free-running scenarios for a binary built with -race (manual, supporting evidence only)
	Register("C13race", func(c *Ctx) {
		for i := 0; i < c.N; i++ {
			s := c13GenRandom(c.Rng)
			c13Norm(&s)
			r := c13NewRun(s.Threads)
			r.runFree()
			r.cleanup(s.Names)
		}
		c.Emit(map[string]int{"scenarios": c.N}, map[string]int{}, nil, "free-running")
	})
	RegisterDump("C13", func() string {
		// constants of the tree the theorems mention: the four watch types
		names := []string{}
		for k, v := range c13WT {
			names = append(names, k+"="+string(v))
		}
		sort.Strings(names)
		return "/-- engine.WatchType constants (model name = Go value) -/\n" +
			"def c13WatchTypes : List String := " + leanSortedStrList(names) + "\n" +
			"def c13ComposedWatchType : String := \"" + strings.ReplaceAll(string(c13WT["composed"]), "\"", "") + "\"\n"
	})
}

//go:build verif

package main

// C17: real PackageDependencyManager.Resolve and real lock Reconciler over simstore.

import (
	"context"
	"fmt"
	"sort"
	"strconv"
	"strings"

	"github.com/Masterminds/semver"
	"github.com/google/go-containerregistry/pkg/name"
	conregv1 "github.com/google/go-containerregistry/pkg/v1"
	kerrors "k8s.io/apimachinery/pkg/api/errors"
	metav1 "k8s.io/apimachinery/pkg/apis/meta/v1"
	"k8s.io/apimachinery/pkg/apis/meta/v1/unstructured"
	"k8s.io/apimachinery/pkg/runtime"
	"k8s.io/apimachinery/pkg/types"
	"k8s.io/utils/ptr"
	"sigs.k8s.io/controller-runtime/pkg/client"
	"sigs.k8s.io/controller-runtime/pkg/manager"
	"sigs.k8s.io/controller-runtime/pkg/reconcile"

	"github.com/crossplane/crossplane-runtime/pkg/feature"
	"github.com/crossplane/crossplane-runtime/pkg/fieldpath"

	pkgmetav1 "github.com/crossplane/crossplane/apis/pkg/meta/v1"
	pkgv1 "github.com/crossplane/crossplane/apis/pkg/v1"
	"github.com/crossplane/crossplane/apis/pkg/v1beta1"
	"github.com/crossplane/crossplane/internal/controller/pkg/resolver"
	"github.com/crossplane/crossplane/internal/controller/pkg/revision"
	"github.com/crossplane/crossplane/internal/dag"
	"github.com/crossplane/crossplane/internal/features"
	"github.com/crossplane/crossplane/internal/xpkg"
)

var c17Scheme = func() *runtime.Scheme {
	s := runtime.NewScheme()
	_ = pkgv1.AddToScheme(s)
	_ = v1beta1.AddToScheme(s)
	return s
}()

type c17Mgr struct {
	manager.Manager
	c client.Client
}

func (m c17Mgr) GetClient() client.Client { return m.c }

func c17Image(source, version string) string {
	if strings.HasPrefix(version, "sha256:") {
		return source + "@" + version
	}
	return source + ":" + version
}

func c17LockPkgsOf(l *v1beta1.Lock) []c17Pkg {
	out := []c17Pkg{}
	for _, lp := range l.Packages {
		p := c17Pkg{Name: lp.Name, Source: lp.Source, Version: lp.Version, Typed: lp.Type != nil, Deps: []c17Dep{}}
		for _, d := range lp.Dependencies {
			p.Deps = append(p.Deps, c17Dep{Pkg: d.Package, Con: d.Constraints})
		}
		out = append(out, p)
	}
	return out
}

// ---------------------------------------------------------------- Resolve

// c17Env: what other writers of the Lock store right before each of Resolve's API calls that
// follow its first Get (Interf of the model). nil = nobody wrote; a (possibly empty) list = the
// packages stored by the other writer (the resourceVersion moves in any case).
type c17Env struct {
	RmGet   *[]c17Pkg `json:"rmGet"`   // before the Get of RemoveSelf
	RmUpd   *[]c17Pkg `json:"rmUpd"`   // between the Get and the Update of RemoveSelf
	Refresh *[]c17Pkg `json:"refresh"` // between RemoveSelf and the refreshing Get
	Upd     *[]c17Pkg `json:"upd"`     // between the last Get and the Update that adds the revision
}

type c17ResScn struct {
	Kind string   `json:"kind"` // "resolve"
	Upg  bool     `json:"upg"`
	Lock []c17Pkg `json:"lock"`
	Self c17Pkg   `json:"self"`
	Env  *c17Env  `json:"env,omitempty"`
	// More: further Resolve calls of the SAME PackageDependencyManager (it is built once per
	// revision controller) on the same API server, one after the other.
	More []c17ResMore `json:"more,omitempty"`
	// Absent: there is no Lock object (Lock must be empty). Fault: call number K of the first
	// Resolve (its Get / Create / Update calls on the Lock, 0-based) comes back with an error of
	// that class instead of being carried out.
	Absent bool      `json:"absent,omitempty"`
	Fault  *c17Fault `json:"fault,omitempty"`
	Oracle c17Oracle `json:"oracle"`
}

type c17Fault struct {
	K     int    `json:"k"`
	Class string `json:"class"`
}

// c17FaultClient counts the calls of one Resolve and makes call number fault.K fail; what the
// other writers do right before that call still happens (simstore's Before hook is run by hand).
type c17FaultClient struct {
	*Store
	k     int
	fault *c17Fault
}

func (c *c17FaultClient) hit(verb string) error {
	k := c.k
	c.k++
	if c.fault != nil && c.fault.K == k {
		if c.Store.Before != nil {
			c.Store.Before(CallInfo{Verb: verb, GK: gkString(c17LockGK), Name: "lock"})
		}
		return c17ErrOf(c.fault.Class, "lock")
	}
	return nil
}

func (c *c17FaultClient) Get(ctx context.Context, key client.ObjectKey, obj client.Object, opts ...client.GetOption) error {
	if err := c.hit("get"); err != nil {
		return err
	}
	return c.Store.Get(ctx, key, obj, opts...)
}

func (c *c17FaultClient) Create(ctx context.Context, obj client.Object, opts ...client.CreateOption) error {
	if err := c.hit("create"); err != nil {
		return err
	}
	return c.Store.Create(ctx, obj, opts...)
}

func (c *c17FaultClient) Update(ctx context.Context, obj client.Object, opts ...client.UpdateOption) error {
	if err := c.hit("update"); err != nil {
		return err
	}
	return c.Store.Update(ctx, obj, opts...)
}

// c17ResMore is one later Resolve of the long-lived manager. Set: what another client stored in
// the Lock between the previous Resolve and this one (nil: nothing).
type c17ResMore struct {
	Self c17Pkg    `json:"self"`
	Set  *[]c17Pkg `json:"set"`
}

func (e *c17Env) points() []*[]c17Pkg {
	if e == nil {
		return nil
	}
	return []*[]c17Pkg{e.RmGet, e.RmUpd, e.Refresh, e.Upd}
}

type c17ResObs struct {
	Found     int      `json:"found"`
	Installed int      `json:"installed"`
	Invalid   int      `json:"invalid"`
	Err       string   `json:"err"`
	Lock      []c17Pkg `json:"lock"`
}

type c17ResObsAll struct {
	c17ResObs
	More []c17ResObs `json:"more"`
}

func c17ResErrKind(err error) string {
	switch t := c17ErrText(err); {
	case t == "":
		return ""
	case strings.Contains(t, "cannot get or create lock"):
		return "getOrCreate:" + c17ErrClassOf(err)
	case kerrors.IsConflict(err):
		return "conflict"
	case c17ErrClassOf(err) != "other":
		return "api:" + c17ErrClassOf(err)
	case strings.Contains(t, "cannot initialize dependency graph"):
		return "initDag"
	case strings.Contains(t, "missing dependencies:"):
		return "missing"
	case strings.Contains(t, "missing node in tree"):
		return "traceMissing"
	case strings.Contains(t, "dependency is not present in graph"):
		return "notInGraph"
	case strings.Contains(t, "dependency in graph is not a lock package"):
		return "notLockPackage"
	case strings.HasPrefix(t, "incompatible dependencies:"):
		return "incompatible"
	case strings.Contains(t, "is incompatible with constraint"):
		return "digestMismatch"
	case strings.Contains(t, "improper constraint"):
		return "badConstraint"
	case strings.Contains(t, "Invalid Semantic Version"), strings.Contains(t, "Error parsing version segment"):
		return "badVersion"
	default:
		return "other:" + t
	}
}

func c17ResRun(s c17ResScn) (c17ResObsAll, []Mon, string) {
	st := NewStore(c17Scheme)
	if !s.Absent {
		st.Seed(&v1beta1.Lock{ObjectMeta: metav1.ObjectMeta{Name: "lock"}, Packages: c17LockPackages(s.Lock)})
	}
	newDag := dag.NewMapDag
	if s.Upg {
		newDag = dag.NewUpgradingMapDag
	}
	// ONE manager for all the Resolve calls of the scenario, as in one process
	fc := &c17FaultClient{Store: st, fault: s.Fault}
	m := revision.NewPackageDependencyManager(fc, newDag, pkgv1.ProviderGroupVersionKind)
	first, mons, cls := c17ResOne(m, st, s, c17InstallWriters(st, s))
	fc.fault = nil
	if s.Fault != nil {
		cls = fmt.Sprintf("fault=%d:%s/%s", s.Fault.K, s.Fault.Class, cls)
	}
	if s.Absent {
		cls = "absent/" + cls
	}
	all := c17ResObsAll{c17ResObs: first, More: []c17ResObs{}}
	writes := 1000
	for i, mr := range s.More {
		if first.Err == "panic" {
			break
		}
		if mr.Set != nil {
			writes++
			c17StoreLock(st, *mr.Set, writes)
		}
		cur := &v1beta1.Lock{}
		_ = st.Get(context.Background(), types.NamespacedName{Name: "lock"}, cur)
		none := "none"
		o, mm, _ := c17ResOne(m, st, c17ResScn{Upg: s.Upg, Lock: c17LockPkgsOf(cur), Self: mr.Self}, &none)
		all.More = append(all.More, o)
		for _, x := range mm {
			mons = append(mons, Mon{Sig: x.Sig, Why: fmt.Sprintf("Resolve %d of the same manager: %s", i+2, x.Why)})
		}
	}
	if len(s.More) > 0 {
		cls = fmt.Sprintf("seq=%d/%s", len(s.More)+1, cls)
	}
	return all, mons, cls
}

// c17ResOne: one Resolve of the manager `m` for the revision s.Self; s.Lock is what the Lock holds
// when it starts, s.Env what the other writers do meanwhile.
func c17ResOne(m *revision.PackageDependencyManager, st *Store, s c17ResScn, consumed *string) (c17ResObs, []Mon, string) {
	meta := &pkgmetav1.Provider{}
	for _, d := range s.Self.Deps {
		meta.Spec.DependsOn = append(meta.Spec.DependsOn, pkgmetav1.Dependency{Provider: ptr.To(d.Pkg), Version: d.Con})
	}
	pr := &pkgv1.ProviderRevision{ObjectMeta: metav1.ObjectMeta{Name: s.Self.Name}}
	pr.Spec.Package = c17Image(s.Self.Source, s.Self.Version)
	pr.Spec.DesiredState = pkgv1.PackageRevisionActive
	var found, installed, invalid int
	var err error
	var mons []Mon
	p := Guard(func() { found, installed, invalid, err = m.Resolve(context.Background(), meta, pr) })
	st.Before = nil // the other writers act during Resolve only; what follows reads the final state
	if p != "" {
		return c17ResObs{Err: "panic", Lock: []c17Pkg{}}, []Mon{{Sig: "C17:resolve-panic", Why: p}}, "panic"
	}
	after := &v1beta1.Lock{}
	_ = st.Get(context.Background(), types.NamespacedName{Name: "lock"}, after)
	obs := c17ResObs{Found: found, Installed: installed, Invalid: invalid, Err: c17ResErrKind(err), Lock: c17LockPkgsOf(after)}

	// well-formedness of the lock w.r.t. this revision (LockWF of the model): unique revision
	// names; an entry under the revision's source is the revision's own entry with the same
	// dependencies; entries named like the revision carry no deprecated type. Of the other
	// writers (EnvWF of the model): what RemoveSelf's Get reads back is well-formed in the same
	// sense; what the refreshing Get reads back holds only the revision's own entries.
	wf := c17LockWF(s.Lock, s.Self)
	if s.Env != nil {
		if s.Env.RmGet != nil {
			wf = wf && c17LockWF(*s.Env.RmGet, s.Self)
		}
		if s.Env.Refresh != nil {
			wf = wf && c17OwnEntry(*s.Env.Refresh, s.Self)
		}
	}
	// direct monitor: "satisfied" only if every direct and transitive dependency is in the
	// lock AS STORED WHEN RESOLVE RETURNS (obs.Lock is read from the store after the call, i.e.
	// after whatever the other writers did) and every direct dependency's version satisfies
	// its constraint / digest
	if err == nil && wf {
		inLock := map[string]c17Pkg{}
		for _, p := range obs.Lock {
			if _, dup := inLock[p.Source]; !dup {
				inLock[p.Source] = p
			}
		}
		for _, d := range s.Self.Deps {
			lp, ok := inLock[d.Pkg]
			if !ok {
				mons = append(mons, Mon{Sig: "C17:satisfied-with-missing-direct", Why: "satisfied although direct dependency " + d.Pkg + " is not in the lock"})
				continue
			}
			if h, herr := conregv1.NewHash(d.Con); herr == nil {
				if lp.Version != h.String() {
					mons = append(mons, Mon{Sig: "C17:satisfied-with-wrong-digest", Why: d.Pkg + " is at " + lp.Version + ", constraint pins " + h.String()})
				}
				continue
			}
			con, cerr := semver.NewConstraint(d.Con)
			v, verr := semver.NewVersion(lp.Version)
			if cerr != nil || verr != nil || !con.Check(v) {
				mons = append(mons, Mon{Sig: "C17:satisfied-with-violated-constraint", Why: fmt.Sprintf("%s@%s does not satisfy %q", d.Pkg, lp.Version, d.Con)})
			}
		}
		// closure through the lock's own edges, starting from self's declared dependencies
		edges := map[string][]string{}
		for _, p := range obs.Lock {
			if _, ok := edges[p.Source]; ok {
				continue
			}
			edges[p.Source] = []string{}
			for _, d := range p.Deps {
				edges[p.Source] = append(edges[p.Source], d.Pkg)
			}
		}
		self := []string{}
		for _, d := range s.Self.Deps {
			self = append(self, d.Pkg)
		}
		edges["\x00self"] = self
		for id := range c17Reach(edges, "\x00self") {
			if _, ok := inLock[id]; !ok {
				mons = append(mons, Mon{Sig: "C17:satisfied-with-missing-transitive", Why: "satisfied although " + id + " (reachable from the revision's dependencies) is not in the lock"})
			}
		}
	}
	// direct monitors of what Resolve leaves in the Lock
	has := func(l []c17Pkg, f func(c17Pkg) bool) bool {
		for _, p := range l {
			if f(p) {
				return true
			}
		}
		return false
	}
	if err == nil && wf && !has(obs.Lock, func(p c17Pkg) bool { return p.Name == s.Self.Name && p.Source == s.Self.Source }) {
		mons = append(mons, Mon{Sig: "C17:satisfied-without-being-recorded", Why: "satisfied although the Lock holds no entry " + s.Self.Name + " of " + s.Self.Source})
	}
	if s.Env == nil {
		// without other writers: every other revision's entry stays, and (unless the DAG cannot
		// be built) an entry with the revision's name is there afterwards
		for _, q := range s.Lock {
			if q.Name != s.Self.Name && !has(obs.Lock, func(p c17Pkg) bool { return c17EqualJSON(p, q) }) {
				mons = append(mons, Mon{Sig: "C17:resolve-removed-foreign-entry", Why: "the entry " + q.Name + " (" + q.Source + ") of another revision is gone after Resolve of " + s.Self.Name})
			}
		}
		// a revision that moved to another repository does not leave its old entry behind (other
		// revisions' dependencies on the old source would count as present)
		if s.Fault == nil && wf && obs.Err != "initDag" && has(obs.Lock, func(p c17Pkg) bool { return p.Name == s.Self.Name && !p.Typed && p.Source != s.Self.Source }) {
			mons = append(mons, Mon{Sig: "C17:moved-revision-stale-entry-kept", Why: "after Resolve the Lock still holds an entry " + s.Self.Name + " under a source other than " + s.Self.Source})
		}
		// the entry this Resolve records for the revision carries every declared dependency with
		// its own constraint, in the declared order (duplicates included): the lock reconciler and
		// every later Resolve judge the constraints recorded here, not the package's meta
		if !has(s.Lock, func(p c17Pkg) bool { return p.Name == s.Self.Name }) {
			for _, p := range obs.Lock {
				if p.Name == s.Self.Name && p.Source == s.Self.Source && !c17EqualJSON(c17DepsOrEmpty(p.Deps), c17DepsOrEmpty(s.Self.Deps)) {
					mons = append(mons, Mon{Sig: "C17:recorded-entry-differs-from-declared-dependencies", Why: fmt.Sprintf("declared %v, recorded %v", s.Self.Deps, p.Deps)})
				}
			}
		}
		if s.Fault == nil && obs.Err != "initDag" && !has(obs.Lock, func(p c17Pkg) bool { return p.Name == s.Self.Name }) {
			mons = append(mons, Mon{Sig: "C17:resolve-not-recorded", Why: "no entry named " + s.Self.Name + " in the Lock after Resolve returned " + obs.Err})
		}
	}
	cls := "err=" + obs.Err
	if c17HasDupDeps(s.Self.Deps) {
		cls = "dupdep/" + cls
	}
	if !wf {
		cls = "nonwf/" + cls
	}
	if s.Env != nil {
		cls = "writers=" + *consumed + "/" + cls
	}
	return obs, mons, cls
}

// c17HasDupDeps: is a package declared more than once?
func c17HasDupDeps(d []c17Dep) bool {
	seen := map[string]bool{}
	for _, x := range d {
		if seen[x.Pkg] {
			return true
		}
		seen[x.Pkg] = true
	}
	return false
}

func c17DepsOrEmpty(d []c17Dep) []c17Dep {
	if d == nil {
		return []c17Dep{}
	}
	return d
}

// c17LockWF is LockWF of the model.
func c17LockWF(lock []c17Pkg, self c17Pkg) bool {
	names := map[string]bool{}
	for _, p := range lock {
		if names[p.Name] {
			return false
		}
		names[p.Name] = true
		if p.Source == self.Source && (p.Name != self.Name || !c17EqualJSON(p.Deps, self.Deps)) {
			return false
		}
		if p.Name == self.Name && p.Typed {
			return false
		}
	}
	return true
}

// c17OwnEntry is OwnEntry of the model.
func c17OwnEntry(lock []c17Pkg, self c17Pkg) bool {
	for _, p := range lock {
		if p.Source == self.Source && (p.Name != self.Name || !c17EqualJSON(p.Deps, self.Deps)) {
			return false
		}
		if p.Name == self.Name && p.Source != self.Source {
			return false
		}
	}
	return true
}

var c17LockGK = v1beta1.LockGroupVersionKind.GroupKind()

// c17StoreLock is the write of another client: it replaces the stored packages (out of band,
// through simstore's Mutate) and always moves the resourceVersion, like any write that changes
// the object (an annotation counts the writes so that equal contents are a change too).
func c17StoreLock(st *Store, pkgs []c17Pkg, n int) {
	m, err := runtime.DefaultUnstructuredConverter.ToUnstructured(&v1beta1.Lock{Packages: c17LockPackages(pkgs)})
	if err != nil {
		panic(err)
	}
	st.Mutate(c17LockGK, "", "lock", func(u *unstructured.Unstructured) {
		if p, ok := m["packages"]; ok {
			u.Object["packages"] = p
		} else {
			delete(u.Object, "packages")
		}
		a := u.GetAnnotations()
		if a == nil {
			a = map[string]string{}
		}
		a["verif.crossplane.io/writes"] = strconv.Itoa(n)
		u.SetAnnotations(a)
	})
}

// c17InstallWriters realises s.Env on the store: in simstore's Before-the-call window of the
// matching API call of Resolve the other writer's contents are stored. Resolve's calls on the
// Lock are: Get; [moved entry: Get (RemoveSelf), Update (if an entry with the revision's name
// is there), Get (refresh)]; [Update (revision not in the lock as last read)]. Nothing is
// injected: an Update that follows such a write fails because the resourceVersion it carries
// is stale. Every point fires at most once (a retried Update is not interfered with again).
// The returned string names the points whose write was applied.
func c17InstallWriters(st *Store, s c17ResScn) *string {
	consumed := "none"
	if s.Env == nil {
		return &consumed
	}
	moved := false
	for _, p := range s.Lock {
		moved = moved || (p.Name == s.Self.Name && !p.Typed && p.Source != s.Self.Source)
	}
	env := *s.Env
	gets, writes := 0, 0
	lockGK := gkString(c17LockGK)
	st.Before = func(ci CallInfo) {
		if ci.GK != lockGK || ci.Sub != "" {
			return
		}
		var w **[]c17Pkg
		name := ""
		switch ci.Verb {
		case "get":
			gets++
			switch {
			case moved && gets == 2:
				w, name = &env.RmGet, "rmGet"
			case moved && gets == 3:
				w, name = &env.Refresh, "refresh"
			}
		case "update":
			switch {
			case moved && gets == 2:
				w, name = &env.RmUpd, "rmUpd"
			case (moved && gets == 3) || (!moved && gets == 1):
				w, name = &env.Upd, "upd"
			}
		}
		if w == nil || *w == nil {
			return
		}
		pk := **w
		*w = nil
		writes++
		c17StoreLock(st, pk, writes)
		if consumed == "none" {
			consumed = name
		} else {
			consumed += "+" + name
		}
	}
	return &consumed
}

func c17ResStrings(s c17ResScn) []string {
	strs := c17DagStrings(s.Lock)
	for _, w := range s.Env.points() {
		if w != nil {
			strs = append(strs, c17DagStrings(*w)...)
		}
	}
	strs = append(strs, s.Self.Version)
	for _, d := range s.Self.Deps {
		strs = append(strs, d.Con)
	}
	for _, mr := range s.More {
		strs = append(strs, mr.Self.Version)
		for _, d := range mr.Self.Deps {
			strs = append(strs, d.Con)
		}
		if mr.Set != nil {
			strs = append(strs, c17DagStrings(*mr.Set)...)
		}
	}
	return strs
}

func c17ResEmit(c *Ctx, s c17ResScn, prefix string) {
	s.Kind = "resolve"
	if s.Lock == nil {
		s.Lock = []c17Pkg{}
	}
	for i := range s.Lock {
		if s.Lock[i].Deps == nil {
			s.Lock[i].Deps = []c17Dep{}
		}
	}
	if s.Self.Deps == nil {
		s.Self.Deps = []c17Dep{}
	}
	for _, w := range s.Env.points() {
		if w == nil {
			continue
		}
		if *w == nil {
			*w = []c17Pkg{} // an emptied lock, not "nobody wrote"
		}
		for i := range *w {
			if (*w)[i].Deps == nil {
				(*w)[i].Deps = []c17Dep{}
			}
		}
	}
	if s.Absent {
		s.Lock = []c17Pkg{}
	}
	if s.Absent || s.Fault != nil {
		s.More = nil
	}
	for i := range s.More {
		if s.More[i].Self.Deps == nil {
			s.More[i].Self.Deps = []c17Dep{}
		}
		if w := s.More[i].Set; w != nil {
			if *w == nil {
				*w = []c17Pkg{}
			}
			for j := range *w {
				if (*w)[j].Deps == nil {
					(*w)[j].Deps = []c17Dep{}
				}
			}
		}
	}
	s.Oracle = c17MkOracle(c17ResStrings(s))
	obs, mons, cls := c17ResRun(s)
	kind := "mapdag"
	if s.Upg {
		kind = "upgdag"
	}
	c.Emit(s, obs, mons, prefix+"/resolve/"+kind+"/"+cls)
}

// a version usable as an OCI tag (no build metadata)
func c17GenTagVersion(r *Rng) string {
	for {
		v := c17GenVersion(r)
		if !strings.Contains(v, "+") {
			return v
		}
	}
}

func c17GenEasyConstraint(r *Rng) string {
	return Pick(r, []string{"*", ">=0.0.0", ">=0.0.0", ">=0.1.0", "<3.0.0", ">=0.0.0-0", ">=0.0.0, <9.0.0"})
}

// c17GenLock: k identifiers, the first m of a permutation in the lock; healthy = dependencies
// only among lock members, constraints mostly satisfied.
func c17GenLock(r *Rng, k, m int, healthy bool) []c17Pkg {
	perm := r.Perm(k)
	density := r.Range(1, 4)
	var pkgs []c17Pkg
	for i := 0; i < m; i++ {
		p := c17Pkg{Name: fmt.Sprintf("p%d", perm[i]), Source: c17Repos[perm[i]], Version: c17GenTagVersion(r)}
		if healthy {
			p.Version = fmt.Sprintf("%d.%d.%d", r.Intn(3), r.Intn(3), r.Intn(4))
		} else if r.Chance(1, 15) {
			p.Version = Pick(r, []string{"latest", c17DigestA, "1.2.3.4"})
		}
		for jj := 0; jj < k; jj++ {
			j := perm[jj]
			if healthy && (jj >= m || jj <= i) { // only lock members, only "later" ones: acyclic and closed
				continue
			}
			if r.Chance(density, 10) {
				con := c17GenConstraint(r)
				if healthy || r.Bool() {
					con = c17GenEasyConstraint(r)
				}
				p.Deps = append(p.Deps, c17Dep{Pkg: c17Repos[j], Con: con})
			}
		}
		pkgs = append(pkgs, p)
	}
	return pkgs
}

func c17ResolveRandom(c *Ctx) {
	r := c.Rng
	s := c17ResScn{Upg: r.Bool()}
	k := r.Range(1, 7)
	m := r.Range(0, k)
	healthy := r.Chance(2, 3)
	s.Lock = c17GenLock(r, k, m, healthy)
	// self
	inLock := map[string]c17Pkg{}
	for _, p := range s.Lock {
		inLock[p.Source] = p
	}
	inLockAlready := false
	switch mode := r.Intn(10); {
	case mode < 4 && len(s.Lock) > 0: // already in the lock
		s.Self = s.Lock[r.Intn(len(s.Lock))]
		s.Self.Deps = append([]c17Dep{}, s.Self.Deps...)
		inLockAlready = true
	default: // a new revision
		i := r.Intn(k)
		s.Self = c17Pkg{Name: fmt.Sprintf("p%d", i), Source: c17Repos[i], Version: c17GenTagVersion(r)}
		if _, ok := inLock[s.Self.Source]; ok {
			switch r.Intn(8) {
			case 0: // another revision name for a source that is in the lock (outside LockWF)
				s.Self.Name += "-new"
			default: // same revision name, moved to another repository
				switch r.Intn(4) {
				case 0: // ... whose name is a prefix of the old one
					s.Self.Source = s.Self.Source[:len(s.Self.Source)-1]
				case 1: // ... whose name extends the old one
					s.Self.Source += "x"
				default:
					s.Self.Source = "xpkg.io/moved/" + fmt.Sprintf("p%d", i)
				}
			}
		}
	}
	// a revision already in the lock keeps the recorded dependencies, except for a rare stale
	// entry (outside LockWF: entries are written by Resolve from the same meta)
	if !inLockAlready || r.Chance(1, 12) {
		s.Self.Deps = nil
		for j := 0; j < k; j++ {
			if c17Repos[j] == s.Self.Source {
				if !r.Chance(1, 20) {
					continue
				}
			}
			p, ok := inLock[c17Repos[j]]
			if !r.Chance(3, 10) || (healthy && !ok && !r.Chance(1, 8)) {
				continue
			}
			con := c17GenEasyConstraint(r)
			switch r.Intn(10) {
			case 0:
				con = c17GenConstraint(r)
			case 1:
				if ok {
					con = p.Version // exact
				}
			case 2: // not a constraint at all
				con = Pick(r, []string{"latest", "not a constraint", ">=", "sha256:abc", ">= v1.x.y.z"})
			}
			s.Self.Deps = append(s.Self.Deps, c17Dep{Pkg: c17Repos[j], Con: con})
		}
	}
	// digest pinning: make one dependency pinned, sometimes correctly
	if len(s.Self.Deps) > 0 && r.Chance(1, 5) {
		i := r.Intn(len(s.Self.Deps))
		s.Self.Deps[i].Con = c17DigestA
		if r.Chance(3, 4) {
			for j := range s.Lock {
				if s.Lock[j].Source == s.Self.Deps[i].Pkg {
					s.Lock[j].Version = Pick(r, []string{c17DigestA, c17DigestA, c17DigestB})
				}
			}
		}
	}
	// the same package declared twice with different constraints (dependsOn is a list, nothing
	// forbids it; every entry is a constraint of its own that has to be checked and recorded):
	// the second one easy, unparsable, a digest, or one the installed version violates
	if len(s.Self.Deps) > 0 && r.Chance(1, 5) {
		i := r.Intn(len(s.Self.Deps))
		d := s.Self.Deps[i]
		switch r.Intn(6) {
		case 0:
			d.Con = c17GenEasyConstraint(r)
		case 1:
			d.Con = c17GenConstraint(r)
		case 2:
			d.Con = Pick(r, []string{c17DigestA, c17DigestB, "latest"})
		default:
			d.Con = Pick(r, []string{">99.0.0", "<0.0.1-0", "9.9.9", ">=7.0.0, <8.0.0"})
		}
		at := r.Range(0, len(s.Self.Deps))
		deps := append([]c17Dep{}, s.Self.Deps[:at]...)
		deps = append(deps, d)
		deps = append(deps, s.Self.Deps[at:]...)
		if inLockAlready { // the recorded entry was written from the same meta
			for j := range s.Lock {
				if s.Lock[j].Name == s.Self.Name && s.Lock[j].Source == s.Self.Source {
					s.Lock[j].Deps = append([]c17Dep{}, deps...)
				}
			}
		}
		s.Self.Deps = deps
	}
	if r.Chance(1, 30) && len(s.Lock) > 0 { // deprecated type field on some entry
		s.Lock[r.Intn(len(s.Lock))].Typed = true
	}
	if r.Chance(1, 40) && len(s.Lock) > 0 { // duplicate source in the lock: Init fails
		dup := s.Lock[r.Intn(len(s.Lock))]
		dup.Name += "x"
		s.Lock = append(s.Lock, dup)
	}
	c17NameTwist(r, &s)
	c17ResMoreRandom(r, &s)
	c17ResFaultRandom(r, &s)
	c17ResEmit(c, s, "rnd")
}

// c17ResFaultRandom: one failing call (every error class, every call index Resolve can reach)
// or no Lock object at all.
func c17ResFaultRandom(r *Rng, s *c17ResScn) {
	switch x := r.Intn(16); {
	case x < 2:
		s.Fault = c17PickFault(r)
	case x == 2:
		s.Absent, s.Lock, s.Env = true, nil, nil
		if r.Bool() {
			s.Fault = c17PickFault(r)
		}
	}
}

// c17PickFault: early calls and the classes the code branches on (NotFound, Conflict,
// AlreadyExists) more often than the rest.
func c17PickFault(r *Rng) *c17Fault {
	f := &c17Fault{K: Pick(r, []int{0, 0, 0, 1, 1, 1, 2, 2, 3, 4}), Class: Pick(r, c17ErrClasses)}
	if r.Chance(2, 5) {
		f.Class = Pick(r, []string{"notFound", "conflict", "alreadyExists"})
	}
	return f
}

// c17ResMoreRandom: further Resolve calls of the same manager: the same revision again (after
// another revision removed itself / moved a dependency / nothing), or other revisions.
func c17ResMoreRandom(r *Rng, s *c17ResScn) {
	if !r.Chance(2, 5) {
		return
	}
	cur := c17CopyPkgs(s.Lock)
	record := func(self c17Pkg) { // what the Lock looks like if that Resolve recorded the revision
		for _, p := range cur {
			if p.Name == self.Name {
				return
			}
		}
		cur = append(cur, self)
	}
	record(s.Self)
	for i, n := 0, r.Range(1, 3); i < n; i++ {
		mr := c17ResMore{Self: s.Self}
		if !r.Chance(1, 2) {
			j := r.Intn(len(c17Repos))
			mr.Self = c17Pkg{Name: fmt.Sprintf("q%d", j), Source: "xpkg.io/q/" + fmt.Sprintf("r%d", j), Version: c17GenTagVersion(r)}
			for _, p := range cur {
				if r.Chance(1, 3) && p.Source != mr.Self.Source {
					mr.Self.Deps = append(mr.Self.Deps, c17Dep{Pkg: p.Source, Con: c17GenEasyConstraint(r)})
				}
			}
		}
		mr.Self.Deps = append([]c17Dep{}, mr.Self.Deps...)
		if r.Chance(1, 2) {
			w, _ := c17OtherWrite(r, cur, mr.Self, "")
			mr.Set = &w
			cur = c17CopyPkgs(w)
		}
		record(mr.Self)
		s.More = append(s.More, mr)
	}
}

// ---------------------------------------------------------------- lock Reconciler

type c17Inst struct {
	Source  string `json:"source"`
	Version string `json:"version"`
}

type c17RepoTags struct {
	Repo string   `json:"repo"`
	Tags []string `json:"tags"`
	Fail bool     `json:"fail"`
}

type c17RecScn struct {
	Kind      string        `json:"kind"` // "reconcile"
	Upg       bool          `json:"upg"`
	Down      bool          `json:"down"`
	Lock      []c17Pkg      `json:"lock"`
	Installed []c17Inst     `json:"installed"`
	Tags      []c17RepoTags `json:"tags"`
	Oracle    c17Oracle     `json:"oracle"`
}

type c17RecObs struct {
	Act      string `json:"act"` // none | create | update
	Src      string `json:"src"`
	Ver      string `json:"ver"`
	Key      string `json:"key"`
	Err      string `json:"err"`
	Resolved string `json:"resolved"` // status of the Resolved condition after the call
}

func c17RecErrKind(err error) string {
	switch t := c17ErrText(err); {
	case t == "":
		return ""
	case strings.Contains(t, "cannot build DAG"):
		return "buildDag"
	case strings.Contains(t, "cannot sort DAG"):
		return "sortDag"
	case strings.Contains(t, "cannot find dependency version to install"):
		return "findInstall:" + c17VErrKind(err)
	case strings.Contains(t, "cannot find dependency version to upgrade"):
		return "findUpdate:" + c17VErrKind(err)
	default:
		return "other:" + t
	}
}

func c17SplitImage(img string) (string, string) {
	if i := strings.Index(img, "@"); i >= 0 {
		return img[:i], img[i+1:]
	}
	if i := strings.LastIndex(img, ":"); i >= 0 {
		return img[:i], img[i+1:]
	}
	return img, ""
}

func c17RecRun(s c17RecScn) (c17RecObs, []Mon, string) {
	st := NewStore(c17Scheme)
	lock := &v1beta1.Lock{ObjectMeta: metav1.ObjectMeta{Name: "lock", Finalizers: []string{"lock.pkg.crossplane.io"}}, Packages: c17LockPackages(s.Lock)}
	st.Seed(lock)
	before := map[string]string{}
	for _, in := range s.Installed {
		ref, _ := name.ParseReference(in.Source)
		p := &pkgv1.Provider{ObjectMeta: metav1.ObjectMeta{Name: xpkg.ToDNSLabel(ref.Context().RepositoryStr())}}
		p.Spec.Package = c17Image(in.Source, in.Version)
		st.Seed(p)
		before[p.Name] = p.Spec.Package
	}
	f := &c17Fetcher{tags: map[string][]string{}, fail: map[string]bool{}}
	allTags := []string{}
	for _, t := range s.Tags {
		ref, _ := name.ParseReference(t.Repo)
		f.tags[ref.Context().Name()] = t.Tags
		f.fail[ref.Context().Name()] = t.Fail
	}
	opts := []resolver.ReconcilerOption{resolver.WithFetcher(f), resolver.WithConfigStore(c17Config())}
	flags := &feature.Flags{}
	if s.Upg {
		flags.Enable(features.EnableAlphaDependencyVersionUpgrades)
		opts = append(opts, resolver.WithNewDagFn(dag.NewUpgradingMapDag))
		if s.Down {
			opts = append(opts, resolver.WithDowngradesEnabled())
		}
	}
	opts = append(opts, resolver.WithFeatures(flags))
	r := resolver.NewReconciler(c17Mgr{c: st}, opts...)
	var err error
	var mons []Mon
	obs := c17RecObs{Act: "none"}
	panicked := Guard(func() {
		_, err = r.Reconcile(context.Background(), reconcile.Request{NamespacedName: types.NamespacedName{Name: "lock"}})
	})
	if panicked != "" {
		obs.Err = "panic"
		if !strings.Contains(panicked, "semver.MustParse") {
			mons = append(mons, Mon{Sig: "C17:reconcile-panic", Why: panicked})
		}
	} else {
		obs.Err = c17RecErrKind(err)
	}
	after := &v1beta1.Lock{}
	_ = st.Get(context.Background(), types.NamespacedName{Name: "lock"}, after)
	obs.Resolved = string(after.GetCondition(v1beta1.TypeResolved).Status)
	if obs.Resolved == "Unknown" {
		obs.Resolved = ""
	}
	if !c17EqualJSON(c17LockPkgsOf(after), c17LockPkgsOf(lock)) {
		mons = append(mons, Mon{Sig: "C17:resolver-modified-lock", Why: "the lock's packages changed during Reconcile"})
	}
	nwrites := 0
	var img string
	provGK := gkString(pkgv1.ProviderGroupVersionKind.GroupKind())
	for _, w := range st.Log {
		if w.GK != provGK || w.Sub != "" || w.Err != "" || (w.Verb != "create" && w.Verb != "update") {
			continue
		}
		nwrites++
		obs.Act = w.Verb
		if u := st.Peek(pkgv1.ProviderGroupVersionKind.GroupKind(), "", w.Name); u != nil {
			img, _ = fieldpath.Pave(u.Object).GetString("spec.package")
		}
	}
	_ = before
	if nwrites > 1 {
		mons = append(mons, Mon{Sig: "C17:more-than-one-package-written", Why: "one Reconcile wrote several packages"})
	}
	if obs.Act != "none" {
		src, ver := c17SplitImage(img)
		for _, t := range s.Tags {
			if t.Repo == src {
				allTags = t.Tags
			}
		}
		o := c17VerObsOf(ver, "", allTags)
		obs.Src, obs.Ver, obs.Key = src, o.Ver, o.Key
	}

	// direct monitors
	edges := c17Edges(s.Lock)
	cyclic := c17HasCycle(edges)
	dupSource := false
	seen := map[string]bool{}
	for _, p := range s.Lock {
		dupSource = dupSource || seen[p.Source]
		seen[p.Source] = true
	}
	if (cyclic || dupSource) && obs.Act != "none" {
		mons = append(mons, Mon{Sig: "C17:installed-despite-broken-graph", Why: fmt.Sprintf("cyclic=%v duplicate=%v but package %s was %sd", cyclic, dupSource, img, obs.Act)})
	}
	if cyclic && !dupSource && obs.Err != "sortDag" {
		mons = append(mons, Mon{Sig: "C17:cycle-undetected", Why: "the lock has a dependency cycle but Reconcile returned " + obs.Err})
	}
	if obs.Act == "update" && panicked == "" {
		// the version an installed dependency is moved to must be admitted by EVERY parent
		// (every lock package with an edge towards it; lock.go AddNeighbors records the first
		// dependency entry of a parent for that package) and be the lowest not-older / highest
		// older such tag: the same judgement as on findDependencyVersionToUpdate, but on the
		// write of the real Reconcile with the real upgrading DAG
		src, ver := c17SplitImage(img)
		var parents []string
		seenSrc := map[string]bool{}
		for _, p := range s.Lock {
			if seenSrc[p.Source] {
				continue
			}
			seenSrc[p.Source] = true
			for _, d := range p.Deps {
				if d.Pkg == src {
					parents = append(parents, d.Con)
					break
				}
			}
		}
		insVer := ""
		for _, in := range s.Installed {
			if in.Source == src {
				insVer = in.Version
			}
		}
		um, _ := c17UpdMonitor(parents, insVer, s.Down, allTags, ver, "")
		mons = append(mons, um...)
		// A parent that lists the package more than once: AddNeighbors hands the DAG node the
		// constraint of the FIRST entry only (once per entry), while isValidConstraints judges
		// every entry by its own constraint. A violated LATER entry therefore makes the package
		// "implied" (to be upgraded) but takes no part in the selection: the version written
		// violates a declared constraint although a tag admitted by every entry exists.
		var later []string
		seenSrc = map[string]bool{}
		for _, p := range s.Lock {
			if seenSrc[p.Source] {
				continue
			}
			seenSrc[p.Source] = true
			first := true
			for _, d := range p.Deps {
				if d.Pkg != src {
					continue
				}
				if !first {
					later = append(later, d.Con)
				}
				first = false
			}
		}
		if v, verr := semver.NewVersion(ver); verr == nil && len(later) > 0 {
			cur, curErr := semver.NewVersion(insVer)
			var cons []*semver.Constraints
			okCons := curErr == nil
			for _, c := range append(append([]string{}, parents...), later...) {
				con, cerr := semver.NewConstraint(c)
				okCons = okCons && cerr == nil
				cons = append(cons, con)
			}
			if okCons {
				all := func(x *semver.Version) bool {
					for _, con := range cons {
						if !con.Check(x) {
							return false
						}
					}
					return true
				}
				better := ""
				for _, t := range allTags {
					if x, e := semver.NewVersion(t); e == nil && all(x) && (x.Compare(cur) >= 0 || s.Down) {
						better = t
					}
				}
				if !all(v) && better != "" {
					mons = append(mons, Mon{Sig: "C17:update-ignores-later-duplicate-constraint", Why: fmt.Sprintf("%s moved from %s to %s: violates one of the later duplicate entries %v (first entries %v) although tag %s is admitted by every entry", src, insVer, ver, later, parents, better)})
				}
			}
		}
	}
	if obs.Act == "create" {
		// the created version must satisfy the constraint of some edge towards that package
		src, ver := c17SplitImage(img)
		okAny := false
		for _, p := range s.Lock {
			for _, d := range p.Deps {
				if d.Pkg != src {
					continue
				}
				if h, herr := conregv1.NewHash(d.Con); herr == nil {
					okAny = okAny || h.String() == ver
					continue
				}
				con, cerr := semver.NewConstraint(d.Con)
				v, verr := semver.NewVersion(ver)
				okAny = okAny || (cerr == nil && verr == nil && con.Check(v))
			}
		}
		if !okAny {
			mons = append(mons, Mon{Sig: "C17:created-version-violates-constraint", Why: "created " + img + " satisfies no constraint recorded for it in the lock"})
		}
	}
	cls := fmt.Sprintf("n=%d/%s/act=%s/err=%s", len(s.Lock), map[bool]string{true: "cyclic", false: "acyclic"}[cyclic], obs.Act, strings.SplitN(obs.Err, ":", 2)[0])
	return obs, mons, cls
}

func c17EqualJSON(a, b any) bool { return mustJSON(a) == mustJSON(b) }

func c17RecEmit(c *Ctx, s c17RecScn, prefix string) {
	s.Kind = "reconcile"
	if s.Lock == nil {
		s.Lock = []c17Pkg{}
	}
	for i := range s.Lock {
		if s.Lock[i].Deps == nil {
			s.Lock[i].Deps = []c17Dep{}
		}
	}
	if s.Installed == nil {
		s.Installed = []c17Inst{}
	}
	if s.Tags == nil {
		s.Tags = []c17RepoTags{}
	}
	strs := c17DagStrings(s.Lock)
	for _, in := range s.Installed {
		strs = append(strs, in.Version)
	}
	for i := range s.Tags {
		if s.Tags[i].Tags == nil {
			s.Tags[i].Tags = []string{}
		}
		strs = append(strs, s.Tags[i].Tags...)
	}
	s.Oracle = c17MkOracle(strs)
	obs, mons, cls := c17RecRun(s)
	kind := "install"
	if s.Upg {
		kind = fmt.Sprintf("upgrade/down=%v", s.Down)
	}
	c.Emit(s, obs, mons, prefix+"/reconcile/"+kind+"/"+cls)
}

// tags usable as OCI tags (the reconciler formats "repo:tag" and the next parse must succeed);
// non-semver tags are included.
func c17GenRegistryTags(r *Rng, max int) []string {
	n := r.Intn(max + 1)
	tags := make([]string, 0, n)
	for i := 0; i < n; i++ {
		if r.Chance(1, 6) {
			tags = append(tags, Pick(r, []string{"latest", "main", "1.2.3.4", "v", "1.x", "1.2.3-", "99999999999999999999.0.0", "01.1.0", "v1.0.0.rc1"}))
		} else {
			tags = append(tags, c17GenTagVersion(r))
		}
	}
	return tags
}

// c17ReconcileSharedDep: upgrades enabled, an installed dependency shared by two or three
// parents whose range constraints differ, a tag list around them: the version it is moved to
// has to be admitted by all parents, not by the parent whose edge made it "implied".
// c17DupEntryDimension: shared-dependency worlds in which a parent lists the dependency twice
// (finding C17:update-ignores-later-duplicate-constraint, see props/C17.json `defects`).
const c17DupEntryDimension = true

func c17ReconcileSharedDep(c *Ctx) {
	r := c.Rng
	s := c17RecScn{Upg: true, Down: r.Bool()}
	plain := func() string { return fmt.Sprintf("%d.%d.%d", r.Intn(3), r.Intn(3), r.Intn(3)) }
	rng := func() string {
		switch x := r.Intn(20); {
		case x < 6: // lower bounds: several of them always leave candidates
			return fmt.Sprintf(">=%d.%d.0", r.Intn(3), r.Intn(3))
		case x < 9:
			return ">" + plain()
		case x < 11:
			return ">=" + plain()
		case x < 14: // upper bounds
			return fmt.Sprintf("<%d.%d.0", r.Range(1, 3), r.Intn(3))
		case x < 15:
			return "<=" + plain()
		case x < 16:
			return "^" + plain()
		case x < 17:
			return fmt.Sprintf("~%d.%d", r.Intn(3), r.Intn(3))
		case x < 18:
			return ">=" + plain() + ", <" + fmt.Sprintf("%d.0.0", r.Range(1, 3))
		case x < 19:
			return fmt.Sprintf("%d.x", r.Intn(3))
		default:
			return "*"
		}
	}
	perm := r.Perm(len(c17Repos))
	dep := c17Repos[perm[0]]
	installed := plain()
	np := r.Range(2, 3)
	pkgs := []c17Pkg{{Name: fmt.Sprintf("p%d", perm[0]), Source: dep, Version: installed}}
	for i := 1; i <= np; i++ {
		p := c17Pkg{Name: fmt.Sprintf("p%d", perm[i]), Source: c17Repos[perm[i]], Version: "1.0.0"}
		p.Deps = append(p.Deps, c17Dep{Pkg: dep, Con: rng()})
		if i > 1 && r.Chance(1, 4) { // a present, satisfied dependency among the parents
			p.Deps = append(p.Deps, c17Dep{Pkg: c17Repos[perm[1]], Con: ">=0.0.0"})
		}
		if c17DupEntryDimension && r.Chance(1, 5) { // the parent lists the dependency a second time, with another range
			p.Deps = append(p.Deps, c17Dep{Pkg: dep, Con: rng()})
		}
		pkgs = append(pkgs, p)
	}
	for _, i := range r.Perm(len(pkgs)) {
		s.Lock = append(s.Lock, pkgs[i])
	}
	var tags []string
	for x := 0; x < 3; x++ { // a dense tag list around the constraints
		for y := 0; y < 3; y++ {
			if r.Chance(7, 10) {
				tags = append(tags, fmt.Sprintf("%d.%d.0", x, y))
			}
		}
	}
	for i, n := 0, r.Range(0, 4); i < n; i++ {
		switch {
		case r.Chance(1, 4):
			tags = append(tags, Pick(r, []string{"latest", "main", "1.x", "v"}))
		case r.Chance(1, 3):
			tags = append(tags, c17GenTagVersion(r))
		default:
			tags = append(tags, plain())
		}
	}
	if r.Chance(1, 2) {
		tags = append(tags, installed)
	}
	shuffled := make([]string, 0, len(tags))
	for _, i := range r.Perm(len(tags)) {
		shuffled = append(shuffled, tags[i])
	}
	tags = shuffled
	s.Tags = []c17RepoTags{{Repo: dep, Tags: tags, Fail: r.Chance(1, 40)}}
	if !r.Chance(1, 10) {
		s.Installed = []c17Inst{{Source: dep, Version: installed}}
	}
	c17RecEmit(c, s, "rnd/shared")
}

func c17ReconcileRandom(c *Ctx) {
	r := c.Rng
	if r.Chance(1, 4) {
		c17ReconcileSharedDep(c)
		return
	}
	s := c17RecScn{Upg: r.Bool()}
	s.Down = s.Upg && r.Bool()
	k := r.Range(1, 7)
	m := r.Range(1, k)
	healthy := r.Chance(1, 2)
	s.Lock = c17GenLock(r, k, m, false)
	if healthy {
		// acyclic but with absent dependencies: keep only edges to "later" identifiers
		pos := map[string]int{}
		for i, p := range s.Lock {
			pos[p.Source] = i
		}
		for i := range s.Lock {
			var deps []c17Dep
			for _, d := range s.Lock[i].Deps {
				if j, ok := pos[d.Pkg]; !ok || j > i {
					deps = append(deps, d)
				}
			}
			s.Lock[i].Deps = deps
		}
	}
	for j := 0; j < k; j++ {
		s.Tags = append(s.Tags, c17RepoTags{Repo: c17Repos[j], Tags: c17GenRegistryTags(r, 8), Fail: r.Chance(1, 25)})
	}
	if s.Upg {
		for j := 0; j < k; j++ {
			if r.Chance(1, 2) {
				v := c17GenTagVersion(r)
				if r.Chance(1, 12) {
					v = Pick(r, []string{"latest", c17DigestA})
				}
				for _, p := range s.Lock {
					if p.Source == c17Repos[j] && !r.Chance(1, 6) {
						v = p.Version
					}
				}
				if !strings.Contains(v, "+") && v != "" {
					s.Installed = append(s.Installed, c17Inst{Source: c17Repos[j], Version: v})
				}
			}
		}
	}
	sort.SliceStable(s.Installed, func(i, j int) bool { return s.Installed[i].Source < s.Installed[j].Source })
	c17RecEmit(c, s, "rnd")
}

// c17NameTwist adds identity near-misses: another revision whose name / source extends (or is a
// prefix of) the revision's, and dependencies on identifiers that extend / are a prefix of a
// lock package's source (absent, so they must be reported missing).
func c17NameTwist(r *Rng, s *c17ResScn) {
	if !r.Chance(1, 4) {
		return
	}
	names, sources := map[string]bool{s.Self.Name: true}, map[string]bool{s.Self.Source: true}
	for _, p := range s.Lock {
		names[p.Name], sources[p.Source] = true, true
	}
	vary := func(x string) string {
		switch r.Intn(4) {
		case 0:
			return x + "x"
		case 1:
			return x + "-2"
		case 2:
			return x + "/"
		default:
			if len(x) > 1 {
				return x[:len(x)-1]
			}
			return x + "0"
		}
	}
	if r.Bool() {
		z := c17Pkg{Name: vary(s.Self.Name), Source: vary(s.Self.Source), Version: fmt.Sprintf("%d.%d.%d", r.Intn(3), r.Intn(3), r.Intn(4))}
		if !names[z.Name] && !sources[z.Source] && z.Name != "" {
			at := r.Intn(len(s.Lock) + 1)
			s.Lock = append(append(append([]c17Pkg{}, s.Lock[:at]...), z), s.Lock[at:]...)
			names[z.Name], sources[z.Source] = true, true
		}
	}
	if len(s.Lock) > 0 && r.Bool() {
		id := vary(Pick(r, s.Lock).Source)
		if !sources[id] {
			s.Self.Deps = append(s.Self.Deps, c17Dep{Pkg: id, Con: c17GenEasyConstraint(r)})
		}
	}
}

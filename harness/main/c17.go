//go:build verif

package main

// C17: dependency resolution. Runs the real internal/dag (MapDag, MapUpgradingDag),
// the real findDependencyVersionToInstall / findDependencyVersionToUpdate (export
// shim), the real PackageDependencyManager.Resolve and the real lock Reconciler over
// simstore, on generated lock contents / tag lists, and ships the verdicts of
// Masterminds/semver and go-containerregistry to the Lean model as oracle tables.
//
// This file: shared types, oracle tables, string pools, registration.
// c17_dag.go: DAG scenarios; c17_ver.go: version selection; c17_res.go: Resolve (incl. the
// realisation of concurrent writers of the Lock) and Reconcile; c17_env.go: generator of the
// Resolve-next-to-other-writers scenarios.

import (
	"fmt"
	"sort"
	"strconv"
	"strings"

	"github.com/Masterminds/semver"
	conregv1 "github.com/google/go-containerregistry/pkg/v1"
	"k8s.io/apimachinery/pkg/runtime/schema"

	pkgv1 "github.com/crossplane/crossplane/apis/pkg/v1"
	"github.com/crossplane/crossplane/apis/pkg/v1beta1"
)

type c17Dep struct {
	Pkg string `json:"pkg"`
	Con string `json:"con"`
}

type c17Pkg struct {
	Name    string   `json:"name"`
	Source  string   `json:"source"`
	Version string   `json:"version"`
	Typed   bool     `json:"typed"`
	Deps    []c17Dep `json:"deps"`
}

// ---- oracle tables (library verdicts shipped to the model) ----

type c17Ident struct {
	N *uint64 `json:"n,omitempty"`
	S *string `json:"s,omitempty"`
}

type c17Ver struct {
	T   string     `json:"t"`
	Ma  int64      `json:"ma"`
	Mi  int64      `json:"mi"`
	Pa  int64      `json:"pa"`
	Pre []c17Ident `json:"pre"`
}

type c17Oracle struct {
	Ver []c17Ver    `json:"ver"` // strings for which semver.NewVersion succeeds
	Con []string    `json:"con"` // strings for which semver.NewConstraint succeeds
	Sat [][2]string `json:"sat"` // (constraint, version) pairs with c.Check(v) true
	Dig [][2]string `json:"dig"` // (string, conregv1.NewHash(string).String())
}

func c17PreIdents(pre string) []c17Ident {
	out := []c17Ident{}
	if pre == "" {
		return out
	}
	for _, p := range strings.Split(pre, ".") {
		if u, err := strconv.ParseUint(p, 10, 64); err == nil {
			u := u
			out = append(out, c17Ident{N: &u})
		} else {
			p := p
			out = append(out, c17Ident{S: &p})
		}
	}
	return out
}

// c17Key is the comparison class of a version string (what Compare looks at), or the
// string itself when it is not a semantic version.
func c17Key(s string) string {
	v, err := semver.NewVersion(s)
	if err != nil {
		return s
	}
	k := fmt.Sprintf("%d.%d.%d", v.Major(), v.Minor(), v.Patch())
	for i, id := range c17PreIdents(v.Prerelease()) {
		if i == 0 {
			k += "-"
		} else {
			k += "."
		}
		if id.N != nil {
			k += "#" + strconv.FormatUint(*id.N, 10)
		} else {
			k += *id.S
		}
	}
	return k
}

// c17MkOracle asks the real libraries about every string of a scenario, in both roles.
func c17MkOracle(strs []string) c17Oracle {
	seen := map[string]bool{}
	var us []string
	for _, s := range strs {
		if !seen[s] {
			seen[s] = true
			us = append(us, s)
		}
	}
	sort.Strings(us)
	o := c17Oracle{Ver: []c17Ver{}, Con: []string{}, Sat: [][2]string{}, Dig: [][2]string{}}
	vs := map[string]*semver.Version{}
	cs := map[string]*semver.Constraints{}
	for _, s := range us {
		if v, err := semver.NewVersion(s); err == nil {
			vs[s] = v
			o.Ver = append(o.Ver, c17Ver{T: s, Ma: v.Major(), Mi: v.Minor(), Pa: v.Patch(), Pre: c17PreIdents(v.Prerelease())})
		}
		if c, err := semver.NewConstraint(s); err == nil {
			cs[s] = c
			o.Con = append(o.Con, s)
		}
		if h, err := conregv1.NewHash(s); err == nil {
			o.Dig = append(o.Dig, [2]string{s, h.String()})
		}
	}
	for _, c := range us {
		if cs[c] == nil {
			continue
		}
		for _, v := range us {
			if vs[v] != nil && cs[c].Check(vs[v]) {
				o.Sat = append(o.Sat, [2]string{c, v})
			}
		}
	}
	return o
}

// ---- string pools ----

const (
	c17DigestA = "sha256:aaaaaaaaaaaaaaaaaaaaaaaaaaaaaaaaaaaaaaaaaaaaaaaaaaaaaaaaaaaaaaaa"
	c17DigestB = "sha256:bbbbbbbbbbbbbbbbbbbbbbbbbbbbbbbbbbbbbbbbbbbbbbbbbbbbbbbbbbbbbbbb"
)

var c17PrePool = []string{"alpha", "beta", "rc.1", "rc.2", "rc.10", "1", "2", "alpha.1", "alpha.beta", "0.3.7", "x-y", "rc"}

func c17GenVersion(r *Rng) string {
	s := fmt.Sprintf("%d.%d.%d", r.Intn(3), r.Intn(3), r.Intn(4))
	switch r.Intn(12) {
	case 0:
		s = fmt.Sprintf("%d.%d", r.Intn(3), r.Intn(3)) // short form
	case 1:
		s = fmt.Sprintf("%d", r.Intn(3))
	}
	if r.Chance(1, 4) {
		s = "v" + s
	}
	if r.Chance(1, 4) {
		s += "-" + Pick(r, c17PrePool)
	}
	if r.Chance(1, 10) {
		s += "+" + Pick(r, []string{"build.1", "b2", "20240101"})
	}
	return s
}

var c17BadTags = []string{"latest", "main", "1.2.3.4", "v", "", "1.x", "1.2.3-", "99999999999999999999.0.0", "v1.0.0.rc1", c17DigestA, "1.0.0-rc..1", " 1.0.0", "01.1.0"}

func c17GenTag(r *Rng) string {
	if r.Chance(1, 6) {
		return Pick(r, c17BadTags)
	}
	return c17GenVersion(r)
}

func c17GenTags(r *Rng, max int) []string {
	n := r.Intn(max + 1)
	tags := make([]string, 0, n)
	for i := 0; i < n; i++ {
		tags = append(tags, c17GenTag(r))
	}
	return tags
}

func c17GenConstraint(r *Rng) string {
	v := func() string { return fmt.Sprintf("%d.%d.%d", r.Intn(3), r.Intn(3), r.Intn(4)) }
	switch r.Intn(22) {
	case 0:
		return ">=" + v()
	case 1:
		return ">" + v()
	case 2:
		return "<" + v()
	case 3:
		return "<=" + v()
	case 4:
		return v()
	case 5:
		return "=" + v()
	case 6:
		return "!=" + v()
	case 7:
		return fmt.Sprintf("~%d.%d", r.Intn(3), r.Intn(3))
	case 8:
		return "~" + v()
	case 9:
		return "^" + v()
	case 10:
		return fmt.Sprintf("%d.x", r.Intn(3))
	case 11:
		return fmt.Sprintf("%d.%d.x", r.Intn(3), r.Intn(3))
	case 12:
		return "*"
	case 13:
		return ">=" + v() + ", <" + v()
	case 14:
		return "<" + v() + " || >=" + v()
	case 15:
		return ">=" + v() + "-0"
	case 16:
		return ">" + v() + "-" + Pick(r, c17PrePool)
	case 17:
		return Pick(r, []string{c17DigestA, c17DigestA, c17DigestB})
	case 18:
		return Pick(r, []string{"", "latest", "not a constraint", ">=", "sha256:abc", ">=1.0.0 <2.0.0", "v1.0.0", ">= v1.0.0"})
	case 19:
		return ">=0.0.0"
	case 20:
		return c17GenVersion(r) // an exact version, possibly with v prefix / prerelease
	default:
		return ">=" + fmt.Sprintf("%d.%d.0", r.Intn(2), r.Intn(3))
	}
}

func c17ErrText(err error) string {
	if err == nil {
		return ""
	}
	return err.Error()
}

// hasTies: do two distinct-position parsed tags compare equal (sort.Sort leaves their order open)?
func c17HasTies(tags []string) bool {
	var vs []*semver.Version
	for _, t := range tags {
		if v, err := semver.NewVersion(t); err == nil {
			vs = append(vs, v)
		}
	}
	for i := range vs {
		for j := i + 1; j < len(vs); j++ {
			if vs[i].Compare(vs[j]) == 0 {
				return true
			}
		}
	}
	return false
}

func init() {
	Register("C17", func(c *Ctx) {
		for _, raw := range c.Corpus {
			c17Replay(c, raw)
		}
		// exhaustive small scopes: only in the thorough tier, only in the first shard
		if c.Tier == "thorough" && c.Seed%1000 == 0 {
			c17DagExhaustive(c)
			c17VerExhaustive(c)
		}
		for i := 0; i < c.N; i++ {
			switch k := c.Rng.Intn(25); {
			case k == 24:
				c17GlueRandom(c)
			case k < 4:
				c17DagRandom(c)
			case k < 7:
				c17InstallRandom(c)
			case k < 10:
				c17UpdateRandom(c)
			case k < 13:
				c17ResolveRandom(c)
			case k < 16:
				c17ResolveInterfRandom(c)
			case k < 19:
				c17ReconcileRandom(c)
			default:
				c17WorldRandom(c)
			}
		}
	})
	RegisterDump("C17Tables", func() string {
		_, err := semver.NewVersion("")
		gv := func(g schema.GroupVersionKind) string { return g.GroupVersion().String() }
		q := strconv.Quote
		return "/-- semver.NewVersion(\"\") succeeds (probed on the library in /repo's module graph) -/\n" +
			"def c17SemverParsesEmpty : Bool := " + strconv.FormatBool(err == nil) + "\n" +
			"/-- v1beta1.ConfigurationPackageType / ProviderPackageType / FunctionPackageType -/\n" +
			"def c17TypeConfiguration : String := " + q(string(v1beta1.ConfigurationPackageType)) + "\n" +
			"def c17TypeProvider : String := " + q(string(v1beta1.ProviderPackageType)) + "\n" +
			"def c17TypeFunction : String := " + q(string(v1beta1.FunctionPackageType)) + "\n" +
			"/-- package type ↦ (apiVersion, kind) of the package object, in the order of the switch of resolver.NewPackage -/\n" +
			"def c17KindTable : List (String × String × String) := [" +
			"(" + q(string(v1beta1.ConfigurationPackageType)) + ", " + q(gv(pkgv1.ConfigurationGroupVersionKind)) + ", " + q(pkgv1.ConfigurationKind) + "), " +
			"(" + q(string(v1beta1.ProviderPackageType)) + ", " + q(gv(pkgv1.ProviderGroupVersionKind)) + ", " + q(pkgv1.ProviderKind) + "), " +
			"(" + q(string(v1beta1.FunctionPackageType)) + ", " + q(gv(pkgv1.FunctionGroupVersionKind)) + ", " + q(pkgv1.FunctionKind) + ")]\n"
	})
}

func c17Replay(c *Ctx, raw []byte) {
	var k struct {
		Kind string `json:"kind"`
	}
	if err := jsonUnmarshalStrict(raw, &k); err != nil {
		return
	}
	switch k.Kind {
	case "dag":
		var s c17DagScn
		if jsonUnmarshalStrict(raw, &s) == nil {
			c17DagEmit(c, s, "corpus/dag")
		}
	case "install":
		var s c17InstScn
		if jsonUnmarshalStrict(raw, &s) == nil {
			c17InstEmit(c, s, "corpus/install")
		}
	case "update":
		var s c17UpdScn
		if jsonUnmarshalStrict(raw, &s) == nil {
			c17UpdEmit(c, s, "corpus/update")
		}
	case "resolve":
		var s c17ResScn
		if jsonUnmarshalStrict(raw, &s) == nil {
			c17ResEmit(c, s, "corpus")
		}
	case "reconcile":
		var s c17RecScn
		if jsonUnmarshalStrict(raw, &s) == nil {
			c17RecEmit(c, s, "corpus")
		}
	case "glue":
		var s c17GlueScn
		if jsonUnmarshalStrict(raw, &s) == nil {
			c17GlueEmit(c, s, "corpus")
		}
	case "recw":
		var s c17WScn
		if jsonUnmarshalStrict(raw, &s) == nil {
			c17WEmit(c, s, "corpus")
		}
	}
}

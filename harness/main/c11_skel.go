//go:build verif

package main

// C11 regenerated facts, part 2 (tie "a"): the STATEMENT skeletons of the Go functions the
// C11 model mirrors, read with go/ast from the CURRENT source tree (VERIF_REPO, default
// /repo) on every check run and written to lean/Xp/Gen/C11Skel.lean.
//
// The functions of internal/xcrd and of the XRD validation are pure: what the model mirrors
// is not a sequence of API calls but a sequence of field copies, appends and map writes, in
// an order that matters (author's properties first, machinery last). Their skeleton is
// therefore the list of their leaf statements (assignments, expression statements, returns,
// declarations) and control headers (`if …`, `else`, `for … range …`), each printed by
// go/printer without comments and with white space collapsed, in source order. A function
// literal inside a statement is printed as `func(…) … {}` and its body follows as further
// entries. lean/Xp/Model/C11*.lean declares, next to the definition that mirrors a function,
// the statements that definition mirrors (one entry per statement, with the model step that
// mirrors it); lean/Xp/Props/C11.lean states `Xp.Gen.c11Stmts… = <declared>` by `decide`, so
// that ANY edit of a mirrored function - a field copy dropped, two writes swapped, a
// comparison changed - breaks an obligation before any scenario is run and the model has to
// be re-read against the code.
//
// For the webhook the calls through the validator's client are dumped separately
// (c11Calls…): the model derives the same list from its Prog tree.
//
// The two reconcilers that write the CRDs are tied at the level of their calls (shared
// SkelOf): where the CRD is derived and where it is applied.

import (
	"bytes"
	"fmt"
	"go/ast"
	"go/parser"
	"go/printer"
	"go/token"
	"path/filepath"
	"regexp"
	"strings"

	extv1 "k8s.io/apiextensions-apiserver/pkg/apis/apiextensions/v1"
)

var c11WS = regexp.MustCompile(`\s+`)

type c11Walker struct {
	fset *token.FileSet
	out  []string
}

// text prints a node with the bodies of the function literals inside it emptied.
func (w *c11Walker) text(n ast.Node) (string, []*ast.FuncLit) {
	var lits []*ast.FuncLit
	var saved []*ast.BlockStmt
	ast.Inspect(n, func(x ast.Node) bool {
		if fl, ok := x.(*ast.FuncLit); ok {
			lits = append(lits, fl)
			saved = append(saved, fl.Body)
			fl.Body = &ast.BlockStmt{}
			return false
		}
		return true
	})
	var buf bytes.Buffer
	_ = printer.Fprint(&buf, w.fset, n)
	for i, fl := range lits {
		fl.Body = saved[i]
	}
	return strings.TrimSpace(c11WS.ReplaceAllString(buf.String(), " ")), lits
}

func (w *c11Walker) leaf(prefix string, n ast.Node) {
	t, lits := w.text(n)
	w.out = append(w.out, prefix+t)
	for _, fl := range lits {
		w.block(fl.Body)
	}
}

func (w *c11Walker) block(b *ast.BlockStmt) {
	if b == nil {
		return
	}
	for _, s := range b.List {
		w.stmt(s)
	}
}

func (w *c11Walker) header(kw string, parts ...ast.Node) {
	var ts []string
	var all []*ast.FuncLit
	for _, p := range parts {
		t, lits := w.text(p)
		ts = append(ts, t)
		all = append(all, lits...)
	}
	w.out = append(w.out, strings.TrimSpace(kw+" "+strings.Join(ts, "; ")))
	for _, fl := range all {
		w.block(fl.Body)
	}
}

func (w *c11Walker) stmt(s ast.Stmt) {
	switch t := s.(type) {
	case *ast.BlockStmt:
		w.block(t)
	case *ast.IfStmt:
		if t.Init != nil {
			w.header("if", t.Init, t.Cond)
		} else {
			w.header("if", t.Cond)
		}
		w.block(t.Body)
		if t.Else != nil {
			w.out = append(w.out, "else")
			w.stmt(t.Else)
		}
		w.out = append(w.out, "end")
	case *ast.RangeStmt:
		var buf bytes.Buffer
		buf.WriteString("for ")
		if t.Key != nil {
			k, _ := w.text(t.Key)
			buf.WriteString(k)
			if t.Value != nil {
				v, _ := w.text(t.Value)
				buf.WriteString(", " + v)
			}
			buf.WriteString(" " + t.Tok.String() + " ")
		}
		x, _ := w.text(t.X)
		buf.WriteString("range " + x)
		w.out = append(w.out, buf.String())
		w.block(t.Body)
		w.out = append(w.out, "end")
	case *ast.ForStmt:
		var parts []ast.Node
		if t.Init != nil {
			parts = append(parts, t.Init)
		}
		if t.Cond != nil {
			parts = append(parts, t.Cond)
		}
		if t.Post != nil {
			parts = append(parts, t.Post)
		}
		w.header("for", parts...)
		w.block(t.Body)
		w.out = append(w.out, "end")
	case *ast.SwitchStmt:
		var parts []ast.Node
		if t.Init != nil {
			parts = append(parts, t.Init)
		}
		if t.Tag != nil {
			parts = append(parts, t.Tag)
		}
		w.header("switch", parts...)
		for _, c := range t.Body.List {
			cc := c.(*ast.CaseClause)
			if cc.List == nil {
				w.out = append(w.out, "default")
			} else {
				var ns []ast.Node
				for _, e := range cc.List {
					ns = append(ns, e)
				}
				w.header("case", ns...)
			}
			for _, b := range cc.Body {
				w.stmt(b)
			}
		}
		w.out = append(w.out, "end")
	case *ast.LabeledStmt:
		w.out = append(w.out, "label "+t.Label.Name)
		w.stmt(t.Stmt)
	default:
		// assignments, expression statements, returns, declarations, inc/dec, branch, go, defer, type switch, select
		w.leaf("", s)
	}
}

// c11FuncDecl finds function fn (method of recvType when recvType != "") in relFile of the current tree.
func c11FuncDecl(relFile, recvType, fn string) (*token.FileSet, *ast.FuncDecl, error) {
	fset := token.NewFileSet()
	f, err := parser.ParseFile(fset, filepath.Join(SkelRepo(), relFile), nil, 0)
	if err != nil {
		return nil, nil, err
	}
	for _, d := range f.Decls {
		fd, ok := d.(*ast.FuncDecl)
		if !ok || fd.Name.Name != fn || fd.Body == nil {
			continue
		}
		if recvType == "" {
			if fd.Recv != nil {
				continue
			}
			return fset, fd, nil
		}
		if fd.Recv == nil || len(fd.Recv.List) != 1 {
			continue
		}
		rt := fd.Recv.List[0].Type
		if st, ok := rt.(*ast.StarExpr); ok {
			rt = st.X
		}
		if id, ok := rt.(*ast.Ident); ok && id.Name == recvType {
			return fset, fd, nil
		}
	}
	return nil, nil, fmt.Errorf("function %s.%s not found in %s", recvType, fn, relFile)
}

// c11Stmts: the statement skeleton of one function: its signature, then its statements.
func c11Stmts(relFile, recvType, fn string) []string {
	fset, fd, err := c11FuncDecl(relFile, recvType, fn)
	if err != nil {
		return []string{"EXTRACTION FAILED: " + err.Error()}
	}
	w := &c11Walker{fset: fset}
	body := fd.Body
	fd.Body = nil
	sig, _ := w.text(fd)
	fd.Body = body
	w.out = append(w.out, sig)
	w.block(body)
	return w.out
}

// c11ClientCalls: the verbs called on <recv>.client in one method, source order (closures included).
func c11ClientCalls(relFile, recvType, fn string) []string {
	_, fd, err := c11FuncDecl(relFile, recvType, fn)
	if err != nil {
		return []string{"EXTRACTION FAILED: " + err.Error()}
	}
	out := []string{}
	ast.Inspect(fd.Body, func(n ast.Node) bool {
		ce, ok := n.(*ast.CallExpr)
		if !ok {
			return true
		}
		if ch, ok := skelChain(ce.Fun); ok {
			ps := strings.Split(ch, ".")
			if len(ps) >= 3 && ps[len(ps)-2] == "client" {
				v := ps[len(ps)-1]
				for _, a := range ce.Args {
					if s, ok := skelChain(a); ok && s == "client.DryRunAll" {
						v += ":dryRun"
					}
				}
				out = append(out, v)
			}
		}
		return true
	})
	return out
}

func init() {
	RegisterDump("C11Skel", func() string {
		var sb strings.Builder
		sb.WriteString("/-! Statement skeletons of the functions the C11 model mirrors (harness/main/c11_skel.go). -/\n\n")
		emit := func(lean, relFile, recv, fn string) {
			who := fn
			if recv != "" {
				who = recv + "." + fn
			}
			fmt.Fprintf(&sb, "/-- statements of %s (%s), source order -/\ndef %s : List String := [\n  %s]\n\n", who, relFile, lean,
				strings.Join(func() []string {
					xs := c11Stmts(relFile, recv, fn)
					q := make([]string, len(xs))
					for i, x := range xs {
						q[i] = leanStr(x)
					}
					return q
				}(), ",\n  "))
		}
		const crd = "internal/xcrd/crd.go"
		emit("c11StmtsForCompositeResource", crd, "", "ForCompositeResource")
		emit("c11StmtsForCompositeResourceClaim", crd, "", "ForCompositeResourceClaim")
		emit("c11StmtsGenCrdVersion", crd, "", "genCrdVersion")
		emit("c11StmtsValidateClaimNames", crd, "", "validateClaimNames")
		emit("c11StmtsParseSchema", crd, "", "parseSchema")
		emit("c11StmtsSetCrdMetadata", crd, "", "setCrdMetadata")
		emit("c11StmtsIsEstablished", crd, "", "IsEstablished")
		fmt.Fprintf(&sb, "/-- extv1.Established / extv1.ConditionTrue of the module version the current tree pins -/\ndef c11EstablishedType : String := %s\ndef c11ConditionTrue : String := %s\n\n", leanStr(string(extv1.Established)), leanStr(string(extv1.ConditionTrue)))
		const val = "apis/apiextensions/v1/xrd_validation.go"
		emit("c11StmtsValidate", val, "CompositeResourceDefinition", "Validate")
		emit("c11StmtsValidateConversion", val, "CompositeResourceDefinition", "validateConversion")
		emit("c11StmtsValidateUpdate", val, "CompositeResourceDefinition", "ValidateUpdate")
		const hook = "internal/validation/apiextensions/v1/xrd/handler.go"
		emit("c11StmtsGetAllCRDsForXRD", hook, "", "getAllCRDsForXRD")
		emit("c11StmtsHookValidateCreate", hook, "validator", "ValidateCreate")
		emit("c11StmtsHookValidateUpdate", hook, "validator", "ValidateUpdate")
		emit("c11StmtsHookDryRun", hook, "validator", "dryRunUpdateOrCreateIfNotFound")
		emit("c11StmtsHookRewriteError", hook, "validator", "rewriteError")
		fmt.Fprintf(&sb, "/-- verbs called on the validator's client, source order -/\ndef c11CallsHookValidateCreate : List String := %s\n", leanStrList(c11ClientCalls(hook, "validator", "ValidateCreate")))
		fmt.Fprintf(&sb, "def c11CallsHookValidateUpdate : List String := %s\n", leanStrList(c11ClientCalls(hook, "validator", "ValidateUpdate")))
		fmt.Fprintf(&sb, "def c11CallsHookDryRun : List String := %s\n\n", leanStrList(c11ClientCalls(hook, "validator", "dryRunUpdateOrCreateIfNotFound")))
		// the reconcilers that write the CRDs: where the CRD is derived, where it is applied
		rv := SkelVerbs("Render", "AddFinalizer", "RemoveFinalizer", "Stop", "Start", "StartWatches", "IsRunning")
		sb.WriteString(SkelDef("c11SkelDefinitionReconcile", "internal/controller/apiextensions/definition/reconciler.go", "Reconciler", "Reconcile", SkelOpts{Verbs: rv, DropRecv: true}))
		sb.WriteString(SkelDef("c11SkelOfferedReconcile", "internal/controller/apiextensions/offered/reconciler.go", "Reconciler", "Reconcile", SkelOpts{Verbs: rv, DropRecv: true}))
		// ... and which derivation each reconciler is built with (NewReconciler: CRDRenderFn(xcrd.For…))
		fmt.Fprintf(&sb, "/-- the functions of package xcrd mentioned in definition.NewReconciler / offered.NewReconciler -/\ndef c11RendererDefinition : List String := %s\n", leanStrList(c11Mentions("internal/controller/apiextensions/definition/reconciler.go", "", "NewReconciler", "xcrd")))
		fmt.Fprintf(&sb, "def c11RendererOffered : List String := %s\n", leanStrList(c11Mentions("internal/controller/apiextensions/offered/reconciler.go", "", "NewReconciler", "xcrd")))
		// ... and what else of package xcrd Reconcile itself uses (the establishment gate; nothing that
		// filters, wraps or skips the Apply)
		fmt.Fprintf(&sb, "/-- the functions of package xcrd mentioned in (*Reconciler).Reconcile of definition / offered -/\ndef c11XcrdInDefinitionReconcile : List String := %s\n", leanStrList(c11Mentions("internal/controller/apiextensions/definition/reconciler.go", "Reconciler", "Reconcile", "xcrd")))
		fmt.Fprintf(&sb, "def c11XcrdInOfferedReconcile : List String := %s\n", leanStrList(c11Mentions("internal/controller/apiextensions/offered/reconciler.go", "Reconciler", "Reconcile", "xcrd")))
		return sb.String()
	})
}

// c11Mentions: the selectors <pkg>.X that occur in one function, source order.
func c11Mentions(relFile, recvType, fn, pkg string) []string {
	_, fd, err := c11FuncDecl(relFile, recvType, fn)
	if err != nil {
		return []string{"EXTRACTION FAILED: " + err.Error()}
	}
	out := []string{}
	ast.Inspect(fd.Body, func(n ast.Node) bool {
		if se, ok := n.(*ast.SelectorExpr); ok {
			if id, ok := se.X.(*ast.Ident); ok && id.Name == pkg {
				out = append(out, se.Sel.Name)
			}
		}
		return true
	})
	return out
}

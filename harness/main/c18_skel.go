//go:build verif

package main

// C18 regenerated call skeletons (tie "a", DESIGN section 11): the ordered list of calls of every
// Go function the C18 model mirrors, extracted with go/ast from the CURRENT tree (VERIF_REPO) on
// every run and written to lean/Xp/Gen/C18Skel.lean. lean/Xp/Props/C18.lean states, per function,
// that the skeleton declared next to the model definition equals the regenerated one
// (`skeleton_*`, by decide): inserting, removing or reordering a call in one of these functions
// breaks an obligation before any scenario is run.

import (
	"path/filepath"
	"reflect"
	"runtime"
	"strings"

	"github.com/crossplane/crossplane-runtime/pkg/resource"
)

// c18SourceOf: the file a function of a dependency was compiled from (the module-cache copy
// linked into this binary), relative to the tree the skeletons are read from.
func c18SourceOf(fn any) string {
	f := runtime.FuncForPC(reflect.ValueOf(fn).Pointer())
	if f == nil {
		return "unknown-source"
	}
	file, _ := f.FileLine(f.Entry())
	rel, err := filepath.Rel(SkelRepo(), file)
	if err != nil {
		return file
	}
	return rel
}

func c18Set(xs ...string) map[string]bool {
	m := map[string]bool{}
	for _, x := range xs {
		m[x] = true
	}
	return m
}

func c18SkelDump() string {
	var sb strings.Builder
	sb.WriteString("/-! C18 call skeletons: internal/controller/rbac/{provider/roles,provider/binding,definition} and crossplane-runtime's APIUpdatingApplicator -/\n")
	const (
		provRec  = "internal/controller/rbac/provider/roles/reconciler.go"
		provReq  = "internal/controller/rbac/provider/roles/requests.go"
		provRole = "internal/controller/rbac/provider/roles/roles.go"
		bindRec  = "internal/controller/rbac/provider/binding/reconciler.go"
		defRec   = "internal/controller/rbac/definition/reconciler.go"
		defRole  = "internal/controller/rbac/definition/roles.go"
	)
	// the reconcilers: client verbs, the helpers that decide a branch, the helpers the model inlines
	recVerbs := c18Set("Get", "List", "Create", "Update", "Patch", "Delete", "DeleteAllOf", "Apply", "Status",
		"IgnoreNotFound", "IsPaused", "WasDeleted", "IsConflict", "IsNotAllowed", "IsNotFound", "IsAlreadyExists",
		"Differs", "ValidatePermissionRequests", "RenderClusterRoles",
		"MustBeControllableBy", "AllowUpdateIf", "StoreCurrentRV", "UpdateFn",
		"GetUID", "GetOwnerReferences", "GetLabels", "SystemClusterRoleName", "AsController", "TypedReferenceTo",
		"WithTimeout")
	rec := SkelOpts{Verbs: recVerbs, DropRecv: true, Idents: c18Set("DefinedResources", "append", "len")}
	sb.WriteString(SkelDef("c18SkelReconcile", provRec, "Reconciler", "Reconcile", rec))
	sb.WriteString(SkelDef("c18SkelReconcileXRD", defRec, "Reconciler", "Reconcile", rec))
	sb.WriteString(SkelDef("c18SkelReconcileBinding", bindRec, "Reconciler", "Reconcile", rec))
	sb.WriteString(SkelDef("c18SkelNewReconciler", provRec, "", "NewReconciler",
		SkelOpts{Verbs: c18Set("GetClient", "NewAPIUpdatingApplicator", "NewAPIPatchingApplicator", "NewNopLogger", "NewNopRecorder"),
			Idents: c18Set("PermissionRequestsValidatorFn", "ClusterRoleRenderFn", "f")}))
	// every call of the small pure functions
	all := func(extra ...string) SkelOpts {
		return SkelOpts{Match: func(string) bool { return true }, DropRecv: false,
			Idents: c18Set(append([]string{"append", "make", "len", "newNode", "Expand", "withVerbs", "SystemClusterRoleName", "registryHost", "path", "string"}, extra...)...)}
	}
	sb.WriteString(SkelDef("c18SkelDefinedResources", provRec, "", "DefinedResources", all()))
	sb.WriteString(SkelDef("c18SkelClusterRolesDiffer", provRec, "", "ClusterRolesDiffer", all()))
	sb.WriteString(SkelDef("c18SkelXRDClusterRolesDiffer", defRec, "", "ClusterRolesDiffer", all()))
	sb.WriteString(SkelDef("c18SkelBindingsDiffer", bindRec, "", "ClusterRoleBindingsDiffer", all()))
	sb.WriteString(SkelDef("c18SkelOrgDiffers", provRec, "OrgDiffer", "Differs", all()))
	sb.WriteString(SkelDef("c18SkelValidate", provReq, "ClusterRoleBackedValidator", "ValidatePermissionRequests", all()))
	sb.WriteString(SkelDef("c18SkelVerySecure", provReq, "", "VerySecureValidator", all()))
	sb.WriteString(SkelDef("c18SkelExpand", provReq, "", "Expand", all()))
	sb.WriteString(SkelDef("c18SkelNodeAllow", provReq, "node", "Allow", all()))
	sb.WriteString(SkelDef("c18SkelNodeAllowed", provReq, "node", "Allowed", all()))
	sb.WriteString(SkelDef("c18SkelRulePath", provReq, "Rule", "path", SkelOpts{Match: func(string) bool { return true }, Returns: true, Idents: c18Set("path", "append")}))
	sb.WriteString(SkelDef("c18SkelRenderClusterRoles", provRole, "", "RenderClusterRoles", all()))
	sb.WriteString(SkelDef("c18SkelWithVerbs", provRole, "", "withVerbs", all()))
	sb.WriteString(SkelDef("c18SkelRenderXRDRoles", defRole, "", "RenderClusterRoles", all()))
	// crossplane-runtime: what `applyRoles` / the binding's apply inline call by call
	api := c18SourceOf(resource.NewAPIUpdatingApplicator)
	rt := SkelOpts{Verbs: c18Set("Get", "Create", "Update", "Patch", "Delete", "IsNotFound", "SetResourceVersion", "GetResourceVersion", "GetName", "GetGenerateName"),
		DropRecv: true, Idents: c18Set("fn")}
	sb.WriteString(SkelDef("c18SkelApply", api, "APIUpdatingApplicator", "Apply", rt))
	return sb.String()
}

func init() { RegisterDump("C18Skel", c18SkelDump) }

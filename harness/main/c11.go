//go:build verif

package main

// C11: CRDs derived from an XRD = the author's schema + intact Crossplane machinery.
//
// Runs the real xcrd.ForCompositeResource / ForCompositeResourceClaim, the real
// (*CompositeResourceDefinition).Validate / ValidateUpdate and the real webhook
// validator (over simstore's dry-run) on generated XRDs, prints a canonical
// projection of what they return (diffed against the Lean model Xp.C11) and
// evaluates the property directly on the returned objects (monitors).

import (
	"encoding/json"
	"fmt"
	"reflect"
	"strconv"
	"strings"

	extv1 "k8s.io/apiextensions-apiserver/pkg/apis/apiextensions/v1"
	metav1 "k8s.io/apimachinery/pkg/apis/meta/v1"
	"k8s.io/apimachinery/pkg/runtime"
	"k8s.io/apimachinery/pkg/types"

	xpv1 "github.com/crossplane/crossplane-runtime/apis/common/v1"

	v1 "github.com/crossplane/crossplane/apis/apiextensions/v1"
	"github.com/crossplane/crossplane/internal/xcrd"
)

// ---------------------------------------------------------------- scenario

type c11Names struct {
	Kind       string   `json:"kind"`
	Plural     string   `json:"plural"`
	Singular   string   `json:"singular"`
	ListKind   string   `json:"listKind"`
	ShortNames []string `json:"shortNames"`
	Categories []string `json:"categories"`
}

type c11SchemaS struct {
	// Present=false: vr.Schema == nil. RawNil: RawExtension.Raw == nil.
	Present bool   `json:"present"`
	RawNil  bool   `json:"rawNil"`
	Raw     string `json:"raw"`
	// Filled by the harness with the real json.Unmarshal into extv1.JSONSchemaProps
	// (the JSON codec is an oracle, not modelled): "ok" | "absent" | "bad", and the
	// re-marshalled parse result.
	State  string          `json:"state"`
	Parsed json.RawMessage `json:"parsed"`
}

type c11Version struct {
	Name               string            `json:"name"`
	Served             bool              `json:"served"`
	Referenceable      bool              `json:"referenceable"`
	Deprecated         *bool             `json:"deprecated"`
	DeprecationWarning *string           `json:"deprecationWarning"`
	Columns            []json.RawMessage `json:"columns"`
	ColCap             int               `json:"colCap"` // spare capacity of the columns slice handed to the real code
	Schema             c11SchemaS        `json:"schema"`
}

type c11XrdS struct {
	Name            string            `json:"name"`
	UID             string            `json:"uid"`
	Labels          map[string]string `json:"labels"`
	HasMeta         bool              `json:"hasMeta"`
	MetaLabels      map[string]string `json:"metaLabels"`
	MetaAnnotations map[string]string `json:"metaAnnotations"`
	Group           string            `json:"group"`
	Names           c11Names          `json:"names"`
	ClaimNames      *c11Names         `json:"claimNames"`
	Versions        []c11Version      `json:"versions"`
	Conversion      json.RawMessage   `json:"conversion"`
	DefCUP          *string           `json:"defCUP"`
	DefCDP          *string           `json:"defCDP"`
	// metadata / status of the XRD object that say nothing about the derived CRDs or about what an
	// update may change: the model does not read them (its Xrd has no such fields), so no
	// derivation, validation or admission decision may depend on them
	Meta *c11ObjMeta `json:"meta,omitempty"`
}

type c11ObjMeta struct {
	Deleted     bool     `json:"deleted"`     // deletionTimestamp set (terminating, held by its finalizers)
	Finalizers  []string `json:"finalizers"`  //
	Paused      bool     `json:"paused"`      // crossplane.io/paused annotation
	Generation  int64    `json:"generation"`  //
	Established bool     `json:"established"` // status conditions Established / Offered = True
}

type c11Server struct {
	// the CRDs that exist (stored and cached) when the UPDATE request arrives; ignored when WorldU is given
	ExistsXR    bool `json:"existsXR"`
	ExistsClaim bool `json:"existsClaim"`
	// the API server's validation of a CRD: refuses cluster-scoped / namespaced CRDs, and any CRD
	// whose spec schema (in any version) declares the property RejectProp
	RejectXR    bool   `json:"rejectXR"`
	RejectClaim bool   `json:"rejectClaim"`
	RejectProp  string `json:"rejectProp"`
	// the world of the create / update request (c11_world.go); filled in by c11FillScn when absent
	WorldC *c11World `json:"worldC"`
	WorldU *c11World `json:"worldU"`
}

type c11Scn struct {
	Xrd    c11XrdS   `json:"xrd"`
	Old    *c11XrdS  `json:"old"`
	Server c11Server `json:"server"`
	// further requests handled afterwards by the SAME process: the same long-lived webhook
	// validator and the same package-level derivation functions (their own `more` is ignored)
	More []c11Scn `json:"more"`
	// the definition / offered reconcilers WRITE the derived CRDs (c11_recon.go)
	Recon *c11Recon `json:"recon,omitempty"`
}

// ---------------------------------------------------------------- observation

type c11CrdObs struct {
	Err string `json:"err"`
	Crd any    `json:"crd"`
}

type c11Obs struct {
	XR          c11CrdObs `json:"xr"`
	Claim       c11CrdObs `json:"claim"`
	XRRepeat    bool      `json:"xrRepeat"` // deriving the composite CRD again from the same XRD object gives the same CRD
	Validate    []string  `json:"validate"`
	Update      []string  `json:"update"` // null when the scenario has no old XRD
	AdmitCreate string    `json:"admitCreate"`
	CallsCreate []string  `json:"callsCreate"`
	AdmitUpdate string    `json:"admitUpdate"` // "" when the scenario has no old XRD
	CallsUpdate []string  `json:"callsUpdate"`
	More        []c11Obs  `json:"more"`
	Recon       any       `json:"recon"` // null without a recon part
}

// ---------------------------------------------------------------- building the real XRD

func c11NamesOf(n c11Names) extv1.CustomResourceDefinitionNames {
	out := extv1.CustomResourceDefinitionNames{Kind: n.Kind, Plural: n.Plural, Singular: n.Singular, ListKind: n.ListKind}
	if len(n.ShortNames) > 0 {
		out.ShortNames = append([]string{}, n.ShortNames...)
	}
	if len(n.Categories) > 0 {
		out.Categories = append([]string{}, n.Categories...)
	}
	return out
}

func c11StrMap(m map[string]string) map[string]string {
	if len(m) == 0 {
		return nil
	}
	out := map[string]string{}
	for k, v := range m {
		out[k] = v
	}
	return out
}

// c11Parse is the harness's own use of the JSON codec on the author's schema.
func c11Parse(s c11SchemaS) (state string, parsed *extv1.JSONSchemaProps) {
	if !s.Present {
		return "absent", nil
	}
	p := &extv1.JSONSchemaProps{}
	var raw []byte
	if !s.RawNil {
		raw = []byte(s.Raw)
	}
	if err := json.Unmarshal(raw, p); err != nil {
		return "bad", nil
	}
	return "ok", p
}

// c11Fill computes State/Parsed of every version (also on corpus replay).
func c11Fill(x *c11XrdS) {
	if x == nil {
		return
	}
	if x.Labels == nil {
		x.Labels = map[string]string{}
	}
	if x.MetaLabels == nil {
		x.MetaLabels = map[string]string{}
	}
	if x.MetaAnnotations == nil {
		x.MetaAnnotations = map[string]string{}
	}
	if len(x.Conversion) == 0 {
		x.Conversion = json.RawMessage("null")
	}
	for i := range x.Versions {
		v := &x.Versions[i]
		if v.Columns == nil {
			v.Columns = []json.RawMessage{}
		}
		st, p := c11Parse(v.Schema)
		v.Schema.State = st
		v.Schema.Parsed = json.RawMessage("null")
		if p != nil {
			b, err := json.Marshal(p)
			if err != nil {
				v.Schema.State = "bad"
				continue
			}
			v.Schema.Parsed = b
		}
	}
}

func c11Build(x c11XrdS) *v1.CompositeResourceDefinition {
	d := &v1.CompositeResourceDefinition{
		ObjectMeta: metav1.ObjectMeta{Name: x.Name, UID: types.UID(x.UID), Labels: c11StrMap(x.Labels),
			Annotations: map[string]string{"verif.example.org/own-annotation": "not-propagated"}},
		Spec: v1.CompositeResourceDefinitionSpec{
			Group: x.Group,
			Names: c11NamesOf(x.Names),
		},
	}
	if m := x.Meta; m != nil {
		if m.Deleted {
			t := metav1.Unix(1700000000, 0)
			d.DeletionTimestamp = &t
		}
		if len(m.Finalizers) > 0 {
			d.Finalizers = append([]string{}, m.Finalizers...)
		}
		if m.Paused {
			d.Annotations["crossplane.io/paused"] = "true"
		}
		d.Generation = m.Generation
		if m.Established {
			d.Status.SetConditions(v1.WatchingComposite(), v1.WatchingClaim())
		}
	}
	if x.ClaimNames != nil {
		n := c11NamesOf(*x.ClaimNames)
		d.Spec.ClaimNames = &n
	}
	if x.HasMeta {
		d.Spec.Metadata = &v1.CompositeResourceDefinitionSpecMetadata{Labels: c11StrMap(x.MetaLabels), Annotations: c11StrMap(x.MetaAnnotations)}
	}
	if len(x.Conversion) > 0 && string(x.Conversion) != "null" {
		c := &extv1.CustomResourceConversion{}
		if err := json.Unmarshal(x.Conversion, c); err == nil {
			d.Spec.Conversion = c
		}
	}
	if x.DefCUP != nil {
		p := xpv1.UpdatePolicy(*x.DefCUP)
		d.Spec.DefaultCompositionUpdatePolicy = &p
	}
	if x.DefCDP != nil {
		p := xpv1.CompositeDeletePolicy(*x.DefCDP)
		d.Spec.DefaultCompositeDeletePolicy = &p
	}
	d.Spec.Versions = make([]v1.CompositeResourceDefinitionVersion, 0, len(x.Versions))
	for _, v := range x.Versions {
		vr := v1.CompositeResourceDefinitionVersion{Name: v.Name, Served: v.Served, Referenceable: v.Referenceable}
		if v.Deprecated != nil {
			b := *v.Deprecated
			vr.Deprecated = &b
		}
		if v.DeprecationWarning != nil {
			s := *v.DeprecationWarning
			vr.DeprecationWarning = &s
		}
		if len(v.Columns) > 0 || v.ColCap > 0 {
			vr.AdditionalPrinterColumns = make([]extv1.CustomResourceColumnDefinition, 0, len(v.Columns)+v.ColCap)
			for _, c := range v.Columns {
				col := extv1.CustomResourceColumnDefinition{}
				_ = json.Unmarshal(c, &col)
				vr.AdditionalPrinterColumns = append(vr.AdditionalPrinterColumns, col)
			}
		}
		if v.Schema.Present {
			cv := &v1.CompositeResourceValidation{}
			if !v.Schema.RawNil {
				cv.OpenAPIV3Schema = runtime.RawExtension{Raw: []byte(v.Schema.Raw)}
			}
			vr.Schema = cv
		}
		d.Spec.Versions = append(d.Spec.Versions, vr)
	}
	return d
}

// ---------------------------------------------------------------- canonical projection

func c11ErrClass(err error) string {
	if err == nil {
		return ""
	}
	m := err.Error()
	conflictSuffix := strings.TrimPrefix(xcrd.VerifErrFmtConflictingClaimName, "%q")
	switch {
	case strings.Contains(m, xcrd.VerifErrCustomResourceValidationNil):
		return "nilValidation"
	case strings.Contains(m, xcrd.VerifErrMissingClaimNames):
		return "missingClaimNames"
	case strings.Contains(m, conflictSuffix):
		// `...: "<n>" conflicts with composite resource name`
		head := m[:strings.Index(m, conflictSuffix)]
		if i := strings.LastIndex(head, ": "); i >= 0 {
			head = head[i+2:]
		}
		if n, e := strconv.Unquote(head); e == nil {
			return "conflictingClaimName:" + n
		}
		return "conflictingClaimName:?" + head
	case strings.Contains(m, xcrd.VerifErrParseValidation):
		return "parseSchema"
	}
	return "other:" + m
}

func c11JSON(v any) any {
	b, err := json.Marshal(v)
	if err != nil {
		return "marshal-error:" + err.Error()
	}
	var out any
	if err := json.Unmarshal(b, &out); err != nil {
		return "unmarshal-error:" + err.Error()
	}
	return out
}

func c11StrList(xs []string) []string {
	if xs == nil {
		return []string{}
	}
	return xs
}

func c11Project(crd *extv1.CustomResourceDefinition) any {
	if crd == nil {
		return nil
	}
	labels := map[string]string{}
	for k, v := range crd.GetLabels() {
		labels[k] = v
	}
	annos := map[string]string{}
	for k, v := range crd.GetAnnotations() {
		annos[k] = v
	}
	owners := []any{}
	for _, o := range crd.GetOwnerReferences() {
		owners = append(owners, map[string]any{
			"apiVersion": o.APIVersion, "kind": o.Kind, "name": o.Name, "uid": string(o.UID),
			"controller": o.Controller != nil && *o.Controller, "blockOwnerDeletion": o.BlockOwnerDeletion != nil && *o.BlockOwnerDeletion,
		})
	}
	n := crd.Spec.Names
	versions := []any{}
	for _, v := range crd.Spec.Versions {
		cols := []any{}
		for _, c := range v.AdditionalPrinterColumns {
			cols = append(cols, c11JSON(c))
		}
		var schema any
		if v.Schema != nil && v.Schema.OpenAPIV3Schema != nil {
			schema = c11JSON(v.Schema.OpenAPIV3Schema)
		}
		var sub any
		if v.Subresources != nil {
			sub = c11JSON(v.Subresources)
		}
		var dw any
		if v.DeprecationWarning != nil {
			dw = *v.DeprecationWarning
		}
		versions = append(versions, map[string]any{
			"name": v.Name, "served": v.Served, "storage": v.Storage, "deprecated": v.Deprecated,
			"deprecationWarning": dw, "columns": cols, "schema": schema, "subresources": sub,
		})
	}
	var conv any
	if crd.Spec.Conversion != nil {
		conv = c11JSON(crd.Spec.Conversion)
	}
	return map[string]any{
		"name": crd.GetName(), "labels": labels, "annotations": annos, "owners": owners,
		"scope": string(crd.Spec.Scope), "group": crd.Spec.Group,
		"names": map[string]any{"kind": n.Kind, "plural": n.Plural, "singular": n.Singular, "listKind": n.ListKind,
			"shortNames": c11StrList(n.ShortNames), "categories": c11StrList(n.Categories)},
		"versions": versions, "conversion": conv,
	}
}

// ---------------------------------------------------------------- monitors (the property, evaluated on the real objects)

// The machinery the property names: composition selection, references,
// connection secret settings (spec) and conditions / connection details (status).
var c11RequiredSpecXR = []string{"compositionRef", "compositionSelector", "compositionRevisionRef", "compositionRevisionSelector",
	"compositionUpdatePolicy", "claimRef", "resourceRefs", "publishConnectionDetailsTo", "writeConnectionSecretToRef"}
var c11RequiredSpecClaim = []string{"compositionRef", "compositionSelector", "compositionRevisionRef", "compositionRevisionSelector",
	"compositionUpdatePolicy", "compositeDeletePolicy", "resourceRef", "publishConnectionDetailsTo", "writeConnectionSecretToRef"}
var c11RequiredStatus = []string{"conditions", "connectionDetails"}

func c11Contains(xs []string, x string) bool {
	for _, y := range xs {
		if x == y {
			return true
		}
	}
	return false
}

// c11MonitorCrd evaluates the clauses of the property on one derived CRD. specOnly: the object is
// what the webhook submitted to the API server (on an update: the stored CRD's metadata with the
// derived spec), so only the clauses about spec are evaluated.
func c11MonitorCrd(x c11XrdS, which string, crd *extv1.CustomResourceDefinition, specOnly bool) []Mon {
	var mons []Mon
	add := func(sig, why string) { mons = append(mons, Mon{Sig: "C11:" + sig, Why: which + ": " + why}) }
	wantScope, wantNames, wantCat := extv1.ClusterScoped, x.Names, xcrd.CategoryComposite
	table, required := xcrd.CompositeResourceSpecProps(), c11RequiredSpecXR
	polKey, pol := "compositionUpdatePolicy", x.DefCUP
	if which == "claim" {
		wantScope, wantCat = extv1.NamespaceScoped, xcrd.CategoryClaim
		if x.ClaimNames != nil {
			wantNames = *x.ClaimNames
		}
		table, required = xcrd.CompositeResourceClaimSpecProps(), c11RequiredSpecClaim
		polKey, pol = "compositeDeletePolicy", x.DefCDP
	}
	if pol != nil {
		p := table[polKey]
		p.Default = &extv1.JSON{Raw: []byte(strconv.Quote(*pol))}
		table[polKey] = p
	}
	if crd.Spec.Scope != wantScope {
		add("scope", fmt.Sprintf("scope %q, want %q", crd.Spec.Scope, wantScope))
	}
	if crd.Spec.Group != x.Group || crd.Spec.Names.Kind != wantNames.Kind || crd.Spec.Names.Plural != wantNames.Plural ||
		crd.Spec.Names.Singular != wantNames.Singular || crd.Spec.Names.ListKind != wantNames.ListKind {
		add("names", "group or names of the CRD differ from the XRD's")
	}
	if !c11Contains(crd.Spec.Names.Categories, wantCat) {
		add("category", "category "+wantCat+" missing")
	}
	for _, c := range wantNames.Categories {
		if !c11Contains(crd.Spec.Names.Categories, c) {
			add("category", "author category "+c+" lost")
		}
	}
	ors := crd.GetOwnerReferences()
	if specOnly {
		// not a clause about spec
	} else if len(ors) != 1 || ors[0].Controller == nil || !*ors[0].Controller || string(ors[0].UID) != x.UID || ors[0].Name != x.Name ||
		ors[0].Kind != v1.CompositeResourceDefinitionKind || ors[0].APIVersion != v1.SchemeGroupVersion.String() {
		add("controller-ref", "owner references are not exactly one controller reference to the XRD")
	}
	if !specOnly {
		// labels: the XRD's own overlaid with spec.metadata.labels; annotations: exactly spec.metadata.annotations
		wantL, wantA := map[string]string{}, map[string]string{}
		for k, v := range x.Labels {
			wantL[k] = v
		}
		if x.HasMeta {
			for k, v := range x.MetaLabels {
				wantL[k] = v
			}
			for k, v := range x.MetaAnnotations {
				wantA[k] = v
			}
		}
		if !c11StrMapEq(crd.GetLabels(), wantL) {
			add("labels-not-propagated", fmt.Sprintf("labels are %v, the XRD's labels overlaid with spec.metadata.labels are %v", crd.GetLabels(), wantL))
		}
		if !c11StrMapEq(crd.GetAnnotations(), wantA) {
			add("labels-not-propagated", fmt.Sprintf("annotations are %v, spec.metadata.annotations are %v", crd.GetAnnotations(), wantA))
		}
	}
	if len(crd.Spec.Versions) != len(x.Versions) {
		add("version-lost", fmt.Sprintf("%d versions, XRD has %d", len(crd.Spec.Versions), len(x.Versions)))
		return mons
	}
	nRef, nStorage := 0, 0
	for i, xv := range x.Versions {
		cv := crd.Spec.Versions[i]
		if xv.Referenceable {
			nRef++
		}
		if cv.Storage {
			nStorage++
		}
		if cv.Name != xv.Name || cv.Served != xv.Served {
			add("version-lost", "version "+xv.Name+" not carried with its name/served flag")
		}
		if cv.Storage != xv.Referenceable {
			add("storage-not-referenceable", "version "+xv.Name+": storage != referenceable")
		}
		if cv.Subresources == nil || cv.Subresources.Status == nil {
			add("no-status-subresource", "version "+xv.Name+" has no status subresource")
		}
		_, author := c11Parse(xv.Schema)
		if author == nil || cv.Schema == nil || cv.Schema.OpenAPIV3Schema == nil {
			add("schema-missing", "version "+xv.Name+" has no schema")
			continue
		}
		root := cv.Schema.OpenAPIV3Schema
		for _, k := range []string{"apiVersion", "kind", "metadata", "spec", "status"} {
			if _, ok := root.Properties[k]; !ok {
				add("machinery-missing", "top-level property "+k+" missing")
			}
		}
		spec, status := root.Properties["spec"], root.Properties["status"]
		if root.Type != "object" || spec.Type != "object" || status.Type != "object" {
			add("machinery-shadowed", "root/spec/status are not of type object")
		}
		// the envelope (apiVersion, kind, metadata; `spec` required) is machinery too: the author's
		// top-level schema must not alter it
		base := xcrd.BaseProps()
		for k, got := range root.Properties {
			want, ok := base.Properties[k]
			switch {
			case !ok:
				add("envelope-altered", "top-level property "+k+" of version "+xv.Name+" is not one of apiVersion/kind/metadata/spec/status")
			case k == "apiVersion" || k == "kind":
				if !reflect.DeepEqual(got, want) {
					add("envelope-altered", "top-level property "+k+" of version "+xv.Name+" is not the standard schema")
				}
			case k == "metadata":
				if got.Type != want.Type || len(got.Properties) != 1 {
					add("envelope-altered", "metadata of version "+xv.Name+" is not an object declaring just `name`")
				}
			}
		}
		if !reflect.DeepEqual(root.Required, base.Required) {
			add("envelope-altered", fmt.Sprintf("top-level required list of version %s is %v", xv.Name, root.Required))
		}
		// machinery present and standard, whatever the author wrote
		for _, k := range required {
			if _, ok := spec.Properties[k]; !ok {
				add("machinery-missing", "spec."+k+" missing in version "+xv.Name)
			}
		}
		for _, k := range c11RequiredStatus {
			if _, ok := status.Properties[k]; !ok {
				add("machinery-missing", "status."+k+" missing in version "+xv.Name)
			}
		}
		for k, want := range table {
			if got, ok := spec.Properties[k]; ok && !reflect.DeepEqual(got, want) {
				add("machinery-shadowed", "spec."+k+" is not the standard schema in version "+xv.Name)
			}
		}
		stable := xcrd.CompositeResourceStatusProps()
		for k, want := range stable {
			if got, ok := status.Properties[k]; ok && !reflect.DeepEqual(got, want) {
				add("machinery-shadowed", "status."+k+" is not the standard schema in version "+xv.Name)
			}
		}
		// author's schema kept
		aspec, astatus := author.Properties["spec"], author.Properties["status"]
		for k, want := range aspec.Properties {
			if _, isMach := table[k]; isMach {
				continue
			}
			if got, ok := spec.Properties[k]; !ok || !reflect.DeepEqual(got, want) {
				add("author-property-lost", "spec."+k+" of version "+xv.Name+" not carried")
			}
		}
		for k, want := range astatus.Properties {
			if _, isMach := stable[k]; isMach {
				continue
			}
			if got, ok := status.Properties[k]; !ok || !reflect.DeepEqual(got, want) {
				add("author-property-lost", "status."+k+" of version "+xv.Name+" not carried")
			}
		}
		// ... and nothing else: a property that neither this version's author schema nor the
		// machinery declares has leaked in from another version, CRD or XRD
		for k := range spec.Properties {
			_, isMach := table[k]
			if _, isAuthor := aspec.Properties[k]; !isMach && !isAuthor {
				add("foreign-property", "spec."+k+" of version "+xv.Name+" is declared neither by this version of the XRD nor by the machinery")
			}
		}
		for k := range status.Properties {
			_, isMach := stable[k]
			if _, isAuthor := astatus.Properties[k]; !isMach && !isAuthor {
				add("foreign-property", "status."+k+" of version "+xv.Name+" is declared neither by this version of the XRD nor by the machinery")
			}
		}
		if len(spec.Required) != len(aspec.Required) || len(status.Required) != len(astatus.Required) ||
			len(spec.XValidations) != len(aspec.XValidations) || len(status.XValidations) != len(astatus.XValidations) ||
			len(spec.OneOf) != len(aspec.OneOf) || len(status.OneOf) != len(astatus.OneOf) {
			add("foreign-rule", "version "+xv.Name+" carries required entries, validation rules or oneOf alternatives its author did not write")
		}
		for _, r := range aspec.Required {
			if !c11Contains(spec.Required, r) {
				add("author-required-lost", "spec.required "+r+" lost")
			}
		}
		for _, r := range astatus.Required {
			if !c11Contains(status.Required, r) {
				add("author-required-lost", "status.required "+r+" lost")
			}
		}
		hasRule := func(rs extv1.ValidationRules, r extv1.ValidationRule) bool {
			for _, y := range rs {
				if reflect.DeepEqual(y, r) {
					return true
				}
			}
			return false
		}
		for _, r := range aspec.XValidations {
			if !hasRule(spec.XValidations, r) {
				add("author-rule-lost", "spec validation rule lost: "+r.Rule)
			}
		}
		for _, r := range astatus.XValidations {
			if !hasRule(status.XValidations, r) {
				add("author-rule-lost", "status validation rule lost: "+r.Rule)
			}
		}
		hasSchema := func(rs []extv1.JSONSchemaProps, r extv1.JSONSchemaProps) bool {
			for _, y := range rs {
				if reflect.DeepEqual(y, r) {
					return true
				}
			}
			return false
		}
		for _, r := range aspec.OneOf {
			if !hasSchema(spec.OneOf, r) {
				add("author-rule-lost", "spec oneOf alternative lost")
			}
		}
		for _, r := range astatus.OneOf {
			if !hasSchema(status.OneOf, r) {
				add("author-rule-lost", "status oneOf alternative lost")
			}
		}
		if !reflect.DeepEqual(spec.XPreserveUnknownFields, aspec.XPreserveUnknownFields) {
			add("author-rule-lost", "spec x-kubernetes-preserve-unknown-fields not carried")
		}
		// name length limit = min(author's, 63)
		want := int64(63)
		if old := author.Properties["metadata"].Properties["name"].MaxLength; old != nil && *old < want {
			want = *old
		}
		name := root.Properties["metadata"].Properties["name"]
		if name.MaxLength == nil || *name.MaxLength != want || name.Type != "string" {
			add("name-maxlength", fmt.Sprintf("metadata.name is not a string of maxLength %d in version %s", want, xv.Name))
		}
	}
	if nRef == 1 && nStorage != 1 {
		add("not-one-storage", fmt.Sprintf("%d storage versions for one referenceable version", nStorage))
	}
	return mons
}

func c11ClaimCollision(x c11XrdS) bool {
	c := x.ClaimNames
	if c == nil {
		return false
	}
	return c.Kind == x.Names.Kind || c.Plural == x.Names.Plural ||
		(c.Singular != "" && c.Singular == x.Names.Singular) || (c.ListKind != "" && c.ListKind == x.Names.ListKind)
}

func c11ImmutableChanged(n, o c11XrdS) bool {
	if n.Group != o.Group || n.Names.Kind != o.Names.Kind || n.Names.Plural != o.Names.Plural {
		return true
	}
	if n.ClaimNames != nil && o.ClaimNames != nil && (n.ClaimNames.Kind != o.ClaimNames.Kind || n.ClaimNames.Plural != o.ClaimNames.Plural) {
		return true
	}
	return false
}

// ---------------------------------------------------------------- the webhook over simstore

func c11Scheme() *runtime.Scheme {
	s := runtime.NewScheme()
	_ = extv1.AddToScheme(s)
	_ = v1.AddToScheme(s)
	return s
}

func c11Derive(x c11XrdS, which string) (*extv1.CustomResourceDefinition, error) {
	if which == "claim" {
		return xcrd.ForCompositeResourceClaim(c11Build(x))
	}
	return xcrd.ForCompositeResource(c11Build(x))
}

// c11FillScn computes the derived parts of a scenario (also on corpus replay): the parse
// results of the schemas and the worlds of the two admission requests.
func c11FillScn(s *c11Scn, nested bool) {
	c11Fill(&s.Xrd)
	c11Fill(s.Old)
	if s.Server.WorldC == nil {
		s.Server.WorldC = &c11World{}
	}
	if s.Server.WorldU == nil {
		w := &c11World{}
		if s.Server.ExistsXR && s.Xrd.Name != "" {
			w.Exists = append(w.Exists, s.Xrd.Name)
		}
		if cn := c11ClaimCRDName(s.Xrd); s.Server.ExistsClaim && cn != "" && cn != s.Xrd.Name {
			w.Exists = append(w.Exists, cn)
		}
		s.Server.WorldU = w
	}
	for _, w := range []*c11World{s.Server.WorldC, s.Server.WorldU} {
		if w.Exists == nil {
			w.Exists = []string{}
		}
		if w.Acts == nil {
			w.Acts = []c11Act{}
		}
	}
	if nested || !c11Storable(s.Xrd) {
		s.Recon = nil
	}
	if s.Recon != nil {
		c11Fill(s.Recon.Prev)
		if s.Recon.ExtraLabels == nil {
			s.Recon.ExtraLabels = map[string]string{}
		}
		if s.Recon.ExtraAnnotations == nil {
			s.Recon.ExtraAnnotations = map[string]string{}
		}
		if s.Recon.StoredConds == nil {
			s.Recon.StoredConds = [][]string{{"Established", "True"}}
		}
		if s.Recon.StoredOwners == "" {
			s.Recon.StoredOwners = "controller"
		}
		if s.Recon.Live && (s.Recon.Prev == nil || !c11Storable(func() c11XrdS { p := c11CloneXrd(*s.Recon.Prev); p.Name = s.Xrd.Name; return p }())) {
			s.Recon.Live = false
		}
	}
	if nested || s.More == nil {
		s.More = []c11Scn{}
	}
	for i := range s.More {
		c11FillScn(&s.More[i], true)
	}
}

// ---------------------------------------------------------------- one scenario

// c11Run handles the scenario's request and then its `more` requests in one "process": one
// long-lived webhook validator over one client, and the package-level derivation functions.
func c11Run(s c11Scn) (c11Obs, []Mon) {
	h := c11NewHook()
	obs, mons := c11RunStep(h, s)
	if s.Recon != nil {
		ro, rm := c11RunRecon(s.Xrd, *s.Recon)
		obs.Recon = ro
		mons = append(mons, rm...)
	}
	for i, m := range s.More {
		o, ms := c11RunStep(h, m)
		obs.More = append(obs.More, o)
		for _, x := range ms {
			mons = append(mons, Mon{Sig: x.Sig, Why: fmt.Sprintf("request %d of the sequence: %s", i+2, x.Why)})
		}
	}
	return obs, mons
}

func c11RunStep(h *c11Hook, s c11Scn) (c11Obs, []Mon) {
	var mons []Mon
	obs := c11Obs{Validate: []string{}, CallsCreate: []string{}, CallsUpdate: []string{}, More: []c11Obs{}}
	xrd := c11Build(s.Xrd)
	var xr, claim, xr2 *extv1.CustomResourceDefinition
	var xrErr, claimErr, xr2Err error
	if p := Guard(func() { xr, xrErr = xcrd.ForCompositeResource(xrd) }); p != "" {
		mons = append(mons, Mon{Sig: "C11:panic", Why: "ForCompositeResource: " + p})
	}
	xrSnap := mustJSON(c11Project(xr))
	if p := Guard(func() { claim, claimErr = xcrd.ForCompositeResourceClaim(xrd) }); p != "" {
		mons = append(mons, Mon{Sig: "C11:panic", Why: "ForCompositeResourceClaim: " + p})
	}
	// NOTE (observations outside the property, deliberately not monitors): (1) both
	// derivations append to xrd's AdditionalPrinterColumns slice, so with >= 5 spare
	// capacity the claim derivation overwrites the machinery columns of the XR CRD
	// derived before from the same object; (2) setCrdMetadata writes
	// spec.metadata.labels into the XRD's own label map. The observation therefore
	// uses the projection of the XR CRD taken before the claim CRD was derived.
	obs.XR = c11CrdObs{Err: c11ErrClass(xrErr)}
	if xrErr == nil && xr != nil {
		// the projection taken BEFORE the claim CRD was derived
		var fresh any
		_ = json.Unmarshal([]byte(xrSnap), &fresh)
		obs.XR.Crd = fresh
		// monitors look at a CRD derived from a fresh XRD object
		if c, err := c11Derive(s.Xrd, "xr"); err == nil {
			mons = append(mons, c11MonitorCrd(s.Xrd, "xr", c, false)...)
			mons = append(mons, c11MonitorRaw(s.Xrd, "xr", c)...)
		}
	}
	obs.Claim = c11CrdObs{Err: c11ErrClass(claimErr)}
	if claimErr == nil && claim != nil {
		obs.Claim.Crd = c11Project(claim)
		mons = append(mons, c11MonitorCrd(s.Xrd, "claim", claim, false)...)
		mons = append(mons, c11MonitorRaw(s.Xrd, "claim", claim)...)
		if c11ClaimCollision(s.Xrd) {
			mons = append(mons, Mon{Sig: "C11:claim-name-collision-accepted", Why: "claim names collide with the composite's names and a claim CRD was derived"})
		}
	}
	// the same (long-lived) XRD object once more: what a caller that keeps the object gets the second time
	if p := Guard(func() { xr2, xr2Err = xcrd.ForCompositeResource(xrd) }); p != "" {
		mons = append(mons, Mon{Sig: "C11:panic", Why: "ForCompositeResource (again): " + p})
	}
	obs.XRRepeat = c11ErrClass(xr2Err) == c11ErrClass(xrErr) && (xrErr != nil || mustJSON(c11Project(xr2)) == xrSnap)
	if xr2Err == nil && xr2 != nil {
		for _, m := range c11MonitorCrd(s.Xrd, "xr", xr2, false) {
			mons = append(mons, Mon{Sig: m.Sig, Why: "second derivation from the same XRD object: " + m.Why})
		}
	}

	// Validate / ValidateUpdate
	paths := func(f func() []string) []string {
		out := []string{}
		if p := Guard(func() { out = append(out, f()...) }); p != "" {
			mons = append(mons, Mon{Sig: "C11:panic", Why: "Validate: " + p})
		}
		return out
	}
	obs.Validate = paths(func() []string {
		_, errs := c11Build(s.Xrd).Validate()
		var fs []string
		for _, e := range errs {
			fs = append(fs, e.Field)
		}
		return fs
	})
	if s.Old != nil {
		obs.Update = paths(func() []string {
			_, errs := c11Build(s.Xrd).ValidateUpdate(c11Build(*s.Old))
			var fs []string
			for _, e := range errs {
				fs = append(fs, e.Field)
			}
			return fs
		})
		if c11ImmutableChanged(s.Xrd, *s.Old) && len(obs.Update) == 0 {
			mons = append(mons, Mon{Sig: "C11:immutable-field-change-accepted", Why: "group, kind or plural (or claim kind/plural) changed and ValidateUpdate returned no error"})
		}
	}

	// the webhook (long-lived validator h)
	var m []Mon
	obs.AdmitCreate, obs.CallsCreate, m = h.admit(s.Xrd, nil, s.Server, *s.Server.WorldC)
	mons = append(mons, m...)
	if s.Old != nil {
		obs.AdmitUpdate, obs.CallsUpdate, m = h.admit(s.Xrd, s.Old, s.Server, *s.Server.WorldU)
		mons = append(mons, m...)
	}
	return obs, mons
}

func c11Class(s c11Scn, o c11Obs) string {
	shadow, feats := false, map[string]bool{}
	for _, v := range s.Xrd.Versions {
		_, p := c11Parse(v.Schema)
		if p == nil {
			continue
		}
		sp, stt := p.Properties["spec"], p.Properties["status"]
		for k := range sp.Properties {
			if c11Contains(c11RequiredSpecXR, k) || c11Contains(c11RequiredSpecClaim, k) {
				shadow = true
			}
		}
		for k := range stt.Properties {
			if c11Contains(c11RequiredStatus, k) || k == "claimConditionTypes" {
				shadow = true
			}
		}
		if len(sp.OneOf) > 0 {
			feats["oneOf"] = true
		}
		if len(sp.XValidations)+len(stt.XValidations) > 0 {
			feats["cel"] = true
		}
		if sp.XPreserveUnknownFields != nil {
			feats["puf"] = true
		}
		if p.Properties["metadata"].Properties["name"].MaxLength != nil {
			feats["maxlen"] = true
		}
	}
	// histogram class: outcome / claim names / update, then the schema features present
	// (shadow = an author property named like a machinery field; rules = CEL, oneOf or
	// preserve-unknown-fields; maxlen = author name limit; multi = 2+ versions;
	// opts = default policy or conversion settings)
	tags := []string{}
	if shadow {
		tags = append(tags, "shadow")
	}
	if feats["cel"] || feats["oneOf"] || feats["puf"] {
		tags = append(tags, "rules")
	}
	if feats["maxlen"] {
		tags = append(tags, "maxlen")
	}
	if len(s.Xrd.Versions) >= 2 {
		tags = append(tags, "multi")
	}
	if s.Xrd.DefCUP != nil || s.Xrd.DefCDP != nil || (string(s.Xrd.Conversion) != "null" && len(s.Xrd.Conversion) > 0) {
		tags = append(tags, "opts")
	}
	// seq = further requests handled by the same process; race = a third party writes a CRD while the
	// webhook handles the request; lag = the informer cache is (re)synchronised late; apierr = an API
	// call fails with an injected error class
	if len(s.More) > 0 {
		tags = append(tags, "seq")
	}
	// recon = the reconcilers write the CRDs over those of an earlier state; term = old or new XRD
	// is terminating; meta = other metadata-only states (finalizers, paused, generation, conditions)
	if s.Recon != nil {
		tags = append(tags, "recon")
	}
	if (s.Xrd.Meta != nil && s.Xrd.Meta.Deleted) || (s.Old != nil && s.Old.Meta != nil && s.Old.Meta.Deleted) {
		tags = append(tags, "term")
	} else if s.Xrd.Meta != nil || (s.Old != nil && s.Old.Meta != nil) {
		tags = append(tags, "meta")
	}
	race, lag, apierr := false, false, false
	for _, w := range []*c11World{s.Server.WorldC, s.Server.WorldU} {
		if w == nil {
			continue
		}
		for _, a := range w.Acts {
			switch a.Do {
			case "bump", "delete", "create":
				race = true
			case "sync":
				lag = true
			case "err":
				apierr = true
			}
		}
	}
	if race {
		tags = append(tags, "race")
	}
	if lag {
		tags = append(tags, "lag")
	}
	if apierr {
		tags = append(tags, "apierr")
	}
	claim := "noclaim"
	if s.Xrd.ClaimNames != nil {
		claim = "claim"
		if c11ClaimCollision(s.Xrd) {
			claim = "claimcollide"
		}
	}
	upd := "noold"
	if s.Old != nil {
		upd = "upd-ok"
		if len(o.Update) > 0 {
			upd = "upd-denied"
		}
	}
	e := "ok"
	if o.XR.Err != "" {
		e = strings.SplitN(o.XR.Err, ":", 2)[0]
	}
	return fmt.Sprintf("xr=%s/%s/%s/%s", e, claim, upd, strings.Join(tags, "+"))
}

func init() {
	Register("C11", func(c *Ctx) {
		for _, raw := range c.Corpus {
			var s c11Scn
			if err := jsonUnmarshalStrict(raw, &s); err == nil {
				c11FillScn(&s, false)
				obs, mons := c11Run(s)
				c.Emit(s, obs, mons, "corpus/"+c11Class(s, obs))
			}
		}
		// the deterministic sweep runs once (in the shard that also replays the corpus, or when run by hand)
		if c.N > 0 && (len(c.Corpus) > 0 || c.Seed%1000 == 0) {
			for _, s := range c11Sweep() {
				c11FillScn(&s, false)
				obs, mons := c11Run(s)
				c.Emit(s, obs, mons, "sweep/"+c11Class(s, obs))
			}
		}
		for i := 0; i < c.N; i++ {
			s := c11Gen(c.Rng.Fork(), c.Tier)
			c11FillScn(&s, false)
			obs, mons := c11Run(s)
			c.Emit(s, obs, mons, c11Class(s, obs))
		}
	})
}

//go:build verif

package main

// C08: teardown happens in dependency order.
//
// World: one simstore shared by the REAL claim, composite (XR), definition,
// offered, package-revision and Usage reconcilers plus the REAL controller engine
// (fake manager / controllers). Every reconcile runs in its own goroutine behind a
// client wrapper that parks before each API call, so that a schedule can
// interleave the reconciles call by call with user deletions, Kubernetes GC steps,
// third-party finalizer removals and faults (error, conflict, crash before/after)
// at any call. The same schedule is executed by the Lean model (Xp.C08.Sys).
//
// Observation: per step the call made, the reply class, the reconcile result when
// it ended and the canonical diff of the store; plus the final store.
// Monitors: the ordering constraints of the property evaluated on the state just
// before each write of a controller.

import (
	"context"
	"errors"
	"fmt"
	"io"
	"net"
	"sort"
	"strings"
	"sync/atomic"

	"github.com/go-logr/logr"
	extv1 "k8s.io/apiextensions-apiserver/pkg/apis/apiextensions/v1"
	kerrors "k8s.io/apimachinery/pkg/api/errors"
	"k8s.io/apimachinery/pkg/apis/meta/v1/unstructured"
	"k8s.io/apimachinery/pkg/runtime"
	"k8s.io/apimachinery/pkg/runtime/schema"
	"k8s.io/apimachinery/pkg/types"
	kcache "k8s.io/client-go/tools/cache"
	"sigs.k8s.io/controller-runtime/pkg/cache"
	"sigs.k8s.io/controller-runtime/pkg/client"
	kcontroller "sigs.k8s.io/controller-runtime/pkg/controller"
	"sigs.k8s.io/controller-runtime/pkg/manager"
	"sigs.k8s.io/controller-runtime/pkg/reconcile"
	"sigs.k8s.io/controller-runtime/pkg/source"

	"github.com/crossplane/crossplane-runtime/pkg/resource"

	v1 "github.com/crossplane/crossplane/apis/apiextensions/v1"
	"github.com/crossplane/crossplane/apis/apiextensions/v1beta1"
	pkgmetav1 "github.com/crossplane/crossplane/apis/pkg/meta/v1"
	pkgv1 "github.com/crossplane/crossplane/apis/pkg/v1"
	pkgv1beta1 "github.com/crossplane/crossplane/apis/pkg/v1beta1"
	"github.com/crossplane/crossplane/internal/controller/apiextensions/claim"
	"github.com/crossplane/crossplane/internal/controller/apiextensions/composite"
	"github.com/crossplane/crossplane/internal/controller/apiextensions/definition"
	"github.com/crossplane/crossplane/internal/controller/apiextensions/offered"
	usagectrl "github.com/crossplane/crossplane/internal/controller/apiextensions/usage"
	"github.com/crossplane/crossplane/internal/controller/pkg/revision"
	"github.com/crossplane/crossplane/internal/dag"
	"github.com/crossplane/crossplane/internal/engine"
	"github.com/crossplane/crossplane/internal/usage"
)

// ---------------------------------------------------------------- scenario

type c08Owner struct {
	Idx   int  `json:"idx"` // index into objs; -1 = an owner that does not exist
	Ctrl  bool `json:"ctrl,omitempty"`
	Block bool `json:"block,omitempty"`
	// Twin (with Idx -1): the reference names the XRD of this world (same apiVersion, kind
	// and name) but carries the UID of an earlier incarnation that no longer exists.
	Twin bool `json:"twin,omitempty"`
	// Stale (with Idx -1, on a Usage): the reference names the Usage's using resource
	// (apiVersion, kind and name of spec.by) but carries the UID of an earlier incarnation of
	// it (the using resource was deleted and re-created under the same name).
	Stale bool `json:"stale,omitempty"`
}

type c08Obj struct {
	Kind   string     `json:"kind"` // claim xr xrd crd rev lock usage res res2 res3
	Name   string     `json:"name"` // claims: "ns/name"
	Fins   []string   `json:"fins,omitempty"`
	Del    bool       `json:"del,omitempty"`
	Owners []c08Owner `json:"owners,omitempty"`
	Paused bool       `json:"paused,omitempty"`
	Ref    string     `json:"ref,omitempty"`
	Of     string     `json:"of,omitempty"`
	Flag   bool       `json:"flag,omitempty"`
	Inuse  bool       `json:"inuse,omitempty"`
	Pkgs   []string   `json:"pkgs,omitempty"`
	// package revisions: spec.desiredState = Inactive / spec.skipDependencyResolution = true.
	// Whether a revision is in the Lock does not follow from either.
	Inactive bool `json:"inactive,omitempty"`
	SkipDeps bool `json:"skipDeps,omitempty"`
	// usages: kind of the using (spec.by) and of the used (spec.of) resource: "" = res,
	// res2 = the same Kind in another API group, res3 = another Kind in the same group.
	RefKind string `json:"refKind,omitempty"`
	OfKind  string `json:"ofKind,omitempty"`
	// claims: spec.resourceRef's apiVersion / kind: "" = the XR kind the claim controller was
	// started for, "old" = another VERSION of it (the XRD's referenceable version changed after
	// the reference was written), "other" = another group and kind. The XR is looked up by name.
	RefVer string `json:"refVer,omitempty"`
	// usages: spec.by names the using resource by a resourceSelector that has not been
	// resolved yet (no resourceRef); its labels select the resource Ref of kind RefKind
	Sel bool `json:"sel,omitempty"`
}

type c08Step struct {
	Op   string `json:"op"`             // spawn step del gc unfin edit live
	C    string `json:"c,omitempty"`    // spawn: claim xr defined offered rev usage
	Kind string `json:"kind,omitempty"` // del/unfin/edit
	Name string `json:"name,omitempty"` // spawn/del/unfin/edit
	T    int    `json:"t,omitempty"`    // step: thread index
	O    string `json:"o,omitempty"`    // step: ok fail conflict crashBefore crashAfter
	Fin  string `json:"fin,omitempty"`  // unfin
	// step, o=fail: the class of the error the API server (or the transport) answers with;
	// "" = 500 InternalError. The model knows one failure reply: the code must not tell
	// these classes apart.
	E string `json:"e,omitempty"`
	// step, o=ok: if the call is a read it is answered from the informer cache as it was
	// before schedule step At-1 (0 = fresh). A write ignores At.
	At int `json:"at,omitempty"`
	// step, o=ok: the read is answered NotFound although the object exists (it was created
	// so recently that the informer has not seen it). Outside the model (equivalent to a
	// creation step, see the known findings); judged by the monitors only.
	Miss bool `json:"miss,omitempty"`
	// edit: what a third party changes: "flip" (claim: compositeDeletePolicy; usage: the
	// crossplane.io/composite label) or "ref=<name>" (claim: spec.resourceRef.name, xr:
	// spec.claimRef to ns/name, usage: spec.by.resourceRef.name; empty = removed)
	W string `json:"w,omitempty"`
}

type c08Scn struct {
	Objs    []c08Obj  `json:"objs"`
	Running []string  `json:"running"`
	Steps   []c08Step `json:"steps"`
}

type c08StepObs struct {
	Call string   `json:"call,omitempty"`
	Resp string   `json:"resp,omitempty"`
	Res  string   `json:"res,omitempty"`
	Chg  []string `json:"chg"`
}

type c08Obs struct {
	Steps []c08StepObs `json:"steps"`
	Final []string     `json:"final"`
}

const (
	c08Group    = "example.org"
	c08XRDName  = "xthings.example.org"
	c08XRCRD    = "xthings.example.org"
	c08ClaimCRD = "things.example.org"
	c08Hold     = "example.com/hold"
	c08FgFin    = "foregroundDeletion"
	c08SelLabel = "c08.example.org/name"
)

var (
	c08ClaimGVK = schema.GroupVersionKind{Group: c08Group, Version: "v1", Kind: "Thing"}
	c08XRGVK    = schema.GroupVersionKind{Group: c08Group, Version: "v1", Kind: "XThing"}
	c08ResGVK   = schema.GroupVersionKind{Group: c08Group, Version: "v1", Kind: "Res"}
	c08Res2GVK  = schema.GroupVersionKind{Group: "other." + c08Group, Version: "v1", Kind: "Res"}
	c08Res3GVK  = schema.GroupVersionKind{Group: c08Group, Version: "v1", Kind: "Res3"}
	c08XRDGVK   = v1.CompositeResourceDefinitionGroupVersionKind
	c08CRDGVK   = extv1.SchemeGroupVersion.WithKind("CustomResourceDefinition")
	c08RevGVK   = pkgv1.ProviderRevisionGroupVersionKind
	c08LockGVK  = pkgv1beta1.LockGroupVersionKind
	c08UsageGVK = v1beta1.UsageGroupVersionKind
)

func c08GVK(kind string) schema.GroupVersionKind {
	switch kind {
	case "claim":
		return c08ClaimGVK
	case "xr":
		return c08XRGVK
	case "xrd":
		return c08XRDGVK
	case "crd":
		return c08CRDGVK
	case "rev":
		return c08RevGVK
	case "lock":
		return c08LockGVK
	case "usage":
		return c08UsageGVK
	case "res2":
		return c08Res2GVK
	case "res3":
		return c08Res3GVK
	}
	return c08ResGVK
}

var c08Kinds = []string{"claim", "xr", "xrd", "crd", "rev", "lock", "usage", "res", "res2", "res3"}

func c08ResKind(k string) string {
	if k == "" {
		return "res"
	}
	return k
}

func c08KindOf(gk string) string {
	for _, k := range c08Kinds {
		if c08GVK(k).GroupKind().String() == gk {
			return k
		}
	}
	return "?" + gk
}

func c08NsName(kind, name string) (string, string) {
	if kind == "claim" {
		if i := strings.Index(name, "/"); i >= 0 {
			return name[:i], name[i+1:]
		}
	}
	return "", name
}

func c08FullName(kind, ns, name string) string {
	if kind == "claim" {
		return ns + "/" + name
	}
	return name
}

func c08Scheme() *runtime.Scheme {
	s := runtime.NewScheme()
	_ = v1.AddToScheme(s)
	_ = v1beta1.AddToScheme(s)
	_ = extv1.AddToScheme(s)
	_ = pkgv1.AddToScheme(s)
	_ = pkgv1beta1.AddToScheme(s)
	return s
}

func c08UID(idx int) string {
	if idx < 0 {
		return "uid-999"
	}
	return fmt.Sprintf("uid-%d", idx+1)
}

// c08Build renders an abstract object as the Kubernetes object the real code reads.
func c08Build(idx int, o c08Obj, all []c08Obj) *unstructured.Unstructured {
	gvk := c08GVK(o.Kind)
	ns, name := c08NsName(o.Kind, o.Name)
	md := map[string]any{"name": name, "uid": c08UID(idx)}
	if ns != "" {
		md["namespace"] = ns
	}
	if len(o.Fins) > 0 {
		f := make([]any, len(o.Fins))
		for i, x := range o.Fins {
			f[i] = x
		}
		md["finalizers"] = f
	}
	if o.Del {
		md["deletionTimestamp"] = "2024-01-01T00:00:00Z"
	}
	if len(o.Owners) > 0 {
		var refs []any
		for _, ow := range o.Owners {
			r := map[string]any{"apiVersion": "example.org/v1", "kind": "Owner", "name": "owner", "uid": c08UID(ow.Idx)}
			if ow.Idx >= 0 && ow.Idx < len(all) {
				og := c08GVK(all[ow.Idx].Kind)
				_, on := c08NsName(all[ow.Idx].Kind, all[ow.Idx].Name)
				r["apiVersion"], r["kind"], r["name"] = og.GroupVersion().String(), og.Kind, on
			} else if ow.Twin {
				r["apiVersion"], r["kind"], r["name"] = c08XRDGVK.GroupVersion().String(), c08XRDGVK.Kind, c08XRDName
			} else if ow.Stale && o.Kind == "usage" && o.Ref != "" {
				bg := c08GVK(c08ResKind(o.RefKind))
				r["apiVersion"], r["kind"], r["name"] = bg.GroupVersion().String(), bg.Kind, o.Ref
			}
			if ow.Ctrl {
				r["controller"] = true
			}
			if ow.Block {
				r["blockOwnerDeletion"] = true
			}
			refs = append(refs, r)
		}
		md["ownerReferences"] = refs
	}
	annos := map[string]any{}
	labels := map[string]any{}
	if o.Paused {
		annos["crossplane.io/paused"] = "true"
	}
	m := map[string]any{"apiVersion": gvk.GroupVersion().String(), "kind": gvk.Kind, "metadata": md}
	spec := map[string]any{}
	switch o.Kind {
	case "claim":
		if o.Ref != "" {
			av, k := c08XRGVK.GroupVersion().String(), c08XRGVK.Kind
			switch o.RefVer {
			case "old":
				av = c08Group + "/v1alpha1"
			case "other":
				av, k = "other."+c08Group+"/v1", "Res"
			}
			spec["resourceRef"] = map[string]any{"apiVersion": av, "kind": k, "name": o.Ref}
		}
		if o.Flag {
			spec["compositeDeletePolicy"] = "Foreground"
		} else {
			spec["compositeDeletePolicy"] = "Background"
		}
	case "xr":
		if o.Ref != "" {
			cns, cn := c08NsName("claim", o.Ref)
			spec["claimRef"] = map[string]any{"apiVersion": c08ClaimGVK.GroupVersion().String(), "kind": c08ClaimGVK.Kind, "namespace": cns, "name": cn}
		}
	case "xrd":
		spec = map[string]any{
			"group":      c08Group,
			"names":      map[string]any{"kind": "XThing", "plural": "xthings"},
			"claimNames": map[string]any{"kind": "Thing", "plural": "things"},
			"versions": []any{map[string]any{"name": "v1", "served": true, "referenceable": true,
				"schema": map[string]any{"openAPIV3Schema": map[string]any{"type": "object", "properties": map[string]any{"spec": map[string]any{"type": "object", "properties": map[string]any{"x": map[string]any{"type": "string"}}}}}}}},
		}
	case "crd":
		plural, kind := "xthings", "XThing"
		if name == c08ClaimCRD {
			plural, kind = "things", "Thing"
		}
		scope := "Cluster"
		if name == c08ClaimCRD {
			scope = "Namespaced"
		}
		spec = map[string]any{
			"group": c08Group, "scope": scope,
			"names": map[string]any{"kind": kind, "plural": plural, "listKind": kind + "List", "singular": strings.ToLower(kind)},
			"versions": []any{map[string]any{"name": "v1", "served": true, "storage": true,
				"schema": map[string]any{"openAPIV3Schema": map[string]any{"type": "object", "x-kubernetes-preserve-unknown-fields": true}}}},
		}
	case "rev":
		spec = map[string]any{"image": "example.org/pkg:v1", "revision": int64(1), "desiredState": "Active"}
		if o.Inactive {
			spec["desiredState"] = "Inactive"
		}
		if o.SkipDeps {
			spec["skipDependencyResolution"] = true
		}
	case "lock":
		var ps []any
		for _, p := range o.Pkgs {
			ps = append(ps, map[string]any{"name": p, "type": "Provider", "source": "example.org/" + p, "version": "v1", "dependencies": []any{}})
		}
		if ps != nil {
			m["packages"] = ps
		}
	case "usage":
		og, bg := c08GVK(c08ResKind(o.OfKind)), c08GVK(c08ResKind(o.RefKind))
		spec["of"] = map[string]any{"apiVersion": og.GroupVersion().String(), "kind": og.Kind, "resourceRef": map[string]any{"name": o.Of}}
		if o.Ref != "" && o.Sel {
			spec["by"] = map[string]any{"apiVersion": bg.GroupVersion().String(), "kind": bg.Kind,
				"resourceSelector": map[string]any{"matchLabels": map[string]any{c08SelLabel: o.Ref}}}
		} else if o.Ref != "" {
			spec["by"] = map[string]any{"apiVersion": bg.GroupVersion().String(), "kind": bg.Kind, "resourceRef": map[string]any{"name": o.Ref}}
		}
		if o.Flag {
			labels["crossplane.io/composite"] = "xr"
		}
	case "res", "res2", "res3":
		if o.Inuse {
			labels["crossplane.io/in-use"] = "true"
		}
		// what a resourceSelector of a Usage selects this resource by
		labels[c08SelLabel] = name
	}
	if len(annos) > 0 {
		md["annotations"] = annos
	}
	if len(labels) > 0 {
		md["labels"] = labels
	}
	if o.Kind != "lock" && len(spec) > 0 {
		m["spec"] = spec
	}
	if o.Kind == "crd" && o.Flag {
		// the API server has established the CRD
		m["status"] = map[string]any{"conditions": []any{map[string]any{"type": "Established", "status": "True", "reason": "InitialNamesAccepted"}}}
	}
	return &unstructured.Unstructured{Object: m}
}

// ---------------------------------------------------------------- canonical view

type c08View struct {
	Kind, Name string
	UID        string
	Del        bool
	Fins       []string
	Pkgs       []string
	Inuse      bool
	Ref, Of    string
	RefKind    string // usages: kind of the using resource (res res2 res3)
	OfKind     string // usages: kind of the used resource
	Flag       bool
	SkipDeps   bool // revisions: spec.skipDependencyResolution
	Sel        bool // usages: spec.by is an unresolved resourceSelector
	Owners     int  // number of owner references
	CtrlUID    string
	Conds      []string
}

func (v c08View) key() string { return v.Kind + "/" + v.Name }

func (v c08View) repr() string {
	r := "fins=" + strings.Join(v.Fins, ",")
	if v.Del {
		r = "del " + r
	}
	if len(v.Pkgs) > 0 {
		r += " pkgs=" + strings.Join(v.Pkgs, ",")
	}
	if v.Inuse {
		r += " inuse"
	}
	if (v.Kind == "usage" || v.Kind == "crd") && v.Owners > 0 {
		// owner references of the objects whose owners the modelled code writes
		r += fmt.Sprintf(" owners=%d", v.Owners)
	}
	if len(v.Conds) > 0 {
		r += " conds=" + strings.Join(v.Conds, ",")
	}
	return r
}

func (v c08View) hasFin(f string) bool {
	for _, x := range v.Fins {
		if x == f {
			return true
		}
	}
	return false
}

func c08ViewOf(u *unstructured.Unstructured) c08View {
	kind := c08KindOf(u.GroupVersionKind().GroupKind().String())
	v := c08View{Kind: kind, Name: c08FullName(kind, u.GetNamespace(), u.GetName()), UID: string(u.GetUID())}
	v.Del = u.GetDeletionTimestamp() != nil
	v.Fins = append([]string{}, u.GetFinalizers()...)
	v.Inuse = u.GetLabels()["crossplane.io/in-use"] == "true"
	v.Owners = len(u.GetOwnerReferences())
	for _, r := range u.GetOwnerReferences() {
		if r.Controller != nil && *r.Controller {
			v.CtrlUID = string(r.UID)
			break
		}
	}
	switch kind {
	case "claim":
		v.Ref, _, _ = unstructured.NestedString(u.Object, "spec", "resourceRef", "name")
		p, _, _ := unstructured.NestedString(u.Object, "spec", "compositeDeletePolicy")
		v.Flag = p == "Foreground"
	case "xr":
		if n, _, _ := unstructured.NestedString(u.Object, "spec", "claimRef", "name"); n != "" {
			ns, _, _ := unstructured.NestedString(u.Object, "spec", "claimRef", "namespace")
			v.Ref = ns + "/" + n
		}
	case "xrd":
		v.Ref, v.Of = c08XRCRD, c08ClaimCRD
	case "lock":
		ps, _, _ := unstructured.NestedSlice(u.Object, "packages")
		for _, p := range ps {
			if pm, ok := p.(map[string]any); ok {
				n, _ := pm["name"].(string)
				v.Pkgs = append(v.Pkgs, n)
			}
		}
	case "usage":
		v.Of, _, _ = unstructured.NestedString(u.Object, "spec", "of", "resourceRef", "name")
		v.Ref, _, _ = unstructured.NestedString(u.Object, "spec", "by", "resourceRef", "name")
		if v.Ref == "" {
			// not resolved yet: the resource the selector's labels select
			if n, ok, _ := unstructured.NestedString(u.Object, "spec", "by", "resourceSelector", "matchLabels", c08SelLabel); ok && n != "" {
				v.Ref, v.Sel = n, true
			}
		}
		v.OfKind = c08RefKind(u, "of")
		v.RefKind = c08RefKind(u, "by")
		v.Flag = u.GetLabels()["crossplane.io/composite"] != ""
	}
	if kind == "rev" {
		v.SkipDeps, _, _ = unstructured.NestedBool(u.Object, "spec", "skipDependencyResolution")
	}
	cs, _, _ := unstructured.NestedSlice(u.Object, "status", "conditions")
	if kind == "crd" {
		cs = nil // the API server's own conditions (Established): not written by these reconcilers
	}
	for _, c := range cs {
		if cm, ok := c.(map[string]any); ok {
			t, _ := cm["type"].(string)
			r, _ := cm["reason"].(string)
			v.Conds = append(v.Conds, t+":"+r)
		}
	}
	sort.Strings(v.Conds)
	return v
}

// c08RefKind is the kind (res res2 res3) a Usage's spec.of / spec.by names.
func c08RefKind(u *unstructured.Unstructured, field string) string {
	av, _, _ := unstructured.NestedString(u.Object, "spec", field, "apiVersion")
	k, _, _ := unstructured.NestedString(u.Object, "spec", field, "kind")
	gv, _ := schema.ParseGroupVersion(av)
	return c08KindOf(schema.GroupKind{Group: gv.Group, Kind: k}.String())
}

type c08Snap struct {
	objs    map[string]c08View
	running map[string]bool
}

func (w *c08World) snap() c08Snap {
	s := c08Snap{objs: map[string]c08View{}, running: map[string]bool{}}
	for _, u := range w.st.All() {
		v := c08ViewOf(u)
		s.objs[v.key()] = v
	}
	for _, n := range c08CtrlNames() {
		s.running[n] = w.running(n)
	}
	return s
}

func c08CtrlNames() []string {
	return []string{composite.ControllerName(c08XRDName), claim.ControllerName(c08XRDName)}
}

func (s c08Snap) lines() []string {
	out := []string{}
	for k, v := range s.objs {
		out = append(out, k+" "+v.repr())
	}
	for n, r := range s.running {
		if r {
			out = append(out, "run "+n)
		}
	}
	sort.Strings(out)
	return out
}

func c08Diff(a, b c08Snap) []string {
	out := []string{}
	for k, v := range b.objs {
		if o, ok := a.objs[k]; !ok || o.repr() != v.repr() {
			out = append(out, k+" "+v.repr())
		}
	}
	for k := range a.objs {
		if _, ok := b.objs[k]; !ok {
			out = append(out, k+" gone")
		}
	}
	for n, r := range a.running {
		if r != b.running[n] {
			if b.running[n] {
				out = append(out, "run "+n+" 1")
			} else {
				out = append(out, "run "+n+" 0")
			}
		}
	}
	sort.Strings(out)
	return out
}

func (s c08Snap) ofKind(kind string) []c08View {
	var out []c08View
	for _, v := range s.objs {
		if v.Kind == kind {
			out = append(out, v)
		}
	}
	return out
}

// ---------------------------------------------------------------- world, threads

type c08Thread struct {
	id      int
	w       *c08World
	ctl     string // controller this reconcile belongs to
	name    string // key it reconciles
	ready   chan struct{}
	resume  chan Outcome
	done    chan string
	fin     bool
	res     string
	call    string // description of a call that is not in the store's log (engine / cache / cached read)
	callRes string
	// how the next API call is to be answered (set by the scheduler with the outcome)
	errCls string // o=fail: error class
	lag    *Store // o=ok: the informer cache a read is answered from (nil = the live store)
	miss   bool   // o=ok: a read is answered NotFound
	// missed: the objects THIS reconcile read as NotFound although they existed (cache
	// miss). Only a write of this very reconcile can be explained by them.
	missed map[string]bool
	calls  int // schedule steps this reconcile has taken
}

type c08World struct {
	st      *Store
	eng     *engine.ControllerEngine
	threads []*c08Thread
	// cur is the one reconcile that is running: the scheduler lets exactly one goroutine
	// run between two parks, so every call made through the long-lived reconcilers'
	// clients, engine and package cache belongs to it.
	cur     *c08Thread
	abandon bool
	mons    []Mon
	seen    map[string]bool
	created map[string]bool // objects that appeared during the run (created by a reconcile)
	infs    *c08Infs
	ctrls   map[string]*c08Ctrl // controllers started in the current process, by name
	kill    chan struct{}
	// recs: the reconcilers of the current process, built ONCE per process the way Setup
	// builds them (one claim / XR reconciler per XRD controller, one definition, offered,
	// package revision and Usage reconciler) and shared by every reconcile of the process.
	recs map[string]reconcile.Reconciler
	// snaps[i] = the store just before schedule step i (kept when keepSnaps), the source of
	// lagging informer-cache reads
	snaps     []*Store
	keepSnaps bool
}

func (w *c08World) mon(sig, why string) {
	if w.seen[sig] {
		return
	}
	w.seen[sig] = true
	w.mons = append(w.mons, Mon{Sig: sig, Why: why})
}

// park blocks the calling reconcile until the scheduler lets it make its next call.
func (t *c08Thread) park() Outcome {
	if t.w.abandon || t.w.st.Crashed() {
		return OK
	}
	t.ready <- struct{}{}
	o := <-t.resume
	if t.w.abandon || t.w.st.Crashed() {
		return OK
	}
	t.w.st.Plan = func(CallInfo) Outcome { return o }
	return o
}

// c08Client is the client the long-lived reconcilers hold: it parks the running
// reconcile before every API call and answers according to the scheduled outcome.
type c08Client struct {
	client.Client
	w *c08World
}

// c08ErrMsg is the text of every injected failure (the text simstore's own injected 500
// carries): the error text ends up in condition messages, which are part of the stored
// object, so it must not depend on the class.
const c08ErrMsg = "Internal error occurred: simstore: injected server error"

// c08ErrOf builds the error of one class. Every class is a failure that says nothing
// about the object: the reconcilers must treat them all like a 500.
func c08ErrOf(cls, verb, kind, name string) error {
	gr := schema.GroupResource{Group: c08Group, Resource: kind}
	var se *kerrors.StatusError
	switch cls {
	case "timeout":
		se = kerrors.NewTimeoutError("", 1)
	case "serverTimeout":
		se = kerrors.NewServerTimeout(gr, verb, 1)
	case "tooManyRequests":
		se = kerrors.NewTooManyRequests("", 1)
	case "unavailable":
		se = kerrors.NewServiceUnavailable("")
	case "forbidden":
		se = kerrors.NewForbidden(gr, name, fmt.Errorf("injected"))
	case "unauthorized":
		se = kerrors.NewUnauthorized("")
	case "invalid":
		se = kerrors.NewInvalid(schema.GroupKind{Group: c08Group, Kind: kind}, name, nil)
	case "badRequest":
		se = kerrors.NewBadRequest("")
	case "expired":
		se = kerrors.NewResourceExpired("")
	case "methodNotSupported":
		se = kerrors.NewMethodNotSupported(gr, verb)
	case "tooLarge":
		se = kerrors.NewRequestEntityTooLargeError("")
	case "ctxDeadline":
		return c08WrapErr{context.DeadlineExceeded}
	case "ctxCanceled":
		return c08WrapErr{context.Canceled}
	case "netTemporary":
		return c08WrapErr{&net.OpError{Op: "read", Net: "tcp", Err: c08TempErr{}}}
	case "eof":
		return c08WrapErr{io.ErrUnexpectedEOF}
	default:
		se = kerrors.NewInternalError(fmt.Errorf("simstore: injected server error"))
	}
	se.ErrStatus.Message = c08ErrMsg
	return se
}

// c08WrapErr is a transport / context error with the uniform text.
type c08WrapErr struct{ err error }

func (e c08WrapErr) Error() string { return c08ErrMsg }
func (e c08WrapErr) Unwrap() error { return e.err }
func (e c08WrapErr) Timeout() bool {
	var ne net.Error
	return errors.As(e.err, &ne) && ne.Timeout() || errors.Is(e.err, context.DeadlineExceeded)
}
func (e c08WrapErr) Temporary() bool {
	var te interface{ Temporary() bool }
	return errors.As(e.err, &te) && te.Temporary()
}

// c08TempErr is a transport error that is Temporary() and Timeout().
type c08TempErr struct{}

func (c08TempErr) Error() string   { return "i/o timeout" }
func (c08TempErr) Timeout() bool   { return true }
func (c08TempErr) Temporary() bool { return true }

// c08ReadClasses / c08WriteClasses: the error classes the generator injects at a read
// resp. write ("" = InternalError). Invalid and 413 only answer writes.
var c08ReadClasses = []string{"", "timeout", "serverTimeout", "tooManyRequests", "unavailable", "forbidden", "unauthorized", "badRequest", "expired", "methodNotSupported", "ctxDeadline", "ctxCanceled", "netTemporary", "eof"}
var c08WriteClasses = append([]string{"invalid", "tooLarge"}, c08ReadClasses...)

// failed replaces the store's injected generic failure by the scheduled class.
func (c *c08Client) failed(t *c08Thread, o Outcome, err error, verb string, obj runtime.Object, name string) error {
	if o != Fail || err == nil || t.errCls == "" || err == ErrCrashed {
		return err
	}
	cls := t.errCls
	if (cls == "invalid" || cls == "tooLarge") && (verb == "get" || verb == "list") {
		cls = "" // 422 and 413 only answer writes
	}
	kind := "?"
	if obj != nil {
		kind = strings.ToLower(obj.GetObjectKind().GroupVersionKind().Kind)
	}
	return c08ErrOf(cls, verb, kind, name)
}

// cached answers a read of the running reconcile from a lagging informer cache. The call
// does not reach the live store, so it is described here.
func (c *c08Client) cached(t *c08Thread, o Outcome, do func(r client.Reader) error) (bool, error) {
	if o != OK || t.lag == nil || c.w.abandon || c.w.st.Crashed() {
		return false, nil
	}
	n := len(t.lag.Log)
	err := do(t.lag)
	if len(t.lag.Log) > n {
		ci := t.lag.Log[n]
		t.call, t.callRes = c08CallDesc(ci), ci.Err
	}
	return true, err
}

func (c *c08Client) Get(ctx context.Context, key client.ObjectKey, obj client.Object, opts ...client.GetOption) error {
	t := c.w.cur
	o := t.park()
	if o == OK && t.miss && !c.w.abandon && !c.w.st.Crashed() {
		// cache miss: the informer has not seen the object yet; obj is left untouched
		gvk := obj.GetObjectKind().GroupVersionKind()
		if gvk.Empty() {
			gvk, _ = c.w.st.GroupVersionKindFor(obj)
		}
		k := c08KindOf(gvk.GroupKind().String())
		full := c08FullName(k, key.Namespace, key.Name)
		t.call, t.callRes = "get:"+k+":"+full, "notFound"
		if c.w.st.Peek(gvk.GroupKind(), key.Namespace, key.Name) != nil {
			if t.missed == nil {
				t.missed = map[string]bool{}
			}
			t.missed[k+"/"+full] = true
		}
		return kerrors.NewNotFound(schema.GroupResource{Group: gvk.Group, Resource: strings.ToLower(gvk.Kind)}, key.Name)
	}
	if done, err := c.cached(t, o, func(r client.Reader) error { return r.Get(ctx, key, obj, opts...) }); done {
		return err
	}
	return c.failed(t, o, c.Client.Get(ctx, key, obj, opts...), "get", obj, key.Name)
}

func (c *c08Client) List(ctx context.Context, list client.ObjectList, opts ...client.ListOption) error {
	t := c.w.cur
	o := t.park()
	if done, err := c.cached(t, o, func(r client.Reader) error { return r.List(ctx, list, opts...) }); done {
		return err
	}
	return c.failed(t, o, c.Client.List(ctx, list, opts...), "list", list, "")
}

func (c *c08Client) Create(ctx context.Context, obj client.Object, opts ...client.CreateOption) error {
	t := c.w.cur
	o := t.park()
	return c.failed(t, o, c.Client.Create(ctx, obj, opts...), "create", obj, obj.GetName())
}

func (c *c08Client) Update(ctx context.Context, obj client.Object, opts ...client.UpdateOption) error {
	t := c.w.cur
	o := t.park()
	return c.failed(t, o, c.Client.Update(ctx, obj, opts...), "update", obj, obj.GetName())
}

func (c *c08Client) Patch(ctx context.Context, obj client.Object, patch client.Patch, opts ...client.PatchOption) error {
	t := c.w.cur
	o := t.park()
	return c.failed(t, o, c.Client.Patch(ctx, obj, patch, opts...), "patch", obj, obj.GetName())
}

func (c *c08Client) Delete(ctx context.Context, obj client.Object, opts ...client.DeleteOption) error {
	t := c.w.cur
	o := t.park()
	return c.failed(t, o, c.Client.Delete(ctx, obj, opts...), "delete", obj, obj.GetName())
}

func (c *c08Client) DeleteAllOf(ctx context.Context, obj client.Object, opts ...client.DeleteAllOfOption) error {
	t := c.w.cur
	o := t.park()
	return c.failed(t, o, c.Client.DeleteAllOf(ctx, obj, opts...), "deletecollection", obj, "")
}

func (c *c08Client) Status() client.SubResourceWriter {
	return &c08SubWriter{SubResourceWriter: c.Client.Status(), c: c}
}

type c08SubWriter struct {
	client.SubResourceWriter
	c *c08Client
}

func (s *c08SubWriter) Update(ctx context.Context, obj client.Object, opts ...client.SubResourceUpdateOption) error {
	t := s.c.w.cur
	o := t.park()
	return s.c.failed(t, o, s.SubResourceWriter.Update(ctx, obj, opts...), "update", obj, obj.GetName())
}

func (s *c08SubWriter) Patch(ctx context.Context, obj client.Object, patch client.Patch, opts ...client.SubResourcePatchOption) error {
	t := s.c.w.cur
	o := t.park()
	return s.c.failed(t, o, s.SubResourceWriter.Patch(ctx, obj, patch, opts...), "patch", obj, obj.GetName())
}

// nonStore runs a call that is not an API-server call (engine, package cache) under
// the scheduled outcome.
func (t *c08Thread) nonStore(desc string, do func() error) error {
	o := t.park()
	if t.w.abandon || t.w.st.Crashed() {
		return ErrCrashed
	}
	t.call = desc
	switch o {
	case Fail, Conflict:
		t.callRes = "other"
		return fmt.Errorf("c08: injected failure of %s", desc)
	case CrashBefore:
		t.w.st.crashed = true
		t.callRes = "crashed"
		return ErrCrashed
	case CrashAfter:
		_ = do()
		t.w.st.crashed = true
		t.callRes = "crashed"
		return ErrCrashed
	}
	err := do()
	t.callRes = ""
	if err != nil {
		t.callRes = "other"
	}
	return err
}

// c08Engine wraps the real controller engine of the process for the definition and
// offered reconcilers; every call belongs to the running reconcile.
type c08Engine struct {
	w *c08World
}

// Start: the REAL engine.Start with the options the reconciler built, except that the
// controller it creates is the fake one (ground truth for "running": its context).
func (e *c08Engine) Start(name string, o ...engine.ControllerOption) error {
	w := e.w
	return w.cur.nonStore("start:"+name, func() error {
		if w.eng.IsRunning(name) {
			return w.eng.Start(name, o...)
		}
		c := &c08Ctrl{started: make(chan struct{}), kill: w.kill}
		err := w.eng.Start(name, append(o, engine.WithNewControllerFn(func(string, manager.Manager, kcontroller.Options) (kcontroller.Controller, error) {
			return c, nil
		}))...)
		if err == nil {
			w.ctrls[name] = c
			<-c.started
		}
		return err
	})
}

// Stop: under an injected failure the REAL engine.Stop runs while the informers refuse
// to hand out the informer of the controller's watch, so that stopping that watch fails
// half-way through Stop (the reconciler sees the error and is requeued).
func (e *c08Engine) Stop(ctx context.Context, name string) error {
	w := e.w
	return w.cur.nonStoreFailing("stop:"+name, func(fail bool) error {
		w.infs.fail.Store(fail)
		err := w.eng.Stop(ctx, name)
		w.infs.fail.Store(false)
		if fail && err == nil {
			// nothing to stop (controller not running): the injected failure is still an error
			err = fmt.Errorf("c08: injected failure of stop:%s", name)
		}
		return err
	})
}

func (e *c08Engine) IsRunning(name string) bool { return e.w.eng.IsRunning(name) }

// nonStoreFailing is nonStore for a call that performs its own failure: do(true) must
// fail the way the real component fails, do(false) is the normal call.
func (t *c08Thread) nonStoreFailing(desc string, do func(fail bool) error) error {
	o := t.park()
	if t.w.abandon || t.w.st.Crashed() {
		return ErrCrashed
	}
	t.call = desc
	switch o {
	case Fail, Conflict:
		t.callRes = "other"
		return do(true)
	case CrashBefore:
		t.w.st.crashed = true
		t.callRes = "crashed"
		return ErrCrashed
	case CrashAfter:
		_ = do(false)
		t.w.st.crashed = true
		t.callRes = "crashed"
		return ErrCrashed
	}
	err := do(false)
	t.callRes = ""
	if err != nil {
		t.callRes = "other"
	}
	return err
}

func (e *c08Engine) GetWatches(name string) ([]engine.WatchID, error) {
	return e.w.eng.GetWatches(name)
}

// StartWatches: a controller started by a live XRD reconcile gets the same single watch of
// its instance kind in the REAL engine as the controllers of the initial world (newEngine),
// so that a failing watch stop makes the real engine.Stop fail half-way for it too (the
// controller keeps running) instead of the failure being reported after a completed Stop.
func (e *c08Engine) StartWatches(name string, ws ...engine.Watch) error {
	w := e.w
	return w.cur.nonStore("startWatches:"+name, func() error {
		if ids, err := w.eng.GetWatches(name); err != nil || len(ids) > 0 {
			return nil
		}
		kind := &unstructured.Unstructured{}
		kind.SetGroupVersionKind(c08XRGVK)
		if name == claim.ControllerName(c08XRDName) {
			kind.SetGroupVersionKind(c08ClaimGVK)
		}
		return w.eng.StartWatches(name, engine.WatchFor(kind, engine.WatchTypeCompositeResource, nil))
	})
}

func (e *c08Engine) StopWatches(ctx context.Context, name string, ws ...engine.WatchID) (int, error) {
	return 0, nil
}

func (e *c08Engine) GetCached() client.Client             { return &c08Client{Client: e.w.st, w: e.w} }
func (e *c08Engine) GetUncached() client.Client           { return &c08Client{Client: e.w.st, w: e.w} }
func (e *c08Engine) GetFieldIndexer() client.FieldIndexer { return nil }

// c08Cache is the package cache of the revision reconciler.
type c08Cache struct{ w *c08World }

func (c *c08Cache) Has(string) bool                   { return false }
func (c *c08Cache) Get(string) (io.ReadCloser, error) { return nil, fmt.Errorf("c08: empty cache") }
func (c *c08Cache) Store(string, io.ReadCloser) error { return nil }
func (c *c08Cache) Delete(id string) error {
	return c.w.cur.nonStore("cacheDelete:"+id, func() error { return nil })
}

// fake manager / controller for the real engine
type c08Mgr struct {
	manager.Manager
	c      client.Client
	scheme *runtime.Scheme
}

var c08Closed = func() chan struct{} { c := make(chan struct{}); close(c); return c }()

func (m *c08Mgr) Elected() <-chan struct{}   { return c08Closed }
func (m *c08Mgr) GetClient() client.Client   { return m.c }
func (m *c08Mgr) GetScheme() *runtime.Scheme { return m.scheme }
func (m *c08Mgr) GetLogger() logr.Logger     { return logr.Discard() }

// c08Ctrl is the controller-runtime controller the engine starts. Ground truth for
// "the controller has been stopped": the context the engine passed to Start was
// cancelled (or the process died).
type c08Ctrl struct {
	started chan struct{}
	ctx     context.Context
	kill    chan struct{} // closed when the simulated process dies
}

func (c *c08Ctrl) Reconcile(context.Context, reconcile.Request) (reconcile.Result, error) {
	return reconcile.Result{}, nil
}

// Watch starts the source like a real controller does (without a work queue), so that the
// engine's StoppableSource holds a registration that Stop has to remove.
func (c *c08Ctrl) Watch(src source.Source) error { return src.Start(context.Background(), nil) }

func (c *c08Ctrl) Start(ctx context.Context) error {
	c.ctx = ctx
	close(c.started)
	select {
	case <-ctx.Done():
	case <-c.kill:
	}
	return nil
}
func (c *c08Ctrl) GetLogger() logr.Logger { return logr.Discard() }

// alive: the controller was started and nobody cancelled it.
func (c *c08Ctrl) alive() bool {
	select {
	case <-c.kill:
		return false
	default:
	}
	return c.ctx != nil && c.ctx.Err() == nil
}

// fake informers for the engine: GetInformer fails while `fail` is set.
type c08Informer struct{ cache.Informer }

type c08Reg struct{}

func (c08Reg) HasSynced() bool { return true }

func (c08Informer) AddEventHandler(kcache.ResourceEventHandler) (kcache.ResourceEventHandlerRegistration, error) {
	return c08Reg{}, nil
}
func (c08Informer) RemoveEventHandler(kcache.ResourceEventHandlerRegistration) error { return nil }

type c08Infs struct {
	cache.Informers
	fail atomic.Bool
}

func (i *c08Infs) ActiveInformers() []schema.GroupVersionKind { return nil }

func (i *c08Infs) GetInformer(context.Context, client.Object, ...cache.InformerGetOption) (cache.Informer, error) {
	if i.fail.Load() {
		return nil, fmt.Errorf("c08: injected failure: no informer for the watched kind")
	}
	return c08Informer{}, nil
}

// newEngine models a fresh process: a new real engine, every listed controller started
// with one watch (on XRs resp. claims) whose registration Stop must remove.
func (w *c08World) newEngine(running []string) {
	if w.kill != nil {
		close(w.kill) // controllers of the previous process die with it
	}
	w.kill = make(chan struct{})
	w.recs = map[string]reconcile.Reconciler{} // a new process builds its reconcilers anew
	w.ctrls = map[string]*c08Ctrl{}
	w.infs = &c08Infs{}
	w.eng = engine.New(&c08Mgr{c: w.st, scheme: w.st.Scheme()}, w.infs, w.st, w.st)
	for _, n := range running {
		c := &c08Ctrl{started: make(chan struct{}), kill: w.kill}
		w.ctrls[n] = c
		_ = w.eng.Start(n, engine.WithNewControllerFn(func(string, manager.Manager, kcontroller.Options) (kcontroller.Controller, error) {
			return c, nil
		}))
		<-c.started
		kind := &unstructured.Unstructured{}
		kind.SetGroupVersionKind(c08XRGVK)
		if n == claim.ControllerName(c08XRDName) {
			kind.SetGroupVersionKind(c08ClaimGVK)
		}
		if err := w.eng.StartWatches(n, engine.WatchFor(kind, engine.WatchTypeCompositeResource, nil)); err != nil {
			panic(err)
		}
	}
}

// running is the ground truth: the controller's context has not been cancelled.
func (w *c08World) running(name string) bool {
	c, ok := w.ctrls[name]
	return ok && c.alive()
}

func c08NewWorld(s c08Scn) *c08World {
	st := NewStore(c08Scheme())
	st.Namespaced[c08ClaimGVK.GroupKind()] = true
	st.AddIndex(c08UsageGVK.GroupKind(), usage.InUseIndexKey, func(u *unstructured.Unstructured) []string {
		n, _, _ := unstructured.NestedString(u.Object, "spec", "of", "resourceRef", "name")
		if n == "" {
			return nil
		}
		av, _, _ := unstructured.NestedString(u.Object, "spec", "of", "apiVersion")
		k, _, _ := unstructured.NestedString(u.Object, "spec", "of", "kind")
		o := &unstructured.Unstructured{}
		o.SetAPIVersion(av)
		o.SetKind(k)
		o.SetName(n)
		return []string{usage.IndexValueForObject(o)}
	})
	for i, o := range s.Objs {
		st.Seed(c08Build(i, o, s.Objs))
	}
	// objects created during the run (by live reconciles) get UIDs no seeded object and no
	// dangling owner reference ("uid-999") carries
	st.uid = 2000
	w := &c08World{st: st, seen: map[string]bool{}, created: map[string]bool{}}
	for _, x := range s.Steps {
		if x.At > 0 {
			w.keepSnaps = true
		}
	}
	w.newEngine(s.Running)
	return w
}

// reconciler returns the process-wide reconciler of one controller, building it on first
// use the way the controllers' Setup functions do: ONE object serves every reconcile (of
// every key) until the process dies.
func (w *c08World) reconciler(ctl string) reconcile.Reconciler {
	if r, ok := w.recs[ctl]; ok {
		return r
	}
	cl := &c08Client{Client: w.st, w: w}
	var r reconcile.Reconciler
	switch ctl {
	case "claim":
		r = claim.NewReconciler(cl, resource.CompositeClaimKind(c08ClaimGVK), resource.CompositeKind(c08XRGVK))
	case "xr":
		r = composite.NewReconciler(cl, cl, resource.CompositeKind(c08XRGVK))
	case "defined":
		r = definition.NewReconciler(definition.NewClientApplicator(cl), definition.WithControllerEngine(&c08Engine{w: w}))
	case "offered":
		r = offered.NewReconciler(offered.NewClientApplicator(cl), offered.WithControllerEngine(&c08Engine{w: w}))
	case "rev":
		mgr := &c08Mgr{c: cl, scheme: w.st.Scheme()}
		r = revision.NewReconciler(mgr,
			revision.WithCache(&c08Cache{w: w}),
			revision.WithNewPackageRevisionFn(func() pkgv1.PackageRevision { return &pkgv1.ProviderRevision{} }),
			revision.WithDependencyManager(revision.NewPackageDependencyManager(cl, dag.NewMapDag, pkgv1.ProviderGroupVersionKind)),
		)
	case "usage":
		mgr := &c08Mgr{c: cl, scheme: w.st.Scheme()}
		r = usagectrl.NewReconciler(mgr)
	default:
		r = reconcile.Func(func(context.Context, reconcile.Request) (reconcile.Result, error) {
			return reconcile.Result{}, fmt.Errorf("c08: unknown controller %q", ctl)
		})
	}
	w.recs[ctl] = r
	return r
}

// reconcileFn returns one reconcile of the process-wide reconciler.
func (w *c08World) reconcileFn(ctl, name string) func() (reconcile.Result, error) {
	ns, n := "", name
	if ctl == "claim" {
		ns, n = c08NsName("claim", name)
	}
	req := reconcile.Request{NamespacedName: types.NamespacedName{Namespace: ns, Name: n}}
	r := w.reconciler(ctl)
	return func() (reconcile.Result, error) { return r.Reconcile(context.Background(), req) }
}

// resolveFn is the part of a live revision's reconcile that concerns the Lock: the REAL
// PackageDependencyManager.Resolve (a package without dependencies) for revision `name`.
func (w *c08World) resolveFn(name string) func() (reconcile.Result, error) {
	cl := &c08Client{Client: w.st, w: w}
	return func() (reconcile.Result, error) {
		u := w.st.Peek(c08RevGVK.GroupKind(), "", name)
		if u == nil {
			return reconcile.Result{}, nil
		}
		pr := &pkgv1.ProviderRevision{}
		if err := runtime.DefaultUnstructuredConverter.FromUnstructured(u.Object, pr); err != nil {
			return reconcile.Result{}, err
		}
		m := revision.NewPackageDependencyManager(cl, dag.NewMapDag, pkgv1.ProviderGroupVersionKind)
		_, _, _, err := m.Resolve(context.Background(), &pkgmetav1.Provider{}, pr)
		return reconcile.Result{}, err
	}
}

// liveAtomic runs ONE whole reconcile of a live (not deleted) object on the real code,
// every call answered by the live store, no other step in between (schedule op "live").
// The model executes the abstract creating steps this amounts to (Xp.C08.liveActs).
func (w *c08World) liveAtomic(ctl, name string) {
	t := &c08Thread{id: -1, w: w, ctl: ctl, name: name, ready: make(chan struct{}), resume: make(chan Outcome), done: make(chan string, 1)}
	fn := w.reconcileFn(ctl, name)
	if ctl == "rev" {
		fn = w.resolveFn(name)
	}
	w.cur = t
	w.launch(t, fn)
	w.wait(t)
	for !t.fin {
		t.errCls, t.lag, t.miss = "", nil, false
		w.cur = t
		t.resume <- OK
		w.wait(t)
		w.st.Plan = nil
	}
	if strings.HasPrefix(t.res, "panic") {
		w.mon("C08:panic", "live reconcile of "+ctl+" "+name+": "+t.res)
	}
}

func (w *c08World) spawn(ctl, name string) *c08Thread {
	t := &c08Thread{id: len(w.threads), w: w, ctl: ctl, name: name, ready: make(chan struct{}), resume: make(chan Outcome), done: make(chan string, 1)}
	w.threads = append(w.threads, t)
	fn := w.reconcileFn(ctl, name)
	w.cur = t
	w.launch(t, fn)
	w.wait(t)
	return t
}

func (w *c08World) launch(t *c08Thread, fn func() (reconcile.Result, error)) {
	go func() {
		res := "ok"
		if p := Guard(func() {
			r, err := fn()
			switch {
			case err != nil:
				res = "err"
			case r.Requeue || r.RequeueAfter > 0:
				res = "requeue"
			}
		}); p != "" {
			res = "panic: " + p
		}
		t.done <- res
	}()
}

// wait blocks until the thread parks at its next call or ends.
func (w *c08World) wait(t *c08Thread) {
	select {
	case <-t.ready:
	case r := <-t.done:
		t.fin, t.res = true, r
	}
}

// drain lets every parked reconcile run to its end after a crash (all its calls fail).
func (w *c08World) drain() {
	for _, t := range w.threads {
		if t.fin {
			continue
		}
		w.cur = t
		t.resume <- OK
		<-t.done
		t.fin, t.res = true, "crashed"
	}
}

func c08Outcome(s string) Outcome {
	switch s {
	case "fail":
		return Fail
	case "conflict":
		return Conflict
	case "crashBefore":
		return CrashBefore
	case "crashAfter":
		return CrashAfter
	}
	return OK
}

func c08RespClass(e string) string {
	switch e {
	case "":
		return "ok"
	case "notFound", "conflict", "crashed":
		return e
	}
	return "other"
}

func c08CallDesc(c CallInfo) string {
	kind := c08KindOf(c.GK)
	d := c.Verb + ":" + kind
	if c.Verb != "list" && c.Verb != "deleteAllOf" {
		d += ":" + c08FullName(kind, c.NS, c.Name)
	}
	if c.Sub != "" {
		d += ":" + c.Sub
	}
	if c.Propagation == "Foreground" {
		d += ":fg"
	}
	return d
}

// step executes one schedule step and returns its observation.
func (w *c08World) step(s c08Step, running []string) c08StepObs {
	o := c08StepObs{Chg: []string{}}
	if w.keepSnaps {
		w.snaps = append(w.snaps, w.st.Clone())
	}
	pre := w.snap()
	isCtl, crashStep := false, false
	switch s.Op {
	case "spawn":
		w.spawn(s.C, s.Name)
	case "live":
		w.liveAtomic(s.C, s.Name)
	case "step":
		if s.T < 0 || s.T >= len(w.threads) || w.threads[s.T].fin {
			break
		}
		t := w.threads[s.T]
		isCtl = true
		nlog := len(w.st.Log)
		t.call, t.callRes = "", ""
		t.calls++
		t.errCls, t.lag, t.miss = s.E, nil, s.Miss
		if s.At > 0 && s.At-1 < len(w.snaps) {
			t.lag = w.snaps[s.At-1]
		}
		w.cur = t
		t.resume <- c08Outcome(s.O)
		w.wait(t)
		w.st.Plan = nil
		if len(w.st.Log) > nlog {
			c := w.st.Log[nlog]
			o.Call, o.Resp = c08CallDesc(c), c08RespClass(c.Err)
		} else {
			o.Call, o.Resp = t.call, c08RespClass(t.callRes)
		}
		if w.st.Crashed() {
			crashStep = true
			o.Resp = "crashed"
			if !t.fin {
				// the crashing call was this thread's; it now runs to its end without parking
				<-t.done
				t.fin = true
			}
			t.res = "crashed"
			w.drain()
			w.st.Revive()
			w.stopAll()
			w.newEngine(nil)
		}
		if t.fin {
			o.Res = t.res
		}
	case "del":
		ns, n := c08NsName(s.Kind, s.Name)
		u := &unstructured.Unstructured{}
		u.SetGroupVersionKind(c08GVK(s.Kind))
		u.SetNamespace(ns)
		u.SetName(n)
		_ = w.st.Delete(context.Background(), u)
	case "gc":
		w.st.GCStep()
	case "edit":
		ns, n := c08NsName(s.Kind, s.Name)
		w.st.Mutate(c08GVK(s.Kind).GroupKind(), ns, n, func(u *unstructured.Unstructured) { c08Edit(u, s.Kind, s.W) })
	case "unfin":
		ns, n := c08NsName(s.Kind, s.Name)
		w.st.Mutate(c08GVK(s.Kind).GroupKind(), ns, n, func(u *unstructured.Unstructured) {
			var keep []string
			for _, f := range u.GetFinalizers() {
				if f != s.Fin {
					keep = append(keep, f)
				}
			}
			u.SetFinalizers(keep)
		})
	}
	post := w.snap()
	o.Chg = c08Diff(pre, post)
	for k := range post.objs {
		if _, ok := pre.objs[k]; !ok {
			w.created[k] = true
		}
	}
	if isCtl {
		w.monitor(w.threads[s.T], pre, post, crashStep, o.Call)
	}
	return o
}

// c08Edit is a third party editing an object: see c08Step.W.
func c08Edit(u *unstructured.Unstructured, kind, what string) {
	val, isRef := strings.CutPrefix(what, "ref=")
	switch {
	case what == "flip" && kind == "claim":
		p, _, _ := unstructured.NestedString(u.Object, "spec", "compositeDeletePolicy")
		if p == "Foreground" {
			p = "Background"
		} else {
			p = "Foreground"
		}
		_ = unstructured.SetNestedField(u.Object, p, "spec", "compositeDeletePolicy")
	case what == "flip" && kind == "usage":
		l := u.GetLabels()
		if l == nil {
			l = map[string]string{}
		}
		if l["crossplane.io/composite"] != "" {
			delete(l, "crossplane.io/composite")
		} else {
			l["crossplane.io/composite"] = "xr"
		}
		if len(l) == 0 {
			l = nil
		}
		u.SetLabels(l)
	case isRef && kind == "claim":
		if val == "" {
			unstructured.RemoveNestedField(u.Object, "spec", "resourceRef")
		} else {
			_ = unstructured.SetNestedMap(u.Object, map[string]any{"apiVersion": c08XRGVK.GroupVersion().String(), "kind": c08XRGVK.Kind, "name": val}, "spec", "resourceRef")
		}
	case isRef && kind == "xr":
		if val == "" {
			unstructured.RemoveNestedField(u.Object, "spec", "claimRef")
		} else {
			cns, cn := c08NsName("claim", val)
			_ = unstructured.SetNestedMap(u.Object, map[string]any{"apiVersion": c08ClaimGVK.GroupVersion().String(), "kind": c08ClaimGVK.Kind, "namespace": cns, "name": cn}, "spec", "claimRef")
		}
	case isRef && kind == "usage":
		if val == "" {
			unstructured.RemoveNestedField(u.Object, "spec", "by")
		} else {
			av, _, _ := unstructured.NestedString(u.Object, "spec", "by", "apiVersion")
			k, _, _ := unstructured.NestedString(u.Object, "spec", "by", "kind")
			if k == "" {
				av, k = c08ResGVK.GroupVersion().String(), c08ResGVK.Kind
			}
			_ = unstructured.SetNestedMap(u.Object, map[string]any{"apiVersion": av, "kind": k, "resourceRef": map[string]any{"name": val}}, "spec", "by")
		}
	}
}

func (w *c08World) stopAll() {
	for _, n := range c08CtrlNames() {
		_ = w.eng.Stop(context.Background(), n)
	}
}

// finish abandons every parked reconcile so that no goroutine outlives the scenario.
func (w *c08World) finish() {
	w.abandon = true
	w.st.crashed = true
	w.drain()
	w.stopAll()
	if w.kill != nil {
		close(w.kill)
		w.kill = nil
	}
}

// ---------------------------------------------------------------- monitors

// allCreated: every one of these objects appeared during the run (none is part of the
// initial world), i.e. some reconcile outside the deletion branches created it.
func (w *c08World) allCreated(vs []c08View) bool {
	for _, v := range vs {
		if !w.created[v.key()] {
			return false
		}
	}
	return true
}

// monitor evaluates the ordering constraints on one controller write: pre is the
// store just before the call, post just after.
func (w *c08World) monitor(t *c08Thread, pre, post c08Snap, crash bool, call string) {
	lost := func(v c08View, fin string) bool {
		if !v.hasFin(fin) {
			return false
		}
		p, ok := post.objs[v.key()]
		return !ok || !p.hasFin(fin)
	}
	var xrd *c08View
	for _, v := range pre.ofKind("xrd") {
		v := v
		xrd = &v
	}
	for _, v := range pre.objs {
		switch v.Kind {
		case "claim":
			if lost(v, claim.VerifC08Finalizer) && v.Ref != "" {
				if x, ok := pre.objs["xr/"+v.Ref]; ok {
					if w.created[x.key()] && x.Ref != "" && x.Ref != v.Name {
						// not this claim's XR: the XR the claim named is gone and ANOTHER claim's live
						// reconcile has since created an XR of that name, bound to itself (the claim
						// reconciler never deletes or waits for an XR bound to another claim)
					} else if !x.Del && t.missed["xr/"+v.Ref] {
						// unchanged code does this when the XR is missing from the informer cache: recorded finding
						w.mon("C08:claim-finalized-xr-missing-from-cache", fmt.Sprintf("%s: claim %s lost its finalizer while its XR %s exists and is not being deleted: the reconcile's cached read did not find the XR (created so recently that the informer had not seen it); the XR is orphaned", call, v.Name, v.Ref))
					} else if !x.Del {
						w.mon("C08:claim-finalizer-before-xr-delete", fmt.Sprintf("%s: claim %s lost its finalizer while its XR %s exists and is not being deleted", call, v.Name, v.Ref))
					} else if v.Flag {
						w.mon("C08:claim-finalizer-before-xr-gone-foreground", fmt.Sprintf("%s: claim %s (Foreground) lost its finalizer while its XR %s still exists", call, v.Name, v.Ref))
					}
				}
			}
		case "crd":
			p, ok := post.objs[v.key()]
			if v.Del || (ok && !p.Del) || xrd == nil {
				continue
			}
			inst, ctl := "", ""
			switch v.Name {
			case xrd.Ref:
				inst, ctl = "xr", composite.ControllerName(xrd.Name)
			case xrd.Of:
				inst, ctl = "claim", claim.ControllerName(xrd.Name)
			default:
				continue
			}
			if n := len(pre.ofKind(inst)); n > 0 {
				if w.allCreated(pre.ofKind(inst)) {
					w.mon("C08:instance-recreated-during-xrd-teardown", fmt.Sprintf("%s: CRD %s deleted while %d %s instance(s) exist that a reconcile created after the empty-list check", call, v.Name, n, inst))
				} else {
					w.mon("C08:crd-deleted-with-instances", fmt.Sprintf("%s: CRD %s deleted while %d %s instance(s) exist", call, v.Name, n, inst))
				}
			}
			if pre.running[ctl] {
				w.mon("C08:crd-deleted-before-stop", fmt.Sprintf("%s: CRD %s deleted while controller %s is running", call, v.Name, ctl))
			}
		case "xrd":
			for _, x := range []struct{ fin, crd string }{{definition.VerifC08Finalizer, v.Ref}, {offered.VerifC08Finalizer, v.Of}} {
				if lost(v, x.fin) {
					if c, ok := pre.objs["crd/"+x.crd]; ok && c.CtrlUID == v.UID {
						if t.missed["crd/"+x.crd] {
							w.mon("C08:xrd-torn-down-crd-missing-from-cache", fmt.Sprintf("%s: XRD %s lost %s while its CRD %s exists: the reconcile's cached read did not find the CRD (created so recently that the informer had not seen it)", call, v.Name, x.fin, x.crd))
						} else {
							w.mon("C08:xrd-finalizer-before-crd-gone", fmt.Sprintf("%s: XRD %s lost %s while its CRD %s exists", call, v.Name, x.fin, x.crd))
						}
					}
				}
			}
		case "rev":
			if lost(v, revision.VerifC08Finalizer) {
				if l, ok := pre.objs["lock/"+revision.VerifC08LockName]; ok {
					for _, p := range l.Pkgs {
						if p == v.Name {
							w.mon("C08:revision-finalized-in-lock", fmt.Sprintf("%s: revision %s lost its finalizer while still in the Lock", call, v.Name))
						}
					}
				}
			}
		case "usage":
			if lost(v, usagectrl.VerifC08Finalizer) && v.Flag && v.Ref != "" {
				if _, ok := pre.objs[v.RefKind+"/"+v.Ref]; ok {
					w.mon("C08:usage-finalized-before-using-gone", fmt.Sprintf("%s: composed Usage %s lost its finalizer while its using resource %s %s exists", call, v.Name, v.RefKind, v.Ref))
				}
			}
		}
	}
	// a teardown reconcile of XRD n only ever stops ITS controller of n (the definition
	// reconciler the composite controller, the offered reconciler the claim controller),
	// and no other reconciler stops any controller
	if !crash {
		own := ""
		switch t.ctl {
		case "defined":
			own = composite.ControllerName(t.name)
		case "offered":
			own = claim.ControllerName(t.name)
		}
		for n, r := range pre.running {
			if r && !post.running[n] && n != own {
				w.mon("C08:stopped-other-controller", fmt.Sprintf("%s: a %s reconcile of %s stopped controller %s", call, t.ctl, t.name, n))
			}
		}
	}
	if !crash && xrd != nil {
		for _, x := range []struct{ ctl, crd, inst string }{
			{composite.ControllerName(xrd.Name), xrd.Ref, "xr"},
			{claim.ControllerName(xrd.Name), xrd.Of, "claim"},
		} {
			if pre.running[x.ctl] && !post.running[x.ctl] {
				if c, ok := pre.objs["crd/"+x.crd]; ok && c.CtrlUID == xrd.UID {
					if n := len(pre.ofKind(x.inst)); n > 0 {
						if w.allCreated(pre.ofKind(x.inst)) {
							w.mon("C08:instance-recreated-during-xrd-teardown", fmt.Sprintf("%s: controller %s stopped while %d %s instance(s) exist that a reconcile created after the empty-list check", call, x.ctl, n, x.inst))
						} else if t.missed["crd/"+x.crd] {
							w.mon("C08:xrd-torn-down-crd-missing-from-cache", fmt.Sprintf("%s: controller %s stopped while %d %s instance(s) exist and CRD %s is ours: the reconcile's cached read did not find the CRD (created so recently that the informer had not seen it)", call, x.ctl, n, x.inst, x.crd))
						} else {
							w.mon("C08:stop-with-instances", fmt.Sprintf("%s: controller %s stopped while %d %s instance(s) exist and CRD %s is ours", call, x.ctl, n, x.inst, x.crd))
						}
					}
				}
			}
		}
	}
}

// ---------------------------------------------------------------- run

// c08Run executes a scenario. If next is non-nil the schedule is generated step by
// step from the live world (and recorded into the returned scenario).
func c08Run(s c08Scn, next func(w *c08World, i int) (c08Step, bool)) (c08Scn, c08Obs, []Mon) {
	w := c08NewWorld(s)
	obs := c08Obs{Steps: []c08StepObs{}}
	if p := Guard(func() {
		if next == nil {
			for _, st := range s.Steps {
				obs.Steps = append(obs.Steps, w.step(st, s.Running))
			}
			return
		}
		s.Steps = []c08Step{}
		for i := 0; ; i++ {
			st, ok := next(w, i)
			if !ok {
				break
			}
			s.Steps = append(s.Steps, st)
			obs.Steps = append(obs.Steps, w.step(st, s.Running))
		}
	}); p != "" {
		w.mon("C08:panic", p)
	}
	for _, t := range w.threads {
		if strings.HasPrefix(t.res, "panic") {
			w.mon("C08:panic", t.res)
		}
	}
	obs.Final = w.snap().lines()
	w.finish()
	return s, obs, w.mons
}

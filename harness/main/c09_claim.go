//go:build verif

package main

// C09 family "claimrec": the REAL claim.Reconciler with its default options (what
// claim.NewReconciler wires: APIConnectionPropagator, NopConnectionUnpublisher) around the
// propagator — on a live claim bound to an XR (Ready or not) and on a claim that is being
// deleted — over a store of secrets with absolute identities. The claim and the XR carry
// status.connectionDetails.lastPublishedTime in every order (unset / earlier / equal / later);
// one failing secret-addressed API call per reconcile. Lean model: Xp.C09.claimRec
// (Model/C09World.lean). Direct monitors are evaluated on the real secrets only.

import (
	"context"
	"fmt"

	corev1 "k8s.io/api/core/v1"
	metav1 "k8s.io/apimachinery/pkg/apis/meta/v1"
	"k8s.io/apimachinery/pkg/runtime"
	"k8s.io/apimachinery/pkg/runtime/schema"
	"k8s.io/apimachinery/pkg/types"
	"sigs.k8s.io/controller-runtime/pkg/client"
	"sigs.k8s.io/controller-runtime/pkg/reconcile"

	xpv1 "github.com/crossplane/crossplane-runtime/apis/common/v1"
	"github.com/crossplane/crossplane-runtime/pkg/resource"
	uclaim "github.com/crossplane/crossplane-runtime/pkg/resource/unstructured/claim"
	ucomposite "github.com/crossplane/crossplane-runtime/pkg/resource/unstructured/composite"
	"github.com/crossplane/crossplane-runtime/pkg/resource/unstructured/reference"

	"github.com/crossplane/crossplane/internal/controller/apiextensions/claim"
)

type c09ClaimScn struct {
	Op      string       `json:"op"`      // "claimrec"
	Deleted bool         `json:"deleted"` // the claim has a deletionTimestamp
	CRef    *string      `json:"cref"`    // the claim's writeConnectionSecretToRef name (namespace "ns")
	CTime   int          `json:"ctime"`   // the claim's lastPublishedTime (0 = unset)
	Bound   bool         `json:"bound"`   // the bound XR exists
	Ready   bool         `json:"ready"`   // ... and is Ready
	XRef    *c09Key      `json:"xref"`    // the XR's writeConnectionSecretToRef
	XTime   int          `json:"xtime"`   // the XR's lastPublishedTime (0 = unset)
	Secrets []c09ASecret `json:"secrets"`
	Rounds  []*c09Fault  `json:"rounds"` // one reconcile per entry; a fault numbers the SECRET-addressed calls
}

type c09ClaimRound struct {
	Stamped bool `json:"stamped"` // the claim's lastPublishedTime was rewritten
	Err     bool `json:"err"`     // the claim's Synced condition is False afterwards
	Writes  int  `json:"writes"`  // write requests (create/update/patch/delete) addressed to any secret
}

type c09ClaimObs struct {
	Rounds  []c09ClaimRound `json:"rounds"`
	Secrets []c09ASecret    `json:"secrets"`
}

const (
	c09ClaimUID = "c:claim:1"
	c09ClaimXR  = "x:xr:1"
)

var c09ClaimGVK = schema.GroupVersionKind{Group: xwGroup, Version: "v1", Kind: "Thing"}

// c09SecClient numbers the calls addressed to Secrets (only) and lets one of them fail.
type c09SecClient struct {
	*Store
	fault  *c09Fault
	n      int
	hit    bool
	writes int
}

func (c *c09SecClient) failing() bool {
	k := c.n
	c.n++
	return c.fault != nil && c.fault.Idx == k
}

func (c *c09SecClient) Get(ctx context.Context, key client.ObjectKey, obj client.Object, opts ...client.GetOption) error {
	if _, ok := obj.(*corev1.Secret); ok && c.failing() {
		c.hit = true
		return c09ClassErr(c.fault.Cls, key.Name)
	}
	return c.Store.Get(ctx, key, obj, opts...)
}

func (c *c09SecClient) write(obj client.Object, do func() error) error {
	if _, ok := obj.(*corev1.Secret); !ok {
		return do()
	}
	c.writes++
	if c.failing() {
		if c.fault.Lost {
			_ = do()
		} else {
			c.hit = true
		}
		return c09ClassErr(c.fault.Cls, obj.GetName())
	}
	return do()
}

func (c *c09SecClient) Create(ctx context.Context, obj client.Object, opts ...client.CreateOption) error {
	return c.write(obj, func() error { return c.Store.Create(ctx, obj, opts...) })
}

func (c *c09SecClient) Update(ctx context.Context, obj client.Object, opts ...client.UpdateOption) error {
	return c.write(obj, func() error { return c.Store.Update(ctx, obj, opts...) })
}

func (c *c09SecClient) Patch(ctx context.Context, obj client.Object, p client.Patch, opts ...client.PatchOption) error {
	return c.write(obj, func() error { return c.Store.Patch(ctx, obj, p, opts...) })
}

func (c *c09SecClient) Delete(ctx context.Context, obj client.Object, opts ...client.DeleteOption) error {
	return c.write(obj, func() error { return c.Store.Delete(ctx, obj, opts...) })
}

func (c *c09SecClient) DeleteAllOf(ctx context.Context, obj client.Object, opts ...client.DeleteAllOfOption) error {
	return c.write(obj, func() error { return c.Store.DeleteAllOf(ctx, obj, opts...) })
}

func c09ClaimRun(s c09ClaimScn) (c09ClaimObs, []Mon) {
	sch := runtime.NewScheme()
	_ = corev1.AddToScheme(sch)
	st := NewStore(sch)
	st.Namespaced[c09ClaimGVK.GroupKind()] = true
	st.Namespaced[schema.GroupKind{Kind: "Secret"}] = true
	var mons []Mon
	for _, sec := range s.Secrets {
		c09SeedA(st, sec)
	}
	if s.Bound {
		xr := ucomposite.New(ucomposite.WithGroupVersionKind(xwXRGVK))
		xr.SetName("xr")
		xr.SetUID(types.UID(c09ClaimXR))
		xr.SetLabels(map[string]string{"crossplane.io/claim-name": "claim", "crossplane.io/claim-namespace": "ns"})
		xr.SetClaimReference(&reference.Claim{APIVersion: xwGroup + "/v1", Kind: "Thing", Namespace: "ns", Name: "claim"})
		if s.Ready {
			c := xpv1.Available()
			c.LastTransitionTime = metav1.Unix(1, 0)
			xr.SetConditions(c)
		}
		if s.XRef != nil {
			xr.SetWriteConnectionSecretToReference(&xpv1.SecretReference{Namespace: s.XRef.NS, Name: s.XRef.Name})
		}
		c09SetTimes(uclaim.New(), xr, 0, s.XTime)
		st.Seed(xr)
	}
	cm := uclaim.New(uclaim.WithGroupVersionKind(c09ClaimGVK))
	cm.SetName("claim")
	cm.SetNamespace("ns")
	cm.SetUID(types.UID(c09ClaimUID))
	cm.SetFinalizers([]string{"finalizer.apiextensions.crossplane.io"})
	cm.SetResourceReference(&reference.Composite{APIVersion: xwGroup + "/v1", Kind: xwXRGVK.Kind, Name: "xr"})
	var target *c09Key
	if s.CRef != nil {
		cm.SetWriteConnectionSecretToReference(&xpv1.LocalSecretReference{Name: *s.CRef})
		target = &c09Key{"ns", *s.CRef}
	}
	c09SetTimes(cm, ucomposite.New(), s.CTime, 0)
	if s.Deleted {
		t := metav1.Unix(1700000100, 0)
		cm.SetDeletionTimestamp(&t)
	}
	st.Seed(cm)
	obs := c09ClaimObs{Rounds: []c09ClaimRound{}}
	if got := st.Peek(c09ClaimGVK.GroupKind(), "ns", "claim"); got == nil || string(got.GetUID()) != c09ClaimUID {
		mons = append(mons, Mon{Sig: "C09:harness", Why: "the seeded claim does not carry the UID the scenario gives it"})
		return obs, mons
	}
	cl := &c09SecClient{Store: st}
	rec := claim.NewReconciler(cl, resource.CompositeClaimKind(c09ClaimGVK), resource.CompositeKind(xwXRGVK))
	stampOf := func() string {
		u := st.Peek(c09ClaimGVK.GroupKind(), "ns", "claim")
		if u == nil {
			return "gone"
		}
		c := uclaim.New()
		c.SetUnstructuredContent(u.Object)
		if t := c.GetConnectionDetailsLastPublishedTime(); t != nil {
			return t.UTC().Format("2006-01-02T15:04:05Z")
		}
		return ""
	}
	for i, f := range s.Rounds {
		mon := func(sig, why string) {
			mons = append(mons, Mon{Sig: sig, Why: fmt.Sprintf("reconcile %d: %s", i, why)})
		}
		cl.fault, cl.n, cl.hit, cl.writes = f, 0, false, 0
		st.Log = nil
		before := c09ViewMap(c09WorldView(st))
		stampBefore := stampOf()
		live := st.Peek(c09ClaimGVK.GroupKind(), "ns", "claim") != nil
		if p := Guard(func() {
			_, _ = rec.Reconcile(context.Background(), reconcile.Request{NamespacedName: types.NamespacedName{Namespace: "ns", Name: "claim"}})
		}); p != "" {
			mon("C09:panic", p)
		}
		after := c09ViewMap(c09WorldView(st))
		stampAfter := stampOf()
		r := c09ClaimRound{Stamped: stampAfter != "gone" && stampAfter != "" && stampAfter != stampBefore, Writes: cl.writes}
		synced := ""
		if u := st.Peek(c09ClaimGVK.GroupKind(), "ns", "claim"); u != nil {
			c := uclaim.New()
			c.SetUnstructuredContent(u.Object)
			synced = string(c.GetCondition(xpv1.TypeSynced).Status)
		}
		r.Err = synced == "False"
		obs.Rounds = append(obs.Rounds, r)
		// --- direct monitors (on the real secrets only) ---
		// only the claim's own secret: no other secret changes; a changed / deleted target was
		// one the claim may control and belongs to the claim afterwards
		applied := target != nil && c09TargetApplied(st, *target)
		changed := c09FrameMons(mon, c09ClaimUID, target, before, after, nil, applied)
		if target != nil {
			if _, aok := after[*target]; changed && !aok {
				if b := before[*target]; b.Ctrl != c09ClaimUID {
					mon("C09:deleted-secret-not-owned", fmt.Sprintf("the secret %s named by the claim's writeConnectionSecretToRef was deleted although it is controlled by %q, not by the claim", *target, b.Ctrl))
				}
			}
		}
		if !live {
			continue
		}
		if s.Deleted || !s.Bound || !s.Ready || target == nil || s.XRef == nil {
			// nothing to propagate: no secret-addressed write at all
			if cl.writes > 0 || r.Stamped {
				mon("C09:published-unasked", fmt.Sprintf("the claim reconciler addressed %d write(s) to secrets (stamped=%v) although there is nothing to propagate (deleted=%v bound=%v ready=%v)", cl.writes, r.Stamped, s.Deleted, s.Bound, s.Ready))
			}
			continue
		}
		sb, sok := before[*s.XRef]
		srcOK := sok && sb.Ctrl == c09ClaimXR
		a, aok := after[*target]
		if (changed || applied) && !srcOK {
			mon("C09:propagated-unowned-source", "claim secret written although the source secret is not controlled by the bound XR")
		}
		if (changed || r.Stamped) && !(aok && srcOK && c09SameData(a.Data, sb.Data)) {
			mon("C09:copy-not-exact", "claim secret data differs from the XR secret data after a propagation that wrote / was recorded in lastPublishedTime")
		}
		// a reconcile that ends Synced=True with a Ready XR leaves the claim's secret an exact copy
		if synced == "True" && srcOK && !(aok && c09SameData(a.Data, sb.Data)) {
			mon("C09:claim-secret-stale", fmt.Sprintf("the claim reconciled successfully (claim lastPublishedTime=%d, XR lastPublishedTime=%d) but its secret (present=%v) is not a copy of its XR's secret", s.CTime, s.XTime, aok))
		}
		if b, bok := before[*target]; f == nil && srcOK && bok && c09MayControl(c09ClaimUID, b) && c09SameData(b.Data, sb.Data) && (cl.writes > 0 || r.Stamped) {
			mon("C09:rewrote-identical", fmt.Sprintf("the claim's secret already holds the XR's data, yet writes=%d stamped=%v", cl.writes, r.Stamped))
		}
	}
	obs.Secrets = c09WorldView(st)
	return obs, mons
}

func c09ClaimGen(r *Rng) c09ClaimScn {
	s := c09ClaimScn{Op: "claimrec", Deleted: r.Chance(1, 3), Bound: true, Ready: r.Chance(5, 6), Secrets: []c09ASecret{}, Rounds: []*c09Fault{}}
	if !r.Chance(1, 8) {
		n := Pick(r, []string{"conn", "conn", "conn-2"})
		s.CRef = &n
	}
	if !r.Chance(1, 8) {
		k := c09Key{Pick(r, []string{"xrns", "xrns", "ns"}), Pick(r, []string{"conn", "xconn"})}
		s.XRef = &k
	}
	if r.Chance(3, 4) {
		s.CTime, s.XTime = r.Intn(4), r.Intn(4)
	}
	if s.Deleted {
		s.Bound = r.Chance(2, 3)
		if r.Chance(2, 3) && s.CTime == 0 {
			s.CTime = r.Range(1, 3) // the claim once propagated
		}
	}
	// the source secret
	if s.XRef != nil && r.Chance(5, 6) {
		src := c09ASecret{NS: s.XRef.NS, Name: s.XRef.Name, Type: c09ConnType, Ctrl: c09ClaimXR, Plain: []string{}, Data: c09GenData(r, "xr", c09DataKeys, 2)}
		if r.Chance(1, 4) {
			src.Ctrl = Pick(r, []string{"", "x:xr:0", "e:else:1", "c:claim:1"})
			if src.Ctrl == "" && r.Bool() {
				src.Plain = []string{c09ClaimXR}
			}
		}
		if r.Chance(1, 8) {
			src.Type = Pick(r, c09Types)
		}
		s.Secrets = append(s.Secrets, src)
	}
	// the claim's secret
	if s.CRef != nil && (s.XRef == nil || *s.XRef != c09Key{"ns", *s.CRef}) && r.Chance(2, 3) {
		d := c09ASecret{NS: "ns", Name: *s.CRef, Type: Pick(r, c09Types), Plain: []string{}, Data: c09GenData(r, "old", c09DataKeys, 2)}
		d.Ctrl = Pick(r, []string{c09ClaimUID, c09ClaimUID, "c:claim:2", "c:claim:0", c09ClaimXR, "", ""})
		if len(s.Secrets) > 0 && r.Chance(1, 3) {
			d.Data = append([]c09KV{}, s.Secrets[0].Data...) // already a copy
			d.Type = c09ConnType
		}
		s.Secrets = append(s.Secrets, d)
	}
	// a bystander: same name in another namespace / a name extending the claim's
	if r.Chance(1, 2) {
		k := Pick(r, []c09Key{{"ns2", "conn"}, {"ns", "conn-3"}, {"xrns", "co"}})
		dup := false
		for _, x := range s.Secrets {
			dup = dup || x.key() == k
		}
		if !dup {
			s.Secrets = append(s.Secrets, c09ASecret{NS: k.NS, Name: k.Name, Type: Pick(r, c09Types), Ctrl: Pick(r, []string{"c:claim:2", c09ClaimUID, ""}), Plain: []string{}, Data: c09GenData(r, "by", c09DataKeys, 2)})
		}
	}
	for i, n := 0, r.Range(1, 3); i < n; i++ {
		if r.Chance(1, 4) {
			s.Rounds = append(s.Rounds, c09GenFault(r, 2))
		} else {
			s.Rounds = append(s.Rounds, nil)
		}
	}
	return s
}

func c09ClaimCls(s c09ClaimScn, o c09ClaimObs) string {
	path := "live"
	switch {
	case s.Deleted:
		path = "deleted"
	case !s.Ready:
		path = "waiting"
	}
	tm := "unset"
	switch {
	case s.CTime == 0 && s.XTime == 0:
	case s.CTime == 0 || s.XTime == 0:
		tm = "one"
	case s.CTime < s.XTime:
		tm = "claim-earlier"
	case s.CTime == s.XTime:
		tm = "equal"
	default:
		tm = "claim-later"
	}
	st := false
	for _, r := range o.Rounds {
		st = st || r.Stamped
	}
	return fmt.Sprintf("claimrec/%s/wants=%v/xrwants=%v/times=%s/stamped=%v", path, s.CRef != nil, s.XRef != nil, tm, st)
}

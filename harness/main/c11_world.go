//go:build verif

package main

// C11, the world of the XRD webhook: the validator of
// internal/validation/apiextensions/v1/xrd is built ONCE per process over the
// manager's client (SetupWebhookWithManager). That client reads through the
// informer cache and writes to the API server. This file realises
//
//   - the long-lived validator: one validator and one client per scenario, driven
//     through a SEQUENCE of admission requests (the scenario's own create / update
//     and the `more` requests), the world being reset between requests;
//   - the cached reader: Get is served from a cache that is synchronised with the
//     API server only when the scenario says so (stale resourceVersion, a just
//     created CRD missing, a deleted CRD still served);
//   - third parties (definition controller of another replica, a user, the
//     garbage collector) that create / delete / modify a CRD right before the
//     webhook's k-th API call;
//   - API error classes injected into the k-th call: NotFound, AlreadyExists,
//     Conflict, Invalid, Forbidden, Timeout, InternalError, a Status without
//     details (503 / 401 / 413 as the API machinery builds them), a Temporary()
//     transport error and a context deadline.
//
// The model of the same world is lean/Xp/Model/C11Hook.lean (World / execHook /
// applyAct); both sides interpret the `acts` of the scenario.

import (
	"context"
	"errors"
	"fmt"
	"net"
	"strings"

	extv1 "k8s.io/apiextensions-apiserver/pkg/apis/apiextensions/v1"
	kerrors "k8s.io/apimachinery/pkg/api/errors"
	metav1 "k8s.io/apimachinery/pkg/apis/meta/v1"
	"k8s.io/apimachinery/pkg/apis/meta/v1/unstructured"
	"k8s.io/apimachinery/pkg/runtime"
	"k8s.io/apimachinery/pkg/runtime/schema"
	"k8s.io/apimachinery/pkg/util/validation/field"
	"k8s.io/client-go/util/retry"
	"sigs.k8s.io/controller-runtime/pkg/client"

	xrdwebhook "github.com/crossplane/crossplane/internal/validation/apiextensions/v1/xrd"
)

// c11Act is something that happens right before the webhook's API call number K
// (0-based, counted per admission request, injected failures included).
type c11Act struct {
	K     int    `json:"k"`
	Do    string `json:"do"`    // bump | delete | create | sync | err
	Name  string `json:"name"`  // the CRD concerned (bump / delete / create / sync)
	Class string `json:"class"` // err: the class of the error call K returns (nothing is applied)
}

// c11World is the state of API server and informer cache when a request arrives,
// and what happens while it is being handled.
type c11World struct {
	Exists []string `json:"exists"` // CRDs stored (and cached, same resourceVersion)
	Acts   []c11Act `json:"acts"`
}

var c11ErrClasses = []string{"notFound", "alreadyExists", "conflict", "invalid", "forbidden", "timeout", "internal", "bare", "transport", "deadline"}

var c11CRDGK = schema.GroupKind{Group: "apiextensions.k8s.io", Kind: "CustomResourceDefinition"}
var c11CRDGR = schema.GroupResource{Group: "apiextensions.k8s.io", Resource: "customresourcedefinitions"}

// c11TransportErr is a connection-level failure: not a Status, Temporary() is true.
type c11TransportErr struct{}

func (c11TransportErr) Error() string   { return "dial tcp 10.96.0.1:443: connect: connection refused" }
func (c11TransportErr) Timeout() bool   { return false }
func (c11TransportErr) Temporary() bool { return true }

var _ net.Error = c11TransportErr{}

func c11ErrOf(class, name string) error {
	switch class {
	case "notFound":
		return kerrors.NewNotFound(c11CRDGR, name)
	case "alreadyExists":
		return kerrors.NewAlreadyExists(c11CRDGR, name)
	case "conflict":
		return kerrors.NewConflict(c11CRDGR, name, errors.New("the object has been modified; please apply your changes to the latest version and try again"))
	case "invalid":
		return kerrors.NewInvalid(c11CRDGK, name, field.ErrorList{field.Invalid(field.NewPath("spec", "versions"), "x", "injected")})
	case "forbidden":
		return kerrors.NewForbidden(c11CRDGR, name, errors.New("RBAC: denied"))
	case "timeout":
		return kerrors.NewTimeoutError("request did not complete within the allotted time", 1)
	case "internal":
		return kerrors.NewInternalError(errors.New("etcdserver: leader changed"))
	case "bare":
		// built like this by the API machinery itself (no Details): also NewUnauthorized,
		// NewBadRequest, NewRequestEntityTooLargeError, NewTooManyRequestsError
		return kerrors.NewServiceUnavailable("the server is currently unable to handle the request")
	case "transport":
		return c11TransportErr{}
	case "deadline":
		return fmt.Errorf("Post %q: %w", "https://10.96.0.1:443/apis/apiextensions.k8s.io/v1/customresourcedefinitions?dryRun=All", context.DeadlineExceeded)
	}
	return fmt.Errorf("c11: unknown error class %q", class)
}

// c11ErrKind maps an error the webhook returned (or an API call produced) back to its class.
func c11ErrKind(err error) string {
	var ne net.Error
	switch {
	case err == nil:
		return ""
	case errors.Is(err, context.DeadlineExceeded):
		return "deadline"
	case kerrors.IsNotFound(err):
		return "notFound"
	case kerrors.IsAlreadyExists(err):
		return "alreadyExists"
	case kerrors.IsConflict(err):
		return "conflict"
	case kerrors.IsInvalid(err):
		return "invalid"
	case kerrors.IsForbidden(err):
		return "forbidden"
	case kerrors.IsTimeout(err):
		return "timeout"
	case kerrors.IsServiceUnavailable(err):
		return "bare"
	case kerrors.IsInternalError(err):
		return "internal"
	case errors.As(err, &ne) && ne.Temporary(): //nolint:staticcheck // the class the property text names
		return "transport"
	}
	return "other"
}

// c11Call is one API call of the webhook as the client saw it.
type c11Call struct {
	Verb string
	Name string
	Dry  bool
	Res  string // "ok" | "found" | error class
	// the object submitted by a create / update (a deep copy taken before the call)
	Obj *extv1.CustomResourceDefinition
}

func (c c11Call) String() string {
	s := c.Verb + ":" + c.Name + ":" + c.Res
	if (c.Verb == "create" || c.Verb == "update") && !c.Dry {
		s += ":PERSISTED"
	}
	return s
}

// c11Client is the manager's client as the webhook holds it: cached reads, direct writes.
type c11Client struct {
	*Store
	acts   []c11Act
	cache  map[string]*unstructured.Unstructured
	k      int
	inject string
	bumps  int
	calls  []c11Call
	srv    c11Server
}

func c11SeedCRD(name, group string) *extv1.CustomResourceDefinition {
	crd := &extv1.CustomResourceDefinition{ObjectMeta: metav1.ObjectMeta{Name: name},
		Spec: extv1.CustomResourceDefinitionSpec{Group: group, Scope: extv1.ClusterScoped,
			Names: extv1.CustomResourceDefinitionNames{Kind: "Seeded", Plural: "seeded"}}}
	crd.SetGroupVersionKind(extv1.SchemeGroupVersion.WithKind("CustomResourceDefinition"))
	return crd
}

func (c *c11Client) sync(name string) {
	if u := c.Store.Peek(c11CRDGK, "", name); u != nil {
		c.cache[name] = u
	} else {
		delete(c.cache, name)
	}
}

// reset puts API server and cache into the state of `w` and forgets the previous request.
func (c *c11Client) reset(w c11World, srv c11Server) {
	for _, u := range c.Store.All() {
		gvk := u.GroupVersionKind()
		c.Store.Remove(gvk.GroupKind(), u.GetNamespace(), u.GetName())
	}
	c.Store.Log, c.Store.Calls = nil, 0
	c.acts, c.cache, c.k, c.inject, c.calls, c.srv = w.Acts, map[string]*unstructured.Unstructured{}, 0, "", nil, srv
	for _, n := range w.Exists {
		if n == "" || c.Store.Peek(c11CRDGK, "", n) != nil {
			continue
		}
		c.Store.Seed(c11SeedCRD(n, "seeded.example.org"))
		c.sync(n)
	}
	c.Store.Reject = func(obj map[string]any) bool { return c11ServerRejects(srv, obj) }
}

// before applies what the environment does right before call k and returns the injected failure, if any.
func (c *c11Client) before(name string) error {
	for _, a := range c.acts {
		if a.K != c.k {
			continue
		}
		switch a.Do {
		case "bump":
			c.bumps++
			n := c.bumps
			c.Store.Mutate(c11CRDGK, "", a.Name, func(u *unstructured.Unstructured) {
				l := u.GetLabels()
				if l == nil {
					l = map[string]string{}
				}
				l["verif.example.org/third-party-write"] = fmt.Sprint(n)
				u.SetLabels(l)
			})
		case "delete":
			c.Store.Remove(c11CRDGK, "", a.Name)
		case "create":
			if a.Name != "" && c.Store.Peek(c11CRDGK, "", a.Name) == nil {
				c.Store.Seed(c11SeedCRD(a.Name, "thirdparty.example.org"))
			}
		case "sync":
			c.sync(a.Name)
		case "err":
			c.inject = a.Class
		}
	}
	c.k++
	if c.inject != "" {
		cl := c.inject
		c.inject = ""
		return c11ErrOf(cl, name)
	}
	return nil
}

func (c *c11Client) Get(_ context.Context, key client.ObjectKey, obj client.Object, _ ...client.GetOption) error {
	call := c11Call{Verb: "get", Name: key.Name}
	err := c.before(key.Name)
	if err == nil {
		if u, ok := c.cache[key.Name]; ok {
			err = runtime.DefaultUnstructuredConverter.FromUnstructured(u.DeepCopy().Object, obj)
			call.Res = "found"
		} else {
			err = kerrors.NewNotFound(c11CRDGR, key.Name)
		}
	}
	if err != nil {
		call.Res = c11ErrKind(err)
	}
	c.calls = append(c.calls, call)
	return err
}

func c11CopyCRD(obj client.Object) *extv1.CustomResourceDefinition {
	if crd, ok := obj.(*extv1.CustomResourceDefinition); ok {
		return crd.DeepCopy()
	}
	return nil
}

func (c *c11Client) Create(ctx context.Context, obj client.Object, opts ...client.CreateOption) error {
	co := &client.CreateOptions{}
	co.ApplyOptions(opts)
	call := c11Call{Verb: "create", Name: obj.GetName(), Dry: isDryRun(co.DryRun), Obj: c11CopyCRD(obj), Res: "ok"}
	err := c.before(obj.GetName())
	if err == nil {
		err = c.Store.Create(ctx, obj, opts...)
	}
	if err != nil {
		call.Res = c11ErrKind(err)
	}
	c.calls = append(c.calls, call)
	return err
}

func (c *c11Client) Update(ctx context.Context, obj client.Object, opts ...client.UpdateOption) error {
	uo := &client.UpdateOptions{}
	uo.ApplyOptions(opts)
	call := c11Call{Verb: "update", Name: obj.GetName(), Dry: isDryRun(uo.DryRun), Obj: c11CopyCRD(obj), Res: "ok"}
	err := c.before(obj.GetName())
	if err == nil {
		err = c.Store.Update(ctx, obj, opts...)
	}
	if err != nil {
		call.Res = c11ErrKind(err)
	}
	c.calls = append(c.calls, call)
	return err
}

// c11ServerRejects is the API server's validation of a CRD about to be stored or
// dry-run: by scope (the flags of the scenario) and by content (a property name the
// server finds unacceptable in the spec schema of any version).
func c11ServerRejects(srv c11Server, obj map[string]any) bool {
	if k, _ := obj["kind"].(string); k != "CustomResourceDefinition" {
		return false
	}
	spec, _ := obj["spec"].(map[string]any)
	scope, _ := spec["scope"].(string)
	if (srv.RejectXR && scope == string(extv1.ClusterScoped)) || (srv.RejectClaim && scope == string(extv1.NamespaceScoped)) {
		return true
	}
	if srv.RejectProp == "" {
		return false
	}
	vs, _ := spec["versions"].([]any)
	for _, v := range vs {
		vm, _ := v.(map[string]any)
		sc, _ := vm["schema"].(map[string]any)
		root, _ := sc["openAPIV3Schema"].(map[string]any)
		rp, _ := root["properties"].(map[string]any)
		sp, _ := rp["spec"].(map[string]any)
		pp, _ := sp["properties"].(map[string]any)
		if _, ok := pp[srv.RejectProp]; ok {
			return true
		}
	}
	return false
}

func c11RejectsCRD(srv c11Server, crd *extv1.CustomResourceDefinition) bool {
	c := crd.DeepCopy()
	c.SetGroupVersionKind(extv1.SchemeGroupVersion.WithKind("CustomResourceDefinition"))
	m, err := runtime.DefaultUnstructuredConverter.ToUnstructured(c)
	if err != nil {
		return false
	}
	return c11ServerRejects(srv, m)
}

// c11Hook is the long-lived part: built once per scenario, like once per process.
type c11Hook struct {
	cl  *c11Client
	val xrdwebhook.VerifValidator
}

func c11NewHook() *c11Hook {
	cl := &c11Client{Store: NewStore(c11Scheme()), cache: map[string]*unstructured.Unstructured{}}
	return &c11Hook{cl: cl, val: xrdwebhook.VerifNewValidator(cl)}
}

func c11ClaimCRDName(x c11XrdS) string {
	if x.ClaimNames == nil {
		return ""
	}
	return x.ClaimNames.Plural + "." + x.Group
}

// admit sends one admission request to the long-lived validator. Returns the
// canonical decision, the call log and the monitors (the property evaluated on
// the real run: decision, calls issued, objects submitted).
func (h *c11Hook) admit(x c11XrdS, old *c11XrdS, srv c11Server, w c11World) (string, []string, []Mon) {
	var mons []Mon
	add := func(sig, why string) { mons = append(mons, Mon{Sig: "C11:" + sig, Why: why}) }
	h.cl.reset(w, srv)
	n := c11Build(x)
	var err error
	p := Guard(func() {
		if old != nil {
			_, err = h.val.ValidateUpdate(context.Background(), c11Build(*old), n)
		} else {
			_, err = h.val.ValidateCreate(context.Background(), n)
		}
	})
	calls := []string{}
	for _, c := range h.cl.calls {
		calls = append(calls, c.String())
	}
	which := func(name string) string {
		if name == x.Name {
			return "xr"
		}
		return "claim"
	}
	last := c11Call{}
	if len(h.cl.calls) > 0 {
		last = h.cl.calls[len(h.cl.calls)-1]
	}
	// nothing may ever be persisted by a validating webhook
	for _, c := range h.cl.calls {
		if (c.Verb == "create" || c.Verb == "update") && !c.Dry {
			add("webhook-persisted", "the validating webhook issued a non-dry-run "+c.Verb+" of "+c.Name)
		}
	}
	for _, c := range h.cl.Store.Log {
		if c.IsWrite() && (!c.DryRun || c.Changed) {
			add("webhook-persisted", "the validating webhook issued a non-dry-run "+c.Verb+" of "+c.Name)
		}
	}
	if p != "" {
		if last.Res == "bare" {
			// Observation outside the property as worded (integrator's decision, see props/C11.json
			// level_note): rewriteError dereferences Status.Details, which a Status built by
			// kerrors.NewServiceUnavailable / NewUnauthorized / NewBadRequest /
			// NewRequestEntityTooLargeError does not have; the validator panics inside its error
			// rewriting AFTER the API server refused the dry run. The request is not admitted
			// (that is what the property demands and what is compared with the model, which
			// mirrors the panic); no monitor is raised for exactly this class.
			return "panic:" + which(last.Name), calls, mons
		}
		add("panic", "webhook validator: "+p)
		return "panic", calls, mons
	}
	dec := ""
	switch {
	case err == nil:
		dec = "allowed"
	case strings.Contains(err.Error(), "cannot get CRD for Composite Resource"):
		dec = "crdError:xr:" + c11ErrClass(err)
	case strings.Contains(err.Error(), "cannot get Claim CRD for Composite Claim"):
		dec = "crdError:claim:" + c11ErrClass(err)
	case len(h.cl.calls) == 0:
		dec = "invalid"
	default:
		dec = "rejected:" + which(last.Name) + ":" + c11ErrKind(err)
	}
	if dec != "allowed" {
		return dec, calls, mons
	}
	// ---- the request was ALLOWED: everything the property demands of an admitted XRD
	if c11ClaimCollision(x) {
		add("webhook-allowed-claim-collision", "the webhook allowed an XRD whose claim names collide with the composite's")
	}
	if old != nil && c11ImmutableChanged(x, *old) {
		add("webhook-allowed-immutable-change", "the webhook allowed an update that changes group, kind or plural")
	}
	// every derived CRD must have been accepted by the API server in a dry run, as derived from THIS XRD
	type want struct{ which, name string }
	wants := []want{{"xr", x.Name}}
	if x.ClaimNames != nil {
		wants = append(wants, want{"claim", c11ClaimCRDName(x)})
	}
	for _, wt := range wants {
		var okCall *c11Call
		for i := range h.cl.calls {
			c := &h.cl.calls[i]
			if (c.Verb == "create" || c.Verb == "update") && c.Dry && c.Res == "ok" && c.Name == wt.name && c.Obj != nil &&
				((wt.which == "xr") == (c.Obj.Spec.Scope == extv1.ClusterScoped)) {
				okCall = c
			}
		}
		if okCall == nil {
			add("webhook-allowed-without-accepted-dry-run", "the webhook allowed the XRD although no dry-run create/update of its "+wt.which+" CRD "+wt.name+" was accepted by the API server (calls: "+strings.Join(calls, " ")+")")
			continue
		}
		// the object that passed the dry run is the CRD of this XRD (not one derived from an earlier request)
		for _, m := range c11MonitorCrd(x, wt.which, okCall.Obj, true) {
			mons = append(mons, Mon{Sig: "C11:webhook-dry-run-stale-crd", Why: "the CRD the webhook had validated is not the one derived from the XRD under review: " + m.Sig + " " + m.Why})
		}
		if c11RejectsCRD(srv, okCall.Obj) {
			add("webhook-allowed-rejected-crd", "the API server accepted a CRD it refuses (harness inconsistency)")
		}
	}
	// the server's verdict on the CRDs of this XRD (derived afresh): none may be one it refuses
	if xr, e := c11Derive(x, "xr"); e == nil && c11RejectsCRD(srv, xr) {
		add("webhook-allowed-rejected-crd", "the webhook allowed an XRD although the API server refuses the dry run of its composite CRD")
	}
	if x.ClaimNames != nil {
		if cl, e := c11Derive(x, "claim"); e == nil && c11RejectsCRD(srv, cl) {
			add("webhook-allowed-rejected-crd", "the webhook allowed an XRD although the API server refuses the dry run of its claim CRD")
		}
	}
	return dec, calls, mons
}

// retry.DefaultRetry.Steps and the behaviour of rewriteError on a Status without
// details are facts of the current tree the model of the webhook depends on.
func init() {
	RegisterDump("Xcrd", func() string {
		var sb strings.Builder
		fmt.Fprintf(&sb, "/-- retry.DefaultRetry.Steps: attempts of dryRunUpdateOrCreateIfNotFound (retry.RetryOnConflict) -/\n")
		fmt.Fprintf(&sb, "def xrdWebhookRetrySteps : Nat := %d\n", retry.DefaultRetry.Steps)
		// probe: does the webhook survive a Status error without details?
		cl := &c11Client{Store: NewStore(c11Scheme()), cache: map[string]*unstructured.Unstructured{}}
		val := xrdwebhook.VerifNewValidator(cl)
		cl.reset(c11World{Acts: []c11Act{{K: 0, Do: "err", Class: "bare"}}}, c11Server{})
		x := c11Sweep()[0].Xrd
		c11Fill(&x)
		p := Guard(func() { _, _ = val.ValidateCreate(context.Background(), c11Build(x)) })
		fmt.Fprintf(&sb, "/-- probed on the current tree: (*validator).rewriteError dereferences Status.Details of an API error\nthat has none (kerrors.NewServiceUnavailable / NewUnauthorized / NewBadRequest / NewRequestEntityTooLargeError) -/\n")
		fmt.Fprintf(&sb, "def xrdWebhookBareStatusPanics : Bool := %v\n", p != "")
		return sb.String()
	})
}

//go:build verif

package main

// C18 direct monitors. Everything here is written against the PROPERTY, independently of
// roles.Expand / the rule tree / RenderClusterRoles: a transcription of Kubernetes' RBAC
// escalation check (k8s.io/component-helpers/auth/rbac/validation ruleCovers; that module
// is not in the offline module cache, kubectl's BreakdownRule is and is used as is), a
// transcription of the RBAC authorizer's RuleAllows, and an independent computation of
// which resources a revision may be granted.

import (
	"fmt"
	"reflect"
	"strings"

	"github.com/google/go-containerregistry/pkg/name"
	rbacv1 "k8s.io/api/rbac/v1"
	kubectlrbac "k8s.io/kubectl/pkg/util/rbac"

	"github.com/crossplane/crossplane/internal/controller/rbac/provider/roles"
)

// ---------------------------------------------------------------- Kubernetes "covers"

func c18Breakdown(r rbacv1.PolicyRule) []rbacv1.PolicyRule { return kubectlrbac.BreakdownRule(r) }

func c18Has(set []string, x string) bool {
	for _, s := range set {
		if s == x {
			return true
		}
	}
	return false
}

func c18HasAll(set, xs []string) bool {
	for _, x := range xs {
		if !c18Has(set, x) {
			return false
		}
	}
	return true
}

// resourceCoversAll of component-helpers/auth/rbac/validation.
func c18ResourceCoversAll(setResources, coversResources []string) bool {
	if c18Has(setResources, rbacv1.ResourceAll) || c18HasAll(setResources, coversResources) {
		return true
	}
	for _, path := range coversResources {
		if c18Has(setResources, path) {
			continue
		}
		if !strings.Contains(path, "/") {
			return false
		}
		tokens := strings.SplitN(path, "/", 2)
		if !c18Has(setResources, "*/"+tokens[1]) {
			return false
		}
	}
	return true
}

func c18NonResourceURLCovers(ownerPath, subPath string) bool {
	if ownerPath == subPath {
		return true
	}
	return strings.HasSuffix(ownerPath, "*") && strings.HasPrefix(subPath, strings.TrimRight(ownerPath, "*"))
}

func c18NonResourceURLsCoversAll(set, covers []string) bool {
	for _, path := range covers {
		covered := false
		for _, owner := range set {
			if c18NonResourceURLCovers(owner, path) {
				covered = true
				break
			}
		}
		if !covered {
			return false
		}
	}
	return true
}

// ruleCovers of component-helpers/auth/rbac/validation.
func c18RuleCovers(ownerRule, subRule rbacv1.PolicyRule) bool {
	verbMatches := c18Has(ownerRule.Verbs, rbacv1.VerbAll) || c18HasAll(ownerRule.Verbs, subRule.Verbs)
	groupMatches := c18Has(ownerRule.APIGroups, rbacv1.APIGroupAll) || c18HasAll(ownerRule.APIGroups, subRule.APIGroups)
	resourceMatches := c18ResourceCoversAll(ownerRule.Resources, subRule.Resources)
	nonResourceURLMatches := c18NonResourceURLsCoversAll(ownerRule.NonResourceURLs, subRule.NonResourceURLs)
	resourceNameMatches := false
	if len(subRule.ResourceNames) == 0 {
		resourceNameMatches = len(ownerRule.ResourceNames) == 0
	} else {
		resourceNameMatches = len(ownerRule.ResourceNames) == 0 || c18HasAll(ownerRule.ResourceNames, subRule.ResourceNames)
	}
	return verbMatches && groupMatches && resourceMatches && resourceNameMatches && nonResourceURLMatches
}

func c18Covered(owners []rbacv1.PolicyRule, sub rbacv1.PolicyRule) bool {
	for _, o := range owners {
		if c18RuleCovers(o, sub) {
			return true
		}
	}
	return false
}

// ---------------------------------------------------------------- Kubernetes authorizer

// c18Attr is an authorizer.Attributes record.
type c18Attr struct {
	Resource                                bool
	Verb, Group, Res, Sub, Name, Path string
}

// RuleAllows of plugin/pkg/auth/authorizer/rbac with the rbac/v1 helpers
// VerbMatches / APIGroupMatches / ResourceMatches / ResourceNameMatches / NonResourceURLMatches.
func c18RuleAllows(a c18Attr, rule rbacv1.PolicyRule) bool {
	verb := false
	for _, v := range rule.Verbs {
		if v == rbacv1.VerbAll || v == a.Verb {
			verb = true
		}
	}
	if !verb {
		return false
	}
	if a.Resource {
		combined := a.Res
		if a.Sub != "" {
			combined = a.Res + "/" + a.Sub
		}
		group := false
		for _, g := range rule.APIGroups {
			if g == rbacv1.APIGroupAll || g == a.Group {
				group = true
			}
		}
		res := false
		for _, r := range rule.Resources {
			if r == rbacv1.ResourceAll || r == combined {
				res = true
			}
			if a.Sub != "" && len(r) == len(a.Sub)+2 && strings.HasPrefix(r, "*/") && strings.HasSuffix(r, a.Sub) {
				res = true
			}
		}
		nm := len(rule.ResourceNames) == 0 || c18Has(rule.ResourceNames, a.Name)
		return group && res && nm
	}
	for _, u := range rule.NonResourceURLs {
		if u == rbacv1.NonResourceAll || u == a.Path {
			return true
		}
		if strings.HasSuffix(u, "*") && strings.HasPrefix(a.Path, strings.TrimRight(u, "*")) {
			return true
		}
	}
	return false
}

func c18RulesAllow(a c18Attr, rules []rbacv1.PolicyRule) bool {
	for _, r := range rules {
		if c18RuleAllows(a, r) {
			return true
		}
	}
	return false
}

// c18Universe is a finite attribute universe that decides "everything `sub` allows is
// allowed by `owners`": every value the rules mention plus one fresh value per field.
func c18Universe(owners []rbacv1.PolicyRule, sub rbacv1.PolicyRule) []c18Attr {
	add := func(set *[]string, xs ...string) {
		for _, x := range xs {
			if !c18Has(*set, x) {
				*set = append(*set, x)
			}
		}
	}
	verbs, groups, names, paths := []string{"fresh-verb"}, []string{"fresh.group"}, []string{"", "fresh-name"}, []string{"/fresh", ""}
	ress, subs := []string{"freshres"}, []string{"", "freshsub"}
	for _, r := range append(append([]rbacv1.PolicyRule{}, owners...), sub) {
		add(&verbs, r.Verbs...)
		add(&groups, r.APIGroups...)
		add(&names, r.ResourceNames...)
		for _, x := range r.Resources {
			if i := strings.Index(x, "/"); i >= 0 {
				add(&ress, x[:i])
				add(&subs, x[i+1:])
			} else {
				add(&ress, x)
			}
		}
		for _, u := range r.NonResourceURLs {
			add(&paths, u, strings.TrimRight(u, "*"), strings.TrimRight(u, "*")+"fresh")
		}
	}
	var out []c18Attr
	for _, v := range verbs {
		for _, p := range paths {
			out = append(out, c18Attr{Verb: v, Path: p})
		}
		for _, g := range groups {
			for _, r := range ress {
				for _, s := range subs {
					for _, n := range names {
						out = append(out, c18Attr{Resource: true, Verb: v, Group: g, Res: r, Sub: s, Name: n})
					}
				}
			}
		}
	}
	return out
}

func c18SemCovered(owners []rbacv1.PolicyRule, sub rbacv1.PolicyRule) (bool, c18Attr) {
	for _, a := range c18Universe(owners, sub) {
		if c18RuleAllows(a, sub) && !c18RulesAllow(a, owners) {
			return false, a
		}
	}
	return true, c18Attr{}
}

// ValidatePolicyRule of pkg/apis/rbac/validation for a cluster-scoped role: what a real
// API server accepts as a ClusterRole rule.
func c18ValidClusterRoleRule(r rbacv1.PolicyRule) bool {
	if len(r.Verbs) == 0 {
		return false
	}
	if len(r.NonResourceURLs) > 0 {
		return len(r.APIGroups) == 0 && len(r.Resources) == 0 && len(r.ResourceNames) == 0
	}
	return len(r.APIGroups) > 0 && len(r.Resources) > 0
}

// ---------------------------------------------------------------- tree monitor

// c18MonTree: a path may be allowed only if some inserted, non-empty path matches a prefix
// of it component by component, each component equal or "*" (what a rule tree is for).
func c18MonTree(s c18Scn, obs c18Obs) []Mon {
	match := func(p, q []string) bool {
		if len(p) == 0 || len(p) > len(q) {
			return false
		}
		for i := range p {
			if p[i] != q[i] && p[i] != "*" {
				return false
			}
		}
		return true
	}
	for i, q := range s.Queries {
		if i >= len(obs.Allowed) {
			break
		}
		want := false
		for _, p := range s.Paths {
			want = want || match(p, q)
		}
		if obs.Allowed[i] && !want {
			return []Mon{{Sig: "C18:tree-allows-unlisted-path", Why: fmt.Sprintf("path %v allowed, inserted paths %v", q, s.Paths)}}
		}
		if !obs.Allowed[i] && want {
			return []Mon{{Sig: "C18:tree-refuses-listed-path", Why: fmt.Sprintf("path %v refused, inserted paths %v", q, s.Paths)}}
		}
	}
	return nil
}

// ---------------------------------------------------------------- validate monitor

// c18SubRule maps a granular Kubernetes sub-rule to the rule-tree rule Expand derives from it.
func c18SubRule(sub rbacv1.PolicyRule) roles.Rule {
	if len(sub.NonResourceURLs) > 0 {
		return roles.Rule{NonResourceURL: sub.NonResourceURLs[0], Verb: sub.Verbs[0]}
	}
	n := "*"
	if len(sub.ResourceNames) > 0 {
		n = sub.ResourceNames[0]
	}
	return roles.Rule{APIGroup: sub.APIGroups[0], Resource: sub.Resources[0], ResourceName: n, Verb: sub.Verbs[0]}
}

// c18CrossplaneReading re-reads an allow list and a granular sub-rule the way the two
// recorded findings describe: star = a literal resource name "*" means all names (D8);
// emptyURL = the empty non-resource URL is the resource rule group "" resource "" name "".
// A grant that Kubernetes does not cover but that IS covered under these readings is an
// instance of the corresponding known finding; anything else is a new violation.
func c18CrossplaneReading(allow []rbacv1.PolicyRule, sub rbacv1.PolicyRule, star, emptyURL bool) ([]rbacv1.PolicyRule, rbacv1.PolicyRule) {
	var out []rbacv1.PolicyRule
	for _, a := range allow {
		n := *a.DeepCopy()
		if star && c18Has(n.ResourceNames, "*") {
			n.ResourceNames = nil
		}
		if emptyURL && c18Has(n.NonResourceURLs, "") {
			var us []string
			for _, u := range n.NonResourceURLs {
				if u != "" {
					us = append(us, u)
				}
			}
			n.NonResourceURLs = us
			out = append(out, rbacv1.PolicyRule{Verbs: n.Verbs, APIGroups: []string{""}, Resources: []string{""}, ResourceNames: []string{""}})
		}
		out = append(out, n)
	}
	if emptyURL && len(sub.NonResourceURLs) > 0 && sub.NonResourceURLs[0] == "" {
		sub = rbacv1.PolicyRule{Verbs: sub.Verbs, APIGroups: []string{""}, Resources: []string{""}, ResourceNames: []string{""}}
	}
	return out, sub
}

func c18MonValidate(s c18Scn, rej []roles.Rule, verr error) []Mon {
	if verr != nil {
		return nil // nothing is granted when validation fails
	}
	rejected := map[roles.Rule]bool{}
	for _, r := range rej {
		rejected[r] = true
	}
	allow := c18K8sRules(s.Allow)
	validAllow := true
	for _, a := range allow {
		validAllow = validAllow && c18ValidClusterRoleRule(a)
	}
	var mons []Mon
	seen := map[string]bool{}
	for _, q := range s.Requests {
		for _, sub := range c18Breakdown(q.k8s()) {
			// an empty rejected list is the decision the reconciler acts on: everything is granted
			if len(rej) > 0 && rejected[c18SubRule(sub)] {
				continue
			}
			// granted: must be covered
			bad, why := false, ""
			if validAllow && !c18Covered(allow, sub) {
				bad, why = true, "not covered by any allow-list rule (Kubernetes ruleCovers)"
			}
			if !bad {
				if c18Covered(allow, sub) {
					continue // covers implies the authorizer inclusion
				}
				if ok, a := c18SemCovered(allow, sub); !ok {
					bad, why = true, fmt.Sprintf("grants %+v which no allow-list rule allows (RuleAllows)", a)
				}
			}
			if !bad {
				continue
			}
			sig := "C18:granted-uncovered"
			if a2, s2 := c18CrossplaneReading(allow, sub, true, false); c18Covered(a2, s2) {
				sig = "C18:literal-star-name-as-wildcard"
			} else if a3, s3 := c18CrossplaneReading(allow, sub, true, true); c18Covered(a3, s3) {
				sig = "C18:empty-url-as-resource-rule"
			}
			if !seen[sig] {
				seen[sig] = true
				mons = append(mons, Mon{Sig: sig, Why: fmt.Sprintf("request %s granted by the rule tree but %s; allow=%s", mustJSON(c18FromK8s(sub)), why, mustJSON(s.Allow))})
			}
		}
	}
	return mons
}

// c18MonIndependent: "every single requested rule" is judged on its own (a metamorphic check on
// the real validator, independent of any notion of covering): the set of rules rejected for the
// whole request list must be the union of the sets rejected when each request is validated alone
// by a fresh validator against the same allow-list, and must not change when the list is reversed.
func c18MonIndependent(mode string, allow []c18PRule, reqs []c18PRule, rej []roles.Rule) []Mon {
	if len(reqs) < 2 {
		return nil
	}
	whole := map[roles.Rule]bool{}
	for _, r := range rej {
		whole[r] = true
	}
	fresh := func(qs []c18PRule) (map[roles.Rule]bool, bool) {
		st := NewStore(c18Scheme())
		c18SeedRole(st, c18Scn{}, c18Role{Name: c18AllowName, Rules: allow})
		rj, err, p := c18ValidateWith(roles.NewClusterRoleBackedValidator(st, c18AllowName), mode, c18K8sRules(qs))
		if err != nil || p != "" {
			return nil, false
		}
		m := map[roles.Rule]bool{}
		for _, r := range rj {
			m[r] = true
		}
		return m, true
	}
	union := map[roles.Rule]bool{}
	for _, q := range reqs {
		m, ok := fresh([]c18PRule{q})
		if !ok {
			return nil
		}
		for r := range m {
			union[r] = true
		}
	}
	for r := range union {
		if !whole[r] {
			return []Mon{{Sig: "C18:request-not-judged-on-its-own", Why: fmt.Sprintf("rule %s is rejected when its request is validated alone but not in the list %s; allow=%s", r, mustJSON(reqs), mustJSON(allow))}}
		}
	}
	for r := range whole {
		if !union[r] {
			return []Mon{{Sig: "C18:request-not-judged-on-its-own", Why: fmt.Sprintf("rule %s is rejected in the list %s but for no request alone; allow=%s", r, mustJSON(reqs), mustJSON(allow))}}
		}
	}
	rev := make([]c18PRule, 0, len(reqs))
	for i := len(reqs) - 1; i >= 0; i-- {
		rev = append(rev, reqs[i])
	}
	if m, ok := fresh(rev); ok && !reflect.DeepEqual(m, whole) {
		return []Mon{{Sig: "C18:verdict-depends-on-request-order", Why: fmt.Sprintf("the rejected set changes when the requests %s are reversed; allow=%s", mustJSON(reqs), mustJSON(allow))}}
	}
	return nil
}

// ---------------------------------------------------------------- reconcile monitor

type c18Res struct{ Group, Plural string }

// c18CRDs: the resources a reference list defines, computed independently of
// roles.DefinedResources.
func c18CRDs(refs []c18Ref) []c18Res {
	var out []c18Res
	for _, r := range refs {
		if r.Kind != "CustomResourceDefinition" {
			continue
		}
		parts := strings.Split(r.APIVersion, "/")
		if len(parts) != 2 || parts[0] != "apiextensions.k8s.io" {
			continue
		}
		i := strings.Index(r.Name, ".")
		if i < 0 {
			continue
		}
		out = append(out, c18Res{Group: r.Name[i+1:], Plural: r.Name[:i]})
	}
	return out
}

func c18SubsetOf(xs, set []string) bool { return c18HasAll(set, xs) }

func c18BaselineShaped(r rbacv1.PolicyRule) bool {
	return len(r.APIGroups) > 0 && len(r.Resources) > 0 && len(r.NonResourceURLs) == 0 &&
		c18SubsetOf(r.APIGroups, []string{"", "coordination.k8s.io"}) &&
		c18SubsetOf(r.Resources, []string{"secrets", "configmaps", "events", "leases"})
}

func c18SameRule(a, b rbacv1.PolicyRule) bool {
	return reflect.DeepEqual(c18FromK8s(a), c18FromK8s(b)) // nil and empty lists identified
}

func c18Target(s c18Scn) *c18PR {
	for i := range s.PRs {
		if s.PRs[i].Name == s.Target {
			return &s.PRs[i]
		}
	}
	return nil
}

func c18RoleByName(rs []c18Role, n string) *c18Role {
	for i := range rs {
		if rs[i].Name == n {
			return &rs[i]
		}
	}
	return nil
}

// c18Justify is how the monitors read a round: a write is judged against what THIS reconcile
// was served (every version the API handed to it, fresh or stale) and, as a further admissible
// justification, against the true store at the moment of the write. Without other writers and
// with a fresh cache all of these coincide with the scenario's store.

// c18LiveTargets: the live versions of the round's target the reconcile may act for.
func c18LiveTargets(rec *c18RoundRec, w c18Write) []c18PR {
	var out []c18PR
	add := func(p c18PR) {
		if p.Name == rec.Target && !p.Paused && !p.Deleted {
			out = append(out, p)
		}
	}
	for _, p := range rec.PRs {
		add(p)
	}
	for _, p := range w.TruePRs {
		add(p)
	}
	return out
}

// c18AllowVersions: the allow-list contents the grant may rest on.
func c18AllowVersions(rec *c18RoundRec, w c18Write) [][]c18PRule {
	out := append([][]c18PRule{}, rec.Allows...)
	if w.TrueAllow != nil {
		out = append(out, *w.TrueAllow)
	}
	return out
}

func c18Granular(reqs []c18PRule) int {
	n := 0
	for _, q := range reqs {
		n += len(c18Breakdown(q.k8s()))
	}
	return n
}

// c18SameOrg is the monitor's own reading of "from the same registry and organisation",
// written against the property and not against OrgDiffer: both references must parse; the
// registries (host AND port, after defaulting) must be the same string; the organisation is
// the FIRST element of the repository path - whatever is nested below it (org/team/package)
// belongs to that organisation - and must be equal. A repository that is a single path element
// has no organisation segment of its own: its first (only) element is the repository itself, so
// two DIFFERENT root-level packages of one registry share no organisation; only references to
// that very repository (other tags / digests) - or to paths nested below its name - do.
func c18SameOrg(a, b string) bool {
	ra, err := name.ParseReference(a, name.WithDefaultRegistry(c18DefaultRegistry))
	if err != nil {
		return false
	}
	rb, err := name.ParseReference(b, name.WithDefaultRegistry(c18DefaultRegistry))
	if err != nil {
		return false
	}
	if ra.Context().RegistryStr() != rb.Context().RegistryStr() {
		return false
	}
	first := func(p string) string {
		if i := strings.Index(p, "/"); i >= 0 {
			return p[:i]
		}
		return p
	}
	return first(ra.Context().RepositoryStr()) == first(rb.Context().RepositoryStr())
}

func c18MonRoundReconcile(s c18Scn, rec *c18RoundRec) []Mon {
	var mons []Mon
	prefix := "crossplane:provider:" + rec.Target + ":"
	mine := map[string]bool{prefix + "aggregate-to-edit": true, prefix + "aggregate-to-view": true, prefix + "system": true}
	for _, w := range rec.Writes {
		if w.GK != gkString(c18RoleGK) {
			mons = append(mons, Mon{Sig: "C18:foreign-binding-touched", Why: fmt.Sprintf("the roles reconciler wrote %s %s", w.GK, w.Name)})
			continue
		}
		if !mine[w.Name] {
			mons = append(mons, Mon{Sig: "C18:foreign-role-touched", Why: "ClusterRole " + w.Name + " is not one of this revision's roles but was written (" + w.Verb + ")"})
			continue
		}
		cands := c18LiveTargets(rec, w)
		if len(cands) == 0 {
			mons = append(mons, Mon{Sig: "C18:write-for-inactive-revision", Why: "role " + w.Name + " written (" + w.Verb + ") although no live revision " + rec.Target + " was served or exists"})
			continue
		}
		uids := map[string]bool{}
		for _, p := range cands {
			uids[p.UID] = true
		}
		if w.PrevRole != nil && w.PrevRole.Ctrl != "" && !uids[w.PrevRole.Ctrl] {
			mons = append(mons, Mon{Sig: "C18:foreign-role-touched", Why: "role " + w.Name + " controlled by " + w.PrevRole.Ctrl + " at the moment of the write was overwritten (" + w.Verb + ")"})
		}
		if w.Role == nil {
			continue // deleted: nothing is granted
		}
		if !uids[w.Role.Ctrl] {
			mons = append(mons, Mon{Sig: "C18:role-wrong-owner", Why: "written role " + w.Name + " is controlled by " + w.Role.Ctrl})
		}

		// requests are granted only if covered: some live version of the revision, some allow-list
		// content (served to this reconcile, or in the store right now) under which EVERY granular
		// request is covered. No role at all otherwise.
		allows := c18AllowVersions(rec, w)
		okReq := false
		var last []Mon
		freshRejects := true
		for _, p := range cands {
			if s.Validator == "none" {
				if c18Granular(p.Requests) == 0 {
					okReq = true
				}
				continue
			}
			if c18Granular(p.Requests) == 0 {
				okReq = true // nothing is requested: nothing to cover
				if len(allows) > 0 {
					freshRejects = false
				}
			}
			for i := range allows {
				ms := c18MonValidate(c18Scn{Kind: "validate", Allow: allows[i], Requests: p.Requests}, nil, nil)
				if len(ms) == 0 {
					okReq = true
				} else {
					last = ms
				}
				if n, failed := c18FreshVerdict(s.Validator, &allows[i], p.Requests); n == 0 && !failed {
					freshRejects = false
				}
			}
		}
		if !okReq {
			if len(last) > 0 {
				mons = append(mons, last...)
			} else {
				n := 0
				for _, p := range cands {
					n += c18Granular(p.Requests)
				}
				mons = append(mons, Mon{Sig: "C18:role-written-without-allow-list", Why: fmt.Sprintf("%d granular request(s), validator=%s, no allow-list role was served or exists to cover them, but role %s was written", n, s.Validator, w.Name)})
			}
		}
		if freshRejects && s.Validator != "none" && len(allows) > 0 {
			mons = append(mons, Mon{Sig: "C18:role-written-despite-rejection", Why: fmt.Sprintf("a fresh validator rejects the revision's requests under every allow-list content this reconcile was served (%d) or that exists, but role %s was written", len(allows), w.Name)})
		}
		if s.Validator == "none" && !okReq {
			mons = append(mons, Mon{Sig: "C18:role-written-despite-rejection", Why: "without an allow-list every request is rejected, but role " + w.Name + " was written"})
		}

		// the resources this revision may be granted, and the resources it must not be
		allowed := map[c18Res]bool{}
		foreign := map[c18Res]bool{}
		lists := append([][]c18PR{}, rec.Lists...)
		lists = append(lists, w.TruePRs)
		for _, t := range cands {
			for _, r := range c18CRDs(t.Refs) {
				allowed[r] = true
			}
			for _, l := range lists {
				for _, m := range l {
					if m.UID == t.UID {
						continue
					}
					if t.Family != "" && m.Family == t.Family && c18SameOrg(t.Pkg, m.Pkg) {
						for _, r := range c18CRDs(m.Refs) {
							allowed[r] = true
						}
					}
				}
			}
		}
		for _, l := range append(lists, rec.PRs) {
			for _, m := range l {
				for _, r := range c18CRDs(m.Refs) {
					if !allowed[r] {
						foreign[r] = true
					}
				}
			}
		}
		allowedGroup := map[string]bool{}
		for r := range allowed {
			allowedGroup[r.Group] = true
		}
		var requests []rbacv1.PolicyRule
		for _, t := range cands {
			requests = append(requests, c18K8sRules(t.Requests)...)
		}
		n := w.Name
		var verbs []string
		switch {
		case strings.HasSuffix(n, ":system"):
			verbs = []string{"get", "list", "watch", "update", "patch", "create"}
		case strings.HasSuffix(n, ":aggregate-to-edit"):
			verbs = []string{"*"}
		default:
			verbs = []string{"get", "list", "watch"}
		}
		for _, pr := range w.Role.Rules {
			r := pr.k8s()
			system := strings.HasSuffix(n, ":system")
			if system && c18BaselineShaped(r) {
				continue
			}
			if system {
				isReq := false
				for _, q := range requests {
					isReq = isReq || c18SameRule(q, r)
				}
				if isReq {
					continue
				}
			}
			bad := ""
			cross := false
			if len(r.NonResourceURLs) > 0 || len(r.ResourceNames) > 0 {
				bad = "carries resource names or URLs"
			}
			if system && reflect.DeepEqual(r.Resources, []string{"*/finalizers"}) {
				if !reflect.DeepEqual(r.Verbs, []string{"update"}) {
					bad = "finalizers rule with verbs other than update"
				}
				for _, g := range r.APIGroups {
					if !allowedGroup[g] {
						bad = "finalizers of group " + g
						for f := range foreign {
							cross = cross || f.Group == g
						}
					}
				}
			} else {
				if !c18SubsetOf(r.Verbs, verbs) {
					bad = fmt.Sprintf("verbs %v", r.Verbs)
				}
				if len(r.APIGroups) != 1 {
					bad = fmt.Sprintf("groups %v", r.APIGroups)
				}
				for _, g := range r.APIGroups {
					for _, x := range r.Resources {
						p := strings.TrimSuffix(x, "/status")
						if !allowed[c18Res{g, p}] && !allowed[c18Res{g, x}] {
							bad = "resource " + x + " of group " + g
							cross = cross || foreign[c18Res{g, p}]
						}
					}
				}
			}
			if bad != "" {
				sig := "C18:provider-role-foreign-rule"
				if cross {
					sig = "C18:family-cross-org"
				}
				mons = append(mons, Mon{Sig: sig, Why: fmt.Sprintf("role %s rule %s: %s is neither an owned/same-family-same-org CRD resource, the baseline, nor a request", n, mustJSON(pr), bad)})
			}
		}
	}
	return mons
}

// ---------------------------------------------------------------- XRD monitor

func c18SaneName(x string) bool {
	return x != "" && !strings.ContainsAny(x, "*/")
}

// c18XRDRoleOK: does `role` (of the given kind) grant exactly the composite and claim resources of x?
func c18XRDRoleOK(x c18XRD, kind string, role c18Role) (bool, string, string) {
	read := map[string]bool{"get": true, "list": true, "watch": true}
	expected := func(group, res, sub, verb string) bool {
		if group != x.Group {
			return false
		}
		isXR, isClaim := res == x.Plural, x.HasClaim && res == x.Claim
		if !isXR && !isClaim {
			return false
		}
		switch kind {
		case "system":
			return sub == "" || sub == "status" || (sub == "finalizers" && verb == "update")
		case "edit":
			return sub == "" || sub == "status"
		case "view":
			return (sub == "" || sub == "status") && read[verb]
		case "browse":
			return isXR && (sub == "" || sub == "status") && read[verb]
		}
		return false
	}
	rules := c18K8sRules(role.Rules)
	for _, g := range []string{x.Group, "other.example.org", ""} {
		for _, res := range []string{x.Plural, x.Claim, "others", "secrets", "xthings", "things", "xa", "a", "widgets", "gadgets"} {
			if res == "" {
				continue
			}
			for _, sub := range []string{"", "status", "finalizers", "scale"} {
				for _, verb := range []string{"get", "list", "watch", "create", "update", "patch", "delete", "deletecollection", "escalate"} {
					for _, nm := range []string{"", "some-name"} {
						got := c18RulesAllow(c18Attr{Resource: true, Verb: verb, Group: g, Res: res, Sub: sub, Name: nm}, rules)
						want := expected(g, res, sub, verb)
						if got && !want {
							return false, "C18:xrd-role-foreign-grant", fmt.Sprintf("role %s allows %s %s/%s/%s which is not the XRD's composite or claim resource", role.Name, verb, g, res, sub)
						}
						if !got && want {
							return false, "C18:xrd-role-missing-grant", fmt.Sprintf("role %s does not allow %s %s/%s/%s", role.Name, verb, g, res, sub)
						}
					}
				}
			}
		}
	}
	if c18RulesAllow(c18Attr{Verb: "get", Path: "/metrics"}, rules) {
		return false, "C18:xrd-role-foreign-grant", "role " + role.Name + " allows a non-resource URL"
	}
	return true, "", ""
}

func c18MonRoundXRD(s c18Scn, rec *c18RoundRec) []Mon {
	var mons []Mon
	prefix := "crossplane:composite:" + rec.Target + ":"
	kinds := map[string]string{prefix + "aggregate-to-crossplane": "system", prefix + "aggregate-to-edit": "edit", prefix + "aggregate-to-view": "view", prefix + "aggregate-to-browse": "browse"}
	for _, w := range rec.Writes {
		if w.GK != gkString(c18RoleGK) {
			mons = append(mons, Mon{Sig: "C18:foreign-binding-touched", Why: fmt.Sprintf("the XRD roles reconciler wrote %s %s", w.GK, w.Name)})
			continue
		}
		if kinds[w.Name] == "" {
			mons = append(mons, Mon{Sig: "C18:foreign-role-touched", Why: "ClusterRole " + w.Name + " is not one of this XRD's roles but was written (" + w.Verb + ")"})
			continue
		}
		var cands []c18XRD
		for _, l := range [][]c18XRD{rec.XRDs, w.TrueXRDs} {
			for _, x := range l {
				if x.Name == rec.Target && !x.Deleted {
					cands = append(cands, x)
				}
			}
		}
		if len(cands) == 0 {
			mons = append(mons, Mon{Sig: "C18:write-for-inactive-xrd", Why: "role " + w.Name + " written (" + w.Verb + ") although no live XRD " + rec.Target + " was served or exists"})
			continue
		}
		uids := map[string]bool{}
		for _, x := range cands {
			uids[x.UID] = true
		}
		if w.PrevRole != nil && w.PrevRole.Ctrl != "" && !uids[w.PrevRole.Ctrl] {
			mons = append(mons, Mon{Sig: "C18:foreign-role-touched", Why: "role " + w.Name + " controlled by " + w.PrevRole.Ctrl + " at the moment of the write was overwritten (" + w.Verb + ")"})
		}
		if w.Role == nil {
			continue
		}
		if !uids[w.Role.Ctrl] {
			mons = append(mons, Mon{Sig: "C18:role-wrong-owner", Why: "written role " + w.Name + " is controlled by " + w.Role.Ctrl})
		}
		ok, sig, why := false, "", ""
		for _, x := range cands {
			sane := c18SaneName(x.Group) && c18SaneName(x.Plural) && (!x.HasClaim || (c18SaneName(x.Claim) && x.Claim != x.Plural))
			if !sane {
				ok = true // names a real API server refuses: nothing to say
				break
			}
			if o, sg, wh := c18XRDRoleOK(x, kinds[w.Name], *w.Role); o {
				ok = true
				break
			} else {
				sig, why = sg, wh
			}
		}
		if !ok {
			mons = append(mons, Mon{Sig: sig, Why: why})
		}
	}
	return mons
}

// ---------------------------------------------------------------- binding monitor

func c18MonRoundBinding(s c18Scn, rec *c18RoundRec) []Mon {
	var mons []Mon
	n := "crossplane:provider:" + rec.Target + ":system"
	for _, w := range rec.Writes {
		if w.GK != gkString(c18BindingGK) {
			mons = append(mons, Mon{Sig: "C18:foreign-role-touched", Why: fmt.Sprintf("the binding reconciler wrote %s %s", w.GK, w.Name)})
			continue
		}
		if w.Name != n {
			mons = append(mons, Mon{Sig: "C18:foreign-binding-touched", Why: "ClusterRoleBinding " + w.Name + " was written (" + w.Verb + ")"})
			continue
		}
		cands := c18LiveTargets(rec, w)
		if len(cands) == 0 {
			mons = append(mons, Mon{Sig: "C18:write-for-inactive-revision", Why: "binding " + w.Name + " written (" + w.Verb + ") although no live revision " + rec.Target + " was served or exists"})
			continue
		}
		uids := map[string]bool{}
		for _, p := range cands {
			uids[p.UID] = true
		}
		if w.PrevBinding != nil && w.PrevBinding.Ctrl != "" && !uids[w.PrevBinding.Ctrl] {
			mons = append(mons, Mon{Sig: "C18:foreign-binding-touched", Why: "binding controlled by " + w.PrevBinding.Ctrl + " at the moment of the write was overwritten or deleted (" + w.Verb + ")"})
		}
		// a binding that exists and is NOT controlled by the revision may only be taken over by the
		// guarded apply path (Get, MustBeControllableBy, Update); it is never deleted
		if w.Binding == nil && w.PrevBinding != nil && !uids[w.PrevBinding.Ctrl] && w.PrevBinding.Ctrl == "" {
			mons = append(mons, Mon{Sig: "C18:foreign-binding-touched", Why: "binding " + w.Name + " controlled by nobody was deleted (" + w.Verb + ") by its derived name, without being read"})
		}
		b := w.Binding
		if b == nil {
			continue
		}
		if b.RoleRef != n {
			mons = append(mons, Mon{Sig: "C18:binding-wrong-role", Why: "binding " + n + " refers to role " + b.RoleRef})
		}
		if !uids[b.Ctrl] {
			mons = append(mons, Mon{Sig: "C18:role-wrong-owner", Why: "binding " + n + " is controlled by " + b.Ctrl})
		}
		ok := false
		var wants [][]c18Subject
		for _, t := range cands {
			for _, ds := range append(append([][]c18Deploy{}, rec.DepLists...), w.TrueDeploys) {
				want := []c18Subject{}
				for _, d := range ds {
					for _, o := range d.Owners {
						if o == t.UID {
							want = append(want, c18Subject{NS: d.NS, Name: d.SA})
						}
					}
				}
				wants = append(wants, want)
				ok = ok || reflect.DeepEqual(want, b.Subjects)
			}
		}
		if !ok {
			mons = append(mons, Mon{Sig: "C18:binding-foreign-subject", Why: fmt.Sprintf("binding subjects %v, expected the service accounts of the revision's deployments %v", b.Subjects, wants)})
		}
	}
	return mons
}

//go:build verif

package main

// C14, the world around one reconcile (audit classes (a)-(f)):
//
//   - c14Client is the client the reconciler, its applicator and the image-config store are
//     built with (mgr.GetClient(), i.e. the CACHED client): reads (Get package, List revisions,
//     the Get inside APIPatchingApplicator.Apply) can be served from a lagging informer cache
//     (c14View: older versions, objects missing), writes go to simstore; an injected failure can
//     carry an API error class (c14Classes) instead of the one generic server error.
//   - c14Act: what OTHER clients (a user, the revision controller, the garbage collector, another
//     replica) do right before API call k of a reconcile; run in simstore's Before hook.
//   - several packages of one kind are reconciled by ONE long-lived reconciler (Setup builds it
//     once per process): scn.More, step.Pkg.
//
// The Lean side is lean/Xp/Model/C14World.lean (World, execW, runW).

import (
	"context"
	"errors"
	"fmt"
	"reflect"
	"sort"
	"strings"
	"time"

	kerrors "k8s.io/apimachinery/pkg/api/errors"
	kmeta "k8s.io/apimachinery/pkg/api/meta"
	metav1 "k8s.io/apimachinery/pkg/apis/meta/v1"
	"k8s.io/apimachinery/pkg/apis/meta/v1/unstructured"
	"k8s.io/apimachinery/pkg/labels"
	kruntime "k8s.io/apimachinery/pkg/runtime"
	"k8s.io/apimachinery/pkg/runtime/schema"
	"k8s.io/utils/ptr"
	"sigs.k8s.io/controller-runtime/pkg/client"
	"sigs.k8s.io/controller-runtime/pkg/client/apiutil"

	xpv1 "github.com/crossplane/crossplane-runtime/apis/common/v1"
	"github.com/crossplane/crossplane-runtime/pkg/meta"

	pkgv1 "github.com/crossplane/crossplane/apis/pkg/v1"
)

// ---------------------------------------------------------------- scenario parts

// c14Act: an action of another client right before API call K of the reconcile.
//
//	edit    a user edits the package spec (Spec)
//	touch   the revision controller writes revision Name (status; adds its finalizer)
//	del     somebody deletes revision Name (API delete: held by a finalizer, or gone)
//	deact   somebody sets revision Name Inactive
//	create  somebody (another replica) creates revision Rev, never Active
//	sync    the informer cache catches up with the API server
//
// None of them makes a revision Active: the property's "never two Active" is claimed under them.
type c14Act struct {
	K    int      `json:"k"`
	Op   string   `json:"op"`
	Name string   `json:"name,omitempty"`
	Spec *c14Spec `json:"spec,omitempty"`
	Rev  *c14Rev  `json:"rev,omitempty"`
}

// c14Lag: how many store versions (instants at which some object changed) the informer cache
// is behind when the reconcile starts; 0 = fresh.
type c14Lag struct {
	Revs int `json:"revs,omitempty"`
	Pkg  int `json:"pkg,omitempty"`
}

type c14PkgView struct {
	Missing    bool    `json:"missing"`
	UID        string  `json:"uid"`
	Spec       c14Spec `json:"spec"`
	CurRev     string  `json:"curRev"`
	CurID      string  `json:"curId"`
	PausedCond bool    `json:"pausedCond"`
}

// c14View: what the informer cache holds during the reconcile (until a `sync` act).
type c14View struct {
	HasRevs bool        `json:"hasRevs"`         // false: revisions are read live
	Revs    []c14Rev    `json:"revs"`            // every revision of the kind as cached
	Stale   []string    `json:"stale"`           // names whose cached version is older than the stored one
	Pkg     *c14PkgView `json:"pkg,omitempty"`   // nil: the package is read live; else an OLDER version (or missing)
}

// c14Classes: the error classes an injected failure of a Kubernetes call can carry (fault
// outcome "fail:<class>"); the call is issued to simstore under `fail` (counted, logged, not
// applied), only the error value is replaced.
var c14Classes = []string{"notFound", "alreadyExists", "invalid", "forbidden", "timeout", "temporary", "deadline", "unavailable"}

type c14TransportErr struct{}

func (c14TransportErr) Error() string   { return "c14: simulated transport error: connection reset by peer" }
func (c14TransportErr) Temporary() bool { return true }
func (c14TransportErr) Timeout() bool   { return false }

func c14ClassErr(class string, gk schema.GroupKind, name string) error {
	gr := schema.GroupResource{Group: gk.Group, Resource: strings.ToLower(gk.Kind)}
	switch class {
	case "notFound":
		return kerrors.NewNotFound(gr, name)
	case "alreadyExists":
		return kerrors.NewAlreadyExists(gr, name)
	case "invalid":
		return kerrors.NewInvalid(gk, name, nil)
	case "forbidden":
		return kerrors.NewForbidden(gr, name, errors.New("simulated RBAC denial"))
	case "timeout":
		return kerrors.NewServerTimeout(gr, "call", 1)
	case "temporary":
		return c14TransportErr{}
	case "deadline":
		return context.DeadlineExceeded
	case "unavailable":
		return kerrors.NewServiceUnavailable("simulated: the server is currently unable to handle the request")
	}
	return nil
}

// c14FaultOutcome splits a fault outcome into simstore's outcome and the error class.
func c14FaultOutcome(o string) (Outcome, string) {
	if strings.HasPrefix(o, "fail:") {
		return Fail, strings.TrimPrefix(o, "fail:")
	}
	return c14Outcome(o), ""
}

// ---------------------------------------------------------------- the cached client

type c14Client struct {
	*Store
	k c14Kind

	// per reconcile
	classAt  map[int]string
	viewOn   bool
	hasRevs  bool
	viewRevs []*unstructured.Unstructured          // the revision kind as cached
	viewPkg  map[string]*unstructured.Unstructured // package name -> cached (older) version; nil value = missing

	// recorded during the reconcile
	servedPkg    *unstructured.Unstructured // the package the reconciler was handed by its Get
	gotPkg       bool
	listedOK     bool     // the List of revisions answered
	listed       []c14Rev // what it answered
	listedRV     map[string]string // ... and the resourceVersion each revision was handed out with
	liveAtList   []c14Rev // the revisions stored at that moment
	lagging      bool     // the answer differed (names or versions) from the stored revisions it selects
	listNotFound bool     // the List was answered with an injected NotFound
}

func (c *c14Client) reset() {
	c.classAt, c.viewOn, c.hasRevs, c.viewRevs, c.viewPkg = map[int]string{}, false, false, nil, nil
	c.servedPkg, c.gotPkg, c.listedOK, c.listed, c.liveAtList, c.lagging, c.listNotFound = nil, false, false, nil, nil, false, false
	c.listedRV = map[string]string{}
}

func (c *c14Client) last(n0 int) *CallInfo {
	if len(c.Store.Log) == n0 {
		return nil
	}
	return &c.Store.Log[len(c.Store.Log)-1]
}

func (c *c14Client) classify(last *CallInfo, gk schema.GroupKind, name string, err error) error {
	if last == nil || last.Outcome != "fail" {
		return err
	}
	if ce := c14ClassErr(c.classAt[last.Index], gk, name); ce != nil {
		last.Err = errClass(ce)
		if last.Err == "other" {
			last.Err = "other:" + c.classAt[last.Index]
		}
		return ce
	}
	return err
}

// c14Restore puts back what obj held before a read that the cache answers NotFound (a failed
// Get leaves the caller's object alone; APIPatchingApplicator.Apply goes on to Create it).
func c14Restore(obj client.Object, orig kruntime.Object) {
	v, o := reflect.ValueOf(obj), reflect.ValueOf(orig)
	if v.Kind() == reflect.Ptr && !v.IsNil() && o.Kind() == reflect.Ptr && !o.IsNil() && v.Type() == o.Type() {
		v.Elem().Set(o.Elem())
	}
}

func (c *c14Client) Get(ctx context.Context, key client.ObjectKey, obj client.Object, opts ...client.GetOption) error {
	gvk, gerr := apiutil.GVKForObject(obj, c.Store.Scheme())
	n0 := len(c.Store.Log)
	orig := obj.DeepCopyObject()
	err := c.Store.Get(ctx, key, obj, opts...)
	last := c.last(n0)
	if gerr != nil || last == nil {
		return err
	}
	gk := gvk.GroupKind()
	if last.Outcome != "ok" {
		return c.classify(last, gk, key.Name, err)
	}
	var m map[string]any
	served := false
	if c.viewOn {
		switch {
		case gk == c.k.revGK && c.hasRevs:
			served = true
			for _, u := range c.viewRevs {
				if u.GetName() == key.Name {
					m = u.Object
				}
			}
		case gk == c.k.pkgGK:
			if u, ok := c.viewPkg[key.Name]; ok {
				served = true
				if u != nil {
					m = u.Object
				}
			}
		}
	}
	if served {
		if m == nil {
			c14Restore(obj, orig)
			err = kerrors.NewNotFound(schema.GroupResource{Group: gk.Group, Resource: strings.ToLower(gk.Kind)}, key.Name)
			last.Err = "notFound"
		} else {
			m = deepCopyMap(m)
			m["apiVersion"] = gvk.GroupVersion().String()
			err = c.Store.fromMap(m, obj)
			last.Err = ""
		}
	}
	if gk == c.k.pkgGK && !c.gotPkg {
		c.gotPkg = true
		if err == nil {
			if mm, cerr := kruntime.DefaultUnstructuredConverter.ToUnstructured(obj); cerr == nil {
				c.servedPkg = &unstructured.Unstructured{Object: mm}
			}
		}
	}
	return err
}

func c14RevKey(u *unstructured.Unstructured) string { return u.GetName() + "@" + u.GetResourceVersion() }

func (c *c14Client) List(ctx context.Context, list client.ObjectList, opts ...client.ListOption) error {
	gvk, gerr := apiutil.GVKForObject(list, c.Store.Scheme())
	n0 := len(c.Store.Log)
	err := c.Store.List(ctx, list, opts...)
	last := c.last(n0)
	if gerr != nil || last == nil {
		return err
	}
	gvk.Kind = strings.TrimSuffix(gvk.Kind, "List")
	gk := gvk.GroupKind()
	if last.Outcome != "ok" {
		err = c.classify(last, gk, "", err)
		if gk == c.k.revGK && kerrors.IsNotFound(err) {
			c.listNotFound = true
			c.liveAtList = c14Snapshot(c.Store, c.k)
		}
		return err
	}
	if err != nil || gk != c.k.revGK {
		return err
	}
	lo := &client.ListOptions{}
	lo.ApplyOptions(opts)
	sel := func(u *unstructured.Unstructured) bool {
		return lo.LabelSelector == nil || lo.LabelSelector.Matches(labels.Set(u.GetLabels()))
	}
	live := c.Store.OfKind(gk)
	c.liveAtList = nil
	var liveKeys []string
	for _, u := range live {
		c.liveAtList = append(c.liveAtList, c14RevOf(u))
		if sel(u) {
			liveKeys = append(liveKeys, c14RevKey(u))
		}
	}
	src := live
	if c.viewOn && c.hasRevs {
		src = c.viewRevs
	}
	var items []map[string]any
	var keys []string
	c.listed, c.listedOK = []c14Rev{}, true
	for _, u := range src {
		if !sel(u) {
			continue
		}
		keys = append(keys, c14RevKey(u))
		c.listed = append(c.listed, c14RevOf(u))
		c.listedRV[u.GetName()] = u.GetResourceVersion()
		cp := deepCopyMap(u.Object)
		cp["apiVersion"] = gvk.GroupVersion().String()
		items = append(items, cp)
	}
	sort.Strings(keys)
	sort.Strings(liveKeys)
	c.lagging = strings.Join(keys, ",") != strings.Join(liveKeys, ",")
	if !(c.viewOn && c.hasRevs) {
		return nil
	}
	objs := make([]kruntime.Object, 0, len(items))
	for _, m := range items {
		ro, err := c.Store.Scheme().New(gvk)
		if err != nil {
			return err
		}
		if err := c.Store.fromMap(m, ro); err != nil {
			return err
		}
		objs = append(objs, ro)
	}
	return kmeta.SetList(list, objs)
}

func (c *c14Client) write(obj client.Object, n0 int, err error) error {
	last := c.last(n0)
	if last == nil || last.Outcome != "fail" {
		return err
	}
	gvk, gerr := apiutil.GVKForObject(obj, c.Store.Scheme())
	if gerr != nil {
		return err
	}
	return c.classify(last, gvk.GroupKind(), obj.GetName(), err)
}

func (c *c14Client) Create(ctx context.Context, obj client.Object, opts ...client.CreateOption) error {
	n0 := len(c.Store.Log)
	return c.write(obj, n0, c.Store.Create(ctx, obj, opts...))
}

func (c *c14Client) Update(ctx context.Context, obj client.Object, opts ...client.UpdateOption) error {
	n0 := len(c.Store.Log)
	return c.write(obj, n0, c.Store.Update(ctx, obj, opts...))
}

func (c *c14Client) Patch(ctx context.Context, obj client.Object, patch client.Patch, opts ...client.PatchOption) error {
	n0 := len(c.Store.Log)
	return c.write(obj, n0, c.Store.Patch(ctx, obj, patch, opts...))
}

func (c *c14Client) Delete(ctx context.Context, obj client.Object, opts ...client.DeleteOption) error {
	n0 := len(c.Store.Log)
	return c.write(obj, n0, c.Store.Delete(ctx, obj, opts...))
}

type c14StatusWriter struct {
	client.SubResourceWriter
	c *c14Client
}

func (w c14StatusWriter) Update(ctx context.Context, obj client.Object, opts ...client.SubResourceUpdateOption) error {
	n0 := len(w.c.Store.Log)
	return w.c.write(obj, n0, w.SubResourceWriter.Update(ctx, obj, opts...))
}

func (c *c14Client) Status() client.SubResourceWriter {
	return c14StatusWriter{SubResourceWriter: c.Store.Status(), c: c}
}

// ---------------------------------------------------------------- versions of the world (for the cache)

// c14Ver is the store at one instant: the revisions of the kind and the packages.
type c14Ver struct {
	revs []*unstructured.Unstructured
	pkgs map[string]*unstructured.Unstructured
	key  string
}

func c14TakeVer(st *Store, k c14Kind) c14Ver {
	v := c14Ver{revs: st.OfKind(k.revGK), pkgs: map[string]*unstructured.Unstructured{}}
	var ks []string
	for _, u := range v.revs {
		ks = append(ks, "r/"+c14RevKey(u))
	}
	for _, u := range st.OfKind(k.pkgGK) {
		v.pkgs[u.GetName()] = u
		ks = append(ks, "p/"+c14RevKey(u))
	}
	v.key = strings.Join(ks, ",")
	return v
}

// c14MakeView: the cache `lag` versions behind the newest of `vers`, as the client serves it
// and as the model is told (names and the abstraction of each revision, which of them are
// older than the stored ones, the older package).
func c14MakeView(cl *c14Client, vers []c14Ver, lag c14Lag, pn string) *c14View {
	if len(vers) == 0 || (lag.Revs <= 0 && lag.Pkg <= 0) {
		return nil
	}
	now := vers[len(vers)-1]
	at := func(d int) c14Ver {
		if d >= len(vers) {
			d = len(vers) - 1
		}
		return vers[len(vers)-1-d]
	}
	v := &c14View{Revs: []c14Rev{}, Stale: []string{}}
	cl.viewOn = true
	if lag.Revs > 0 {
		old := at(lag.Revs)
		v.HasRevs, cl.hasRevs, cl.viewRevs = true, true, old.revs
		liveRV := map[string]string{}
		for _, u := range now.revs {
			liveRV[u.GetName()] = u.GetResourceVersion()
		}
		for _, u := range old.revs {
			v.Revs = append(v.Revs, c14RevOf(u))
			if rv, ok := liveRV[u.GetName()]; ok && rv != u.GetResourceVersion() {
				v.Stale = append(v.Stale, u.GetName())
			}
		}
	}
	if lag.Pkg > 0 {
		old := at(lag.Pkg)
		ou, live := old.pkgs[pn], now.pkgs[pn]
		switch {
		case ou == nil && live != nil:
			v.Pkg = &c14PkgView{Missing: true, Spec: c14Spec{Labels: []c14KV{}}}
			cl.viewPkg = map[string]*unstructured.Unstructured{pn: nil}
		case ou != nil && live != nil && ou.GetResourceVersion() != live.GetResourceVersion():
			o := c14PkgObsOfU(ou)
			v.Pkg = &c14PkgView{UID: string(ou.GetUID()), Spec: c14SpecOfU(ou), CurRev: o.CurRev, CurID: o.CurID, PausedCond: o.PausedCond}
			cl.viewPkg = map[string]*unstructured.Unstructured{pn: ou}
		}
	}
	if !v.HasRevs && v.Pkg == nil {
		cl.viewOn = false
		return nil
	}
	return v
}

// c14SpecOfU reads the package spec fields of the scenario back from a stored / served package.
func c14SpecOfU(u *unstructured.Unstructured) c14Spec {
	sp := c14Spec{Labels: []c14KV{}}
	sp.Source, _, _ = unstructured.NestedString(u.Object, "spec", "package")
	switch n := func() any { v, _, _ := unstructured.NestedFieldNoCopy(u.Object, "spec", "revisionHistoryLimit"); return v }().(type) {
	case int64:
		sp.Limit = ptr.To(n)
	case float64:
		sp.Limit = ptr.To(int64(n))
	}
	sp.Policy, _, _ = unstructured.NestedString(u.Object, "spec", "revisionActivationPolicy")
	sp.Pull, _, _ = unstructured.NestedString(u.Object, "spec", "packagePullPolicy")
	sp.Paused = u.GetAnnotations()[meta.AnnotationKeyReconciliationPaused] == "true"
	cl, _, _ := unstructured.NestedStringMap(u.Object, "spec", "commonLabels")
	for k, v := range cl {
		sp.Labels = append(sp.Labels, c14KV{k, v})
	}
	sort.Slice(sp.Labels, func(i, j int) bool { return sp.Labels[i][0] < sp.Labels[j][0] })
	if m, ok := u.Object["spec"].(map[string]any); ok {
		if e := c14ExtraOf(m, false); len(e) > 0 {
			sp.Extra = e
		}
	}
	return sp
}

func c14PkgObsOfU(u *unstructured.Unstructured) c14PkgObs {
	if u == nil {
		return c14PkgObs{}
	}
	o := c14PkgObs{Exists: true}
	o.CurRev, _, _ = unstructured.NestedString(u.Object, "status", "currentRevision")
	o.CurID, _, _ = unstructured.NestedString(u.Object, "status", "currentIdentifier")
	conds, _, _ := unstructured.NestedSlice(u.Object, "status", "conditions")
	for _, c := range conds {
		cm, _ := c.(map[string]any)
		if cm["type"] == string(xpv1.TypeSynced) && cm["reason"] == string(xpv1.ReasonReconcilePaused) {
			o.PausedCond = true
		}
	}
	return o
}

// ---------------------------------------------------------------- other clients

func c14EditPkg(st *Store, k c14Kind, pn string, sp c14Spec) {
	st.Mutate(k.pkgGK, "", pn, func(u *unstructured.Unstructured) {
		o := k.newPkg()
		_ = kruntime.DefaultUnstructuredConverter.FromUnstructured(u.Object, o)
		c14ApplySpec(o, sp)
		m, _ := kruntime.DefaultUnstructuredConverter.ToUnstructured(o)
		m["apiVersion"], m["kind"] = u.Object["apiVersion"], u.Object["kind"]
		u.Object = normalize(m)
	})
}

// c14DoAct performs one action of another client; n is a counter that makes `touch` a real change.
func c14DoAct(st *Store, cl *c14Client, k c14Kind, pn string, a c14Act, n *int) {
	switch a.Op {
	case "edit":
		if a.Spec != nil {
			c14EditPkg(st, k, pn, *a.Spec)
		}
	case "touch":
		*n++
		st.Mutate(k.revGK, "", a.Name, func(u *unstructured.Unstructured) {
			if len(u.GetFinalizers()) == 0 {
				u.SetFinalizers([]string{"revision.pkg.crossplane.io"})
			}
			an := u.GetAnnotations()
			if an == nil {
				an = map[string]string{}
			}
			an["c14.verif/touched"] = fmt.Sprint(*n)
			u.SetAnnotations(an)
		})
	case "del":
		if u := st.Peek(k.revGK, "", a.Name); u != nil {
			if len(u.GetFinalizers()) == 0 {
				st.Remove(k.revGK, "", a.Name)
			} else if u.GetDeletionTimestamp() == nil {
				st.Mutate(k.revGK, "", a.Name, func(u *unstructured.Unstructured) {
					t := metav1.NewTime(time.Unix(1700000001, 0).UTC())
					u.SetDeletionTimestamp(&t)
				})
			}
		}
	case "deact":
		st.Mutate(k.revGK, "", a.Name, func(u *unstructured.Unstructured) {
			_ = unstructured.SetNestedField(u.Object, string(pkgv1.PackageRevisionInactive), "spec", "desiredState")
		})
	case "create":
		if a.Rev != nil && st.Peek(k.revGK, "", a.Rev.Name) == nil {
			r := *a.Rev
			r.Deleting = false
			if r.State == string(pkgv1.PackageRevisionActive) {
				r.State = string(pkgv1.PackageRevisionInactive)
			}
			c14SeedRev(st, k, r)
		}
	case "sync":
		cl.viewOn = false
	}
}

// c14ActNames: the revisions other clients wrote during the reconcile.
func c14ActNames(acts []c14Act) map[string]bool {
	m := map[string]bool{}
	for _, a := range acts {
		switch a.Op {
		case "touch", "del", "deact":
			m[a.Name] = true
		case "create":
			if a.Rev != nil {
				m[a.Rev.Name] = true
			}
		}
	}
	return m
}

// c14ActsBenign: only actions that cannot change what a completed reconcile must have achieved.
func c14ActsBenign(acts []c14Act) bool {
	for _, a := range acts {
		if a.Op != "sync" {
			return false
		}
	}
	return true
}

// ---------------------------------------------------------------- generators

var c14ValidSources = []string{c14Sources[0], c14Sources[1], c14Sources[2], c14Sources[3], c14Sources[6]}

// c14PkgNames: package names of one kind that stress identity: a name that is a prefix of
// another, a name that looks like a revision of another, two names that share their first 50
// characters (xpkg.FriendlyID truncates the name there: same digest, SAME revision name).
var c14PkgNames = []string{"p", "provider", "provider-aws", "provider-aws-1111111111aa", "p-1111111111aa",
	"a-very-long-package-name-that-exceeds-the-fifty-character-limit-x", "a-very-long-package-name-that-exceeds-the-fifty-chXYZ"}

type c14Installed struct {
	pkg   c14Pkg
	revs  []c14Rev
	names []string // revision names that exist or may come to exist
}

// c14GenInstalled: a package installed at some source, its current revision recorded, with
// 0-4 older revisions whose numbers are NOT in name order; extraActive older revisions are
// Active as well (the later ones lack what the earlier ones have: controller, labels, finalizer).
func c14GenInstalled(r *Rng, pn, uid string, reg map[string]string, extraActive int) c14Installed {
	src := Pick(r, c14ValidSources)
	dig := reg[src]
	pull := Pick(r, []string{"", "", "Always", "IfNotPresent"})
	policy := Pick(r, []string{"", "", "Automatic", "Manual"})
	out := c14Installed{}
	dp := r.Perm(len(c14Digests) - 1)
	nOld := r.Intn(5)
	if extraActive > nOld {
		nOld = extraActive
	}
	nums := r.Perm(nOld + 1)
	for i := 0; i < nOld && i < len(dp); i++ {
		d := c14Digests[dp[i]]
		if d == dig {
			continue
		}
		rv := c14Rev{Name: xpkgFriendly(pn, d), Parent: pn, Number: int64(nums[i] + 1), State: "Inactive", Ctrl: uid, Image: Pick(r, c14ValidSources), Labels: c14GenLabels(r), Fin: r.Bool()}
		if extraActive > 0 {
			rv.State = "Active"
			extraActive--
			if i > 0 {
				rv.Labels, rv.Fin = []c14KV{}, false
				if r.Bool() {
					rv.Ctrl = ""
				}
			}
		}
		out.revs = append(out.revs, rv)
	}
	curState := "Active"
	if policy == "Manual" && r.Bool() {
		curState = "Inactive"
	}
	cur := c14Rev{Name: xpkgFriendly(pn, dig), Parent: pn, Number: int64(nums[nOld] + 1), State: curState, Ctrl: uid, Image: src, Labels: []c14KV{}, Fin: r.Bool()}
	if r.Chance(2, 3) { // mostly the current one is numbered last
		cur.Number = int64(nOld + 2)
	}
	out.revs = append(out.revs, cur)
	out.pkg = c14Pkg{Name: pn, UID: uid, Spec: c14Spec{Source: src, Limit: Pick(r, []*int64{nil, ptr.To(int64(0)), ptr.To(int64(1)), ptr.To(int64(1)), ptr.To(int64(2)), ptr.To(int64(3))}), Policy: policy, Pull: pull, Labels: []c14KV{}}, CurRev: cur.Name, CurID: src}
	if r.Chance(1, 4) {
		out.pkg.Spec.Labels = c14GenLabels(r)
	}
	for _, d := range c14Digests {
		out.names = append(out.names, xpkgFriendly(pn, d))
	}
	return out
}

func c14GenRegistry(r *Rng) map[string]string {
	reg := map[string]string{}
	for _, src := range c14Sources {
		reg[src] = Pick(r, c14Digests[:5])
	}
	reg[c14Sources[4]] = c14Digests[2]
	return reg
}

// c14GenActs: 1-2 actions of other clients before API calls 0..9 of a reconcile of inst.
func c14GenActs(r *Rng, inst c14Installed, reg map[string]string) []c14Act {
	var acts []c14Act
	for i, n := 0, 1+r.Intn(2); i < n; i++ {
		a := c14Act{K: r.Intn(10)}
		existing := Pick(r, inst.names)
		if len(inst.revs) > 0 {
			existing = Pick(r, inst.revs).Name
		}
		switch r.Intn(10) {
		case 0, 1:
			sp := inst.pkg.Spec
			switch r.Intn(3) {
			case 0:
				sp.Source = Pick(r, c14ValidSources)
			case 1:
				sp.Limit = c14GenLimit(r)
			case 2:
				sp.Policy = Pick(r, []string{"", "Automatic", "Manual"})
			}
			a.Op, a.Spec = "edit", &sp
		case 2, 3, 4:
			a.Op, a.Name = "touch", Pick(r, []string{existing, Pick(r, inst.names)})
		case 5, 6:
			a.Op, a.Name = "del", Pick(r, []string{existing, Pick(r, inst.names)})
		case 7:
			a.Op, a.Name = "deact", existing
		default:
			// another replica creates a revision: mostly the one this reconcile is about to create
			nm := Pick(r, inst.names)
			rv := c14Rev{Name: nm, Parent: inst.pkg.Name, Number: int64(r.Intn(7)), State: Pick(r, []string{"Inactive", "Inactive", ""}), Ctrl: Pick(r, []string{inst.pkg.UID, inst.pkg.UID, "", "u-other"}), Image: Pick(r, c14ValidSources), Labels: []c14KV{}, Fin: r.Bool()}
			a.Op, a.Rev = "create", &rv
		}
		acts = append(acts, a)
	}
	sort.SliceStable(acts, func(i, j int) bool { return acts[i].K < acts[j].K })
	return acts
}

func c14GenClassFault(r *Rng) c14Fault {
	return c14Fault{K: r.Intn(11), O: "fail:" + Pick(r, c14Classes)}
}

// c14GenWorld: a package with history, driven through edits (upgrades, rollbacks, limit changes)
// and reconciles that meet other clients' writes, a lagging cache, failures of every error class.
func c14GenWorld(r *Rng, tier string) c14Scn {
	s := c14Scn{Kind: Pick(r, []string{"Provider", "Provider", "Configuration", "Function"}), Revs: []c14Rev{}, Steps: []c14Step{}}
	reg := c14GenRegistry(r)
	pn := Pick(r, c14PkgNames[:3])
	extra := 0
	if r.Chance(1, 5) {
		extra = 1 + r.Intn(3)
	}
	inst := c14GenInstalled(r, pn, "u-"+pn[:1], reg, extra)
	s.Pkg, s.Revs = inst.pkg, inst.revs
	cur := inst.pkg.Spec
	rounds := r.Range(2, 4)
	if tier == "thorough" {
		rounds = r.Range(2, 6)
	}
	for i := 0; i < rounds; i++ {
		if r.Chance(3, 4) {
			ns := cur
			switch r.Intn(7) {
			case 6:
				ns.Extra = c14GenExtra(r, s.Kind != "Configuration", s.Kind == "Provider")
				if r.Bool() {
					ns.Source = Pick(r, c14ValidSources)
				}
			case 0, 1, 2:
				ns.Source = Pick(r, c14ValidSources)
			case 3:
				ns.Source = Pick(r, inst.revs).Image // rollback to the image of an existing revision
				ns.Limit = c14GenLimit(r)
			case 4:
				ns.Limit = c14GenLimit(r)
			case 5:
				ns.Policy = Pick(r, []string{"", "Automatic", "Manual"})
			}
			cur = ns
			s.Steps = append(s.Steps, c14Step{Op: "edit", Spec: &ns})
		}
		if r.Chance(1, 8) {
			reg[cur.Source] = Pick(r, c14Digests[:5]) // the tag moves
		}
		if r.Chance(1, 14) {
			s.Steps = append(s.Steps, c14Step{Op: "recreate", UID: "u-new"})
		}
		head := reg[cur.Source]
		if r.Chance(1, 12) {
			head = Pick(r, append([]string{"nil"}, c14ErrKinds...))
		}
		st := c14Step{Op: "reconcile", Head: head}
		switch r.Intn(8) {
		case 0:
		case 1, 2:
			st.Acts = c14GenActs(r, inst, reg)
		case 3, 4:
			st.Lag = &c14Lag{Revs: r.Range(1, 6)}
			if r.Chance(1, 3) {
				st.Lag.Pkg = r.Range(1, 3)
			}
			if r.Chance(1, 5) {
				st.Lag.Revs = 0
				st.Lag.Pkg = r.Range(1, 4)
			}
			if r.Chance(1, 3) {
				st.Acts = []c14Act{{K: r.Range(1, 7), Op: "sync"}}
			}
		case 5, 6:
			st.Faults = []c14Fault{c14GenClassFault(r)}
			if r.Chance(1, 4) {
				st.Faults = append(st.Faults, c14Fault{K: r.Intn(11), O: Pick(r, []string{"conflict", "fail:" + Pick(r, c14Classes), "crashAfter"})})
			}
		case 7:
			st.Acts = c14GenActs(r, inst, reg)
			st.Faults = []c14Fault{c14GenClassFault(r)}
			if r.Bool() {
				st.Lag = &c14Lag{Revs: r.Range(1, 4)}
			}
		}
		s.Steps = append(s.Steps, st)
		if r.Chance(1, 3) {
			s.Steps = append(s.Steps, c14Step{Op: "finalize"})
		}
		if r.Chance(1, 2) {
			s.Steps = append(s.Steps, c14Step{Op: "reconcile", Head: reg[cur.Source]})
		}
	}
	return s
}

// c14GenStale: the shape behind the finding "decided on a stale revision list": two source
// edits in quick succession, the second reconcile reads a revision list that is 1-5 store
// versions behind (the cache may have seen the old revision deactivated but not the new one
// created), optionally catching up before the Get of the Apply.
func c14GenStale(r *Rng) c14Scn {
	s := c14Scn{Kind: Pick(r, []string{"Provider", "Configuration", "Function"}), Revs: []c14Rev{}, Steps: []c14Step{}}
	reg := c14GenRegistry(r)
	pn := Pick(r, c14PkgNames[:3])
	inst := c14GenInstalled(r, pn, "u-"+pn[:1], reg, 0)
	inst.pkg.Spec.Pull = Pick(r, []string{"", "Always"})
	s.Pkg, s.Revs = inst.pkg, inst.revs
	cur := inst.pkg.Spec
	move := func() {
		ns := cur
		for ns.Source == cur.Source || reg[ns.Source] == reg[cur.Source] {
			ns.Source = Pick(r, c14ValidSources)
			if r.Chance(1, 20) {
				break
			}
		}
		cur = ns
		s.Steps = append(s.Steps, c14Step{Op: "edit", Spec: &ns})
	}
	move()
	s.Steps = append(s.Steps, c14Step{Op: "reconcile", Head: reg[cur.Source]})
	move()
	st := c14Step{Op: "reconcile", Head: reg[cur.Source], Lag: &c14Lag{Revs: r.Range(1, 5)}}
	if r.Chance(1, 4) {
		st.Acts = []c14Act{{K: r.Range(2, 6), Op: "sync"}}
	}
	s.Steps = append(s.Steps, st)
	s.Steps = append(s.Steps, c14Step{Op: "reconcile", Head: reg[cur.Source]})
	if r.Bool() {
		s.Steps = append(s.Steps, c14Step{Op: "reconcile", Head: reg[cur.Source]})
	}
	return s
}

// c14GenMulti: 2-3 packages of ONE kind (their names related: prefixes, a name that looks like
// a revision of another, names colliding after FriendlyID's truncation), sources and digests
// shared, reconciled in an interleaved order by the one long-lived reconciler.
func c14GenMulti(r *Rng, tier string) c14Scn {
	s := c14Scn{Kind: Pick(r, []string{"Provider", "Provider", "Configuration", "Function"}), Revs: []c14Rev{}, Steps: []c14Step{}}
	reg := c14GenRegistry(r)
	var names []string
	switch r.Intn(4) {
	case 0:
		names = []string{"provider", "provider-aws", "provider-aws-1111111111aa"}
	case 1:
		names = []string{c14PkgNames[5], c14PkgNames[6]}
	case 2:
		names = []string{"p", "p-1111111111aa"}
	default:
		pm := r.Perm(len(c14PkgNames))
		names = []string{c14PkgNames[pm[0]], c14PkgNames[pm[1]]}
		if r.Bool() {
			names = append(names, c14PkgNames[pm[2]])
		}
	}
	if r.Bool() {
		names[0], names[len(names)-1] = names[len(names)-1], names[0]
	}
	insts := map[string]*c14Installed{}
	cur := map[string]c14Spec{}
	for i, n := range names {
		inst := c14GenInstalled(r, n, fmt.Sprintf("u-%d", i), reg, 0)
		if r.Chance(1, 4) { // never reconciled yet
			inst.pkg.CurRev, inst.pkg.CurID = "", ""
			inst.revs = inst.revs[:len(inst.revs)-1]
		}
		for _, rv := range inst.revs {
			dup := false
			for _, e := range s.Revs {
				if e.Name == rv.Name {
					dup = true
				}
			}
			if !dup {
				s.Revs = append(s.Revs, rv)
			}
		}
		insts[n], cur[n] = &inst, inst.pkg.Spec
		if i == 0 {
			s.Pkg = inst.pkg
		} else {
			s.More = append(s.More, inst.pkg)
		}
	}
	steps := r.Range(4, 9)
	if tier == "thorough" {
		steps = r.Range(4, 14)
	}
	for i := 0; i < steps; i++ {
		n := Pick(r, names)
		switch x := r.Intn(10); {
		case x < 3:
			ns := cur[n]
			switch r.Intn(4) {
			case 0, 1:
				ns.Source = Pick(r, c14ValidSources)
			case 2:
				ns.Limit = c14GenLimit(r)
			case 3:
				ns.Pull = Pick(r, []string{"", "Always", "IfNotPresent", "Never"})
			}
			cur[n] = ns
			s.Steps = append(s.Steps, c14Step{Op: "edit", Pkg: n, Spec: &ns})
		case x < 4:
			reg[cur[n].Source] = Pick(r, c14Digests[:5])
		default:
			head := reg[cur[n].Source]
			if r.Chance(1, 12) {
				head = Pick(r, append([]string{"nil"}, c14ErrKinds...))
			}
			st := c14Step{Op: "reconcile", Pkg: n, Head: head}
			switch r.Intn(8) {
			case 0:
				st.Faults = c14GenFaults(r, tier)
			case 1:
				st.Faults = []c14Fault{c14GenClassFault(r)}
			case 2:
				st.Acts = c14GenActs(r, *insts[n], reg)
			}
			s.Steps = append(s.Steps, st)
		}
	}
	return s
}

// c14ExhaustWorld: for reconcile step `at` of base, every API call index x every error class
// (and Conflict), and every API call index x one action of each kind by another client.
func c14ExhaustWorld(r *Rng, base c14Scn, at int, emit func(c14Scn)) {
	if at < 0 {
		return
	}
	with := func(f func(st *c14Step)) {
		c := base
		c.Steps = append([]c14Step{}, base.Steps...)
		st := c.Steps[at]
		st.Faults, st.Acts = nil, nil
		f(&st)
		c.Steps[at] = st
		c.Steps = append(c.Steps, c14Step{Op: "reconcile", Pkg: st.Pkg, Head: st.Head})
		emit(c)
	}
	for k := 0; k < 12; k++ {
		for _, cl := range append([]string{"conflict"}, c14Classes...) {
			o := "fail:" + cl
			if cl == "conflict" {
				o = cl
			}
			with(func(st *c14Step) { st.Faults = []c14Fault{{K: k, O: o}} })
		}
	}
	var names []string
	for _, rv := range base.Revs {
		if rv.Parent == base.Pkg.Name {
			names = append(names, rv.Name)
		}
	}
	if len(names) == 0 {
		return
	}
	for k := 0; k < 11; k++ {
		for _, op := range []string{"touch", "del", "deact"} {
			n := Pick(r, names)
			with(func(st *c14Step) { st.Acts = []c14Act{{K: k, Op: op, Name: n}} })
		}
	}
	// another replica creates the revision this reconcile is about to create (AlreadyExists on its
	// Create when that happens between the Get and the Create of the Apply)
	pn := base.Steps[at].Pkg
	if pn == "" {
		pn = base.Pkg.Name
	}
	if d, ok := c14HeadDigest(base.Steps[at].Head); ok {
		for k := 0; k < 11; k++ {
			rv := c14Rev{Name: xpkgFriendly(pn, d), Parent: pn, Number: int64(r.Intn(4)), State: "Inactive", Ctrl: base.Pkg.UID, Image: Pick(r, c14ValidSources), Labels: []c14KV{}}
			with(func(st *c14Step) { st.Acts = []c14Act{{K: k, Op: "create", Rev: &rv}} })
		}
	}
}

// c14RVs: the resourceVersion of every stored revision of the kind.
func c14RVs(st *Store, k c14Kind) map[string]string {
	m := map[string]string{}
	for _, u := range st.OfKind(k.revGK) {
		m[u.GetName()] = u.GetResourceVersion()
	}
	return m
}

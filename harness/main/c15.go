//go:build verif

package main

// C15: a package revision installs exactly what its image declares, and only
// permitted kinds.
//
// Drives the REAL revision.Reconciler.Reconcile (real FsPackageCache on an
// afero.MemMapFs wrapped by a fault injector, real parser.New(meta, obj), real
// per-type linters, real ImageBackend over in-memory OCI images built with
// go-containerregistry, real version.Versioner, real xpkg.ImageConfigStore) and
// the REAL signature.Reconciler.Reconcile over simstore, for histories of
// reconciles of up to three revisions that share one cache.
//
// As revision.Setup{Provider,Configuration,Function}Revision and the signature
// Setup functions do, the controllers are built ONCE per world (= per process):
// one revision.Reconciler with one parser, one ImageBackend over one fetcher, one
// linter, one establisher and one config store per package type, one
// signature.Reconciler with one validator per package type, and one
// FsPackageCache for all of them. Every reconcile of a history goes through
// these long-lived objects (the fetcher resolves the image by reference, the
// establisher, the validator and the fault plans are keyed by revision), so that
// state carried from one call to the next shows against the per-call model.

import (
	"archive/tar"
	"bytes"
	"compress/gzip"
	"context"
	"errors"
	"fmt"
	"io"
	"sort"
	"strings"
	"sync"

	"github.com/google/go-containerregistry/pkg/name"
	ggcrv1 "github.com/google/go-containerregistry/pkg/v1"
	"github.com/google/go-containerregistry/pkg/v1/empty"
	"github.com/google/go-containerregistry/pkg/v1/mutate"
	"github.com/google/go-containerregistry/pkg/v1/tarball"
	"github.com/spf13/afero"
	corev1 "k8s.io/api/core/v1"
	kerrors "k8s.io/apimachinery/pkg/api/errors"
	"k8s.io/apimachinery/pkg/api/meta"
	metav1 "k8s.io/apimachinery/pkg/apis/meta/v1"
	"k8s.io/apimachinery/pkg/apis/meta/v1/unstructured"
	"k8s.io/apimachinery/pkg/runtime"
	"k8s.io/apimachinery/pkg/runtime/schema"
	"k8s.io/apimachinery/pkg/types"
	"sigs.k8s.io/controller-runtime/pkg/client"
	"sigs.k8s.io/controller-runtime/pkg/reconcile"

	xpv1 "github.com/crossplane/crossplane-runtime/apis/common/v1"
	"github.com/crossplane/crossplane-runtime/pkg/feature"
	"github.com/crossplane/crossplane-runtime/pkg/parser"
	"github.com/crossplane/crossplane-runtime/pkg/resource"
	rfake "github.com/crossplane/crossplane-runtime/pkg/resource/fake"

	pkgmetav1 "github.com/crossplane/crossplane/apis/pkg/meta/v1"
	pkgv1 "github.com/crossplane/crossplane/apis/pkg/v1"
	pkgv1beta1 "github.com/crossplane/crossplane/apis/pkg/v1beta1"
	"github.com/crossplane/crossplane/internal/controller/pkg/revision"
	"github.com/crossplane/crossplane/internal/controller/pkg/signature"
	"github.com/crossplane/crossplane/internal/features"
	"github.com/crossplane/crossplane/internal/version"
	"github.com/crossplane/crossplane/internal/xpkg"
)

// ---------------------------------------------------------------- scenario

// c15Doc is one document of a package stream.
type c15Doc struct {
	T    string `json:"t"`    // meta | obj | empty | bad
	GVK  string `json:"gvk"`  // group/version/Kind of a meta or object document
	Name string `json:"name"` // metadata.name (bad: the flavour unknown|malformed|nokind)
	Con  string `json:"con"`  // meta only: none | in | out | bad (spec.crossplane.version)
	Pad  int    `json:"pad"`  // bytes of padding (not seen by the model)
}

type c15Faults struct {
	Init   bool   `json:"init"`   // backend.Init fails (registry fetch error)
	Read   int    `json:"read"`   // -1: none; b: the source fails after delivering b bytes of the stream
	Store  string `json:"store"`  // "" | create | write | close
	StoreN int    `json:"storeN"` // write: fail once this many (compressed) bytes reached the file
	Get    bool   `json:"get"`    // cache.Get fails (open error)
	Del    bool   `json:"del"`    // cache.Delete fails
	Upd    string `json:"upd"`    // client.Update of the revision (metadata): "" | conflict | err | notfound | alreadyexists | invalid | forbidden | temporary | deadline
	Est    bool   `json:"est"`    // Establish fails
	EstC   string `json:"estC"`   // ... with an error of this class ("" = a plain error)
	GetE   string `json:"getE"`   // client.Get of the revision: "" | miss (NotFound although it exists: informer cache) | err (transport error)
	Fin    string `json:"fin"`    // the Update issued by AddFinalizer / RemoveFinalizer: "" or an error class as for Upd
	Stat   string `json:"stat"`   // client.Status().Update of the revision: "" or an error class
	Env    string `json:"env"`    // third-party write to the revision right after the reconciler read it (= a stale cached read): "" | touch | wipe | recreate | flip
	PullCfg string `json:"pullCfg"` // config.PullSecretFor fails in the revision reconciler: listing ImageConfigs returns an error of this class ("" = succeeds; classes as for sigCfg)
	Rel    string `json:"rel"`    // deactivateRevision: objects.ReleaseObjects fails with this error class ("" = succeeds; reached by inactive revisions only)
	Dep    string `json:"dep"`    // lock.Resolve fails with this error class (reached only by revisions that resolve dependencies)
}

// c15Oracle: facts decided by libraries/timing that the model is told.
type c15Oracle struct {
	Seen bool   `json:"seen"` // the store failure reached the parser as a read error
	Left string `json:"left"` // what a failed Store left in the cache when Delete was called: none | nohdr | hdr | full | other
}

type c15Step struct {
	K       string    `json:"k"`       // rec | sig | cfg
	R       int       `json:"r"`       // revision index
	Active  bool      `json:"active"`  // rec: desired state during this step
	Deleted bool      `json:"deleted"` // rec: the revision is deleted (client Delete) before this step
	Par     bool      `json:"par"`     // rec: runs concurrently with the next step (a rec step of another revision)
	Nest    string    `json:"nest"`    // with par: "" free-running goroutines | upd | est: this reconcile is parked inside its metadata Update / inside Establish while the next step's reconcile runs from start to end (a deterministic interleaving at API-call granularity)
	F       c15Faults `json:"f"`       // sig steps use getE and stat only
	O       c15Oracle `json:"o"`
	SigCfg  string    `json:"sigCfg"` // sig: "" (the real ImageConfigStore over the ImageConfigs of the world) | listing ImageConfigs fails with an error of class err (plain) | nokind (meta.NoKindMatchError: the API is not served) | noresource (meta.NoResourceMatchError) | timeout | unavailable | forbidden
	Cfgs    []c15Cfg  `json:"cfgs"`   // cfg: the user replaces the cluster's ImageConfigs by these
}

// c15Cfg is an ImageConfig.
type c15Cfg struct {
	Name     string   `json:"name"`
	Prefixes []string `json:"prefixes"` // spec.matchImages[*].prefix
	Verif    string   `json:"verif"`    // none | cosign | nocosign   (spec.verification absent / with / without a cosign section)
	Pull     bool     `json:"pull"`     // spec.registry.authentication.pullSecretRef set (irrelevant for verification)
	OK       bool     `json:"ok"`       // verdict of the validator under this config
}

type c15Rev struct {
	PType  string   `json:"ptype"` // provider | configuration | function
	Name   string   `json:"name"`  // revision name = cache id
	Key    string   `json:"key"`   // oracle-free: the cache path key BuildPath derives from Name (filled by the harness)
	Source string   `json:"source"`
	SKey   string   `json:"skey"` // cache path key of Source (pull policy Never)
	Docs   []c15Doc `json:"docs"`
	Shape  int      `json:"shape"` // stream formatting variant (bits: 1 leading separator, 2 trailing separator, 4 leading comment, 8 doubled separators, 16 separators with a comment, 32 a blank/comment-only document, 64 a malformed separator); the model sees its effect as Lines
	Img    string   `json:"img"`   // annotated | multi | plain | plain2 | twoann | nofile
	Never  bool     `json:"never"`
	Ignore bool     `json:"ignore"`
	Pre    string   `json:"pre"` // cold | warm | nohdr | hdr   (cache entry under the id before the first step)
	Resolve bool    `json:"resolve"` // spec.skipDependencyResolution = false (set, as the package manager does): lock.Resolve runs
	Layers []c15LayerDesc `json:"layers"` // the layers of the image, as ImageBackend.Init sees them (filled by the harness from Img)
	Lines  []string `json:"lines"` // the lines of the rendered stream, classified by an independent tokenizer and run-length encoded: sep | sepc | badsep | comment | blank | b<i> (a payload line of document i), each optionally x<count> (filled by the harness)
}

// c15LayerDesc describes a run of N equal layers of an image: the io.crossplane.xpkg
// annotation of the descriptor and the entries of the tarball, in order.
type c15LayerDesc struct {
	Ann   string        `json:"ann"`   // "" (no such annotation) | base | other (another value)
	Files []c15FileDesc `json:"files"` // tar entries in order
	N     int           `json:"n"`     // number of such layers (0 = 1)
	// how the harness builds it (not seen by the model)
	annot map[string]string
	src   bool // the layer the effective stream comes from (where a source read fault is armed)
}

// c15FileDesc is one tar entry: its name as written into the header, and what it holds:
// real (the declared stream) | decoy (another, installable package stream) | junk.
type c15FileDesc struct {
	Name string `json:"name"`
	C    string `json:"c"`
}

type c15Scn struct {
	Kind    string    `json:"kind"` // rev | build | ids | tee
	Tee     *c15TeeScn `json:"tee,omitempty"` // kind tee: the teeReadCloser test (c15_tee.go)
	Feature bool      `json:"feature"`
	Revs    []c15Rev  `json:"revs"`
	Cfgs    []c15Cfg  `json:"cfgs"` // ImageConfigs present from the start (sorted by name)
	Steps   []c15Step `json:"steps"`
}

type c15StepObs struct {
	Res      string      `json:"res"`
	Est      [][2]string `json:"est"` // nil: Establish not called
	Control  bool        `json:"control"`
	Cache    []string    `json:"cache"` // per revision: absent | nohdr | hdr | full | other
	Healthy  string      `json:"healthy"`
	Verified string      `json:"verified"`
	Refs     int         `json:"refs"`
	Exists   bool        `json:"exists"`
}

type c15Obs struct {
	Steps []c15StepObs `json:"steps"`
}

// ---------------------------------------------------------------- streams

const c15XPVersion = "v1.18.0"

func c15PadString(n, salt int) string {
	// deterministic, poorly compressible
	var sb strings.Builder
	x := uint64(salt)*0x9E3779B97F4A7C15 + 0x1234567
	const al = "abcdefghijklmnopqrstuvwxyzABCDEFGHIJKLMNOPQRSTUVWXYZ0123456789"
	for i := 0; i < n; i++ {
		x ^= x << 13
		x ^= x >> 7
		x ^= x << 17
		if i == 0 {
			// never a YAML number / boolean / null ("7", "y", "1e5"): the value is an annotation, a string
			sb.WriteByte('p')
			continue
		}
		sb.WriteByte(al[x%uint64(len(al))])
	}
	return sb.String()
}

func c15SplitGVK(s string) (g, v, k string) {
	p := strings.Split(s, "/")
	if len(p) == 3 {
		return p[0], p[1], p[2]
	}
	if len(p) == 2 {
		return "", p[0], p[1]
	}
	return "", "", s
}

func c15APIVersion(g, v string) string {
	if g == "" {
		return v
	}
	return g + "/" + v
}

// c15RenderDoc renders one document (without separator).
func c15RenderDoc(d c15Doc, idx int) string {
	var sb strings.Builder
	switch d.T {
	case "empty":
		if idx%2 == 0 {
			sb.WriteString("# an empty document\n")
		}
	case "bad":
		switch d.Name {
		case "malformed":
			sb.WriteString("{ this is: [not yaml\n")
		case "nokind":
			sb.WriteString("foo: bar\n")
		default:
			sb.WriteString("apiVersion: nope.example.org/v1\nkind: Nope\nmetadata:\n  name: nope\n")
		}
	case "meta", "obj":
		g, v, k := c15SplitGVK(d.GVK)
		fmt.Fprintf(&sb, "apiVersion: %s\nkind: %s\nmetadata:\n  name: %s\n  annotations:\n    verif/uid: \"%d\"\n", c15APIVersion(g, v), k, d.Name, idx)
		if d.Pad > 0 {
			fmt.Fprintf(&sb, "    verif/pad: %s\n", c15PadString(d.Pad, idx))
		}
		if d.T == "obj" {
			sb.WriteString(c15Body(d.GVK, d.Name, idx))
		}
		if d.T == "meta" {
			sb.WriteString("  labels:\n    verif/pkg-label: yes-" + d.Name + "\n")
			switch d.Con {
			case "in":
				sb.WriteString("spec:\n  crossplane:\n    version: \">=v1.0.0\"\n")
			case "out":
				sb.WriteString("spec:\n  crossplane:\n    version: \">=v2.0.0\"\n")
			case "bad":
				sb.WriteString("spec:\n  crossplane:\n    version: \"this is !! no constraint\"\n")
			}
		}
	}
	return sb.String()
}

// c15Body is a realistic spec for the common package object kinds (what the
// typed decoder and `xpkg build`'s encoder have to carry).
func c15Body(gvk, name string, idx int) string {
	g, v, k := c15SplitGVK(gvk)
	plural := strings.SplitN(name, ".", 2)[0]
	switch {
	case g == "apiextensions.k8s.io" && k == "CustomResourceDefinition" && v == "v1":
		return fmt.Sprintf(`spec:
  group: example.org
  names:
    kind: Thing%d
    listKind: Thing%dList
    plural: %s
    singular: thing%d
    categories: [crossplane, managed]
  scope: Cluster
  versions:
  - name: v1alpha1
    served: true
    storage: true
    subresources:
      status: {}
    additionalPrinterColumns:
    - jsonPath: .status.conditions[?(@.type=='Ready')].status
      name: READY
      type: string
    schema:
      openAPIV3Schema:
        type: object
        description: "A Thing: with a colon, a # hash and 'quotes'"
        properties:
          spec:
            type: object
            required: [forProvider]
            properties:
              forProvider:
                type: object
                x-kubernetes-preserve-unknown-fields: true
                properties:
                  size:
                    type: integer
                    default: %d
                    minimum: 0
                  ratio:
                    type: number
                    default: 0.5
                  port:
                    x-kubernetes-int-or-string: true
                    default: "http"
                  tags:
                    type: object
                    additionalProperties:
                      type: string
                  mode:
                    type: string
                    enum: ["a", "b", "yes", "no", "null"]
                    default: "no"
          status:
            type: object
            x-kubernetes-preserve-unknown-fields: true
`, idx, idx, plural, idx, idx)
	case g == "apiextensions.k8s.io" && k == "CustomResourceDefinition":
		return fmt.Sprintf(`spec:
  group: example.org
  names:
    kind: Old%d
    plural: %s
  scope: Namespaced
  version: v1beta1
  validation:
    openAPIV3Schema:
      type: object
      properties:
        spec:
          type: object
          properties:
            replicas:
              type: integer
              default: %d
`, idx, plural, idx)
	case g == "apiextensions.crossplane.io" && k == "CompositeResourceDefinition":
		return fmt.Sprintf(`spec:
  group: example.org
  names:
    kind: XThing%d
    plural: %s
  claimNames:
    kind: Thing%dClaim
    plural: thing%dclaims
  connectionSecretKeys: [username, password]
  defaultCompositionRef:
    name: default-%d
  versions:
  - name: v1
    served: true
    referenceable: true
    schema:
      openAPIV3Schema:
        type: object
        properties:
          spec:
            type: object
            properties:
              parameters:
                type: object
                properties:
                  storageGB:
                    type: integer
                    default: %d
`, idx, plural, idx, idx, idx, 10+idx)
	case g == "apiextensions.crossplane.io" && k == "Composition":
		return fmt.Sprintf(`spec:
  compositeTypeRef:
    apiVersion: example.org/v1
    kind: XThing%d
  mode: Pipeline
  pipeline:
  - step: patch-and-transform
    functionRef:
      name: function-patch-and-transform
    input:
      apiVersion: pt.fn.crossplane.io/v1beta1
      kind: Resources
      resources:
      - name: bucket
        base:
          apiVersion: s3.aws.example.org/v1beta1
          kind: Bucket
          spec:
            forProvider:
              region: us-east-%d
              count: %d
              enabled: true
              ratio: 1.5
              nothing: null
        patches:
        - type: FromCompositeFieldPath
          fromFieldPath: spec.parameters.storageGB
          toFieldPath: spec.forProvider.size
  - step: ready
    functionRef:
      name: function-auto-ready
`, idx, idx, idx)
	case g == "admissionregistration.k8s.io" && (k == "MutatingWebhookConfiguration" || k == "ValidatingWebhookConfiguration"):
		return fmt.Sprintf(`webhooks:
- name: hook%d.example.org
  admissionReviewVersions: [v1]
  sideEffects: None
  failurePolicy: Fail
  timeoutSeconds: %d
  clientConfig:
    service:
      name: provider-svc
      namespace: crossplane-system
      path: /validate
      port: 9443
  rules:
  - apiGroups: [example.org]
    apiVersions: ["*"]
    operations: [CREATE, UPDATE]
    resources: ["%s"]
    scope: "*"
`, idx, 1+idx%30, plural)
	}
	return ""
}

// c15Stream renders the package.yaml stream; starts[i] is the offset of the
// first byte of document i, ends[i] the offset just behind its last byte.
func c15Stream(docs []c15Doc, shape int) (stream []byte, starts, ends []int) {
	var sb bytes.Buffer
	sep := "---\n"
	if shape&16 == 16 {
		sep = "--- # next document\n" // blanks and a comment may follow the separator
	}
	if shape&1 == 1 {
		sb.WriteString(sep)
	}
	if shape&4 == 4 {
		sb.WriteString("# package stream\n")
	}
	for i, d := range docs {
		if i > 0 {
			sb.WriteString(sep)
			if shape&8 == 8 {
				sb.WriteString("---\n") // a doubled separator: no document in between
			}
			if shape&32 == 32 && i == 1 {
				sb.WriteString("\n  \n# nothing here\n---   \n") // a document of blank lines and a comment
			}
			if shape&64 == 64 && i == 1 {
				sb.WriteString("---oops\n") // not a separator: a syntax error of the YAML reader
			}
		}
		starts = append(starts, sb.Len())
		sb.WriteString(c15RenderDoc(d, i))
		ends = append(ends, sb.Len())
	}
	if shape&64 == 64 && len(docs) < 2 {
		sb.WriteString("---oops\n")
	}
	if shape&2 == 2 {
		sb.WriteString("---\n")
	}
	return sb.Bytes(), starts, ends
}

// c15Tokenize classifies the lines of a rendered stream for the model (Xp.C15.Line),
// independently of how the stream was rendered: a line starting with "---" is a separator
// (blanks / a comment behind it) or a malformed one; a blank line; a comment; otherwise a
// payload line of the document whose byte range holds it. Run-length encoded.
func c15Tokenize(stream []byte, starts, ends []int) []string {
	var toks []string
	off := 0
	for _, line := range strings.SplitAfter(string(stream), "\n") {
		if line == "" {
			continue
		}
		l := strings.TrimSuffix(line, "\n")
		tok := ""
		switch t := strings.TrimLeft(l, " \t"); {
		case strings.HasPrefix(l, "---"):
			rest := strings.TrimSpace(l[3:])
			switch {
			case l == "---":
				tok = "sep"
			case rest == "" || rest[0] == '#':
				tok = "sepc" // blanks or a comment behind the separator
			default:
				tok = "badsep"
			}
		case t == "":
			tok = "blank"
		case strings.HasPrefix(t, "#"):
			tok = "comment"
		default:
			tok = "b9999"
			for i := range starts {
				if starts[i] <= off && off < ends[i] {
					tok = fmt.Sprintf("b%d", i)
				}
			}
		}
		off += len(line)
		toks = append(toks, tok)
	}
	out := []string{}
	for i := 0; i < len(toks); {
		j := i
		for j < len(toks) && toks[j] == toks[i] {
			j++
		}
		if j-i > 1 {
			out = append(out, fmt.Sprintf("%sx%d", toks[i], j-i))
		} else {
			out = append(out, toks[i])
		}
		i = j
	}
	return out
}

// ---------------------------------------------------------------- images

var errC15Src = errors.New("verif: injected source read failure")
var errC15Fs = errors.New("verif: injected cache filesystem failure")
var errC15Fetch = errors.New("verif: injected registry failure")

type c15TarFile struct {
	Name string
	Data []byte
}

// c15Tar returns the tarball and, for each file, the offset of its content.
func c15Tar(files []c15TarFile) ([]byte, map[string]int) {
	var buf bytes.Buffer
	tw := tar.NewWriter(&buf)
	offs := map[string]int{}
	for _, f := range files {
		_ = tw.WriteHeader(&tar.Header{Name: f.Name, Mode: 0o644, Size: int64(len(f.Data))})
		offs[f.Name] = buf.Len()
		_, _ = tw.Write(f.Data)
	}
	_ = tw.Close()
	return buf.Bytes(), offs
}

// c15Layer wraps a real tarball layer; the Nth call of Uncompressed can be made
// to fail after a number of bytes.
type c15Layer struct {
	ggcrv1.Layer
	raw       []byte
	calls     int
	faultCall int // 0: never
	faultAt   int // tar offset after which the read fails
}

type c15FaultReader struct {
	data []byte
	pos  int
	stop int
}

func (r *c15FaultReader) Read(p []byte) (int, error) {
	if r.pos >= r.stop {
		return 0, errC15Src
	}
	n := copy(p, r.data[r.pos:r.stop])
	r.pos += n
	return n, nil
}

func (r *c15FaultReader) Close() error { return nil }

func (l *c15Layer) Uncompressed() (io.ReadCloser, error) {
	l.calls++
	if l.faultCall != 0 && l.calls == l.faultCall {
		stop := l.faultAt
		if stop > len(l.raw) {
			stop = len(l.raw)
		}
		return &c15FaultReader{data: l.raw, stop: stop}, nil
	}
	return l.Layer.Uncompressed()
}

func c15NewLayer(raw []byte) *c15Layer {
	l, err := tarball.LayerFromOpener(func() (io.ReadCloser, error) {
		return io.NopCloser(bytes.NewReader(raw)), nil
	})
	if err != nil {
		panic(err)
	}
	return &c15Layer{Layer: l, raw: raw}
}

type c15Image struct {
	img    ggcrv1.Image
	layers []*c15Layer
	src    *c15Layer // layer whose package.yaml is the effective stream (nil: none)
	off    int       // offset of the stream inside src's tarball
}

// c15Decoy: a package stream that must never be installed (it sits in layers / files that
// ImageBackend.Init has to pass over). It is a package of the revision's own type that would
// pass every gate.
func c15Decoy(ptype string) []byte {
	kind, ov, ok := "Provider", "apiextensions.k8s.io/v1", "CustomResourceDefinition"
	switch ptype {
	case "configuration":
		kind, ov, ok = "Configuration", "apiextensions.crossplane.io/v1", "Composition"
	case "function":
		kind = "Function"
	}
	return []byte("apiVersion: meta.pkg.crossplane.io/v1\nkind: " + kind + "\nmetadata:\n  name: decoy\n---\napiVersion: " + ov + "\nkind: " + ok + "\nmetadata:\n  name: decoys.example.org\n")
}

// c15ShapeLayers: the layers of an image layout. The image is built from this description
// (c15BuildImage) and the model is told its Ann/Files/N part.
func c15ShapeLayers(shape string) []c15LayerDesc {
	sf := xpkg.StreamFile
	junk := c15FileDesc{"README.md", "junk"}
	real, decoy := c15FileDesc{sf, "real"}, c15FileDesc{sf, "decoy"}
	base := map[string]string{"io.crossplane.xpkg": "base"}
	// files whose names look like the stream file's but are not it
	alikes := []c15FileDesc{{"." + sf, "decoy"}, {".." + sf, "decoy"}, {sf + ".bak", "decoy"}, {"dir/" + sf, "decoy"}, {"../" + sf, "decoy"}}
	var ls []c15LayerDesc
	switch shape {
	case "annotated":
		ls = []c15LayerDesc{{Files: []c15FileDesc{junk, real}, annot: base, src: true}}
	case "multi":
		ls = []c15LayerDesc{
			{Files: []c15FileDesc{decoy}},
			{Files: []c15FileDesc{real, junk}, annot: base, src: true},
			{Files: []c15FileDesc{{"examples.yaml", "junk"}, decoy}, annot: map[string]string{"io.crossplane.xpkg": "examples"}},
		}
	case "plain":
		ls = []c15LayerDesc{{Files: []c15FileDesc{real}, src: true}}
	case "plain2":
		ls = []c15LayerDesc{
			{Files: []c15FileDesc{junk, decoy}},
			{Files: []c15FileDesc{{"bin/provider", "junk"}, real}, src: true},
		}
	case "twoann":
		ls = []c15LayerDesc{{Files: []c15FileDesc{real}, annot: base}, {Files: []c15FileDesc{decoy}, annot: base}}
	case "nofile":
		ls = []c15LayerDesc{{Files: []c15FileDesc{junk}, annot: base}}
	case "baselast":
		// the annotated base layer is the LAST descriptor, behind unannotated layers that carry a package.yaml too
		ls = []c15LayerDesc{
			{Files: []c15FileDesc{decoy}},
			{Files: []c15FileDesc{junk, decoy}, annot: map[string]string{"org.example.other": "base"}},
			{Files: []c15FileDesc{junk, real}, annot: base, src: true},
		}
	case "otherann":
		// a layer annotated io.crossplane.xpkg with a value other than "base" is no base layer: flattened filesystem
		ls = []c15LayerDesc{
			{Files: []c15FileDesc{decoy}, annot: map[string]string{"io.crossplane.xpkg": "upbound"}},
			{Files: []c15FileDesc{real, junk}, src: true},
		}
	case "alike":
		// the annotated base layer holds look-alike siblings IN FRONT of package.yaml
		ls = []c15LayerDesc{{Files: append(append([]c15FileDesc{junk}, alikes...), real), annot: base, src: true}}
	case "alike2":
		// plain image: an upper layer adds look-alikes (the flattened file system lists upper layers first)
		ls = []c15LayerDesc{
			{Files: []c15FileDesc{real}, src: true},
			{Files: append([]c15FileDesc{}, alikes[:4]...)},
		}
	case "alikeonly":
		// nothing but look-alikes: there is no package.yaml, the image must be rejected
		ls = []c15LayerDesc{{Files: append([]c15FileDesc{junk}, alikes...), annot: base}}
	case "many", "toomany":
		// 256 layers are allowed, 257 are not
		n := 255
		if shape == "toomany" {
			n = 256
		}
		ls = []c15LayerDesc{{N: n, Files: []c15FileDesc{}}, {Files: []c15FileDesc{real}, annot: base, src: true}}
	default:
		panic("c15: unknown image shape " + shape)
	}
	for i := range ls {
		switch v, ok := ls[i].annot["io.crossplane.xpkg"]; {
		case !ok:
			ls[i].Ann = ""
		case v == "base":
			ls[i].Ann = "base"
		default:
			ls[i].Ann = "other"
		}
		if ls[i].N == 0 {
			ls[i].N = 1
		}
	}
	return ls
}

func c15BuildImage(shape, ptype string, stream []byte) c15Image {
	var out c15Image
	var adds []mutate.Addendum
	k := 0
	for _, d := range c15ShapeLayers(shape) {
		for i := 0; i < d.N; i++ {
			var files []c15TarFile
			for _, f := range d.Files {
				switch f.C {
				case "real":
					files = append(files, c15TarFile{f.Name, stream})
				case "decoy":
					files = append(files, c15TarFile{f.Name, c15Decoy(ptype)})
				default:
					files = append(files, c15TarFile{f.Name, []byte("# not a package stream: " + f.Name + "\n")})
				}
			}
			if len(files) == 0 {
				// layers must differ (distinct digests)
				files = []c15TarFile{{fmt.Sprintf("junk/%03d", k), []byte{byte(k)}}}
			}
			raw, offs := c15Tar(files)
			l := c15NewLayer(raw)
			if d.src {
				out.src, out.off = l, offs[xpkg.StreamFile]
			}
			adds = append(adds, mutate.Addendum{Layer: l, Annotations: d.annot})
			k++
		}
	}
	img, err := mutate.Append(empty.Image, adds...)
	if err != nil {
		panic(err)
	}
	out.img = img
	for _, a := range adds {
		out.layers = append(out.layers, a.Layer.(*c15Layer))
	}
	return out
}

func c15ImgInitFails(shape string) bool {
	return shape == "twoann" || shape == "nofile" || shape == "toomany" || shape == "alikeonly"
}

type c15Fetcher struct {
	img ggcrv1.Image
	err error
}

func (f *c15Fetcher) Fetch(context.Context, name.Reference, ...string) (ggcrv1.Image, error) {
	return f.img, f.err
}

func (f *c15Fetcher) Head(context.Context, name.Reference, ...string) (*ggcrv1.Descriptor, error) {
	return nil, errors.New("not used")
}

func (f *c15Fetcher) Tags(context.Context, name.Reference, ...string) ([]string, error) {
	return nil, errors.New("not used")
}

// ---------------------------------------------------------------- faulty cache filesystem

// c15FsPlan: the faults of one reconcile, applied to the cache paths of its revision.
type c15FsPlan struct {
	createFail bool
	writeN     int // -1: none
	closeFail  bool
	openFail   bool
	removeFail bool
	onRemove   func(name string)
}

// c15Fs wraps the cache file system shared by all reconcilers of a world.
type c15Fs struct {
	afero.Fs
	mu    sync.Mutex
	plans map[string]*c15FsPlan
}

func (fs *c15Fs) plan(name string) *c15FsPlan {
	fs.mu.Lock()
	defer fs.mu.Unlock()
	return fs.plans[name]
}

func (fs *c15Fs) setPlan(p *c15FsPlan, paths ...string) {
	fs.mu.Lock()
	defer fs.mu.Unlock()
	for _, n := range paths {
		if p == nil {
			delete(fs.plans, n)
		} else {
			fs.plans[n] = p
		}
	}
}

type c15File struct {
	afero.File
	plan    *c15FsPlan
	written int
}

func (f *c15File) Write(p []byte) (int, error) {
	if f.plan != nil && f.plan.writeN >= 0 && f.written+len(p) > f.plan.writeN {
		k := f.plan.writeN - f.written
		if k < 0 {
			k = 0
		}
		n, _ := f.File.Write(p[:k])
		f.written += n
		return n, errC15Fs
	}
	n, err := f.File.Write(p)
	f.written += n
	return n, err
}

func (f *c15File) Close() error {
	err := f.File.Close()
	if f.plan != nil && f.plan.closeFail {
		return errC15Fs
	}
	return err
}

func (fs *c15Fs) Create(name string) (afero.File, error) {
	pl := fs.plan(name)
	if pl != nil && pl.createFail {
		return nil, errC15Fs
	}
	f, err := fs.Fs.Create(name)
	if err != nil {
		return nil, err
	}
	return &c15File{File: f, plan: pl}, nil
}

func (fs *c15Fs) Open(name string) (afero.File, error) {
	if pl := fs.plan(name); pl != nil && pl.openFail {
		return nil, errC15Fs
	}
	return fs.Fs.Open(name)
}

func (fs *c15Fs) Remove(name string) error {
	pl := fs.plan(name)
	if pl != nil && pl.onRemove != nil {
		pl.onRemove(name)
	}
	if pl != nil && pl.removeFail {
		return errC15Fs
	}
	return fs.Fs.Remove(name)
}

const c15CacheDir = "/cache"

// c15Classify reads a cache file back: absent | nohdr | hdr | full | other.
func c15Classify(fs afero.Fs, path string, stream []byte) string {
	fi, err := fs.Stat(path)
	if err != nil || fi.IsDir() {
		return "absent"
	}
	f, err := fs.Open(path)
	if err != nil {
		return "absent"
	}
	defer f.Close()
	zr, err := gzip.NewReader(f)
	if err != nil {
		return "nohdr"
	}
	b, err := io.ReadAll(zr)
	if err != nil {
		return "hdr"
	}
	if bytes.Equal(b, stream) {
		return "full"
	}
	return "other"
}

func c15Gzip(b []byte) []byte {
	var buf bytes.Buffer
	w, _ := gzip.NewWriterLevel(&buf, gzip.BestSpeed)
	_, _ = w.Write(b)
	_ = w.Close()
	return buf.Bytes()
}

// ---------------------------------------------------------------- world

type c15RevW struct {
	idx          int
	rev          c15Rev
	stream       []byte
	starts, ends []int
	image        c15Image
	refName      string      // fully qualified name of the image reference of rev.Source ("" if it does not parse)
	declared     [][2]string // gvk,name of the object documents (when the whole stream parses)
	declaredUID  []string
	declaredPad  []string
	declaredJSON []string // the objects of an independent parse of the declared stream, as JSON
	parses       bool
	gk           schema.GroupKind
	newRev       func() pkgv1.PackageRevision
	// verification bookkeeping of the harness (independent of the Verified condition): since the
	// revision object was last (re-)created or lost its status, did a signature reconcile run
	// while NO ImageConfig with a verification section matched the source (skipping is legitimate),
	// or did the validator accept the image under a best-match config?
	verifEarned bool
}

// c15Ctl: the controllers of one package type, built once per world exactly as
// revision.Setup*Revision / signature.Setup*Revision build them once per process.
type c15Ctl struct {
	ptype string
	rec   *revision.Reconciler
	sig   *signature.Reconciler
	est   *c15Establisher
	fetch *c15RegFetcher
	val   *c15Validator
	deps  *c15Deps
	recList *c15RecList
	plans *c15Plans // faults of the revision reconciler's API calls, per revision name
	sigPl *c15Plans // faults of the signature reconciler's API calls, per revision name
}

type c15World struct {
	scn     *c15Scn
	st      *Store
	mem     afero.Fs
	fs      *c15Fs               // fault injector around mem, shared by every reconciler
	cache   *xpkg.FsPackageCache // ONE cache instance (one mutex), as in the package manager
	revs    []*c15RevW
	metaS   *runtime.Scheme
	objS    *runtime.Scheme
	ctl     map[string]*c15Ctl
	mu      sync.Mutex
	cfgs    []c15Cfg // the ImageConfigs currently in the cluster
	listErr string   // listing ImageConfigs fails with this error class (signature steps only; never concurrent)
	touch   int
}

func c15Scheme() *runtime.Scheme {
	s := runtime.NewScheme()
	if err := pkgv1.AddToScheme(s); err != nil {
		panic(err)
	}
	if err := pkgv1beta1.AddToScheme(s); err != nil {
		panic(err)
	}
	return s
}

func c15NewRevFn(ptype string) (func() pkgv1.PackageRevision, schema.GroupKind, parser.Linter) {
	switch ptype {
	case "configuration":
		return func() pkgv1.PackageRevision { return &pkgv1.ConfigurationRevision{} }, pkgv1.ConfigurationRevisionGroupVersionKind.GroupKind(), xpkg.NewConfigurationLinter()
	case "function":
		return func() pkgv1.PackageRevision { return &pkgv1.FunctionRevision{} }, pkgv1.FunctionRevisionGroupVersionKind.GroupKind(), xpkg.NewFunctionLinter()
	default:
		return func() pkgv1.PackageRevision { return &pkgv1.ProviderRevision{} }, pkgv1.ProviderRevisionGroupVersionKind.GroupKind(), xpkg.NewProviderLinter()
	}
}

func c15CachePath(id string) string { return xpkg.BuildPath(c15CacheDir, id, ".gz") }

var c15OracleMeta, c15OracleObj *runtime.Scheme

// c15OracleSchemes: the schemes of the harness's own parser (the payload oracle), built once.
func c15OracleSchemes() (*runtime.Scheme, *runtime.Scheme) {
	if c15OracleMeta == nil {
		c15OracleMeta, _ = xpkg.BuildMetaScheme()
		c15OracleObj, _ = xpkg.BuildObjectScheme()
	}
	return c15OracleMeta, c15OracleObj
}

const c15Registry = "xpkg.example.org"

func c15RefName(source string) string {
	ref, err := name.ParseReference(source, name.WithDefaultRegistry(c15Registry))
	if err != nil {
		return ""
	}
	return ref.Name()
}

func c15NewWorld(scn *c15Scn) *c15World {
	w := &c15World{scn: scn, st: NewStore(c15Scheme()), mem: afero.NewMemMapFs(), ctl: map[string]*c15Ctl{}}
	w.fs = &c15Fs{Fs: w.mem, plans: map[string]*c15FsPlan{}}
	w.cache = xpkg.NewFsPackageCache(c15CacheDir, w.fs)
	w.metaS, _ = xpkg.BuildMetaScheme()
	w.objS, _ = xpkg.BuildObjectScheme()
	for i := range scn.Revs {
		r := &scn.Revs[i]
		r.Key = c15CachePath(r.Name)
		r.SKey = c15CachePath(r.Source)
		r.Layers = c15ShapeLayers(r.Img)
		rw := &c15RevW{idx: i, rev: *r}
		rw.stream, rw.starts, rw.ends = c15Stream(r.Docs, r.Shape)
		r.Lines = c15Tokenize(rw.stream, rw.starts, rw.ends)
		rw.image = c15BuildImage(r.Img, r.PType, rw.stream)
		rw.refName = c15RefName(r.Source)
		rw.newRev, rw.gk, _ = c15NewRevFn(r.PType)
		rw.parses = r.Shape&64 == 0 // a malformed separator line: the YAML reader gives up
		for j, d := range r.Docs {
			switch d.T {
			case "bad":
				rw.parses = false
			case "obj":
				rw.declared = append(rw.declared, [2]string{d.GVK, d.Name})
				rw.declaredUID = append(rw.declaredUID, fmt.Sprint(j))
				pad := ""
				if d.Pad > 0 {
					pad = c15PadString(d.Pad, j)
				}
				rw.declaredPad = append(rw.declaredPad, pad)
			}
		}
		// the revision object
		w.st.Seed(w.newRevObject(rw, pkgv1.PackageRevisionActive))
		// cache pre-state
		id := r.Name
		if r.Never {
			id = r.Source
		}
		p := c15CachePath(id)
		gz := c15Gzip(rw.stream)
		switch r.Pre {
		case "warm":
			_ = afero.WriteFile(w.mem, p, gz, 0o644)
		case "nohdr":
			_ = afero.WriteFile(w.mem, p, gz[:5], 0o644)
		case "hdr":
			cut := 10 + (len(gz)-10)/2
			_ = afero.WriteFile(w.mem, p, gz[:cut], 0o644)
		}
		w.revs = append(w.revs, rw)
	}
	w.setConfigs(scn.Cfgs)
	return w
}

// oracleJSON: the objects of an independent parse (a parser of the harness's own, on the declared
// bytes) as JSON; computed when first needed.
func (rw *c15RevW) oracleJSON() []string {
	if rw.declaredJSON == nil && rw.parses {
		rw.declaredJSON = []string{}
		ms, os := c15OracleSchemes()
		if pkg, err := parser.New(ms, os).Parse(context.Background(), io.NopCloser(bytes.NewReader(rw.stream))); err == nil {
			for _, o := range pkg.GetObjects() {
				rw.declaredJSON = append(rw.declaredJSON, mustJSON(o))
			}
		}
	}
	return rw.declaredJSON
}

func (w *c15World) newRevObject(rw *c15RevW, desired pkgv1.PackageRevisionDesiredState) pkgv1.PackageRevision {
	r := rw.rev
	pr := rw.newRev()
	pr.SetName(r.Name)
	pr.SetSource(r.Source)
	pr.SetDesiredState(desired)
	pr.SetRevision(1)
	if r.Never {
		pp := corev1.PullNever
		pr.SetPackagePullPolicy(&pp)
	}
	if r.Ignore {
		t := true
		pr.SetIgnoreCrossplaneConstraints(&t)
	}
	if r.Resolve {
		f := false
		pr.SetSkipDependencyResolution(&f)
	}
	return pr
}

// setConfigs replaces the ImageConfigs of the cluster.
func (w *c15World) setConfigs(cfgs []c15Cfg) {
	gk := schema.GroupKind{Group: pkgv1beta1.Group, Kind: pkgv1beta1.ImageConfigKind}
	for _, u := range w.st.OfKind(gk) {
		w.st.Remove(gk, "", u.GetName())
	}
	for _, c := range cfgs {
		ic := &pkgv1beta1.ImageConfig{ObjectMeta: metav1.ObjectMeta{Name: c.Name}}
		for _, p := range c.Prefixes {
			ic.Spec.MatchImages = append(ic.Spec.MatchImages, pkgv1beta1.ImageMatch{Type: pkgv1beta1.Prefix, Prefix: p})
		}
		if c.Pull {
			ic.Spec.Registry = &pkgv1beta1.RegistryConfig{Authentication: &pkgv1beta1.RegistryAuthentication{PullSecretRef: corev1.LocalObjectReference{Name: "pull-" + c.Name}}}
		}
		switch c.Verif {
		case "cosign":
			ic.Spec.Verification = &pkgv1beta1.ImageVerification{Provider: pkgv1beta1.ImageVerificationProviderCosign,
				Cosign: &pkgv1beta1.CosignVerificationConfig{Authorities: []pkgv1beta1.CosignAuthority{{Name: c.Name}}}}
		case "nocosign":
			ic.Spec.Verification = &pkgv1beta1.ImageVerification{Provider: pkgv1beta1.ImageVerificationProviderCosign}
		}
		w.st.Seed(ic)
	}
	w.mu.Lock()
	w.cfgs = append([]c15Cfg{}, cfgs...)
	w.mu.Unlock()
}

func (w *c15World) cfgByName(n string) (c15Cfg, bool) {
	w.mu.Lock()
	defer w.mu.Unlock()
	for _, c := range w.cfgs {
		if c.Name == n {
			return c, true
		}
	}
	return c15Cfg{}, false
}

// c15VerifMatches: the lengths of the prefixes under which ImageConfigs with a
// verification section match the source, per config name (an oracle written against
// the documentation of ImageConfig, not the code: "the longest matching prefix wins").
func (w *c15World) verifMatches(source string) map[string]int {
	w.mu.Lock()
	defer w.mu.Unlock()
	out := map[string]int{}
	for _, c := range w.cfgs {
		if c.Verif == "none" || c.Verif == "" {
			continue
		}
		for _, p := range c.Prefixes {
			if p != "" && strings.HasPrefix(source, p) && len(p) > out[c.Name] {
				out[c.Name] = len(p)
			}
		}
	}
	return out
}

// ctlFor returns the long-lived controllers of a package type, building them on first use.
func (w *c15World) ctlFor(ptype string) *c15Ctl {
	if c, ok := w.ctl[ptype]; ok {
		return c
	}
	newRev, gk, linter := c15NewRevFn(ptype)
	c := &c15Ctl{ptype: ptype, plans: &c15Plans{m: map[string]*c15ClPlan{}}, sigPl: &c15Plans{m: map[string]*c15ClPlan{}}}
	c.fetch = &c15RegFetcher{imgs: map[string]*c15RevW{}, fail: map[string]bool{}}
	for _, rw := range w.revs {
		if rw.rev.PType == ptype && rw.refName != "" {
			c.fetch.imgs[rw.refName] = rw
		}
	}
	c.est = &c15Establisher{w: w, gk: gk, fail: map[string]string{}, rel: map[string]string{}, calls: map[string]*c15EstCall{}, parks: map[string]*c15Park{}}
	c.deps = &c15Deps{fail: map[string]string{}}
	c.recList = &c15RecList{Client: w.st}
	c.val = &c15Validator{w: w}
	flags := &feature.Flags{}
	if w.scn.Feature {
		flags.Enable(features.EnableAlphaSignatureVerification)
	}
	cl := &c15Client{Client: w.st, w: w, plans: c.plans, role: "main", gk: gk}
	fin := &c15Client{Client: w.st, w: w, plans: c.plans, role: "fin", gk: gk}
	c.rec = revision.NewReconciler(&rfake.Manager{Client: cl},
		revision.WithClientApplicator(resource.ClientApplicator{Client: cl, Applicator: resource.NewAPIUpdatingApplicator(cl)}),
		revision.WithCache(w.cache),
		revision.WithNewPackageRevisionFn(newRev),
		revision.WithFinalizer(resource.NewAPIFinalizer(fin, "revision.pkg.crossplane.io")),
		revision.WithDependencyManager(c.deps),
		revision.WithEstablisher(c.est),
		revision.WithParser(parser.New(w.metaS, w.objS)),
		revision.WithParserBackend(revision.NewImageBackend(c.fetch, revision.WithDefaultRegistry(c15Registry))),
		revision.WithConfigStore(xpkg.NewImageConfigStore(c.recList, "crossplane-system")),
		revision.WithLinter(linter),
		revision.WithVersioner(version.VerifNewWithVersion(c15XPVersion)),
		revision.WithFeatureFlags(flags),
	)
	scl := &c15Client{Client: w.st, w: w, plans: c.sigPl, role: "main", gk: gk}
	c.sig = signature.NewReconciler(scl,
		signature.WithNewPackageRevisionFn(newRev),
		signature.WithConfigStore(xpkg.NewImageConfigStore(&c15ListClient{Client: w.st, w: w}, "crossplane-system")),
		signature.WithValidator(c.val),
		signature.WithDefaultRegistry(c15Registry),
	)
	w.ctl[ptype] = c
	return c
}

// ---------------------------------------------------------------- fakes around the reconcilers (long-lived, keyed by revision)

// c15RegFetcher is the registry: it resolves an image by its reference.
type c15RegFetcher struct {
	mu   sync.Mutex
	imgs map[string]*c15RevW // fully qualified reference -> revision carrying the image
	fail map[string]bool     // references whose fetch currently fails
}

func (f *c15RegFetcher) setFail(ref string, v bool) {
	f.mu.Lock()
	defer f.mu.Unlock()
	if v {
		f.fail[ref] = true
	} else {
		delete(f.fail, ref)
	}
}

func (f *c15RegFetcher) Fetch(_ context.Context, ref name.Reference, _ ...string) (ggcrv1.Image, error) {
	f.mu.Lock()
	defer f.mu.Unlock()
	if f.fail[ref.Name()] {
		return nil, errC15Fetch
	}
	rw, ok := f.imgs[ref.Name()]
	if !ok {
		return nil, fmt.Errorf("verif: no image %s in the registry", ref.Name())
	}
	return rw.image.img, nil
}

func (f *c15RegFetcher) Head(context.Context, name.Reference, ...string) (*ggcrv1.Descriptor, error) {
	return nil, errors.New("not used")
}

func (f *c15RegFetcher) Tags(context.Context, name.Reference, ...string) ([]string, error) {
	return nil, errors.New("not used")
}

type c15EstCall struct {
	control      bool
	failed       bool
	objs         []runtime.Object
	snap         []string // JSON of the objects as they arrived
	liveExists   bool
	liveVerified bool
	sameUID      bool
}

// c15Establisher records what reaches Establish. Like the real APIEstablisher it
// labels and owns the objects it is handed IN PLACE.
type c15Establisher struct {
	mu    sync.Mutex
	w     *c15World
	gk    schema.GroupKind
	fail  map[string]string // revision name -> error class ("plain" for a plain error)
	rel   map[string]string // revision name -> error class of ReleaseObjects
	calls map[string]*c15EstCall
	parks map[string]*c15Park
}

func (e *c15Establisher) armRel(rev, class string) {
	e.mu.Lock()
	defer e.mu.Unlock()
	if class == "" {
		delete(e.rel, rev)
	} else {
		e.rel[rev] = class
	}
}

func (e *c15Establisher) arm(rev, class string) {
	e.mu.Lock()
	defer e.mu.Unlock()
	delete(e.calls, rev)
	if class == "" {
		delete(e.fail, rev)
	} else {
		e.fail[rev] = class
	}
}

func (e *c15Establisher) take(rev string) *c15EstCall {
	e.mu.Lock()
	defer e.mu.Unlock()
	c := e.calls[rev]
	delete(e.calls, rev)
	delete(e.fail, rev)
	return c
}

func c15CondTrue(u map[string]any, typ string) bool {
	st, _ := u["status"].(map[string]any)
	conds, _ := st["conditions"].([]any)
	for _, c := range conds {
		cm, _ := c.(map[string]any)
		if cm["type"] == typ && cm["status"] == "True" {
			return true
		}
	}
	return false
}

func (e *c15Establisher) Establish(_ context.Context, objs []runtime.Object, parent pkgv1.PackageRevision, control bool) ([]xpv1.TypedReference, error) {
	call := &c15EstCall{control: control, objs: objs}
	for _, o := range objs {
		call.snap = append(call.snap, mustJSON(o))
	}
	// the live revision at this instant
	if u := e.w.st.Peek(e.gk, "", parent.GetName()); u != nil {
		call.liveExists = true
		call.liveVerified = c15CondTrue(u.Object, string(pkgv1.TypeVerified))
		call.sameUID = u.GetUID() == parent.GetUID()
	}
	e.mu.Lock()
	class := e.fail[parent.GetName()]
	call.failed = class != ""
	e.calls[parent.GetName()] = call
	park := e.parks[parent.GetName()]
	e.mu.Unlock()
	park.here("est")
	refs := make([]xpv1.TypedReference, 0, len(objs))
	for _, o := range objs {
		gvk := o.GetObjectKind().GroupVersionKind()
		n := ""
		if a, err := meta.Accessor(o); err == nil {
			n = a.GetName()
			// what APIEstablisher.addLabels / validate do to the objects they are handed
			l := a.GetLabels()
			if l == nil {
				l = map[string]string{}
			}
			l["pkg.crossplane.io/revision"] = parent.GetName()
			a.SetLabels(l)
			a.SetOwnerReferences(append(a.GetOwnerReferences(), metav1.OwnerReference{APIVersion: "pkg.crossplane.io/v1", Kind: e.gk.Kind, Name: parent.GetName(), UID: parent.GetUID()}))
		}
		refs = append(refs, xpv1.TypedReference{APIVersion: gvk.GroupVersion().String(), Kind: gvk.Kind, Name: n})
	}
	if class != "" {
		return nil, c15Err(class, parent.GetName())
	}
	return refs, nil
}

func (e *c15Establisher) ReleaseObjects(_ context.Context, pr pkgv1.PackageRevision) error {
	e.mu.Lock()
	class := e.rel[pr.GetName()]
	e.mu.Unlock()
	if class != "" {
		return c15Err(class, pr.GetName())
	}
	return nil
}

// c15Deps is the DependencyManager (long-lived, per controller): Resolve fails for a
// revision while a step says so.
type c15Deps struct {
	mu   sync.Mutex
	fail map[string]string // revision name -> error class
}

func (d *c15Deps) arm(rev, class string) {
	d.mu.Lock()
	defer d.mu.Unlock()
	if class == "" {
		delete(d.fail, rev)
	} else {
		d.fail[rev] = class
	}
}

func (d *c15Deps) Resolve(_ context.Context, _ pkgmetav1.Pkg, pr pkgv1.PackageRevision) (int, int, int, error) {
	d.mu.Lock()
	class := d.fail[pr.GetName()]
	d.mu.Unlock()
	if class != "" {
		return 0, 0, 0, c15Err(class, pr.GetName())
	}
	return 0, 0, 0, nil
}
func (*c15Deps) RemoveSelf(context.Context, pkgv1.PackageRevision) error { return nil }

// c15RecList is the client of the revision reconciler's ImageConfigStore: listing
// ImageConfigs fails while a step says so.
type c15RecList struct {
	client.Client
	mu   sync.Mutex
	fail string
}

func (c *c15RecList) setFail(v string) {
	c.mu.Lock()
	c.fail = v
	c.mu.Unlock()
}

func (c *c15RecList) List(ctx context.Context, l client.ObjectList, opts ...client.ListOption) error {
	c.mu.Lock()
	bad := c.fail
	c.mu.Unlock()
	if bad != "" {
		return c15ListErr(bad)
	}
	return c.Client.List(ctx, l, opts...)
}

// c15ListErr: the error classes a List of ImageConfigs can return.
func c15ListErr(class string) error {
	gk := schema.GroupKind{Group: "pkg.crossplane.io", Kind: "ImageConfig"}
	gr := schema.GroupResource{Group: "pkg.crossplane.io", Resource: "imageconfigs"}
	switch class {
	case "nokind":
		// the API is not (yet) served: what a RESTMapper answers, e.g. while CRDs are being established
		return &meta.NoKindMatchError{GroupKind: gk, SearchedVersions: []string{"v1beta1"}}
	case "noresource":
		return &meta.NoResourceMatchError{PartialResource: gr.WithVersion("v1beta1")}
	case "timeout":
		return kerrors.NewTimeoutError("verif: injected timeout", 1)
	case "unavailable":
		return kerrors.NewServiceUnavailable("verif: injected")
	case "forbidden":
		return kerrors.NewForbidden(gr, "", errors.New("verif: injected"))
	}
	return errors.New("verif: injected config store failure")
}

// c15Validator is the cosign validator: its verdict is a property of (image, config).
type c15Validator struct {
	mu    sync.Mutex
	w     *c15World
	calls []c15ValCall
}

type c15ValCall struct {
	ref string
	cfg string
	ok  bool
}

func (v *c15Validator) Validate(_ context.Context, ref name.Reference, vc *pkgv1beta1.ImageVerification, _ ...string) error {
	call := c15ValCall{ref: ref.Name()}
	if vc != nil && vc.Cosign != nil && len(vc.Cosign.Authorities) > 0 {
		call.cfg = vc.Cosign.Authorities[0].Name
	}
	if c, ok := v.w.cfgByName(call.cfg); ok {
		call.ok = c.OK
	}
	v.mu.Lock()
	v.calls = append(v.calls, call)
	v.mu.Unlock()
	if call.ok {
		return nil
	}
	return errors.New("verif: signature does not verify")
}

func (v *c15Validator) drain() []c15ValCall {
	v.mu.Lock()
	defer v.mu.Unlock()
	out := v.calls
	v.calls = nil
	return out
}

// c15Err builds an API error of a class.
type c15NetErr struct{}

func (c15NetErr) Error() string   { return "verif: injected transport error: connection reset by peer" }
func (c15NetErr) Timeout() bool   { return false }
func (c15NetErr) Temporary() bool { return true }

func c15Err(class, n string) error {
	gr := schema.GroupResource{Group: "pkg.crossplane.io", Resource: "revisions"}
	switch class {
	case "conflict":
		return kerrors.NewConflict(gr, n, errors.New("verif: injected conflict"))
	case "notfound":
		return kerrors.NewNotFound(gr, n)
	case "alreadyexists":
		return kerrors.NewAlreadyExists(gr, n)
	case "invalid":
		return kerrors.NewInvalid(schema.GroupKind{Group: gr.Group, Kind: "Revision"}, n, nil)
	case "forbidden":
		return kerrors.NewForbidden(gr, n, errors.New("verif: injected"))
	case "temporary":
		return c15NetErr{}
	case "deadline":
		return context.DeadlineExceeded
	}
	return errors.New("verif: injected failure")
}

// c15ClPlan: outcomes of the API calls one reconcile makes on its revision.
// c15Park parks a reconcile's goroutine at an API call until the scheduler releases it.
type c15Park struct {
	at      string // upd | est
	parked  chan struct{}
	release chan struct{}
	once    sync.Once
}

func (p *c15Park) here(at string) {
	if p == nil || p.at != at {
		return
	}
	first := false
	p.once.Do(func() { first = true })
	if first {
		close(p.parked)
		<-p.release
	}
}

type c15ClPlan struct {
	park    *c15Park
	getE    string
	upd     string
	fin     string
	stat    string
	env     string
	envDone bool
	rw      *c15RevW
}

type c15Plans struct {
	mu sync.Mutex
	m  map[string]*c15ClPlan
}

func (p *c15Plans) get(n string) *c15ClPlan {
	p.mu.Lock()
	defer p.mu.Unlock()
	return p.m[n]
}

func (p *c15Plans) set(n string, pl *c15ClPlan) {
	p.mu.Lock()
	defer p.mu.Unlock()
	if pl == nil {
		delete(p.m, n)
	} else {
		p.m[n] = pl
	}
}

// c15Client is the manager's client as a long-lived reconciler sees it: simstore
// plus, per revision, the error classes of the current step and the third party
// that writes to the revision right after the reconciler read it.
type c15Client struct {
	client.Client
	w     *c15World
	plans *c15Plans
	role  string // main | fin (the client handed to the APIFinalizer)
	gk    schema.GroupKind
}

func (c *c15Client) planFor(obj client.Object) *c15ClPlan {
	if _, ok := obj.(pkgv1.PackageRevision); !ok {
		return nil
	}
	return c.plans.get(obj.GetName())
}

func (c *c15Client) Get(ctx context.Context, key client.ObjectKey, obj client.Object, opts ...client.GetOption) error {
	if _, ok := obj.(pkgv1.PackageRevision); !ok {
		return c.Client.Get(ctx, key, obj, opts...)
	}
	p := c.plans.get(key.Name)
	if p != nil {
		switch p.getE {
		case "miss":
			return kerrors.NewNotFound(schema.GroupResource{Group: c.gk.Group, Resource: strings.ToLower(c.gk.Kind)}, key.Name)
		case "":
		default:
			return c15Err("temporary", key.Name)
		}
	}
	err := c.Client.Get(ctx, key, obj, opts...)
	if err == nil && p != nil && p.env != "" {
		c.plans.mu.Lock()
		fire := !p.envDone
		p.envDone = true
		c.plans.mu.Unlock()
		if fire {
			c.w.thirdParty(p.rw, p.env)
		}
	}
	return err
}

func (c *c15Client) Update(ctx context.Context, obj client.Object, opts ...client.UpdateOption) error {
	if p := c.planFor(obj); p != nil {
		if c.role == "main" {
			// the request is on its way to the API server: meanwhile another worker runs
			p.park.here("upd")
		}
		class := p.upd
		if c.role == "fin" {
			class = p.fin
		}
		if class != "" {
			return c15Err(class, obj.GetName())
		}
	}
	return c.Client.Update(ctx, obj, opts...)
}

type c15StatusWriter struct {
	client.SubResourceWriter
	c *c15Client
}

func (s c15StatusWriter) Update(ctx context.Context, obj client.Object, opts ...client.SubResourceUpdateOption) error {
	if p := s.c.planFor(obj); p != nil && p.stat != "" {
		return c15Err(p.stat, obj.GetName())
	}
	return s.SubResourceWriter.Update(ctx, obj, opts...)
}

func (c *c15Client) Status() client.SubResourceWriter {
	return c15StatusWriter{SubResourceWriter: c.Client.Status(), c: c}
}

// c15ListClient makes listing ImageConfigs fail while the world says so.
type c15ListClient struct {
	client.Client
	w *c15World
}

func (c *c15ListClient) List(ctx context.Context, l client.ObjectList, opts ...client.ListOption) error {
	c.w.mu.Lock()
	bad := c.w.listErr
	c.w.mu.Unlock()
	if bad != "" {
		return c15ListErr(bad)
	}
	return c.Client.List(ctx, l, opts...)
}

// thirdParty: another client writes to the revision (see c15Faults.Env).
func (w *c15World) thirdParty(rw *c15RevW, env string) {
	n := rw.rev.Name
	w.mu.Lock()
	w.touch++
	t := w.touch
	w.mu.Unlock()
	// every write of the third party moves the resourceVersion (managed fields, a label)
	touch := func(u *unstructured.Unstructured) {
		l := u.GetLabels()
		if l == nil {
			l = map[string]string{}
		}
		l["verif/touched"] = fmt.Sprint(t)
		u.SetLabels(l)
	}
	switch env {
	case "touch":
		w.st.Mutate(rw.gk, "", n, touch)
	case "wipe":
		rw.verifEarned = false
		w.st.Mutate(rw.gk, "", n, func(u *unstructured.Unstructured) { delete(u.Object, "status"); touch(u) })
	case "flip":
		w.st.Mutate(rw.gk, "", n, func(u *unstructured.Unstructured) {
			touch(u)
			cur, _, _ := unstructured.NestedString(u.Object, "spec", "desiredState")
			next := string(pkgv1.PackageRevisionActive)
			if cur == next {
				next = string(pkgv1.PackageRevisionInactive)
			}
			_ = unstructured.SetNestedField(u.Object, next, "spec", "desiredState")
		})
	case "recreate":
		rw.verifEarned = false
		desired := pkgv1.PackageRevisionActive
		if u := w.st.Peek(rw.gk, "", n); u != nil {
			if cur, _, _ := unstructured.NestedString(u.Object, "spec", "desiredState"); cur == string(pkgv1.PackageRevisionInactive) {
				desired = pkgv1.PackageRevisionInactive
			}
		}
		w.st.Remove(rw.gk, "", n)
		w.st.Seed(w.newRevObject(rw, desired))
	}
}

func c15ResClass(res reconcile.Result, err error) string {
	if err == nil {
		if res.Requeue {
			return "requeue"
		}
		return "ok"
	}
	m := err.Error()
	for _, p := range [][2]string{
		{"cannot get package contents from cache", "err:getcache"},
		{"cannot remove package contents from cache", "err:delcache"},
		{"failed to get pre-cached package with pull policy Never", "err:pullnever"},
		{"cannot initialize parser backend", "err:init"},
		{"cannot parse package contents", "err:parse"},
		{"linting package contents failed", "err:lint"},
		{"cannot install package with multiple meta types", "err:onemeta"},
		{"cannot update package revision object metadata", "err:updmeta"},
		{"cannot establish control of object", "err:establish"},
		{"cannot get image pull secret from config", "err:pullcfg"},
		{"cannot deactivate package revision", "err:deactivate"},
		{"cannot resolve package dependencies", "err:deps"},
		{"cannot get image verification config", "err:sigcfg"},
		{"signature verification failed", "err:sigfail"},
		{"cannot get package revision", "err:get"},
		{"cannot add package revision finalizer", "err:finalizer"},
		{"cannot remove package revision finalizer", "err:finalizer"},
		{"cannot update package revision status", "err:status"},
		{"cannot update status with", "err:status"},
		{"cannot update package status", "err:status"},
	} {
		if strings.HasPrefix(m, p[0]) {
			return p[1]
		}
	}
	return "err:other:" + m
}

func c15CondNames(pr pkgv1.PackageRevision) (healthy, verified string) {
	healthy, verified = "none", "none"
	h := pr.GetCondition(pkgv1.TypeHealthy)
	switch h.Reason {
	case pkgv1.ReasonHealthy:
		healthy = "healthy"
	case pkgv1.ReasonUnhealthy:
		healthy = "unhealthy"
	case pkgv1.ReasonUnknownHealth:
		healthy = "unknown"
	case pkgv1.ReasonAwaitingVerification:
		healthy = "awaiting"
	case "":
	default:
		healthy = "other:" + string(h.Reason)
	}
	v := pr.GetCondition(pkgv1.TypeVerified)
	switch v.Reason {
	case pkgv1.ReasonVerificationSucceeded:
		verified = "succeeded"
	case pkgv1.ReasonVerificationSkipped:
		verified = "skipped"
	case pkgv1.ReasonVerificationFailed:
		verified = "failed"
	case pkgv1.ReasonVerificationIncomplete:
		verified = "incomplete"
	case "":
	default:
		verified = "other:" + string(v.Reason)
	}
	return
}

// ---------------------------------------------------------------- one step

func (w *c15World) getRev(rw *c15RevW) (pkgv1.PackageRevision, bool) {
	pr := rw.newRev()
	if err := w.st.Get(context.Background(), types.NamespacedName{Name: rw.rev.Name}, pr); err != nil {
		return nil, false
	}
	return pr, true
}

func (w *c15World) cacheObs() []string {
	out := make([]string, len(w.revs))
	for i, rw := range w.revs {
		id := rw.rev.Name
		if rw.rev.Never {
			id = rw.rev.Source
		}
		out[i] = c15Classify(w.mem, c15CachePath(id), rw.stream)
	}
	return out
}

func (w *c15World) stepObs(rw *c15RevW, res string) c15StepObs {
	o := c15StepObs{Res: res, Cache: w.cacheObs(), Healthy: "none", Verified: "none"}
	if pr, ok := w.getRev(rw); ok {
		o.Exists = true
		o.Healthy, o.Verified = c15CondNames(pr)
		o.Refs = len(pr.GetObjects())
	}
	return o
}

func (w *c15World) runCfg(s *c15Step) (c15StepObs, []Mon) {
	w.setConfigs(s.Cfgs)
	o := c15StepObs{Res: "ok", Cache: w.cacheObs(), Healthy: "none", Verified: "none"}
	if len(w.revs) > 0 {
		// the Lean driver reports the state of revision 0 for a step that is about no revision
		o = w.stepObs(w.revs[0], "ok")
	}
	return o, nil
}

func (w *c15World) runSig(s *c15Step) (c15StepObs, []Mon) {
	rw := w.revs[s.R]
	ctl := w.ctlFor(rw.rev.PType)
	var mons []Mon
	before, existed := w.getRev(rw)
	ctl.val.drain()
	ctl.sigPl.set(rw.rev.Name, &c15ClPlan{getE: s.F.GetE, stat: s.F.Stat, rw: rw})
	w.mu.Lock()
	w.listErr = s.SigCfg
	w.mu.Unlock()
	var res reconcile.Result
	var err error
	if p := Guard(func() {
		res, err = ctl.sig.Reconcile(context.Background(), reconcile.Request{NamespacedName: types.NamespacedName{Name: rw.rev.Name}})
	}); p != "" {
		mons = append(mons, Mon{Sig: "C15:panic", Why: p})
	}
	ctl.sigPl.set(rw.rev.Name, nil)
	w.mu.Lock()
	w.listErr = ""
	w.mu.Unlock()
	calls := ctl.val.drain()
	o := w.stepObs(rw, c15ResClass(res, err))
	if existed && s.F.GetE == "" && before.GetDesiredState() == pkgv1.PackageRevisionActive {
		if len(w.verifMatches(rw.rev.Source)) == 0 && s.SigCfg == "" {
			rw.verifEarned = true // nothing asks for verification: skipping is what the clause allows
		}
		for _, c := range calls {
			if c.ref == rw.refName && c.ok {
				rw.verifEarned = true
			}
		}
	}
	// Direct monitor: Verified becomes True only when no ImageConfig with a verification section
	// matches the image, or the validator accepted the image under the best (longest-prefix) match.
	if existed {
		_, vb := c15CondNames(before)
		wasTrue := vb == "succeeded" || vb == "skipped"
		isTrue := o.Verified == "succeeded" || o.Verified == "skipped"
		if isTrue && !wasTrue {
			matches := w.verifMatches(rw.rev.Source)
			best := 0
			for _, l := range matches {
				if l > best {
					best = l
				}
			}
			why := ""
			switch {
			case s.SigCfg != "":
				why = "the ImageConfigs could not be listed (" + s.SigCfg + ")"
			case o.Verified == "skipped" && len(matches) > 0:
				why = fmt.Sprintf("verification skipped although ImageConfigs with a verification section match %s: %v", rw.rev.Source, matches)
			case o.Verified == "succeeded":
				okWay := false
				for _, c := range calls {
					if c.ref == rw.refName && c.ok && matches[c.cfg] == best && best > 0 {
						okWay = true
					}
				}
				if !okWay {
					why = fmt.Sprintf("VerificationSucceeded for %s, but the validator calls of this reconcile were %+v and the matching configs (prefix lengths) are %v", rw.refName, calls, matches)
				}
			}
			if why != "" {
				mons = append(mons, Mon{Sig: "C15:verified-without-validation", Why: "Verified became True (" + o.Verified + "): " + why})
			}
		}
	}
	return o, mons
}

// c15Pending is a prepared revision reconcile (environment applied, faults armed).
type c15Pending struct {
	s              *c15Step
	rw             *c15RevW
	ctl            *c15Ctl
	before         pkgv1.PackageRevision
	existed        bool
	verifiedBefore bool
	deleting       bool
	refsBefore     int
	cacheBefore    []string
	left           string
	paths          []string
	res            reconcile.Result
	err            error
	panicked       string
}

func (w *c15World) runRec(s *c15Step) (c15StepObs, []Mon) {
	p := w.prepRec(s)
	p.exec()
	return w.finishRec(p)
}

// runRecPair runs two prepared reconciles of different revisions concurrently.
func (w *c15World) runRecPair(s1, s2 *c15Step) (c15StepObs, []Mon, c15StepObs, []Mon) {
	p1 := w.prepRec(s1)
	p2 := w.prepRec(s2)
	if s1.Nest == "upd" || s1.Nest == "est" {
		// deterministic interleaving: the first reconcile is parked inside its metadata Update /
		// inside Establish, the second one runs from start to end, then the first one goes on.
		// (If the first one returns before it gets there, the second one simply runs after it.)
		park := &c15Park{at: s1.Nest, parked: make(chan struct{}), release: make(chan struct{})}
		if pl := p1.ctl.plans.get(p1.rw.rev.Name); pl != nil {
			pl.park = park
		}
		p1.ctl.est.mu.Lock()
		p1.ctl.est.parks[p1.rw.rev.Name] = park
		p1.ctl.est.mu.Unlock()
		done := make(chan struct{})
		go func() { defer close(done); p1.exec() }()
		select {
		case <-park.parked:
			p2.exec()
			close(park.release)
			<-done
		case <-done:
			p2.exec()
		}
		p1.ctl.est.mu.Lock()
		delete(p1.ctl.est.parks, p1.rw.rev.Name)
		p1.ctl.est.mu.Unlock()
	} else {
		var wg sync.WaitGroup
		wg.Add(2)
		go func() { defer wg.Done(); p1.exec() }()
		go func() { defer wg.Done(); p2.exec() }()
		wg.Wait()
	}
	o1, m1 := w.finishRec(p1)
	o2, m2 := w.finishRec(p2)
	// (finishRec runs after both reconciles: both observations show the world after the pair)
	return o1, m1, o2, m2
}

func (p *c15Pending) exec() {
	p.panicked = Guard(func() {
		p.res, p.err = p.ctl.rec.Reconcile(context.Background(), reconcile.Request{NamespacedName: types.NamespacedName{Name: p.rw.rev.Name}})
	})
}

func (w *c15World) prepRec(s *c15Step) *c15Pending {
	rw := w.revs[s.R]
	ctl := w.ctlFor(rw.rev.PType)
	ctx := context.Background()

	// environment: desired state / deletion
	if pr, ok := w.getRev(rw); ok {
		want := pkgv1.PackageRevisionInactive
		if s.Active {
			want = pkgv1.PackageRevisionActive
		}
		if pr.GetDesiredState() != want {
			pr.SetDesiredState(want)
			_ = w.st.Update(ctx, pr)
		}
		if s.Deleted {
			_ = w.st.Delete(ctx, pr)
		}
	}
	before, existed := w.getRev(rw)
	verifiedBefore := false
	deleting := false
	refsBefore := 0
	if existed {
		verifiedBefore = before.GetCondition(pkgv1.TypeVerified).Status == corev1.ConditionTrue
		deleting = meta2WasDeleted(before)
		refsBefore = len(before.GetObjects())
	}
	cacheBefore := w.cacheObs()

	// source faults: find out which Uncompressed() call feeds the parser (dry run), then arm it
	img := rw.image
	for _, l := range img.layers {
		l.calls, l.faultCall = 0, 0
	}
	if s.F.Read >= 0 && img.src != nil {
		dry := revision.NewImageBackend(&c15Fetcher{img: img.img}, revision.WithDefaultRegistry(c15Registry))
		if pr, ok := w.getRev(rw); ok {
			if rc, err := dry.Init(ctx, revision.PackageRevision(pr)); err == nil {
				_, _ = io.Copy(io.Discard, rc)
				_ = rc.Close()
			}
		}
		n := img.src.calls
		for _, l := range img.layers {
			l.calls = 0
		}
		img.src.faultCall = n
		img.src.faultAt = img.off + s.F.Read
	}
	if rw.refName != "" {
		ctl.fetch.setFail(rw.refName, s.F.Init)
	}

	// cache faults, on the cache paths of this revision
	pd := &c15Pending{s: s, rw: rw, ctl: ctl, before: before, existed: existed, verifiedBefore: verifiedBefore, deleting: deleting, refsBefore: refsBefore, cacheBefore: cacheBefore, left: "none"}
	plan := &c15FsPlan{writeN: -1, createFail: s.F.Store == "create", closeFail: s.F.Store == "close", openFail: s.F.Get, removeFail: s.F.Del}
	if s.F.Store == "write" {
		plan.writeN = s.F.StoreN
	}
	plan.onRemove = func(p string) {
		c := c15Classify(w.mem, p, rw.stream)
		if c == "absent" {
			c = "none"
		}
		pd.left = c
	}
	pd.paths = []string{c15CachePath(rw.rev.Name), c15CachePath(rw.rev.Source)}
	w.fs.setPlan(plan, pd.paths...)

	// API faults and the third party, for this revision
	estClass := ""
	if s.F.Est {
		estClass = s.F.EstC
		if estClass == "" {
			estClass = "plain"
		}
	}
	ctl.est.arm(rw.rev.Name, estClass)
	ctl.est.armRel(rw.rev.Name, s.F.Rel)
	ctl.deps.arm(rw.rev.Name, s.F.Dep)
	if s.F.PullCfg != "" {
		// (never in a step that runs concurrently with another one: the store is the controller's)
		ctl.recList.setFail(s.F.PullCfg)
	}
	ctl.plans.set(rw.rev.Name, &c15ClPlan{getE: s.F.GetE, upd: s.F.Upd, fin: s.F.Fin, stat: s.F.Stat, env: s.F.Env, rw: rw})
	return pd
}

func (w *c15World) finishRec(p *c15Pending) (c15StepObs, []Mon) {
	s, rw := p.s, p.rw
	before, existed, verifiedBefore, deleting, refsBefore, cacheBefore, left := p.before, p.existed, p.verifiedBefore, p.deleting, p.refsBefore, p.cacheBefore, p.left
	w.fs.setPlan(nil, p.paths...)
	p.ctl.plans.set(rw.rev.Name, nil)
	if rw.refName != "" {
		p.ctl.fetch.setFail(rw.refName, false)
	}
	est := p.ctl.est.take(rw.rev.Name)
	p.ctl.est.armRel(rw.rev.Name, "")
	p.ctl.deps.arm(rw.rev.Name, "")
	if s.F.PullCfg != "" {
		p.ctl.recList.setFail("")
	}
	var mons []Mon
	if p.panicked != "" {
		mons = append(mons, Mon{Sig: "C15:panic", Why: p.panicked})
	}
	o := w.stepObs(rw, c15ResClass(p.res, p.err))
	if est != nil {
		o.Control = est.control
		o.Est = [][2]string{}
		for _, ob := range est.objs {
			gvk := ob.GetObjectKind().GroupVersionKind()
			n := ""
			if a, e := meta.Accessor(ob); e == nil {
				n = a.GetName()
			}
			o.Est = append(o.Est, [2]string{c15GVKString(gvk), n})
		}
	}

	// oracle for the model
	s.O = c15Oracle{Left: left}
	if s.F.Store != "" && s.F.Read < 0 && rw.parses && o.Res == "err:parse" {
		s.O.Seen = true
	}

	// ------------------------------------------------------------ direct monitors
	// (1) whatever reaches Establish is exactly what the image declares
	if est != nil {
		why := ""
		if !rw.parses {
			why = "Establish reached although the declared stream does not parse"
		} else if len(est.objs) != len(rw.declared) {
			why = fmt.Sprintf("Establish got %d objects, the image declares %d", len(est.objs), len(rw.declared))
		} else {
			for i, ob := range est.objs {
				gvk := ob.GetObjectKind().GroupVersionKind()
				a, e := meta.Accessor(ob)
				if e != nil {
					why = "object without metadata"
					break
				}
				if c15GVKString(gvk) != rw.declared[i][0] || a.GetName() != rw.declared[i][1] || a.GetAnnotations()["verif/uid"] != rw.declaredUID[i] || a.GetAnnotations()["verif/pad"] != rw.declaredPad[i] {
					why = fmt.Sprintf("object %d is %s %s uid %s, declared %s %s uid %s", i, c15GVKString(gvk), a.GetName(), a.GetAnnotations()["verif/uid"], rw.declared[i][0], rw.declared[i][1], rw.declaredUID[i])
					break
				}
			}
		}
		if why != "" {
			sig := "C15:installed-not-declared"
			if rw.parses && len(est.objs) < len(rw.declared) {
				sig = "C15:installed-subset"
			}
			if s.F.Store != "" && s.F.Read < 0 && cacheBefore[s.R] == "absent" {
				// pulled from the image while the cache write failed: the write error was overlooked (D18)
				sig = "C15:installed-truncated-on-store-failure"
			}
			mons = append(mons, Mon{Sig: sig, Why: why + fmt.Sprintf(" (revision %s, cache before: %v)", rw.rev.Name, cacheBefore)})
		} else if want := rw.oracleJSON(); len(want) == len(est.snap) {
			// ... down to the last field: compared with an independent parse of the declared bytes
			for i := range est.snap {
				if est.snap[i] != want[i] {
					mons = append(mons, Mon{Sig: "C15:installed-payload-differs", Why: fmt.Sprintf("object %d (%s %s) reached Establish as %s, the image declares %s", i, rw.declared[i][0], rw.declared[i][1], c15Short(est.snap[i], want[i]), c15Short(want[i], est.snap[i]))})
					break
				}
			}
		}
		// an image the specification calls invalid (two base layers, no package.yaml, more than 256 layers) declares nothing
		if c15ImgInitFails(rw.rev.Img) && cacheBefore[s.R] == "absent" {
			mons = append(mons, Mon{Sig: "C15:installed-from-invalid-image", Why: fmt.Sprintf("a package was established from an image of layout %q, which has no well-defined package stream / must be rejected", rw.rev.Img)})
		}
		// (3) gates
		mons = append(mons, c15GateMonitors(w, rw, s, est)...)
		// (3b) a collaborator in front of Establish failed, yet Establish was reached
		if s.F.PullCfg != "" || (s.F.Rel != "" && !s.Active) || (s.F.Dep != "" && rw.rev.Resolve) {
			mons = append(mons, Mon{Sig: "C15:established-despite-failed-step", Why: fmt.Sprintf("Establish was reached although pullCfg=%q / ReleaseObjects=%q (active=%v) / Resolve=%q (resolve=%v) failed", s.F.PullCfg, s.F.Rel, s.Active, s.F.Dep, rw.rev.Resolve)})
		}
	}
	// (2) a cache entry that reads back cleanly is the complete stream of its revision
	for i, c := range o.Cache {
		if c == "other" {
			mons = append(mons, Mon{Sig: "C15:cache-entry-incomplete", Why: fmt.Sprintf("after a %s step of revision %d the cache entry of revision %d (%s) reads back cleanly but is not its image's package stream (before: %s)", o.Res, s.R, i, w.revs[i].rev.Name, cacheBefore[i])})
		}
	}
	// (4) verification gate also guards every side effect
	if w.scn.Feature && existed && !deleting && !verifiedBefore {
		changed := o.Cache[s.R] != cacheBefore[s.R]
		if est != nil || changed || (o.Healthy == "healthy" && s.F.Env == "") {
			mons = append(mons, Mon{Sig: "C15:unverified-progress", Why: fmt.Sprintf("verification enabled and Verified!=True, yet establish=%v cacheChanged=%v healthy=%s", est != nil, changed, o.Healthy)})
		}
	}
	// (5) Healthy=True only after a successful Establish, or on the inactive-with-references shortcut
	if o.Healthy == "healthy" && existed {
		hb, _ := c15CondNames(before)
		if hb != "healthy" && est == nil && !(!s.Active && refsBefore > 0) {
			mons = append(mons, Mon{Sig: "C15:healthy-without-establish", Why: "revision became Healthy in a reconcile that established nothing"})
		}
		if hb != "healthy" && est != nil && est.failed {
			mons = append(mons, Mon{Sig: "C15:healthy-despite-establish-failure", Why: fmt.Sprintf("Establish failed (%s), yet the revision became Healthy", s.F.EstC)})
		}
	}
	// (6) the object references the revision records are the declared objects, and change only by a successful Establish
	if pr, ok := w.getRev(rw); ok && s.F.Env == "" {
		refs := pr.GetObjects()
		if est != nil && !est.failed && o.Res == "ok" && o.Healthy == "healthy" && rw.parses {
			want := map[string]int{}
			for _, d := range rw.declared {
				g, v, k := c15SplitGVK(d[0])
				want[c15APIVersion(g, v)+"|"+k+"|"+d[1]]++
			}
			for _, r := range refs {
				want[r.APIVersion+"|"+r.Kind+"|"+r.Name]--
			}
			for k, v := range want {
				if v != 0 {
					mons = append(mons, Mon{Sig: "C15:refs-not-declared", Why: fmt.Sprintf("after a successful Establish status.objectRefs differs from the declared objects at %s (declared minus recorded: %+d)", k, v)})
					break
				}
			}
		} else if existed && (est == nil || est.failed) && len(refs) != refsBefore {
			mons = append(mons, Mon{Sig: "C15:refs-changed-without-establish", Why: fmt.Sprintf("status.objectRefs went from %d to %d entries in a reconcile without a successful Establish", refsBefore, len(refs))})
		}
	}
	return o, mons
}

func c15Short(a, b string) string {
	// the neighbourhood of the first difference
	i := 0
	for i < len(a) && i < len(b) && a[i] == b[i] {
		i++
	}
	lo, hi := i-40, i+60
	if lo < 0 {
		lo = 0
	}
	if hi > len(a) {
		hi = len(a)
	}
	return "…" + a[lo:hi] + "…"
}

func meta2WasDeleted(pr pkgv1.PackageRevision) bool {
	return pr.GetDeletionTimestamp() != nil && !pr.GetDeletionTimestamp().IsZero()
}

func c15GVKString(gvk schema.GroupVersionKind) string {
	return gvk.Group + "/" + gvk.Version + "/" + gvk.Kind
}

// c15SpecAllowed is contributing/specifications/xpkg.md, "package.yaml
// Contents", written down by hand (NOT derived from the linters).
func c15SpecAllowed(ptype string, gvk string) bool {
	g, _, k := c15SplitGVK(gvk)
	switch ptype {
	case "provider":
		return (g == "apiextensions.k8s.io" && k == "CustomResourceDefinition") ||
			(g == "admissionregistration.k8s.io" && (k == "MutatingWebhookConfiguration" || k == "ValidatingWebhookConfiguration"))
	case "configuration":
		return g == "apiextensions.crossplane.io" && (k == "CompositeResourceDefinition" || k == "Composition")
	case "function":
		return g == "apiextensions.k8s.io" && k == "CustomResourceDefinition"
	}
	return false
}

func c15MetaKind(ptype string) string {
	switch ptype {
	case "configuration":
		return "Configuration"
	case "function":
		return "Function"
	}
	return "Provider"
}

func c15GateMonitors(w *c15World, rw *c15RevW, s *c15Step, est *c15EstCall) []Mon {
	var mons []Mon
	var metas []c15Doc
	for _, d := range rw.rev.Docs {
		if d.T == "meta" {
			metas = append(metas, d)
		}
	}
	if len(metas) != 1 {
		mons = append(mons, Mon{Sig: "C15:installed-without-one-meta", Why: fmt.Sprintf("established a package with %d meta objects", len(metas))})
	} else {
		g, _, k := c15SplitGVK(metas[0].GVK)
		if g != "meta.pkg.crossplane.io" || k != c15MetaKind(rw.rev.PType) {
			mons = append(mons, Mon{Sig: "C15:installed-wrong-meta-type", Why: fmt.Sprintf("a %s revision established a package whose meta is %s", rw.rev.PType, metas[0].GVK)})
		}
		switch metas[0].Con {
		case "bad":
			mons = append(mons, Mon{Sig: "C15:installed-bad-constraints", Why: "established a package with malformed Crossplane version constraints"})
		case "out":
			if !rw.rev.Ignore {
				mons = append(mons, Mon{Sig: "C15:installed-incompatible-version", Why: "established a package whose Crossplane constraints exclude the running version, without ignoreCrossplaneConstraints"})
			}
		}
	}
	for _, d := range rw.rev.Docs {
		if d.T == "obj" && !c15SpecAllowed(rw.rev.PType, d.GVK) {
			sig := "C15:installed-disallowed-kind"
			if rw.rev.PType == "function" {
				sig = "C15:function-nonCRD-installed"
			}
			mons = append(mons, Mon{Sig: sig, Why: fmt.Sprintf("a %s revision established an object of kind %s, which the package specification does not allow", rw.rev.PType, d.GVK)})
			break
		}
	}
	// the clause itself, independent of the Verified condition: verification was required and never passed
	if w.scn.Feature && !rw.verifEarned {
		mons = append(mons, Mon{Sig: "C15:installed-verification-never-passed", Why: fmt.Sprintf("signature verification enabled; since revision %s was created / lost its status no signature reconcile ran while no verifying ImageConfig matched %s, and the validator never accepted the image - yet the package was established", rw.rev.Name, rw.rev.Source)})
	}
	// the verification gate is judged on the LIVE revision at the instant Establish is called
	if w.scn.Feature && !(est.liveExists && est.liveVerified) {
		mons = append(mons, Mon{Sig: "C15:installed-unverified", Why: fmt.Sprintf("signature verification enabled, yet the package was established while the live revision (exists=%v, same uid as the one reconciled=%v) has Verified!=True", est.liveExists, est.sameUID)})
	}
	return mons
}

func c15Run(scn *c15Scn) (c15Obs, []Mon) {
	w := c15NewWorld(scn)
	obs := c15Obs{Steps: []c15StepObs{}}
	var mons []Mon
	for i := 0; i < len(scn.Steps); i++ {
		s := &scn.Steps[i]
		if s.K == "cfg" {
			s.Par = false
			o, m := w.runCfg(s)
			obs.Steps = append(obs.Steps, o)
			mons = append(mons, m...)
			continue
		}
		if s.R < 0 || s.R >= len(w.revs) {
			continue
		}
		if s.Par && s.K == "rec" && i+1 < len(scn.Steps) {
			if n := &scn.Steps[i+1]; n.K == "rec" && n.R != s.R && n.R >= 0 && n.R < len(w.revs) && !n.Par {
				o1, m1, o2, m2 := w.runRecPair(s, n)
				obs.Steps = append(obs.Steps, o1, o2)
				mons = append(append(mons, m1...), m2...)
				i++
				continue
			}
		}
		s.Par = false
		var o c15StepObs
		var m []Mon
		if s.K == "sig" {
			o, m = w.runSig(s)
		} else {
			o, m = w.runRec(s)
		}
		obs.Steps = append(obs.Steps, o)
		mons = append(mons, m...)
	}
	return obs, mons
}

func c15SortedKeys(m map[string]bool) []string {
	out := []string{}
	for k := range m {
		out = append(out, k)
	}
	sort.Strings(out)
	return out
}

//go:build verif

package main

// C04, second family: PackagedFunctionRunner connection bookkeeping — which endpoint a
// function name is sent to, re-dial when the active revision's endpoint changes, and
// garbage collection of connections of uninstalled functions — and the v1 -> v1beta1
// re-encoding (a labelled differential TEST: protobuf wire format is not modelled).

import (
	"context"
	"fmt"
	"sort"

	metav1 "k8s.io/apimachinery/pkg/apis/meta/v1"
	"k8s.io/apimachinery/pkg/runtime"
	"google.golang.org/protobuf/proto"

	fnv1 "github.com/crossplane/crossplane/apis/apiextensions/fn/proto/v1"
	fnv1beta1 "github.com/crossplane/crossplane/apis/apiextensions/fn/proto/v1beta1"
	pkgv1 "github.com/crossplane/crossplane/apis/pkg/v1"
	"github.com/crossplane/crossplane/internal/xfn"
)

type c04Rev struct {
	Name     string `json:"name"`
	Fn       string `json:"fn"`     // parent function (label)
	Active   bool   `json:"active"`
	Endpoint string `json:"endpoint"`
}

type c04ConnOp struct {
	Op   string   `json:"op"`   // "set" | "run" | "gc"
	Fns  []string `json:"fns"`  // set: installed Function objects
	Revs []c04Rev `json:"revs"` // set: FunctionRevisions (complete replacement)
	Name string   `json:"name"` // run
}

type c04ConnScn struct {
	Conn bool        `json:"conn"` // marks the family
	Ops  []c04ConnOp `json:"ops"`
}

type c04ConnStep struct {
	Target string      `json:"target"` // run: target handed out ("" on error)
	Err    bool        `json:"err"`
	Closed int         `json:"closed"` // gc: number of connections closed
	Conns  [][2]string `json:"conns"`  // cached connections after the step, sorted
}

type c04ConnObs struct {
	Steps []c04ConnStep `json:"steps"`
}

func c04ConnRun(s c04ConnScn) (c04ConnObs, []Mon) {
	sch := runtime.NewScheme()
	_ = pkgv1.AddToScheme(sch)
	st := NewStore(sch)
	r := xfn.NewPackagedFunctionRunner(st)
	obs := c04ConnObs{Steps: []c04ConnStep{}}
	var mons []Mon
	conns := func() [][2]string {
		out := [][2]string{}
		for k, v := range xfn.VerifConnTargets(r) {
			out = append(out, [2]string{k, v})
		}
		sort.Slice(out, func(i, j int) bool { return out[i][0] < out[j][0] })
		return out
	}
	var revs []c04Rev
	fns := map[string]bool{}
	for _, op := range s.Ops {
		step := c04ConnStep{}
		switch op.Op {
		case "set":
			for _, u := range st.All() {
				st.Remove(u.GroupVersionKind().GroupKind(), u.GetNamespace(), u.GetName())
			}
			fns = map[string]bool{}
			for _, f := range op.Fns {
				fns[f] = true
				st.Seed(&pkgv1.Function{ObjectMeta: metav1.ObjectMeta{Name: f}})
			}
			revs = op.Revs
			for _, rv := range op.Revs {
				fr := &pkgv1.FunctionRevision{ObjectMeta: metav1.ObjectMeta{Name: rv.Name, Labels: map[string]string{pkgv1.LabelParentPackage: rv.Fn}}}
				fr.Spec.DesiredState = pkgv1.PackageRevisionInactive
				if rv.Active {
					fr.Spec.DesiredState = pkgv1.PackageRevisionActive
				}
				fr.Status.Endpoint = rv.Endpoint
				st.Seed(fr)
			}
		case "run":
			var err error
			if p := Guard(func() { step.Target, err = xfn.VerifGetClientConn(context.Background(), r, op.Name) }); p != "" {
				mons = append(mons, Mon{Sig: "C04:panic", Why: p})
			}
			step.Err = err != nil
			// direct monitor: the connection handed out targets the endpoint of an ACTIVE revision of that function
			if err == nil {
				ok := false
				for _, rv := range revs {
					if rv.Fn == op.Name && rv.Active && rv.Endpoint == step.Target {
						ok = true
					}
				}
				if !ok {
					mons = append(mons, Mon{Sig: "C04:sent-to-non-active-endpoint", Why: fmt.Sprintf("function %s was handed a connection to %q which is not the endpoint of one of its active revisions", op.Name, step.Target)})
				}
			}
		case "gc":
			var err error
			before := xfn.VerifConnTargets(r)
			step.Closed, err = r.GarbageCollectConnectionsNow(context.Background())
			step.Err = err != nil
			after := xfn.VerifConnTargets(r)
			for k := range before {
				_, still := after[k]
				if fns[k] && !still {
					mons = append(mons, Mon{Sig: "C04:closed-installed-function-conn", Why: "garbage collection closed the connection of installed function " + k})
				}
				if !fns[k] && still {
					mons = append(mons, Mon{Sig: "C04:kept-uninstalled-function-conn", Why: "garbage collection kept the connection of uninstalled function " + k})
				}
			}
		}
		step.Conns = conns()
		obs.Steps = append(obs.Steps, step)
	}
	return obs, mons
}

func c04ConnGen(r *Rng) c04ConnScn {
	s := c04ConnScn{Conn: true}
	names := []string{"fa", "fb", "fc"}
	eps := []string{"dns:///fa:9443", "dns:///fb:9443", "dns:///alt:9443", ""}
	set := func() c04ConnOp {
		op := c04ConnOp{Op: "set", Fns: []string{}, Revs: []c04Rev{}}
		for _, n := range names {
			if r.Chance(2, 3) {
				op.Fns = append(op.Fns, n)
			}
			k := r.Intn(3)
			hasActive := false
			for i := 0; i < k; i++ {
				rv := c04Rev{Name: fmt.Sprintf("%s-%d", n, i), Fn: n, Endpoint: Pick(r, eps)}
				if !hasActive && r.Chance(2, 3) || r.Chance(1, 10) {
					rv.Active, hasActive = true, true
				}
				op.Revs = append(op.Revs, rv)
			}
		}
		return op
	}
	s.Ops = append(s.Ops, set())
	n := r.Range(2, 8)
	for i := 0; i < n; i++ {
		switch r.Intn(6) {
		case 0:
			s.Ops = append(s.Ops, set())
		case 1:
			s.Ops = append(s.Ops, c04ConnOp{Op: "gc", Fns: []string{}, Revs: []c04Rev{}})
		default:
			s.Ops = append(s.Ops, c04ConnOp{Op: "run", Name: Pick(r, append(names, "nope")), Fns: []string{}, Revs: []c04Rev{}})
		}
	}
	return s
}

// c04BetaRoundTrip is the labelled differential test of the v1 -> v1beta1 fallback: the
// request re-encoded for a v1beta1 function and decoded again must equal the original.
func c04BetaRoundTrip(req *fnv1.RunFunctionRequest) string {
	b, err := xfn.VerifToBeta(req)
	if err != nil {
		return "toBeta: " + err.Error()
	}
	wire, err := proto.Marshal(b)
	if err != nil {
		return err.Error()
	}
	back := &fnv1.RunFunctionRequest{}
	if err := proto.Unmarshal(wire, back); err != nil {
		return err.Error()
	}
	if !proto.Equal(req, back) {
		return "request changed by the v1 -> v1beta1 re-encoding"
	}
	return ""
}

func c04BetaRspRoundTrip(rsp *fnv1.RunFunctionResponse) string {
	wire, err := proto.Marshal(rsp)
	if err != nil {
		return err.Error()
	}
	b := &fnv1beta1.RunFunctionResponse{}
	if err := proto.Unmarshal(wire, b); err != nil {
		return err.Error()
	}
	back, err := xfn.VerifFromBeta(b)
	if err != nil {
		return "fromBeta: " + err.Error()
	}
	if !proto.Equal(rsp, back) {
		return "response changed by the v1beta1 -> v1 re-encoding"
	}
	return ""
}

//go:build verif

package main

// C04, second family: PackagedFunctionRunner connection bookkeeping — which endpoint a
// function name is sent to, re-dial when the active revision's endpoint changes, and
// garbage collection of connections of uninstalled functions — and the v1 -> v1beta1
// re-encoding (a labelled differential TEST: protobuf wire format is not modelled).

import (
	"context"
	"fmt"
	"net"
	"sort"
	"strings"
	"sync"
	"time"

	"google.golang.org/grpc"
	"google.golang.org/protobuf/proto"
	"google.golang.org/protobuf/types/known/durationpb"
	"google.golang.org/protobuf/types/known/structpb"
	metav1 "k8s.io/apimachinery/pkg/apis/meta/v1"
	"k8s.io/apimachinery/pkg/runtime"

	fnv1 "github.com/crossplane/crossplane/apis/apiextensions/fn/proto/v1"
	fnv1beta1 "github.com/crossplane/crossplane/apis/apiextensions/fn/proto/v1beta1"
	pkgv1 "github.com/crossplane/crossplane/apis/pkg/v1"
	"github.com/crossplane/crossplane/internal/xfn"
)

type c04Rev struct {
	Name     string `json:"name"`
	Fn       string `json:"fn"`     // parent function (label)
	Active   bool   `json:"active"`
	Endpoint string `json:"endpoint"`
}

type c04ConnOp struct {
	// "set" | "run" (getClientConn only) | "gc" | "call" (the REAL PackagedFunctionRunner.RunFunction
	// over gRPC to an in-process server listening on the loopback interface)
	Op   string   `json:"op"`
	Fns  []string `json:"fns"`  // set: installed Function objects
	Revs []c04Rev `json:"revs"` // set: FunctionRevisions (complete replacement)
	Name string   `json:"name"` // run
	// run / call / gc: the List this operation issues (FunctionRevisions / Functions) answers an error
	ListFail bool `json:"listFail,omitempty"`
}

type c04ConnScn struct {
	Conn bool        `json:"conn"` // marks the family
	Ops  []c04ConnOp `json:"ops"`
}

type c04ConnStep struct {
	Target string      `json:"target"` // run: target handed out ("" on error)
	Err    bool        `json:"err"`
	Closed int         `json:"closed"` // gc: number of connections closed
	// call: the endpoint (symbolic) of the server that received the request ("" = none) and
	// whether it arrived through the v1beta1 service
	Got  string `json:"got"`
	Beta bool   `json:"beta"`
	Conns  [][2]string `json:"conns"`  // cached connections after the step, sorted
}

type c04ConnObs struct {
	Steps []c04ConnStep `json:"steps"`
}

// ---- in-process function servers on the loopback interface ----
// "live0" and "live1" serve the v1 FunctionRunnerService, "live2" ONLY the v1beta1 one (so a
// call to it exercises BetaFallBackFunctionRunnerServiceClient's fallback and re-encoding on a
// real transport). Started once per harness process.

type c04Delivery struct {
	beta bool
	req  *fnv1.RunFunctionRequest
	rsp  *fnv1.RunFunctionResponse
}

type c04Srv struct {
	id   string
	addr string
	mu   sync.Mutex
	got  map[string]*c04Delivery // by request meta.tag
}

func (v *c04Srv) answer(req *fnv1.RunFunctionRequest, beta bool) *fnv1.RunFunctionResponse {
	ctx, _ := structpb.NewStruct(map[string]any{"server": v.id, "nested": map[string]any{"n": 1.5, "l": []any{"a", true, nil}}})
	sev := fnv1.Target_TARGET_COMPOSITE_AND_CLAIM
	msg := "m"
	rsp := &fnv1.RunFunctionResponse{
		Meta:    &fnv1.ResponseMeta{Tag: req.GetMeta().GetTag(), Ttl: durationpb.New(90 * time.Second)},
		Desired: &fnv1.State{Composite: req.GetObserved().GetComposite(), Resources: map[string]*fnv1.Resource{"r": {Resource: ctx, Ready: fnv1.Ready_READY_TRUE, ConnectionDetails: map[string][]byte{"k": []byte("v")}}}},
		Context: ctx,
		Results: []*fnv1.Result{{Severity: fnv1.Severity_SEVERITY_NORMAL, Message: "from " + v.id, Target: &sev}},
		Conditions: []*fnv1.Condition{{Type: "T", Status: fnv1.Status_STATUS_CONDITION_FALSE, Reason: "R", Message: &msg, Target: &sev}},
		Requirements: &fnv1.Requirements{ExtraResources: map[string]*fnv1.ResourceSelector{
			"a": {ApiVersion: "v1", Kind: "K", Match: &fnv1.ResourceSelector_MatchName{MatchName: "n"}},
			"b": {ApiVersion: "v1", Kind: "K", Match: &fnv1.ResourceSelector_MatchLabels{MatchLabels: &fnv1.MatchLabels{Labels: map[string]string{"x": "y"}}}}}},
	}
	v.mu.Lock()
	v.got[req.GetMeta().GetTag()] = &c04Delivery{beta: beta, req: proto.Clone(req).(*fnv1.RunFunctionRequest), rsp: proto.Clone(rsp).(*fnv1.RunFunctionResponse)}
	v.mu.Unlock()
	return rsp
}

type c04V1Handler struct {
	fnv1.UnimplementedFunctionRunnerServiceServer
	s *c04Srv
}

func (h *c04V1Handler) RunFunction(_ context.Context, req *fnv1.RunFunctionRequest) (*fnv1.RunFunctionResponse, error) {
	return h.s.answer(req, false), nil
}

type c04BetaHandler struct {
	fnv1beta1.UnimplementedFunctionRunnerServiceServer
	s *c04Srv
}

func (h *c04BetaHandler) RunFunction(_ context.Context, req *fnv1beta1.RunFunctionRequest) (*fnv1beta1.RunFunctionResponse, error) {
	// the server's own (independent) view of the request: v1beta1 wire bytes read as v1
	b, err := proto.Marshal(req)
	if err != nil {
		return nil, err
	}
	v := &fnv1.RunFunctionRequest{}
	if err := proto.Unmarshal(b, v); err != nil {
		return nil, err
	}
	rsp := h.s.answer(v, true)
	b, err = proto.Marshal(rsp)
	if err != nil {
		return nil, err
	}
	out := &fnv1beta1.RunFunctionResponse{}
	return out, proto.Unmarshal(b, out)
}

var (
	c04SrvOnce sync.Once
	c04Srvs    map[string]*c04Srv // by symbolic endpoint
	c04SrvErr  error
)

// c04Servers starts the three servers (once) and returns them by symbolic endpoint.
func c04Servers() (map[string]*c04Srv, error) {
	c04SrvOnce.Do(func() {
		c04Srvs = map[string]*c04Srv{}
		for _, id := range []string{"live0", "live1", "live2"} {
			l, err := net.Listen("tcp", "127.0.0.1:0")
			if err != nil {
				c04SrvErr = err
				return
			}
			v := &c04Srv{id: id, addr: l.Addr().String(), got: map[string]*c04Delivery{}}
			g := grpc.NewServer()
			if id == "live2" {
				fnv1beta1.RegisterFunctionRunnerServiceServer(g, &c04BetaHandler{s: v})
			} else {
				fnv1.RegisterFunctionRunnerServiceServer(g, &c04V1Handler{s: v})
			}
			go func() { _ = g.Serve(l) }()
			c04Srvs[id] = v
		}
	})
	return c04Srvs, c04SrvErr
}

var c04CallSeq int

func c04ConnRun(s c04ConnScn) (c04ConnObs, []Mon) {
	sch := runtime.NewScheme()
	_ = pkgv1.AddToScheme(sch)
	st := NewStore(sch)
	r := xfn.NewPackagedFunctionRunner(st)
	obs := c04ConnObs{Steps: []c04ConnStep{}}
	var mons []Mon
	conns := func() [][2]string {
		out := [][2]string{}
		for k, v := range xfn.VerifConnTargets(r) {
			out = append(out, [2]string{k, v})
		}
		sort.Slice(out, func(i, j int) bool { return out[i][0] < out[j][0] })
		return out
	}
	// symbolic live endpoints <-> loopback addresses
	srvs, srvErr := c04Servers()
	toAddr := func(ep string) string {
		if v, ok := srvs[ep]; ok {
			return v.addr
		}
		return ep
	}
	toSym := func(addr string) string {
		for id, v := range srvs {
			if v.addr == addr {
				return id
			}
		}
		return addr
	}
	if srvErr != nil {
		mons = append(mons, Mon{Sig: "C04:harness-cannot-listen", Why: srvErr.Error()})
	}
	connsRaw := conns
	conns = func() [][2]string {
		out := connsRaw()
		for i := range out {
			out[i][1] = toSym(out[i][1])
		}
		return out
	}
	var revs []c04Rev
	fns := map[string]bool{}
	for _, op := range s.Ops {
		step := c04ConnStep{}
		st.Plan = nil
		if op.ListFail {
			st.Plan = func(c CallInfo) Outcome {
				if c.Verb == "list" {
					return Fail
				}
				return OK
			}
		}
		switch op.Op {
		case "set":
			for _, u := range st.All() {
				st.Remove(u.GroupVersionKind().GroupKind(), u.GetNamespace(), u.GetName())
			}
			fns = map[string]bool{}
			for _, f := range op.Fns {
				fns[f] = true
				st.Seed(&pkgv1.Function{ObjectMeta: metav1.ObjectMeta{Name: f}})
			}
			revs = op.Revs
			for _, rv := range op.Revs {
				fr := &pkgv1.FunctionRevision{ObjectMeta: metav1.ObjectMeta{Name: rv.Name, Labels: map[string]string{pkgv1.LabelParentPackage: rv.Fn}}}
				fr.Spec.DesiredState = pkgv1.PackageRevisionInactive
				if rv.Active {
					fr.Spec.DesiredState = pkgv1.PackageRevisionActive
				}
				fr.Status.Endpoint = toAddr(rv.Endpoint)
				st.Seed(fr)
			}
		case "run":
			var err error
			if p := Guard(func() { step.Target, err = xfn.VerifGetClientConn(context.Background(), r, op.Name) }); p != "" {
				mons = append(mons, Mon{Sig: "C04:panic", Why: p})
			}
			step.Err = err != nil
			step.Target = toSym(step.Target)
			// direct monitor: the connection handed out targets the endpoint of an ACTIVE revision of that function
			if err == nil {
				ok := false
				for _, rv := range revs {
					if rv.Fn == op.Name && rv.Active && rv.Endpoint == step.Target {
						ok = true
					}
				}
				if !ok {
					mons = append(mons, Mon{Sig: "C04:sent-to-non-active-endpoint", Why: fmt.Sprintf("function %s was handed a connection to %q which is not the endpoint of one of its active revisions", op.Name, step.Target)})
				}
			}
		case "call":
			// the REAL RunFunction: getClientConn, then the v1 RPC with the v1beta1 fallback
			c04CallSeq++
			tag := fmt.Sprintf("call-%d", c04CallSeq)
			in, _ := structpb.NewStruct(map[string]any{"apiVersion": "in.example.org/v1", "kind": "Input", "spec": map[string]any{"v": tag, "n": 2.5, "l": []any{"x", false, nil, map[string]any{"k": "v"}}}})
			xrs, _ := structpb.NewStruct(map[string]any{"apiVersion": "example.org/v1", "kind": "XThing", "metadata": map[string]any{"name": "xr"}})
			req := &fnv1.RunFunctionRequest{
				Meta:     &fnv1.RequestMeta{Tag: tag},
				Observed: &fnv1.State{Composite: &fnv1.Resource{Resource: xrs, ConnectionDetails: map[string][]byte{"user": []byte("u")}}, Resources: map[string]*fnv1.Resource{"a": {Resource: xrs, Ready: fnv1.Ready_READY_FALSE}}},
				Desired:  &fnv1.State{Resources: map[string]*fnv1.Resource{"b": {Resource: in, Ready: fnv1.Ready_READY_TRUE}}},
				Input:    in,
				Context:  in,
				ExtraResources: map[string]*fnv1.Resources{"e": {Items: []*fnv1.Resource{{Resource: xrs}}}, "nil": nil},
				Credentials: map[string]*fnv1.Credentials{"c": {Source: &fnv1.Credentials_CredentialData{CredentialData: &fnv1.CredentialData{Data: map[string][]byte{"k": []byte("v")}}}}},
			}
			sent := proto.Clone(req).(*fnv1.RunFunctionRequest)
			// calls are sequential: whatever a server records from here on belongs to this call
			for _, v := range srvs {
				v.mu.Lock()
				v.got = map[string]*c04Delivery{}
				v.mu.Unlock()
			}
			ctx, cancel := context.WithTimeout(context.Background(), 2*time.Second)
			var rsp *fnv1.RunFunctionResponse
			var err error
			if p := Guard(func() { rsp, err = r.RunFunction(ctx, op.Name, req) }); p != "" {
				mons = append(mons, Mon{Sig: "C04:panic", Why: p})
			}
			cancel()
			step.Err = err != nil
			if t, ok := xfn.VerifConnTargets(r)[op.Name]; ok && err == nil {
				step.Target = toSym(t)
			}
			var d *c04Delivery
			for id, v := range srvs {
				v.mu.Lock()
				for t, x := range v.got {
					if d != nil {
						mons = append(mons, Mon{Sig: "C04:delivered-twice", Why: "one RunFunction call was received twice"})
					}
					d, step.Got, step.Beta = x, id, x.beta
					delete(v.got, t)
				}
				v.mu.Unlock()
			}
			// direct monitors: the request reached a server iff the call succeeded; that server is the
			// endpoint of an ACTIVE revision of the named function; request and response crossed
			// the wire (and the v1beta1 re-encoding) unchanged
			if (d != nil) != (err == nil) {
				mons = append(mons, Mon{Sig: "C04:call-outcome-inconsistent", Why: fmt.Sprintf("delivered=%v err=%v", d != nil, err)})
			}
			if d != nil {
				ok := false
				for _, rv := range revs {
					if rv.Fn == op.Name && rv.Active && rv.Endpoint == step.Got {
						ok = true
					}
				}
				if !ok {
					mons = append(mons, Mon{Sig: "C04:sent-to-non-active-endpoint", Why: fmt.Sprintf("the request for function %s was received by %s which is not the endpoint of one of its active revisions", op.Name, step.Got)})
				}
				if !proto.Equal(d.req, sent) {
					mons = append(mons, Mon{Sig: "C04:beta-reencoding-lossy", Why: fmt.Sprintf("the request received by %s (beta=%v) differs from the request sent", step.Got, d.beta)})
				}
				if err == nil && !proto.Equal(d.rsp, rsp) {
					mons = append(mons, Mon{Sig: "C04:beta-reencoding-lossy", Why: fmt.Sprintf("the response returned by RunFunction differs from the one %s (beta=%v) sent", step.Got, d.beta)})
				}
			}
		case "gc":
			var err error
			before := xfn.VerifConnTargets(r)
			step.Closed, err = r.GarbageCollectConnectionsNow(context.Background())
			step.Err = err != nil
			after := xfn.VerifConnTargets(r)
			for k := range before {
				if err != nil {
					// the List failed: nothing may have been closed
					if _, still := after[k]; !still {
						mons = append(mons, Mon{Sig: "C04:closed-conn-although-list-failed", Why: "garbage collection closed the connection of " + k + " although it could not list the installed functions"})
					}
					continue
				}
				_, still := after[k]
				if fns[k] && !still {
					mons = append(mons, Mon{Sig: "C04:closed-installed-function-conn", Why: "garbage collection closed the connection of installed function " + k})
				}
				if !fns[k] && still {
					mons = append(mons, Mon{Sig: "C04:kept-uninstalled-function-conn", Why: "garbage collection kept the connection of uninstalled function " + k})
				}
			}
		}
		step.Conns = conns()
		obs.Steps = append(obs.Steps, step)
	}
	return obs, mons
}

func c04ConnGen(r *Rng) c04ConnScn {
	s := c04ConnScn{Conn: true}
	names := []string{"fa", "fb", "fc"}
	eps := []string{"dns:///fa:9443", "dns:///fb:9443", "dns:///alt:9443", "", "live0", "live1", "live2", "live0", "live2"}
	var cur []c04Rev
	// would a call for fn return without waiting for a dead endpoint? (generator only: it decides
	// whether the op is the real RunFunction or just getClientConn)
	callable := func(fn string) bool {
		rs := append([]c04Rev{}, cur...)
		sort.Slice(rs, func(i, j int) bool { return rs[i].Name < rs[j].Name })
		for _, rv := range rs {
			if rv.Fn == fn && rv.Active {
				return rv.Endpoint == "" || strings.HasPrefix(rv.Endpoint, "live")
			}
		}
		return true
	}
	set := func() c04ConnOp {
		op := c04ConnOp{Op: "set", Fns: []string{}, Revs: []c04Rev{}}
		for _, n := range names {
			if r.Chance(2, 3) {
				op.Fns = append(op.Fns, n)
			}
			k := r.Intn(3)
			hasActive := false
			for i := 0; i < k; i++ {
				rv := c04Rev{Name: fmt.Sprintf("%s-%d", n, i), Fn: n, Endpoint: Pick(r, eps)}
				if !hasActive && r.Chance(2, 3) || r.Chance(1, 10) {
					rv.Active, hasActive = true, true
				}
				op.Revs = append(op.Revs, rv)
			}
		}
		cur = op.Revs
		return op
	}
	s.Ops = append(s.Ops, set())
	n := r.Range(2, 8)
	for i := 0; i < n; i++ {
		switch r.Intn(6) {
		case 0:
			s.Ops = append(s.Ops, set())
		case 1:
			s.Ops = append(s.Ops, c04ConnOp{Op: "gc", Fns: []string{}, Revs: []c04Rev{}})
		default:
			op := c04ConnOp{Op: "run", Name: Pick(r, append(names, "nope")), Fns: []string{}, Revs: []c04Rev{}}
			if callable(op.Name) && r.Chance(2, 3) {
				op.Op = "call"
			}
			s.Ops = append(s.Ops, op)
		}
		if last := &s.Ops[len(s.Ops)-1]; last.Op != "set" && r.Chance(1, 8) {
			last.ListFail = true
		}
	}
	return s
}

// c04BetaRoundTrip is the labelled differential test of the v1 -> v1beta1 fallback: the
// request re-encoded for a v1beta1 function and decoded again must equal the original.
func c04BetaRoundTrip(req *fnv1.RunFunctionRequest) string {
	b, err := xfn.VerifToBeta(req)
	if err != nil {
		return "toBeta: " + err.Error()
	}
	wire, err := proto.Marshal(b)
	if err != nil {
		return err.Error()
	}
	back := &fnv1.RunFunctionRequest{}
	if err := proto.Unmarshal(wire, back); err != nil {
		return err.Error()
	}
	if !proto.Equal(req, back) {
		return "request changed by the v1 -> v1beta1 re-encoding"
	}
	return ""
}

func c04BetaRspRoundTrip(rsp *fnv1.RunFunctionResponse) string {
	wire, err := proto.Marshal(rsp)
	if err != nil {
		return err.Error()
	}
	b := &fnv1beta1.RunFunctionResponse{}
	if err := proto.Unmarshal(wire, b); err != nil {
		return err.Error()
	}
	back, err := xfn.VerifFromBeta(b)
	if err != nil {
		return "fromBeta: " + err.Error()
	}
	if !proto.Equal(rsp, back) {
		return "response changed by the v1beta1 -> v1 re-encoding"
	}
	return ""
}

//go:build verif

package main

// Shared table dumper for internal/xcrd (used by C11 and C07): the machinery
// schema tables of the CURRENT tree are printed as Lean literals into
// lean/Xp/Gen/Xcrd.lean (namespace Xp.Gen) on every check run.
//
// Key-name lists (C07 + C11):   specPropsXR specPropsClaim statusProps propagateSpecProps
// Constants:                    compositionRevisionRefKey labelKey* category* xrdApiVersion xrdKind
// Full schemas (C11):           XSchema, xcrdBaseProps, xcrdSpecPropsXR, xcrdSpecPropsClaim,
//                               xcrdStatusProps, xcrdPrinterColumns{XR,Claim}, xcrdPrinterColumnNames{XR,Claim},
//                               xcrdMaxNameLength{XR,Claim}
//
// Only ADD definitions here; other properties may register further dumpers for
// file "Xcrd" from their own cNN files.

import (
	"encoding/json"
	"fmt"
	"sort"
	"strings"

	extv1 "k8s.io/apiextensions-apiserver/pkg/apis/apiextensions/v1"
	metav1 "k8s.io/apimachinery/pkg/apis/meta/v1"
	"k8s.io/apimachinery/pkg/runtime"

	v1 "github.com/crossplane/crossplane/apis/apiextensions/v1"
	"github.com/crossplane/crossplane/internal/xcrd"
)

// xschemaKnown are the JSONSchemaProps JSON keys that get a field of their own
// in the Lean structure XSchema; every other key is carried in `rest` as
// canonical JSON text and is never inspected by a model.
var xschemaKnown = map[string]bool{
	"type": true, "description": true, "properties": true, "required": true,
	"x-kubernetes-validations": true, "oneOf": true,
	"x-kubernetes-preserve-unknown-fields": true, "maxLength": true, "default": true,
}

const xschemaLeanDecl = `/-- One OpenAPI schema node as far as internal/xcrd looks into it. Everything the
code never inspects is opaque canonical JSON text (xValidations/oneOf elements,
default, and every other JSONSchemaProps field in rest, keyed by its JSON name). -/
structure XSchema where
  type : String := ""
  description : String := ""
  props : List (String × XSchema) := []
  required : List String := []
  xValidations : List String := []
  oneOf : List String := []
  preserveUnknown : Option Bool := none
  maxLength : Option Int := none
  default : Option String := none
  rest : List (String × String) := []
`

// canonJSON prints a decoded JSON value with sorted keys, compact.
func canonJSON(v any) string {
	b, err := json.Marshal(v) // encoding/json sorts map keys
	if err != nil {
		panic(err)
	}
	return string(b)
}

// xschemaLean renders the JSON form of a JSONSchemaProps (decoded into map[string]any) as an XSchema literal.
func xschemaLean(m map[string]any) string {
	var fs []string
	if s, ok := m["type"].(string); ok && s != "" {
		fs = append(fs, "type := "+leanStr(s))
	}
	if s, ok := m["description"].(string); ok && s != "" {
		fs = append(fs, "description := "+leanStr(s))
	}
	if p, ok := m["properties"].(map[string]any); ok && len(p) > 0 {
		ks := make([]string, 0, len(p))
		for k := range p {
			ks = append(ks, k)
		}
		sort.Strings(ks)
		var es []string
		for _, k := range ks {
			sub, _ := p[k].(map[string]any)
			es = append(es, "("+leanStr(k)+", "+xschemaLean(sub)+")")
		}
		fs = append(fs, "props := ["+strings.Join(es, ", ")+"]")
	}
	if r, ok := m["required"].([]any); ok && len(r) > 0 {
		var es []string
		for _, x := range r {
			s, _ := x.(string)
			es = append(es, s)
		}
		fs = append(fs, "required := "+leanStrList(es))
	}
	for _, kv := range [][2]string{{"x-kubernetes-validations", "xValidations"}, {"oneOf", "oneOf"}} {
		if r, ok := m[kv[0]].([]any); ok && len(r) > 0 {
			var es []string
			for _, x := range r {
				es = append(es, canonJSON(x))
			}
			fs = append(fs, kv[1]+" := "+leanStrList(es))
		}
	}
	if b, ok := m["x-kubernetes-preserve-unknown-fields"].(bool); ok {
		fs = append(fs, fmt.Sprintf("preserveUnknown := some %v", b))
	}
	if n, ok := m["maxLength"].(float64); ok {
		fs = append(fs, fmt.Sprintf("maxLength := some (%d)", int64(n)))
	}
	if d, ok := m["default"]; ok {
		fs = append(fs, "default := some "+leanStr(canonJSON(d)))
	}
	var rk []string
	for k := range m {
		if !xschemaKnown[k] {
			rk = append(rk, k)
		}
	}
	sort.Strings(rk)
	if len(rk) > 0 {
		var es []string
		for _, k := range rk {
			es = append(es, "("+leanStr(k)+", "+leanStr(canonJSON(m[k]))+")")
		}
		fs = append(fs, "rest := ["+strings.Join(es, ", ")+"]")
	}
	return "{ " + strings.Join(fs, ", ") + " }"
}

func xschemaOf(p extv1.JSONSchemaProps) map[string]any {
	b, err := json.Marshal(p)
	if err != nil {
		panic(err)
	}
	m := map[string]any{}
	if err := json.Unmarshal(b, &m); err != nil {
		panic(err)
	}
	return m
}

func xschemaTableLean(name, doc string, t map[string]extv1.JSONSchemaProps) string {
	ks := xcrdSortedKeys(t)
	var es []string
	for _, k := range ks {
		es = append(es, "  ("+leanStr(k)+", "+xschemaLean(xschemaOf(t[k]))+")")
	}
	return "/-- " + doc + " -/\ndef " + name + " : List (String × XSchema) := [\n" + strings.Join(es, ",\n") + "]\n"
}

func xcrdSortedKeys(t map[string]extv1.JSONSchemaProps) []string {
	ks := make([]string, 0, len(t))
	for k := range t {
		ks = append(ks, k)
	}
	sort.Strings(ks)
	return ks
}

func xcrdColumnsLean(name string, cols []extv1.CustomResourceColumnDefinition) string {
	var js, ns []string
	for _, c := range cols {
		b, _ := json.Marshal(c)
		var v any
		_ = json.Unmarshal(b, &v)
		js = append(js, canonJSON(v))
		ns = append(ns, c.Name)
	}
	return "def " + name + " : List String := " + leanStrList(js) + "\n" +
		"def " + strings.Replace(name, "Columns", "ColumnNames", 1) + " : List String := " + leanStrList(ns) + "\n"
}

// xcrdProbeXRD is the minimal XRD used to probe constants that are local to the For* functions.
func xcrdProbeXRD() *v1.CompositeResourceDefinition {
	return &v1.CompositeResourceDefinition{
		ObjectMeta: metav1.ObjectMeta{Name: "xprobes.example.org"},
		Spec: v1.CompositeResourceDefinitionSpec{
			Group:      "example.org",
			Names:      extv1.CustomResourceDefinitionNames{Kind: "XProbe", Plural: "xprobes", Singular: "xprobe", ListKind: "XProbeList"},
			ClaimNames: &extv1.CustomResourceDefinitionNames{Kind: "Probe", Plural: "probes", Singular: "probe", ListKind: "ProbeList"},
			Versions: []v1.CompositeResourceDefinitionVersion{{
				Name: "v1", Served: true, Referenceable: true,
				Schema: &v1.CompositeResourceValidation{OpenAPIV3Schema: runtime.RawExtension{Raw: []byte(`{}`)}},
			}},
		},
	}
}

func xcrdProbeMaxLen(f func(*v1.CompositeResourceDefinition) (*extv1.CustomResourceDefinition, error)) string {
	crd, err := f(xcrdProbeXRD())
	if err != nil || len(crd.Spec.Versions) != 1 || crd.Spec.Versions[0].Schema == nil || crd.Spec.Versions[0].Schema.OpenAPIV3Schema == nil {
		return "-1"
	}
	ml := crd.Spec.Versions[0].Schema.OpenAPIV3Schema.Properties["metadata"].Properties["name"].MaxLength
	if ml == nil {
		return "-1"
	}
	return fmt.Sprintf("%d", *ml)
}

func init() {
	RegisterDump("Xcrd", func() string {
		var sb strings.Builder
		sb.WriteString("/-! Tables of internal/xcrd (schemas.go, crd.go) and of the XRD API type, dumped from the current tree. -/\n\n")
		// ---- key-name lists (shared with C07)
		sb.WriteString("/-- keys of xcrd.CompositeResourceSpecProps() (sorted) -/\ndef specPropsXR : List String := " + leanStrList(xcrdSortedKeys(xcrd.CompositeResourceSpecProps())) + "\n")
		sb.WriteString("/-- keys of xcrd.CompositeResourceClaimSpecProps() (sorted) -/\ndef specPropsClaim : List String := " + leanStrList(xcrdSortedKeys(xcrd.CompositeResourceClaimSpecProps())) + "\n")
		sb.WriteString("/-- keys of xcrd.CompositeResourceStatusProps() (sorted) -/\ndef statusProps : List String := " + leanStrList(xcrdSortedKeys(xcrd.CompositeResourceStatusProps())) + "\n")
		sb.WriteString("/-- xcrd.PropagateSpecProps (source order) -/\ndef propagateSpecProps : List String := " + leanStrList(xcrd.PropagateSpecProps) + "\n")
		sb.WriteString("def compositionRevisionRefKey : String := " + leanStr(xcrd.CompositionRevisionRef) + "\n")
		sb.WriteString("def labelKeyNamePrefixForComposed : String := " + leanStr(xcrd.LabelKeyNamePrefixForComposed) + "\n")
		sb.WriteString("def labelKeyClaimName : String := " + leanStr(xcrd.LabelKeyClaimName) + "\n")
		sb.WriteString("def labelKeyClaimNamespace : String := " + leanStr(xcrd.LabelKeyClaimNamespace) + "\n")
		sb.WriteString("def categoryClaim : String := " + leanStr(xcrd.CategoryClaim) + "\n")
		sb.WriteString("def categoryComposite : String := " + leanStr(xcrd.CategoryComposite) + "\n")
		apiVersion, kind := v1.CompositeResourceDefinitionGroupVersionKind.ToAPIVersionAndKind()
		sb.WriteString("def xrdApiVersion : String := " + leanStr(apiVersion) + "\n")
		sb.WriteString("def xrdKind : String := " + leanStr(kind) + "\n\n")
		// ---- full schemas (C11)
		sb.WriteString(xschemaLeanDecl + "\n")
		sb.WriteString("/-- xcrd.BaseProps() -/\ndef xcrdBaseProps : XSchema :=\n  " + xschemaLean(xschemaOf(*xcrd.BaseProps())) + "\n")
		sb.WriteString(xschemaTableLean("xcrdSpecPropsXR", "xcrd.CompositeResourceSpecProps()", xcrd.CompositeResourceSpecProps()))
		sb.WriteString(xschemaTableLean("xcrdSpecPropsClaim", "xcrd.CompositeResourceClaimSpecProps()", xcrd.CompositeResourceClaimSpecProps()))
		sb.WriteString(xschemaTableLean("xcrdStatusProps", "xcrd.CompositeResourceStatusProps()", xcrd.CompositeResourceStatusProps()))
		sb.WriteString("/-- xcrd.CompositeResourcePrinterColumns(): canonical JSON text of each column, and the column names -/\n")
		sb.WriteString(xcrdColumnsLean("xcrdPrinterColumnsXR", xcrd.CompositeResourcePrinterColumns()))
		sb.WriteString("/-- xcrd.CompositeResourceClaimPrinterColumns() -/\n")
		sb.WriteString(xcrdColumnsLean("xcrdPrinterColumnsClaim", xcrd.CompositeResourceClaimPrinterColumns()))
		sb.WriteString("/-- name length limits local to ForCompositeResource / ForCompositeResourceClaim, probed with a schema that sets no limit (-1 = the probe failed) -/\n")
		sb.WriteString("def xcrdMaxNameLengthXR : Int := " + xcrdProbeMaxLen(xcrd.ForCompositeResource) + "\n")
		sb.WriteString("def xcrdMaxNameLengthClaim : Int := " + xcrdProbeMaxLen(xcrd.ForCompositeResourceClaim) + "\n")
		return sb.String()
	})
}

//go:build verif

package main

// C20 scenario generator: cluster contents (empty / partial / full, TLS secrets
// with keys missing or foreign), package reference forms (with / without
// registry host, tag, digest, both, malformed; installed under default or custom
// names), CRD and webhook-configuration directories, and run sequences
// (repeated runs, a fault at any call followed by fault-free runs).

import (
	"encoding/json"
	"fmt"
	"sort"
	"strings"
)

var (
	// (one repository is a string prefix of another, two differ in one separator only and share their DNS label)
	c20Repos = []string{"crossplane/provider-aws", "crossplane-contrib/provider-helm", "upbound/provider-gcp", "function-patch-and-transform",
		"crossplane/provider-aws", "a/b", "a-b", "org/app-latest", "org/team/very-long-repository-name-that-exceeds-the-sixty-three-characters-of-a-dns-label",
		"crossplane/provider-aws-s3", "crossplane/provider"}
	c20Regs   = []string{"", "", "xpkg.upbound.io", "xpkg.upbound.io", "registry.example.com:5000", "docker.io", "index.docker.io", "localhost", "ghcr.io"}
	c20Tags   = []string{"", ":v1.2.3", ":latest", ":v0.1.0-rc.1", "@sha256:" + strings.Repeat("a1", 32), ":v1.2.3@sha256:" + strings.Repeat("0f", 32)}
	c20BadImg = []string{"", "UPPER/Case:v1", "has space:v1", "foo:bad tag!", "x/y@sha256:short", "preloaded package", "crossplane/provider-aws/", "crossplane/provider-aws:", "/crossplane/provider-aws"}
)

func c20GenImg(r *Rng) string {
	if r.Chance(1, 40) {
		return Pick(r, c20BadImg)
	}
	reg := Pick(r, c20Regs)
	repo := Pick(r, c20Repos)
	s := repo
	if reg != "" {
		s = reg + "/" + repo
	}
	return s + Pick(r, c20Tags)
}

func c20GenImgs(r *Rng, max int) []c20Img {
	out := []c20Img{}
	for i, n := 0, r.Intn(max+1); i < n; i++ {
		if len(out) > 0 && r.Chance(1, 10) {
			// the same repository requested twice: verbatim, or at another version
			prev := Pick(r, out).Img
			if c20Parse(prev) != nil && r.Bool() {
				prev = c20WrittenName(prev) + Pick(r, c20Tags)
			}
			out = append(out, c20Img{Img: prev})
			continue
		}
		out = append(out, c20Img{Img: c20GenImg(r)})
	}
	return out
}

func c20DefaultName(img string) string {
	o := c20ImgObsOf(img)
	if !o.OK || o.Name == "" {
		return "pkg"
	}
	return o.Name
}

var c20CrdNames = []string{"compositionrevisions.apiextensions.crossplane.io", "environmentconfigs.apiextensions.crossplane.io", "usages.apiextensions.crossplane.io",
	"functions.pkg.crossplane.io", "locks.pkg.crossplane.io", "providers.pkg.crossplane.io", "compositions.apiextensions.crossplane.io"}

func c20GenVersions(r *Rng, crd string) []c20Ver {
	old := "v1beta1"
	for _, m := range c20Migrators() {
		if m[0] == crd {
			old = m[1]
		}
	}
	switch r.Intn(6) {
	case 0:
		return []c20Ver{{N: "v1", S: true}}
	case 1:
		return []c20Ver{{N: old, S: false}, {N: "v1", S: true}}
	case 2:
		return []c20Ver{{N: "v1", S: true}, {N: old, S: false}}
	case 3:
		return []c20Ver{{N: old, S: true}, {N: "v1", S: false}}
	case 4: // (a CRD without any storage version is rejected by a real API server: not generated)
		return []c20Ver{{N: "v1", S: true}, {N: "v1alpha2", S: false}}
	}
	return []c20Ver{{N: "v2", S: true}, {N: "v1", S: false}, {N: old, S: false}}
}

func c20GenCrdDir(r *Rng, webhook bool) c20Dir {
	d := c20Dir{Objs: []c20FileObj{}}
	seen := map[string]bool{}
	for i, n := 0, r.Intn(5); i < n; i++ {
		nm := Pick(r, c20CrdNames)
		if seen[nm] && r.Chance(9, 10) {
			continue
		}
		seen[nm] = true
		conv := r.Chance(1, 3)
		if !webhook && r.Chance(9, 10) {
			conv = false
		}
		d.Objs = append(d.Objs, c20FileObj{T: "crd", Crd: &c20CrdFile{Name: nm, Content: 1 + r.Intn(3), Versions: c20GenVersions(r, nm), Conv: conv, WH: 2 * r.Intn(2)}})
	}
	if r.Chance(1, 30) {
		o := c20FileObj{T: "other"}
		if r.Bool() {
			o = c20FileObj{T: "whc", Whc: &c20WhcFile{Kind: "V", Name: "stray", Hooks: []string{}}}
		}
		at := r.Intn(len(d.Objs) + 1)
		d.Objs = append(d.Objs[:at], append([]c20FileObj{o}, d.Objs[at:]...)...)
	}
	d.ParseErr = r.Chance(1, 50)
	return d
}

func c20GenWhcDir(r *Rng) c20Dir {
	d := c20Dir{Objs: []c20FileObj{}}
	names := []string{"validating-webhook-configuration", "crossplane-no-usages", "crossplane", "mutating-webhook-configuration"}
	for i, n := 0, r.Intn(4); i < n; i++ {
		f := &c20WhcFile{Kind: "V", Name: Pick(r, names), Hooks: []string{}}
		if r.Chance(1, 3) {
			f.Kind = "M"
		}
		m := 1 + r.Intn(3)
		if r.Chance(1, 12) {
			m = 0
		}
		for j := 0; j < m; j++ {
			f.Hooks = append(f.Hooks, fmt.Sprintf("h%d.crossplane.io", j))
		}
		d.Objs = append(d.Objs, c20FileObj{T: "whc", Whc: f})
	}
	if r.Chance(1, 30) {
		o := c20FileObj{T: "other"}
		if r.Bool() {
			o = c20FileObj{T: "crd", Crd: &c20CrdFile{Name: "stray.example.org", Content: 1, Versions: []c20Ver{{N: "v1", S: true}}}}
		}
		at := r.Intn(len(d.Objs) + 1)
		d.Objs = append(d.Objs[:at], append([]c20FileObj{o}, d.Objs[at:]...)...)
	}
	d.ParseErr = r.Chance(1, 50)
	return d
}

// ---- TLS state

func c20CACert(kp int) *c20Blob {
	return &c20Blob{T: "c", KP: kp, By: kp, DNS: []string{"crossplane-root-ca"}, CA: true}
}

// c20GenCASecret returns the pre-existing CA secret (nil = absent) and the key pair that can sign (0 = none).
func c20GenCASecret(r *Rng, name string) (*c20Secret, int) {
	s := &c20Secret{Name: name}
	if r.Chance(1, 4) {
		s.Meta = 1 + r.Intn(3)
	}
	switch r.Intn(12) {
	case 0, 1, 2, 3:
		return nil, 0
	case 4, 5, 6:
		s.Crt, s.Key = c20CACert(1), &c20Blob{T: "k", KP: 1}
		if r.Chance(1, 4) {
			s.Others = 7
		}
		return s, 1
	case 7: // certificate and key of two different authorities
		s.Crt, s.Key = c20CACert(1), &c20Blob{T: "k", KP: 2}
		return s, 0
	case 8:
		s.Crt = c20CACert(1)
		return s, 0
	case 9:
		s.Key = &c20Blob{T: "k", KP: 1}
		s.Others = 5
		return s, 0
	case 10:
		s.Crt, s.Key = &c20Blob{T: "j", N: 1}, &c20Blob{T: "j", N: 2}
		return s, 0
	}
	s.Others = 3 // exists, no TLS keys
	return s, 0
}

func c20GenLeafSecret(r *Rng, name string, signer int, kp int, dns []string) *c20Secret {
	s := &c20Secret{Name: name}
	if r.Chance(1, 4) {
		s.Meta = 1 + r.Intn(3)
	}
	if signer == 0 {
		signer = 9 // some other authority
	}
	switch r.Intn(12) {
	case 0, 1, 2, 3, 4:
		return nil
	case 5, 6:
		s.Crt, s.Key, s.CA = &c20Blob{T: "c", KP: kp, By: signer, DNS: dns}, &c20Blob{T: "k", KP: kp}, c20CACert(signer)
	case 7: // issued by an authority that is not the stored one
		s.Crt, s.Key, s.CA = &c20Blob{T: "c", KP: kp, By: 9, DNS: []string{"old.example.org"}}, &c20Blob{T: "k", KP: kp}, c20CACert(9)
	case 8:
		s.CA = c20CACert(signer)
	case 9:
		s.Crt = &c20Blob{T: "c", KP: kp, By: signer, DNS: dns}
	case 10:
		s.Crt, s.Others = &c20Blob{T: "j", N: 3}, 4
	default:
		s.Others = 2 // exists without TLS keys
	}
	return s
}

func c20GenStored(r *Rng, s *c20Scn, steps []c20Step) {
	st := &s.Store
	mode := r.Intn(10) // 0..1 empty cluster, 2..5 partial, 6..9 full
	if mode < 2 {
		return
	}
	p := 2 // object present with probability p/4
	if mode >= 6 {
		p = 3
	}
	secSeen := map[string]bool{}
	names := map[string]bool{}
	kp := 10
	for _, stp := range steps {
		switch stp.T {
		case "tls":
			signer := 0
			if !secSeen[stp.CA] {
				secSeen[stp.CA] = true
				if r.Chance(p, 4) {
					ca, sg := c20GenCASecret(r, stp.CA)
					if ca != nil {
						st.Secrets = append(st.Secrets, *ca)
					}
					signer = sg
				}
			}
			for _, l := range []*c20TLSRef{stp.Server, stp.Client} {
				if l == nil || secSeen[l.Name] {
					continue
				}
				secSeen[l.Name] = true
				if r.Chance(p, 4) {
					kp++
					if x := c20GenLeafSecret(r, l.Name, signer, kp, l.DNS); x != nil {
						st.Secrets = append(st.Secrets, *x)
					}
				}
			}
		case "crds", "whcs":
			if stp.TLSRef != nil && !secSeen[*stp.TLSRef] {
				secSeen[*stp.TLSRef] = true
				if r.Chance(p, 4) {
					kp++
					if x := c20GenLeafSecret(r, *stp.TLSRef, 0, kp, []string{"x"}); x != nil {
						st.Secrets = append(st.Secrets, *x)
					}
				}
			}
			for _, o := range stp.Dir.Objs {
				switch {
				case o.T == "crd" && stp.T == "crds" && r.Chance(p, 4):
					c := c20Crd{Name: o.Crd.Name, Content: o.Crd.Content, Versions: o.Crd.Versions, Conv: o.Crd.Conv, Stored: []string{}}
					if r.Chance(1, 2) {
						c.Content, c.Versions = 9, c20GenVersions(r, c.Name)
					}
					if r.Chance(1, 3) {
						c.Conv = !c.Conv
					}
					if c.Conv {
						c.Bundle = Pick(r, []*c20Blob{nil, {T: "j", N: 8}, c20CACert(9)})
					}
					for _, v := range c.Versions {
						if r.Chance(2, 3) {
							c.Stored = append(c.Stored, v.N)
						}
					}
					for _, m := range c20Migrators() {
						if m[0] == c.Name && r.Chance(1, 2) {
							c.Stored = append([]string{m[1]}, c.Stored...)
						}
					}
					if r.Chance(1, 3) {
						c.Extra = 1 + r.Intn(3)
					}
					dup := false
					for _, e := range st.Crds {
						dup = dup || e.Name == c.Name
					}
					if !dup {
						st.Crds = append(st.Crds, c)
						for i, n := 0, r.Intn(4); i < n; i++ {
							st.Crs = append(st.Crs, c20Cr{Crd: c.Name, Name: fmt.Sprintf("cr-%d", i), Payload: r.Intn(5)})
						}
					}
				case o.T == "whc" && stp.T == "whcs" && r.Chance(p, 4):
					w := c20Whc{Kind: o.Whc.Kind, Name: c20WhcName(o.Whc), Hooks: []c20Hook{}}
					for j, n := 0, r.Intn(4); j < n; j++ {
						w.Hooks = append(w.Hooks, c20Hook{Name: fmt.Sprintf("h%d.crossplane.io", j+r.Intn(2)), Bundle: Pick(r, []*c20Blob{nil, {T: "j", N: 8}, c20CACert(9)}), Svc: c20Svc{Name: "old", NS: "old", Port: 443}})
					}
					// entries the shipped manifest does not have (left by another Crossplane version, added by a third party),
					// with a stale bundle / another service, in front of or behind the others; the others in another order
					if r.Chance(1, 2) {
						extra := c20Hook{Name: Pick(r, []string{"legacy.crossplane.io", "thirdparty.example.org", "h9.crossplane.io"}),
							Bundle: Pick(r, []*c20Blob{nil, {T: "j", N: 8}, c20CACert(9)}), Svc: Pick(r, []c20Svc{{Name: "old", NS: "old", Port: 443}, {Name: "theirs", NS: "kube-system", Port: 8443}})}
						if r.Bool() {
							w.Hooks = append([]c20Hook{extra}, w.Hooks...)
						} else {
							w.Hooks = append(w.Hooks, extra)
						}
					}
					if len(w.Hooks) > 1 && r.Chance(1, 3) {
						for a, b := 0, len(w.Hooks)-1; a < b; a, b = a+1, b-1 {
							w.Hooks[a], w.Hooks[b] = w.Hooks[b], w.Hooks[a]
						}
					}
					// (no two entries of one name: the API server rejects that)
					seenH := map[string]bool{}
					uniq := []c20Hook{}
					for _, h := range w.Hooks {
						if !seenH[h.Name] {
							seenH[h.Name] = true
							uniq = append(uniq, h)
						}
					}
					w.Hooks = uniq
					if r.Chance(1, 3) {
						w.Extra = 1 + r.Intn(3)
					}
					dup := false
					for _, e := range st.Whcs {
						dup = dup || (e.Name == w.Name && e.Kind == w.Kind)
					}
					if !dup {
						st.Whcs = append(st.Whcs, w)
					}
				}
			}
		case "mig":
			if r.Chance(1, 6) {
				dup := false
				for _, e := range st.Crds {
					dup = dup || e.Name == stp.Crd
				}
				if !dup {
					vs := c20GenVersions(r, stp.Crd)
					c := c20Crd{Name: stp.Crd, Content: 1, Versions: vs, Stored: []string{stp.Old}}
					if r.Bool() {
						c.Stored = append(c.Stored, "v1")
					}
					st.Crds = append(st.Crds, c)
					for i, n := 0, r.Intn(4); i < n; i++ {
						st.Crs = append(st.Crs, c20Cr{Crd: c.Name, Name: fmt.Sprintf("cr-%d", i), Payload: r.Intn(5)})
					}
					// a look-alike: the same plural (hence the same Kind) in ANOTHER API group, with resources of its own
					// stored at the old version - the migrator must not touch them
					if i := strings.Index(stp.Crd, "."); i > 0 && r.Chance(1, 3) {
						twin := stp.Crd[:i] + ".other.example.org"
						dup := false
						for _, e := range st.Crds {
							dup = dup || e.Name == twin
						}
						if !dup {
							st.Crds = append(st.Crds, c20Crd{Name: twin, Content: 2, Versions: vs, Stored: []string{stp.Old, "v1"}, Extra: 1})
							for i, n := 0, 1+r.Intn(2); i < n; i++ {
								st.Crs = append(st.Crs, c20Cr{Crd: twin, Name: fmt.Sprintf("cr-%d", i), Payload: 7})
							}
						}
					}
				}
			}
		case "lock":
			if r.Chance(p, 4) {
				n := r.Intn(3)
				st.Lock = &n
			}
		case "sc":
			if r.Chance(p, 4) {
				st.SC = &c20SC{Scope: Pick(r, []string{stp.NS, "other-scope"}), Extra: r.Intn(3)}
			}
		case "drc":
			if r.Chance(p, 4) {
				n := r.Intn(3)
				st.DRC = &n
			}
		case "install":
			add := func(kind, img string) {
				nm := c20DefaultName(img)
				if r.Chance(1, 2) {
					nm = Pick(r, []string{"my-aws", "custom", "team-a-provider", "x"})
				}
				if names[kind+nm] {
					return
				}
				names[kind+nm] = true
				pk := c20Pkg{Kind: kind, Name: nm, Raw: img}
				if r.Chance(1, 2) {
					pk.Extra = 1 + r.Intn(4) // an operator has set every field the installer does not declare
				}
				st.Pkgs = append(st.Pkgs, pk)
			}
			for _, ki := range []struct {
				k string
				l []c20Img
			}{{"P", stp.P}, {"C", stp.C}, {"F", stp.F}} {
				for _, im := range ki.l {
					if !r.Chance(p, 4) {
						continue
					}
					// the same repository, possibly at another version / host
					img := im.Img
					if ref := c20Parse(img); ref != nil {
						base := c20WrittenName(img)
						switch r.Intn(5) {
						case 0, 1, 2:
							img = base + Pick(r, c20Tags)
						case 3:
							img = Pick(r, c20Regs[2:]) + "/" + ref.Repo + Pick(r, c20Tags)
						}
					}
					add(ki.k, img)
				}
				if r.Chance(1, 3) {
					add(ki.k, c20GenImg(r))
				}
			}
		}
	}
	// unrelated objects that nobody asked for
	if r.Chance(1, 4) {
		st.Secrets = append(st.Secrets, c20Secret{Name: "unrelated", Crt: &c20Blob{T: "j", N: 5}, Others: 1})
	}
	// look-alike secret names: a configured name plus a suffix / minus its last character / in upper case,
	// holding complete material of a foreign authority
	if r.Chance(1, 4) {
		names := []string{}
		for n := range secSeen {
			names = append(names, n)
		}
		sort.Strings(names)
		if len(names) > 0 {
			n := Pick(r, names)
			alike := Pick(r, []string{n + "-2", n[:len(n)-1], strings.ToUpper(n), n + "."})
			if !secSeen[alike] && alike != "" && c20FindSecret(st.Secrets, alike) == nil {
				st.Secrets = append(st.Secrets, c20Secret{Name: alike, Crt: c20CACert(40), Key: &c20Blob{T: "k", KP: 40}, CA: c20CACert(40), Meta: 2})
			}
		}
	}
	if r.Chance(1, 5) {
		st.Crds = append(st.Crds, c20Crd{Name: "things.example.org", Content: 4, Versions: []c20Ver{{N: "v1", S: true}}, Stored: []string{"v1"}, Extra: 2})
	}
}

func c20GenCfg(r *Rng) *c20Cfg {
	ns := Pick(r, []string{"crossplane-system", "xp"})
	c := &c20Cfg{NS: ns, SA: "crossplane", Webhook: r.Chance(3, 4), SvcName: "crossplane-webhooks", SvcNS: Pick(r, []string{ns, "webhook-ns"}), SvcPort: 9443,
		CA: "crossplane-root-ca", Server: "crossplane-tls-server", Client: "crossplane-tls-client"}
	switch r.Intn(8) {
	case 0, 1:
		c.ESS = "ess-server"
	case 2:
		c.ESS = c.Server
	}
	if r.Chance(1, 40) {
		c.Server = c.CA // pathological: one secret is both
	}
	if r.Chance(1, 40) {
		c.Client = c.Server
	}
	c.P, c.C, c.F = c20GenImgs(r, 3), c20GenImgs(r, 2), c20GenImgs(r, 2)
	c.CrdDir = c20GenCrdDir(r, c.Webhook)
	c.WhcDir = c20GenWhcDir(r)
	return c
}

func c20GenSteps(r *Rng, ns string) []c20Step {
	one := func() c20Step {
		switch r.Intn(9) {
		case 0, 1:
			s := c20Step{T: "tls", CA: "crossplane-root-ca"}
			if r.Chance(3, 4) {
				s.Server = &c20TLSRef{Name: "srv", DNS: []string{"a", "a.b", "a.b.svc"}}
				if r.Chance(1, 8) {
					s.Server.DNS = []string{}
				}
			}
			if r.Chance(3, 4) {
				s.Client = &c20TLSRef{Name: "cli", DNS: []string{"crossplane." + ns}}
				if r.Chance(1, 8) {
					s.Client.DNS = []string{}
				}
			}
			return s
		case 2:
			d := c20GenCrdDir(r, true)
			s := c20Step{T: "crds", Dir: &d}
			if r.Chance(3, 4) {
				ref := "srv"
				s.TLSRef = &ref
			}
			return s
		case 3:
			d := c20GenWhcDir(r)
			ref := "srv"
			return c20Step{T: "whcs", Dir: &d, TLSRef: &ref, Svc: &c20Svc{Name: "hooks", NS: ns, Port: 9443}}
		case 4:
			m := Pick(r, c20Migrators())
			return c20Step{T: "mig", Crd: m[0], Old: m[1]}
		case 5:
			return c20Step{T: "lock"}
		case 6:
			return c20Step{T: "sc", NS: ns}
		case 7:
			return c20Step{T: "drc"}
		}
		return c20Step{T: "install", P: c20GenImgs(r, 3), C: c20GenImgs(r, 2), F: c20GenImgs(r, 2)}
	}
	n := 1
	if r.Chance(1, 3) {
		n = 2 + r.Intn(2)
	}
	out := []c20Step{}
	for i := 0; i < n; i++ {
		out = append(out, one())
	}
	return out
}

var c20Outcomes = []string{"fail", "conflict", "crashBefore", "crashAfter"}

// c20Gen draws one scenario.
func c20Gen(r *Rng, tier string) *c20Scn {
	s := &c20Scn{Fresh: 100}
	var steps []c20Step
	tlsOnly := r.Chance(1, 8)
	if tlsOnly {
		s = c20GenTLSScn(r)
		steps = s.Steps
	} else if r.Chance(2, 3) {
		s.Kind = "init"
		s.Cfg = c20GenCfg(r)
		s.NS = s.Cfg.NS
		c20NormalizeCfg(s.Cfg)
		steps = c20StepsOfCfg(s.Cfg)
	} else {
		s.Kind = "steps"
		s.NS = Pick(r, []string{"crossplane-system", "xp"})
		s.Steps = c20GenSteps(r, s.NS)
		steps = s.Steps
	}
	if !tlsOnly {
		c20GenStored(r, s, steps)
	}
	s.Real = r.Chance(1, 60)
	s.Reuse = r.Chance(1, 4)
	s.Decoy = r.Chance(1, 5)
	c20Normalize(s)
	lines := c20BaselineLog(s)
	n := len(lines)
	// the calls whose error class the code looks at (or could be tempted to): every Get and List, the Creates of the defaults
	branching := []int{}
	for k, l := range lines {
		if strings.HasPrefix(l, "get:") || strings.HasPrefix(l, "list:") || strings.HasPrefix(l, "create:SC:") || strings.HasPrefix(l, "create:DRC:") || strings.HasPrefix(l, "create:L:") {
			branching = append(branching, k)
		}
	}
	fault := func() c20Run {
		k := 0
		if n > 0 {
			k = r.Intn(n)
		}
		f := c20Run{K: k, O: Pick(r, c20Outcomes)}
		if f.O == "fail" && r.Chance(3, 4) {
			f.Cls = Pick(r, c20Classes[1:])
			if len(branching) > 0 && r.Chance(1, 2) {
				f.K = Pick(r, branching)
				if r.Chance(1, 3) { // the last ones are the Creates of the default objects
					f.K = branching[len(branching)-1-r.Intn(min(3, len(branching)))]
				}
			}
		}
		return f
	}
	ok := c20Run{K: -1}
	switch x := r.Intn(10); {
	case x >= 8 && len(branching) > 0:
		// error-class sweep: ONE call the code looks at the error class of (a Get, a List, the Create of a default
		// object) is refused in 2-4 consecutive runs, each time with another class; then fault-free runs
		groups := [][]string{{}, {}, {}}
		seen := map[string]bool{}
		for _, k := range branching {
			l := lines[k]
			if seen[l] {
				continue
			}
			seen[l] = true
			switch {
			case strings.HasPrefix(l, "create:"):
				groups[0] = append(groups[0], l)
			case strings.HasPrefix(l, "list:"):
				groups[1] = append(groups[1], l)
			default:
				groups[2] = append(groups[2], l)
			}
		}
		var g []string
		for len(g) == 0 {
			g = Pick(r, groups)
		}
		at := Pick(r, g)
		cls := append([]string{}, c20Classes[1:]...)
		for i := len(cls) - 1; i > 0; i-- {
			j := r.Intn(i + 1)
			cls[i], cls[j] = cls[j], cls[i]
		}
		for i, m := 0, 2+r.Intn(3); i < m; i++ {
			s.Runs = append(s.Runs, c20Run{K: -1, O: "fail", Cls: cls[i], At: at})
		}
		s.Runs = append(s.Runs, ok)
		if r.Bool() {
			s.Runs = append(s.Runs, ok)
		}
	case x >= 8:
		s.Runs = []c20Run{ok, ok}
	default:
		switch x {
		case 0:
			s.Runs = []c20Run{ok}
		case 1, 2:
			s.Runs = []c20Run{ok, ok}
		case 3, 4:
			s.Runs = []c20Run{fault(), ok}
		case 5:
			s.Runs = []c20Run{fault(), ok, ok}
		case 6:
			s.Runs = []c20Run{fault(), fault(), ok}
		default:
			s.Runs = []c20Run{ok, fault(), ok}
		}
	}
	// a concurrent peer initialiser: in most TLS-only scenarios, in a share of the others that have a TLS step
	hasTLS := false
	for _, st := range steps {
		hasTLS = hasTLS || (st.T == "tls" && (st.Server != nil || st.Client != nil))
	}
	if hasTLS && ((tlsOnly && r.Chance(5, 6)) || (!tlsOnly && r.Chance(1, 5))) {
		i := 0
		if len(s.Runs) > 1 && r.Chance(1, 5) {
			i = 1
		}
		if c20AddPeer(r, s, i) {
			if i == len(s.Runs)-1 || r.Chance(1, 2) {
				s.Runs = append(s.Runs, ok) // the repeated run that has to converge
			}
			if r.Chance(1, 3) {
				s.Runs = append(s.Runs, ok)
			}
		}
	} else if !tlsOnly && r.Chance(1, 3) {
		// another writer on ANY object (packages, CRDs, webhook configurations, Lock, defaults, secrets): a concurrent
		// initialiser of the same / another release, complete or crashed half-way; or a user / controller / GC
		i := 0
		if len(s.Runs) > 1 && r.Chance(1, 5) {
			i = 1
		}
		if c20AddWriter(r, s, i, Pick(r, []string{"init", "init", "user", "user", "user"})) {
			if i == len(s.Runs)-1 || r.Chance(1, 2) {
				s.Runs = append(s.Runs, ok)
			}
			if r.Chance(1, 3) {
				s.Runs = append(s.Runs, ok)
			}
		}
	}
	return s
}

// ---------------------------------------------------------------- the peer

// c20PeerModes: what the concurrent peer has done by the time it gets in front of one of our calls.
//
//	complete     - it ran its whole TLS step: CA created / completed unless a complete one is stored, every
//	               configured leaf secret without material issued from the CA that is then stored
//	caOnly       - it got as far as storing its CA
//	leavesOnly   - it found a complete CA and issued the leaves
//	placeholders - the chart (re)created the secrets as empty placeholders
var c20PeerModes = []string{"complete", "complete", "complete", "complete", "caOnly", "leavesOnly", "placeholders"}

func c20FindSecret(xs []c20Secret, name string) *c20Secret {
	for i := range xs {
		if xs[i].Name == name {
			return &xs[i]
		}
	}
	return nil
}

// c20PeerSecrets computes, on the abstract store `st` (the cluster at the moment the peer acts), what a peer
// initialiser running the TLS steps of `steps` writes. Key pair ids from `kp` on.
func c20PeerSecrets(st c20Store, steps []c20Step, mode string, kp int) []c20Secret {
	cur := append([]c20Secret{}, st.Secrets...)
	out := []c20Secret{}
	put := func(x c20Secret) {
		out = append(out, x)
		if e := c20FindSecret(cur, x.Name); e != nil {
			*e = x
		} else {
			cur = append(cur, x)
		}
	}
	for _, stp := range steps {
		if stp.T != "tls" || (stp.Server == nil && stp.Client == nil) {
			continue
		}
		refs := []*c20TLSRef{}
		for _, l := range []*c20TLSRef{stp.Server, stp.Client} {
			if l != nil {
				refs = append(refs, l)
			}
		}
		if mode == "placeholders" {
			for _, n := range append([]string{stp.CA}, func() (ns []string) {
				for _, l := range refs {
					ns = append(ns, l.Name)
				}
				return
			}()...) {
				if c20FindSecret(cur, n) == nil {
					put(c20Secret{Name: n})
				}
			}
			continue
		}
		ca := c20FindSecret(cur, stp.CA)
		var caBlob *c20Blob
		signer := 0
		if ca != nil && ca.Crt != nil && ca.Key != nil {
			// complete: loaded if certificate and key parse and belong together, otherwise the peer fails here
			if ca.Crt.T != "c" || ca.Key.T != "k" || ca.Crt.KP != ca.Key.KP {
				break
			}
			signer, caBlob = ca.Crt.KP, ca.Crt
		} else {
			if mode == "leavesOnly" {
				continue
			}
			x := c20Secret{Name: stp.CA, Crt: c20CACert(kp), Key: &c20Blob{T: "k", KP: kp}}
			if ca != nil {
				x.Meta = ca.Meta
			}
			signer, caBlob = kp, x.Crt
			kp++
			put(x)
		}
		if mode == "caOnly" {
			continue
		}
		failed := false
		for _, l := range refs {
			e := c20FindSecret(cur, l.Name)
			if e != nil && (e.Crt != nil || e.Key != nil || e.CA != nil) {
				continue
			}
			if len(l.DNS) == 0 {
				failed = true
				break
			}
			x := c20Secret{Name: l.Name, Crt: &c20Blob{T: "c", KP: kp, By: signer, DNS: append([]string{}, l.DNS...)}, Key: &c20Blob{T: "k", KP: kp}, CA: caBlob}
			if e != nil {
				x.Others, x.Meta = e.Others, e.Meta
			}
			kp++
			put(x)
		}
		if failed {
			break
		}
	}
	return out
}

// c20AddPeer lets a concurrent peer initialiser act during run number i of the scenario: preferably right
// before one of OUR secret writes (i.e. between our Get and our Create / Update), otherwise before a
// uniformly drawn call. What the peer writes is computed from the cluster as it is at that very moment.
func c20AddPeer(r *Rng, s *c20Scn, i int) bool {
	if i >= len(s.Runs) {
		return false
	}
	// the calls of run i without the peer
	s2 := c20CloneScn(s)
	s2.Peer = nil
	s2.Runs = append(append([]c20Run{}, s.Runs[:i]...), s.Runs[i])
	obs, _ := c20RunScn(s2)
	log := obs.Runs[i].Log
	if len(log) == 0 {
		return false
	}
	writes := []int{}
	for k, l := range log {
		if strings.HasPrefix(l, "create:S:") || strings.HasPrefix(l, "update:S:") {
			writes = append(writes, k)
		}
	}
	k := r.Intn(len(log))
	if len(writes) > 0 && r.Chance(5, 6) {
		k = Pick(r, writes)
	}
	// the cluster right before call k of run i
	s3 := c20CloneScn(s)
	s3.Peer = nil
	s3.Runs = append(append([]c20Run{}, s.Runs[:i]...), c20Run{K: k, O: "crashBefore"})
	obs3, _ := c20RunScn(s3)
	secs := c20PeerSecrets(obs3.Runs[i].Store, (&c20World{}).stepsOf(s), Pick(r, c20PeerModes), 50)
	if len(secs) == 0 {
		return false
	}
	s.Peer = append(s.Peer, c20Peer{Run: i, Before: k, Secrets: secs})
	return true
}

// c20GenTLSScn: a scenario about the TLS step alone (fresh cluster, partially initialised cluster, empty
// placeholder secrets as the Helm chart creates them) - the ones a concurrent peer matters for.
func c20GenTLSScn(r *Rng) *c20Scn {
	s := &c20Scn{Fresh: 100, Kind: "steps", NS: Pick(r, []string{"crossplane-system", "xp"})}
	stp := c20Step{T: "tls", CA: "crossplane-root-ca"}
	if r.Chance(5, 6) {
		stp.Server = &c20TLSRef{Name: "crossplane-tls-server", DNS: []string{"crossplane-webhooks", "crossplane-webhooks." + s.NS, "crossplane-webhooks." + s.NS + ".svc"}}
	}
	if stp.Server == nil || r.Chance(5, 6) {
		stp.Client = &c20TLSRef{Name: "crossplane-tls-client", DNS: []string{"crossplane." + s.NS}}
	}
	s.Steps = []c20Step{stp}
	if r.Chance(1, 4) {
		s.Steps = append(s.Steps, c20Step{T: "tls", CA: "crossplane-root-ca", Server: &c20TLSRef{Name: "ess-server", DNS: []string{"*." + s.NS}}})
	}
	names := []string{stp.CA}
	for _, st := range s.Steps {
		for _, l := range []*c20TLSRef{st.Server, st.Client} {
			if l != nil {
				names = append(names, l.Name)
			}
		}
	}
	switch r.Intn(4) {
	case 0: // fresh cluster
	case 1: // the chart's empty placeholders (all or some)
		for _, n := range names {
			if r.Chance(4, 5) {
				x := c20Secret{Name: n}
				if r.Chance(1, 4) {
					x.Meta = 1 + r.Intn(3)
				}
				s.Store.Secrets = append(s.Store.Secrets, x)
			}
		}
	default: // partially initialised
		c20GenStored(r, s, s.Steps)
	}
	return s
}

// ---------------------------------------------------------------- helpers

func c20NormImgs(xs []c20Img) []c20Img {
	out := []c20Img{}
	for _, x := range xs {
		out = append(out, c20Img{Img: x.Img, Ref: c20Parse(x.Img)})
	}
	return out
}

func c20NormDir(d *c20Dir) {
	if d.Objs == nil {
		d.Objs = []c20FileObj{}
	}
	for i := range d.Objs {
		if c := d.Objs[i].Crd; c != nil && c.Versions == nil {
			c.Versions = []c20Ver{}
		}
		if w := d.Objs[i].Whc; w != nil && w.Hooks == nil {
			w.Hooks = []string{}
		}
	}
}

func c20NormalizeCfg(c *c20Cfg) {
	c.P, c.C, c.F = c20NormImgs(c.P), c20NormImgs(c.C), c20NormImgs(c.F)
	c20NormDir(&c.CrdDir)
	c20NormDir(&c.WhcDir)
}

// c20Normalize fills in what the real reference parser says about every image
// string (the oracle the model is given) and replaces nil slices by empty ones.
func c20Normalize(s *c20Scn) {
	if s.Fresh == 0 {
		s.Fresh = 100
	}
	if s.Cfg != nil {
		c20NormalizeCfg(s.Cfg)
	}
	if s.Steps == nil {
		s.Steps = []c20Step{}
	}
	for i := range s.Steps {
		st := &s.Steps[i]
		st.P, st.C, st.F = c20NormImgs(st.P), c20NormImgs(st.C), c20NormImgs(st.F)
		if st.Dir != nil {
			c20NormDir(st.Dir)
		}
		for _, l := range []*c20TLSRef{st.Server, st.Client} {
			if l != nil && l.DNS == nil {
				l.DNS = []string{}
			}
		}
	}
	a := &s.Store
	if a.Secrets == nil {
		a.Secrets = []c20Secret{}
	}
	if a.Pkgs == nil {
		a.Pkgs = []c20Pkg{}
	}
	if a.Crds == nil {
		a.Crds = []c20Crd{}
	}
	if a.Whcs == nil {
		a.Whcs = []c20Whc{}
	}
	if a.Crs == nil {
		a.Crs = []c20Cr{}
	}
	for i := range a.Pkgs {
		a.Pkgs[i].Ref = c20Parse(a.Pkgs[i].Raw)
	}
	for i := range a.Crds {
		if a.Crds[i].Versions == nil {
			a.Crds[i].Versions = []c20Ver{}
		}
		if a.Crds[i].Stored == nil {
			a.Crds[i].Stored = []string{}
		}
		if !a.Crds[i].Conv {
			a.Crds[i].Bundle = nil
		}
	}
	for i := range a.Whcs {
		if a.Whcs[i].Hooks == nil {
			a.Whcs[i].Hooks = []c20Hook{}
		}
	}
	if s.Runs == nil {
		s.Runs = []c20Run{}
	}
	if s.Peer == nil {
		s.Peer = []c20Peer{}
	}
	for i := range s.Peer {
		if s.Peer[i].Secrets == nil {
			s.Peer[i].Secrets = []c20Secret{}
		}
		if s.Peer[i].Ops == nil {
			s.Peer[i].Ops = []c20Op{}
		}
		for j := range s.Peer[i].Ops {
			op := &s.Peer[i].Ops[j]
			if op.Pkg != nil {
				op.Pkg.Ref = c20Parse(op.Pkg.Raw)
			}
			if op.Crd != nil {
				if op.Crd.Versions == nil {
					op.Crd.Versions = []c20Ver{}
				}
				if op.Crd.Stored == nil {
					op.Crd.Stored = []string{}
				}
				if !op.Crd.Conv {
					op.Crd.Bundle = nil
				}
			}
			if op.Whc != nil && op.Whc.Hooks == nil {
				op.Whc.Hooks = []c20Hook{}
			}
		}
		for j := range s.Peer[i].Secrets {
			for _, b := range []*c20Blob{s.Peer[i].Secrets[j].Crt, s.Peer[i].Secrets[j].Key, s.Peer[i].Secrets[j].CA} {
				if b != nil && b.T == "c" && b.DNS == nil {
					b.DNS = []string{}
				}
			}
		}
	}
}

func c20CloneScn(s *c20Scn) *c20Scn {
	b, _ := json.Marshal(s)
	var out c20Scn
	if err := json.Unmarshal(b, &out); err != nil {
		panic(err)
	}
	c20Normalize(&out)
	return &out
}

// c20BaselineLog: the API calls of a fault-free run from the scenario's initial state.
func c20BaselineLog(s *c20Scn) []string {
	s2 := c20CloneScn(s)
	w := c20NewWorld(s2)
	var junk []Mon
	return w.runOnce(s2, -1, c20Run{K: -1}, &junk).obs.Log
}

// c20CountCalls: their number.
func c20CountCalls(s *c20Scn) int { return len(c20BaselineLog(s)) }

//go:build verif

package main

// C17: Resolve next to other writers of the Lock — scenario generator. The writers are realised
// by c17InstallWriters (c17_res.go) on the real PackageDependencyManager over simstore.

import "fmt"

func c17CopyPkgs(l []c17Pkg) []c17Pkg {
	out := make([]c17Pkg, len(l))
	for i, p := range l {
		out[i] = p
		out[i].Deps = append([]c17Dep{}, p.Deps...)
	}
	return out
}

func c17WithoutSource(l []c17Pkg, src string) []c17Pkg {
	out := []c17Pkg{}
	for _, p := range c17CopyPkgs(l) {
		if p.Source != src {
			out = append(out, p)
		}
	}
	return out
}

// c17Closure: sources reachable from the dependencies `deps` through the edges of `lock`.
func c17Closure(lock []c17Pkg, deps []c17Dep) map[string]bool {
	edges := c17Edges(lock)
	var self []string
	for _, d := range deps {
		self = append(self, d.Pkg)
	}
	edges["\x00self"] = self
	return c17Reach(edges, "\x00self")
}

// c17OtherWrite: what another client stores, derived from the lock contents `base` it has seen.
// The kinds: another revision's RemoveSelf of a direct / transitive dependency of `self` or of
// an unrelated package; a dependency moved to another version; a new revision adding itself;
// a write that leaves the packages as they are (the lock reconciler's status update);
// everything removed. Returns the contents and the kind (for the class histogram).
func c17OtherWrite(r *Rng, base []c17Pkg, self c17Pkg, prefer string) ([]c17Pkg, string) {
	direct := []string{}
	inBase := map[string]bool{}
	for _, p := range base {
		inBase[p.Source] = true
	}
	for _, d := range self.Deps {
		if inBase[d.Pkg] {
			direct = append(direct, d.Pkg)
		}
	}
	isDirect := map[string]bool{}
	for _, d := range direct {
		isDirect[d] = true
	}
	trans, unrelated := []string{}, []string{}
	clo := c17Closure(base, self.Deps)
	for _, p := range base {
		switch {
		case p.Source == self.Source || p.Name == self.Name:
		case clo[p.Source] && !isDirect[p.Source]:
			trans = append(trans, p.Source)
		case !clo[p.Source]:
			unrelated = append(unrelated, p.Source)
		}
	}
	kind := prefer
	if kind == "" {
		kind = Pick(r, []string{"rm-direct", "rm-direct", "rm-direct", "rm-direct", "rm-transitive", "rm-transitive", "rm-unrelated", "version", "add", "same", "same", "empty"})
	}
	switch kind {
	case "rm-direct":
		if len(direct) > 0 {
			return c17WithoutSource(base, Pick(r, direct)), kind
		}
	case "rm-transitive":
		if len(trans) > 0 {
			return c17WithoutSource(base, Pick(r, trans)), kind
		}
	case "rm-unrelated":
		if len(unrelated) > 0 {
			return c17WithoutSource(base, Pick(r, unrelated)), kind
		}
	case "version":
		if len(direct) > 0 {
			out := c17CopyPkgs(base)
			src := Pick(r, direct)
			for i := range out {
				if out[i].Source == src {
					out[i].Version = Pick(r, []string{"9.9.9", "0.0.1-alpha", "latest", c17DigestB, c17GenTagVersion(r)})
				}
			}
			return out, kind
		}
	case "add":
		out := c17CopyPkgs(base)
		n := c17Pkg{Name: "pnew", Source: "xpkg.io/n/other", Version: c17GenTagVersion(r)}
		if len(base) > 0 && r.Bool() {
			n.Deps = []c17Dep{{Pkg: Pick(r, base).Source, Con: c17GenEasyConstraint(r)}}
		}
		if !inBase[n.Source] {
			return append(out, n), kind
		}
	case "empty":
		return []c17Pkg{}, kind
	}
	return c17CopyPkgs(base), "same"
}

// c17ResolveInterfRandom: Resolve scenarios with concurrent writers of the Lock.
//   - "new" (most): a healthy lock that holds every dependency of a new revision when the
//     revision reads it; another writer stores something between that Get and the Update that
//     adds the revision (mostly: one of the revision's dependencies removes itself);
//   - "present": the revision is already recorded (no Update, the write is never seen);
//   - "moved": the lock holds the revision's entry from before it moved to another repository
//     (RemoveSelf + refresh); writers at any subset of the four points.
func c17ResolveInterfRandom(c *Ctx) {
	r := c.Rng
	s := c17ResScn{Upg: r.Bool(), Env: &c17Env{}}
	k := r.Range(2, 7)
	m := r.Range(1, k)
	s.Lock = c17GenLock(r, k, m, true)
	s.Self = c17Pkg{Name: "prev", Source: "xpkg.io/n/rev", Version: c17GenTagVersion(r)}
	// the revision depends on lock members (all present), rarely also on an absent package
	perm := r.Perm(len(s.Lock))
	nd := r.Range(1, min(3, len(s.Lock)))
	for _, i := range perm[:nd] {
		con := c17GenEasyConstraint(r)
		if r.Chance(1, 8) {
			con = s.Lock[i].Version // exact
		}
		s.Self.Deps = append(s.Self.Deps, c17Dep{Pkg: s.Lock[i].Source, Con: con})
	}
	if r.Chance(1, 10) && m < k {
		for j := 0; j < k; j++ {
			absent := true
			for _, p := range s.Lock {
				absent = absent && p.Source != c17Repos[j]
			}
			if absent {
				s.Self.Deps = append(s.Self.Deps, c17Dep{Pkg: c17Repos[j], Con: c17GenEasyConstraint(r)})
				break
			}
		}
	}
	mode := "new"
	switch x := r.Intn(20); {
	case x < 2:
		mode = "present"
	case x < 8:
		mode = "moved"
	}
	kinds := ""
	set := func(base []c17Pkg, prefer string) *[]c17Pkg {
		w, kind := c17OtherWrite(r, base, s.Self, prefer)
		kinds += "/" + kind
		return &w
	}
	switch mode {
	case "new":
		prefer := ""
		if r.Chance(1, 2) {
			prefer = "rm-direct" // the trigger
		}
		s.Env.Upd = set(s.Lock, prefer)
	case "present":
		own := s.Self
		own.Deps = append([]c17Dep{}, s.Self.Deps...)
		s.Lock = append(s.Lock, own)
		s.Env.Upd = set(s.Lock, "")
	case "moved":
		old := c17Pkg{Name: s.Self.Name, Source: Pick(r, []string{"xpkg.io/old/rev", "xpkg.io/old/rev", s.Self.Source + "2", s.Self.Source[:len(s.Self.Source)-1]}), Version: s.Self.Version, Deps: append([]c17Dep{}, s.Self.Deps...)}
		at := r.Intn(len(s.Lock) + 1)
		s.Lock = append(append(c17CopyPkgs(s.Lock[:at]), old), c17CopyPkgs(s.Lock[at:])...)
		cur := s.Lock
		if r.Chance(1, 3) {
			if r.Chance(1, 4) { // the stale entry is already gone when RemoveSelf looks
				w := c17WithoutSource(cur, old.Source)
				s.Env.RmGet = &w
				kinds += "/rm-own"
			} else {
				s.Env.RmGet = set(cur, "")
			}
			cur = *s.Env.RmGet
		}
		if r.Chance(1, 5) {
			s.Env.RmUpd = set(cur, "")
		}
		cur = c17WithoutSource(cur, old.Source)
		if r.Chance(1, 2) {
			if r.Chance(1, 10) { // the stale entry is put back (outside EnvWF)
				w := append(c17CopyPkgs(cur), old)
				s.Env.Refresh = &w
				kinds += "/put-back"
			} else {
				s.Env.Refresh = set(cur, "")
			}
			cur = *s.Env.Refresh
		}
		if r.Chance(1, 2) {
			s.Env.Upd = set(cur, "")
		}
	}
	if mode != "new" {
		kinds = "" // keep the class histogram small: the applied writes are named by writers=
	}
	if mode == "new" { // (own entries stay as generated in the other modes: LockWF)
		c17NameTwist(r, &s)
	}
	if r.Chance(1, 8) {
		s.Fault = c17PickFault(r)
	}
	c17ResEmit(c, s, fmt.Sprintf("rnd/%s%s", mode, kinds))
}

//go:build verif

package main

// C12: the structural part of a Composition's content.
//
//   - c12SpecDef: the fields of v1.CompositionSpec the model carries one by one (the model's
//     `Spec`); c12SpecOf builds the real CompositionSpec from it, c12SpecOfRev decodes the same
//     fields back from a stored CompositionRevision (observation `revs[].spec`), so that
//     NewCompositionRevisionSpec / GeneratedRevisionSpecConverter.ToRevisionSpec are compared
//     with the model's `toRevisionSpec` field by field (the whole-spec comparison of the
//     monitors stays).
//   - c12HashInput: what Composition.Hash() feeds to sha256 - yaml(labels) ++ yaml(annotations)
//     ++ yaml(spec), no separator. Hash() does not expose it, so it is rebuilt here with the
//     same three yaml.Marshal calls and CHECKED against the real Hash() for every content of
//     every scenario (monitor C12:hash-input-not-as-modelled). The model renders the same bytes
//     from its token list (`hashToks`): label and annotation lines itself, the spec's YAML is
//     shipped (third-party rendering of a struct); the two are diffed (`inputs`).

import (
	"crypto/sha256"
	"fmt"

	kruntime "k8s.io/apimachinery/pkg/runtime"
	"sigs.k8s.io/yaml"

	v1 "github.com/crossplane/crossplane/apis/apiextensions/v1"
)

type c12Step struct {
	Step string `json:"step"`
	Fn   string `json:"fn"`
}

type c12SpecDef struct {
	APIVersion string    `json:"apiVersion"`
	Kind       string    `json:"kind"`
	Mode       string    `json:"mode"` // "" = unset
	PatchSets  []string  `json:"patchSets"`
	Resources  []string  `json:"resources"`
	Pipeline   []c12Step `json:"pipeline"`
	WCS        string    `json:"wcs"`   // writeConnectionSecretsToNamespace, "" = unset
	Store      string    `json:"store"` // publishConnectionDetailsWithStoreConfigRef.name, "" = unset
	// oracle: yaml.Marshal of the real CompositionSpec (filled by c12Prepare)
	Yaml string `json:"yaml"`
}

func c12PipelineSpec(i int) c12SpecDef {
	return c12SpecDef{APIVersion: "example.org/v1", Kind: "XThing", Mode: "Pipeline",
		Pipeline: []c12Step{{Step: "compose", Fn: fmt.Sprintf("function-%d", i)}}}
}

// the specs of scenarios that do not carry their own (corpus files of earlier rounds)
func c12DefaultSpecs() []c12SpecDef {
	return []c12SpecDef{c12PipelineSpec(0), c12PipelineSpec(1), c12PipelineSpec(2)}
}

// c12SpecPool: what the generator draws specs from - every modelled field varies, alone
// (two specs differing in one field only) and together.
func c12SpecPool() []c12SpecDef {
	p := []c12SpecDef{c12PipelineSpec(0), c12PipelineSpec(1), c12PipelineSpec(2)}
	a := c12PipelineSpec(0)
	a.WCS = "crossplane-system"
	b := c12PipelineSpec(0)
	b.Store = "vault"
	c := c12PipelineSpec(0)
	c.Pipeline = append(c.Pipeline, c12Step{Step: "ready", Fn: "function-auto-ready"})
	d := c12SpecDef{APIVersion: "example.org/v1", Kind: "XThing", Mode: "Resources", PatchSets: []string{"common"}, Resources: []string{"bucket", "policy"}}
	e := c12SpecDef{APIVersion: "example.org/v1", Kind: "XThing", Resources: []string{"bucket"}, WCS: "crossplane-system", Store: "vault"}
	f := c12PipelineSpec(1)
	f.APIVersion = "example.org/v2"
	g := c12SpecDef{APIVersion: "example.org/v1", Kind: "XThing", Mode: "Resources", PatchSets: []string{"common", "extra"}, Resources: []string{"bucket", "policy"}}
	return append(p, a, b, c, d, e, f, g)
}

func c12SpecOf(d c12SpecDef) v1.CompositionSpec {
	s := v1.CompositionSpec{CompositeTypeRef: v1.TypeReference{APIVersion: d.APIVersion, Kind: d.Kind}}
	if d.Mode != "" {
		m := v1.CompositionMode(d.Mode)
		s.Mode = &m
	}
	for _, n := range d.PatchSets {
		s.PatchSets = append(s.PatchSets, v1.PatchSet{Name: n, Patches: []v1.Patch{}})
	}
	for _, n := range d.Resources {
		n := n
		s.Resources = append(s.Resources, v1.ComposedTemplate{Name: &n,
			Base: kruntime.RawExtension{Raw: []byte(`{"apiVersion":"example.org/v1","kind":"Thing","metadata":{"name":"` + n + `"}}`)}})
	}
	for _, p := range d.Pipeline {
		s.Pipeline = append(s.Pipeline, v1.PipelineStep{Step: p.Step, FunctionRef: v1.FunctionReference{Name: p.Fn}})
	}
	if d.WCS != "" {
		w := d.WCS
		s.WriteConnectionSecretsToNamespace = &w
	}
	if d.Store != "" {
		s.PublishConnectionDetailsWithStoreConfigRef = &v1.StoreConfigReference{Name: d.Store}
	}
	return s
}

func c12Str(m map[string]any, path ...string) string {
	var cur any = m
	for _, p := range path {
		mm, ok := cur.(map[string]any)
		if !ok {
			return ""
		}
		cur = mm[p]
	}
	s, _ := cur.(string)
	return s
}

// c12SpecOfRev: the modelled fields of the spec of a stored CompositionRevision.
func c12SpecOfRev(spec map[string]any) c12SpecDef {
	d := c12SpecDef{APIVersion: c12Str(spec, "compositeTypeRef", "apiVersion"), Kind: c12Str(spec, "compositeTypeRef", "kind"),
		Mode: c12Str(spec, "mode"), WCS: c12Str(spec, "writeConnectionSecretsToNamespace"),
		Store:     c12Str(spec, "publishConnectionDetailsWithStoreConfigRef", "name"),
		PatchSets: []string{}, Resources: []string{}, Pipeline: []c12Step{}}
	each := func(k string, f func(map[string]any)) {
		l, _ := spec[k].([]any)
		for _, x := range l {
			if m, ok := x.(map[string]any); ok {
				f(m)
			}
		}
	}
	each("patchSets", func(m map[string]any) { d.PatchSets = append(d.PatchSets, c12Str(m, "name")) })
	each("resources", func(m map[string]any) { d.Resources = append(d.Resources, c12Str(m, "name")) })
	each("pipeline", func(m map[string]any) {
		d.Pipeline = append(d.Pipeline, c12Step{Step: c12Str(m, "step"), Fn: c12Str(m, "functionRef", "name")})
	})
	return d
}

func c12NormSpec(d c12SpecDef) c12SpecDef {
	if d.PatchSets == nil {
		d.PatchSets = []string{}
	}
	if d.Resources == nil {
		d.Resources = []string{}
	}
	if d.Pipeline == nil {
		d.Pipeline = []c12Step{}
	}
	return d
}

// c12HashInput rebuilds the bytes Composition.Hash() hashes (same calls, same order) and says
// whether their sha256 is what the real Hash() returns.
func c12HashInput(c *v1.Composition) (string, bool) {
	y, e1 := yaml.Marshal(c.ObjectMeta.Labels)
	a, e2 := yaml.Marshal(c.ObjectMeta.Annotations)
	s, e3 := yaml.Marshal(c.Spec)
	if e1 != nil || e2 != nil || e3 != nil {
		return "", false
	}
	in := string(y) + string(a) + string(s)
	return in, fmt.Sprintf("%x", sha256.Sum256([]byte(in))) == c.Hash()
}


//go:build verif

package main

// C02, site "unpub": the claim's connection secret on the DELETE path of the claim reconciler.
//
// The REAL claim.Reconciler (default options: what claim.NewReconciler wires when no external
// secret store is configured) reconciles a claim that is being deleted and whose
// spec.writeConnectionSecretToRef names a secret that is controlled by ANOTHER claim, by this
// claim, or by nobody — with or without a record that this claim once propagated connection
// details (status.connectionDetails.lastPublishedTime), bound to an XR that exists, is gone or
// was never created; one fault per reconcile. The property's clause: the secret named by the
// claim is "neither updated, adopted NOR DELETED" when its controller reference names a
// different owner. The unchanged reconciler unpublishes with a NopConnectionUnpublisher: no
// call is addressed to any secret on this path (Kubernetes garbage collection removes the
// claim's own secret once the claim is gone).
//
// Observation (compared with the Lean model Xp.C02Unpub): the calls addressed to secrets and the
// secret afterwards. Direct monitors: C02:secret-foreign-deleted / C02:secret-foreign-written
// (byte comparison of a secret this claim does not control, after every API call).
// Regenerated fact: the concrete type of the default ConnectionUnpublisher (reflection on the
// reconciler claim.NewReconciler returns) and the call skeleton of its UnpublishConnection.

import (
	"context"
	"fmt"
	"reflect"

	corev1 "k8s.io/api/core/v1"
	metav1 "k8s.io/apimachinery/pkg/apis/meta/v1"
	"k8s.io/apimachinery/pkg/apis/meta/v1/unstructured"
	"k8s.io/apimachinery/pkg/runtime"
	"k8s.io/apimachinery/pkg/runtime/schema"
	"k8s.io/apimachinery/pkg/types"
	"sigs.k8s.io/controller-runtime/pkg/reconcile"

	"github.com/crossplane/crossplane-runtime/pkg/resource"

	"github.com/crossplane/crossplane/internal/controller/apiextensions/claim"
)

type c02UnpubSecret struct {
	Present bool   `json:"present"`
	Ctrl    string `json:"ctrl"` // claim | other | none
}

type c02UnpubScn struct {
	Wants     bool           `json:"wants"`     // spec.writeConnectionSecretToRef set
	Published bool           `json:"published"` // status.connectionDetails.lastPublishedTime set
	XR        string         `json:"xr"`        // none | bound | gone
	Fore      bool           `json:"fore"`      // compositeDeletePolicy: Foreground
	Secret    c02UnpubSecret `json:"secret"`
	Rounds    []*xwFault     `json:"rounds"` // one reconcile per entry (nil = no fault)
}

type c02UnpubObs struct {
	SecretCalls []string       `json:"secretCalls"`
	Secret      c02UnpubSecret `json:"secret"`
}

var (
	c02UnpubClaimGVK = schema.GroupVersionKind{Group: "example.org", Version: "v1", Kind: "Thing"}
	c02UnpubXRGVK    = schema.GroupVersionKind{Group: "example.org", Version: "v1", Kind: "XThing"}
)

const c02UnpubClaimFin = "finalizer.apiextensions.crossplane.io"

func c02UnpubView(st *Store, claimUID string) c02UnpubSecret {
	u := st.Peek(schema.GroupKind{Kind: "Secret"}, "ns", "sec")
	if u == nil {
		return c02UnpubSecret{Ctrl: "none"}
	}
	v := c02UnpubSecret{Present: true, Ctrl: "none"}
	if c := metav1.GetControllerOf(u); c != nil {
		v.Ctrl = "other"
		if string(c.UID) == claimUID {
			v.Ctrl = "claim"
		}
	}
	return v
}

func c02UnpubRun(s c02UnpubScn) (c02UnpubObs, []Mon) {
	sch := runtime.NewScheme()
	_ = corev1.AddToScheme(sch)
	st := NewStore(sch)
	st.Namespaced = map[schema.GroupKind]bool{c02UnpubClaimGVK.GroupKind(): true, {Kind: "Secret"}: true}
	var mons []Mon
	seen := map[string]bool{}
	mon := func(sig, why string) {
		if !seen[sig] {
			seen[sig] = true
			mons = append(mons, Mon{Sig: sig, Why: why})
		}
	}
	cm := &unstructured.Unstructured{Object: map[string]any{}}
	cm.SetGroupVersionKind(c02UnpubClaimGVK)
	cm.SetNamespace("ns")
	cm.SetName("c")
	spec := map[string]any{}
	if s.Wants {
		spec["writeConnectionSecretToRef"] = map[string]any{"name": "sec"}
	}
	if s.XR != "none" {
		spec["resourceRef"] = map[string]any{"apiVersion": "example.org/v1", "kind": "XThing", "name": "c-xr"}
	}
	if s.Fore {
		spec["compositeDeletePolicy"] = "Foreground"
	}
	cm.Object["spec"] = spec
	if s.Published {
		cm.Object["status"] = map[string]any{"connectionDetails": map[string]any{"lastPublishedTime": "2023-11-14T22:13:20Z"}}
	}
	cm.SetFinalizers([]string{c02UnpubClaimFin})
	t := metav1.Unix(1700000000, 0)
	cm.SetDeletionTimestamp(&t)
	st.Seed(cm)
	claimUID := string(st.Peek(c02UnpubClaimGVK.GroupKind(), "ns", "c").GetUID())
	if s.XR == "bound" {
		xr := &unstructured.Unstructured{Object: map[string]any{}}
		xr.SetGroupVersionKind(c02UnpubXRGVK)
		xr.SetName("c-xr")
		xr.SetLabels(map[string]string{"crossplane.io/claim-name": "c", "crossplane.io/claim-namespace": "ns"})
		xr.Object["spec"] = map[string]any{"claimRef": map[string]any{"apiVersion": "example.org/v1", "kind": "Thing", "namespace": "ns", "name": "c"}}
		st.Seed(xr)
	}
	if s.Secret.Present {
		sec := &corev1.Secret{ObjectMeta: metav1.ObjectMeta{Namespace: "ns", Name: "sec"}, Type: resource.SecretTypeConnection, Data: map[string][]byte{"k": []byte("v")}}
		tr := true
		switch s.Secret.Ctrl {
		case "claim":
			sec.OwnerReferences = []metav1.OwnerReference{{APIVersion: "example.org/v1", Kind: "Thing", Name: "c", UID: types.UID(claimUID), Controller: &tr}}
		case "other":
			sec.OwnerReferences = []metav1.OwnerReference{{APIVersion: "example.org/v1", Kind: "Thing", Name: "a", UID: "uid-of-claim-a", Controller: &tr}}
		}
		st.Seed(sec)
	}
	secKey := objKey{schema.GroupKind{Kind: "Secret"}, "ns", "sec"}.String()
	want, had := st.Snapshot()[secKey]
	notOurs := s.Secret.Present && s.Secret.Ctrl != "claim"
	obs := c02UnpubObs{SecretCalls: []string{}}
	rec := claim.NewReconciler(st, resource.CompositeClaimKind(c02UnpubClaimGVK), resource.CompositeKind(c02UnpubXRGVK))
	for _, f := range s.Rounds {
		st.Revive()
		st.Log = nil
		if f != nil {
			ff := *f
			st.Plan = func(c CallInfo) Outcome {
				if c.Index == ff.K {
					return xwOutcome(ff.O)
				}
				return OK
			}
		}
		st.After = func(c CallInfo) {
			if !notOurs || !had {
				return
			}
			got, ok := st.Snapshot()[secKey]
			d := fmt.Sprintf("call %d (%s %s %s/%s)", c.Index, c.Verb, c.GK, c.NS, c.Name)
			who := "foreign"
			if s.Secret.Ctrl == "none" {
				who = "unowned" // no controller reference: may be adopted by a publisher, never just deleted by name
			}
			if !ok {
				mon("C02:secret-"+who+"-deleted", "the secret ns/sec ("+s.Secret.Ctrl+"-controlled, named by the deleting claim's writeConnectionSecretToRef) is gone after "+d)
			} else if got != want {
				mon("C02:secret-"+who+"-written", "the secret ns/sec ("+s.Secret.Ctrl+"-controlled, named by the deleting claim's writeConnectionSecretToRef) was modified by "+d)
			}
		}
		if p := Guard(func() {
			_, _ = rec.Reconcile(context.Background(), reconcile.Request{NamespacedName: types.NamespacedName{Namespace: "ns", Name: "c"}})
		}); p != "" {
			mon("C02:panic", p)
		}
		st.After = nil
		for _, c := range st.Log {
			if schema.ParseGroupKind(c.GK).Kind == "Secret" {
				obs.SecretCalls = append(obs.SecretCalls, fmt.Sprintf("%s Secret/%s %s>%s", c.Verb, c.Name, c.Outcome, c.Err))
			}
		}
	}
	st.Revive()
	obs.Secret = c02UnpubView(st, claimUID)
	return obs, mons
}

func c02UnpubGen(r *Rng) c02UnpubScn {
	s := c02UnpubScn{Wants: r.Chance(5, 6), Published: r.Chance(2, 3), XR: Pick(r, []string{"none", "bound", "gone"}), Fore: r.Chance(1, 4)}
	if r.Chance(5, 6) {
		s.Secret = c02UnpubSecret{Present: true, Ctrl: Pick(r, []string{"other", "other", "claim", "none"})}
	} else {
		s.Secret = c02UnpubSecret{Ctrl: "none"}
	}
	n := r.Range(1, 3)
	for i := 0; i < n; i++ {
		if r.Chance(1, 3) {
			s.Rounds = append(s.Rounds, &xwFault{K: r.Intn(6), O: Pick(r, []string{"fail", "conflict", "crashBefore", "crashAfter"})})
		} else {
			s.Rounds = append(s.Rounds, nil)
		}
	}
	return s
}

func c02UnpubCls(s c02UnpubScn) string {
	sec := "absent"
	if s.Secret.Present {
		sec = s.Secret.Ctrl
	}
	return fmt.Sprintf("unpub/xr=%s/wants=%v/published=%v/secret=%s", s.XR, s.Wants, s.Published, sec)
}

// c02DefaultUnpublisherType: the concrete type behind the ConnectionUnpublisher the claim
// reconciler is built with by default (unexported field, read by reflection; "unknown" when the
// reconciler's layout changed).
func c02DefaultUnpublisherType() string {
	rec := claim.NewReconciler(NewStore(runtime.NewScheme()), resource.CompositeClaimKind(c02UnpubClaimGVK), resource.CompositeKind(c02UnpubXRGVK))
	v := reflect.ValueOf(rec)
	if v.Kind() != reflect.Ptr || v.Elem().Kind() != reflect.Struct {
		return "unknown"
	}
	f := v.Elem().FieldByName("claim")
	if !f.IsValid() || f.Kind() != reflect.Struct {
		return "unknown"
	}
	u := f.FieldByName("ConnectionUnpublisher")
	if !u.IsValid() || u.Kind() != reflect.Interface || u.IsNil() {
		return "unknown"
	}
	return u.Elem().Type().String()
}

func init() {
	RegisterDump("C02Skel", func() string {
		return fmt.Sprintf("/-- concrete type of the claim reconciler's default ConnectionUnpublisher -/\ndef c02ClaimDefaultUnpublisher : String := %s\n", leanStr(c02DefaultUnpublisherType())) +
			SkelDef("c02SkelNopUnpublish", "internal/controller/apiextensions/claim/connection.go", "NopConnectionUnpublisher", "UnpublishConnection", c02SkelOpts("UnpublishConnection")) +
			SkelDef("c02SkelClaimReconcile", "internal/controller/apiextensions/claim/reconciler.go", "Reconciler", "Reconcile",
				SkelOpts{Verbs: map[string]bool{"UnpublishConnection": true, "PropagateConnection": true, "Delete": true, "RemoveFinalizer": true, "AddFinalizer": true}, DropRecv: true})
	})
}

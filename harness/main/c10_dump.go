//go:build verif

package main

// C10 regenerated facts (tie "a"): for every Go function the C10 model mirrors, the ordered
// skeleton of its calls AND of its case labels (the dispatchers of composition_patches.go /
// composition_transforms.go are switch statements: which label leads to which callee is what the
// model's `match` mirrors), extracted with go/ast from the CURRENT tree (VERIF_REPO) on every
// check run into lean/Xp/Gen/C10Skel.lean; the string values of the API constants the model
// dispatches on; the patch-type filters of the render loops. lean/Xp/Props/C10.lean states that
// the skeletons declared beside the model (lean/Xp/Model/C10Skel.lean) equal these lists, so that
// inserting, removing, reordering a call or a case in a modelled function breaks an obligation
// before any scenario is run.
//
// The walker is C10's own (skel.go's SkelOf only lists selector calls; the functions of package
// composite call one another by plain identifier); it reuses skel.go's skelChain/SkelRepo.

import (
	"bytes"
	"fmt"
	"go/ast"
	"go/parser"
	"go/printer"
	"go/token"
	"path/filepath"
	"strings"

	v1 "github.com/crossplane/crossplane/apis/apiextensions/v1"
	"github.com/crossplane/crossplane/internal/controller/apiextensions/composite"
)

// calls that carry no behaviour of their own: builtins, conversions, error/event constructors
var c10SkelIgnore = map[string]bool{
	"make": true, "len": true, "cap": true, "append": true, "new": true, "copy": true, "delete": true, "panic": true,
	"string": true, "int": true, "int64": true, "uint64": true, "float64": true, "any": true,
	"ResourceName": true, "event.Warning": true,
}

type c10SkelOpt struct {
	// extra chains to leave out (texts of events / names in Compose)
	drop map[string]bool
	// also list every `return` with the text of its results (small arithmetic / predicate functions)
	rets bool
}

func c10ExprText(fset *token.FileSet, e ast.Expr) string {
	var b bytes.Buffer
	if err := printer.Fprint(&b, fset, e); err != nil {
		return "?"
	}
	return strings.Join(strings.Fields(b.String()), " ")
}

// c10SkelWalk lists, in source order, what node n contains: the case labels ("case <expr>",
// "default"), the conditions of if statements ("if <expr>", except the ubiquitous `err != nil`),
// the ranged-over expressions ("range <expr>"), the keys of a table of closures ("entry <key>"),
// the calls (dotted chain, receiver `root` stripped) and - with o.rets - the returns.
func c10SkelWalk(fset *token.FileSet, n ast.Node, root string, o c10SkelOpt) []string {
	out := []string{}
	ast.Inspect(n, func(n ast.Node) bool {
		switch t := n.(type) {
		case *ast.CaseClause:
			if t.List == nil {
				out = append(out, "default")
			}
			for _, e := range t.List {
				out = append(out, "case "+c10ExprText(fset, e))
			}
		case *ast.IfStmt:
			if c := c10ExprText(fset, t.Cond); c != "err != nil" {
				out = append(out, "if "+c)
			}
		case *ast.RangeStmt:
			out = append(out, "range "+c10ExprText(fset, t.X))
		case *ast.KeyValueExpr:
			if _, ok := t.Value.(*ast.FuncLit); ok {
				out = append(out, "entry "+c10ExprText(fset, t.Key))
			}
		case *ast.ReturnStmt:
			if o.rets {
				rs := make([]string, len(t.Results))
				for i, e := range t.Results {
					rs[i] = c10ExprText(fset, e)
				}
				out = append(out, "return "+strings.Join(rs, ", "))
			}
		case *ast.CallExpr:
			ch, ok := skelChain(t.Fun)
			if !ok {
				return true
			}
			if root != "" && strings.HasPrefix(ch, root+".") {
				ch = ch[len(root)+1:]
			}
			if c10SkelIgnore[ch] || strings.HasPrefix(ch, "errors.") || strings.HasPrefix(ch, "field.") || o.drop[ch] {
				return true
			}
			out = append(out, ch)
		}
		return true
	})
	return out
}

// c10SkelVar: the same listing for the initialiser of package-level variable `name`.
func c10SkelVar(relFile, name string, o c10SkelOpt) ([]string, error) {
	fset := token.NewFileSet()
	f, err := parser.ParseFile(fset, filepath.Join(SkelRepo(), relFile), nil, 0)
	if err != nil {
		return nil, err
	}
	for _, d := range f.Decls {
		gd, ok := d.(*ast.GenDecl)
		if !ok || gd.Tok != token.VAR {
			continue
		}
		for _, sp := range gd.Specs {
			vs, ok := sp.(*ast.ValueSpec)
			if !ok || len(vs.Names) != 1 || vs.Names[0].Name != name || len(vs.Values) != 1 {
				continue
			}
			return c10SkelWalk(fset, vs.Values[0], "", o), nil
		}
	}
	return nil, fmt.Errorf("variable %s not found in %s", name, relFile)
}

// c10Skel: the listing for function fn (method of recvType if non-empty).
func c10Skel(relFile, recvType, fn string, o c10SkelOpt) ([]string, error) {
	file := filepath.Join(SkelRepo(), relFile)
	fset := token.NewFileSet()
	f, err := parser.ParseFile(fset, file, nil, 0)
	if err != nil {
		return nil, err
	}
	for _, d := range f.Decls {
		fd, ok := d.(*ast.FuncDecl)
		if !ok || fd.Name.Name != fn || fd.Body == nil {
			continue
		}
		root := ""
		if recvType == "" {
			if fd.Recv != nil {
				continue
			}
		} else {
			if fd.Recv == nil || len(fd.Recv.List) != 1 {
				continue
			}
			rt := fd.Recv.List[0].Type
			if st, ok := rt.(*ast.StarExpr); ok {
				rt = st.X
			}
			if id, ok := rt.(*ast.Ident); !ok || id.Name != recvType {
				continue
			}
			if len(fd.Recv.List[0].Names) == 1 {
				root = fd.Recv.List[0].Names[0].Name
			}
		}
		return c10SkelWalk(fset, fd.Body, root, o), nil
	}
	return nil, fmt.Errorf("function %s.%s not found in %s", recvType, fn, relFile)
}

type c10SkelFn struct {
	lean, file, recv, fn string
	opt                  c10SkelOpt
}

const (
	c10DirComposite = "internal/controller/apiextensions/composite/"
	c10DirAPI       = "apis/apiextensions/v1/"
)

var c10ComposeDrop = map[string]bool{"fmt.Sprintf": true, "ptr.Deref": true}

var c10SkelFns = []c10SkelFn{
	// composition_patches.go
	{"c10SkelApply", c10DirComposite + "composition_patches.go", "", "Apply", c10SkelOpt{}},
	{"c10SkelApplyToObjects", c10DirComposite + "composition_patches.go", "", "ApplyToObjects", c10SkelOpt{}},
	{"c10SkelFilterPatch", c10DirComposite + "composition_patches.go", "", "filterPatch", c10SkelOpt{rets: true}},
	{"c10SkelResolveTransforms", c10DirComposite + "composition_patches.go", "", "ResolveTransforms", c10SkelOpt{}},
	{"c10SkelPatchToMultiple", c10DirComposite + "composition_patches.go", "", "patchFieldValueToMultiple", c10SkelOpt{}},
	{"c10SkelApplyFromFieldPath", c10DirComposite + "composition_patches.go", "", "ApplyFromFieldPathPatch", c10SkelOpt{}},
	{"c10SkelApplyCombine", c10DirComposite + "composition_patches.go", "", "ApplyCombineFromVariablesPatch", c10SkelOpt{}},
	{"c10SkelIsOptional", c10DirComposite + "composition_patches.go", "", "IsOptionalFieldPathNotFound", c10SkelOpt{rets: true}},
	{"c10SkelCombine", c10DirComposite + "composition_patches.go", "", "Combine", c10SkelOpt{}},
	{"c10SkelCombineString", c10DirComposite + "composition_patches.go", "", "CombineString", c10SkelOpt{}},
	{"c10SkelComposedTemplates", c10DirComposite + "composition_patches.go", "", "ComposedTemplates", c10SkelOpt{}},
	// merge.go
	{"c10SkelMergePath", c10DirComposite + "merge.go", "", "mergePath", c10SkelOpt{}},
	{"c10SkelMergeReplace", c10DirComposite + "merge.go", "", "mergeReplace", c10SkelOpt{}},
	{"c10SkelWithMergeOptions", c10DirComposite + "merge.go", "", "withMergeOptions", c10SkelOpt{}},
	{"c10SkelMergeOptions", c10DirComposite + "merge.go", "", "mergeOptions", c10SkelOpt{}},
	{"c10SkelPatchToObject", c10DirComposite + "merge.go", "", "patchFieldValueToObject", c10SkelOpt{}},
	// composition_transforms.go
	{"c10SkelResolve", c10DirComposite + "composition_transforms.go", "", "Resolve", c10SkelOpt{}},
	{"c10SkelResolveMath", c10DirComposite + "composition_transforms.go", "", "ResolveMath", c10SkelOpt{}},
	{"c10SkelMathMultiply", c10DirComposite + "composition_transforms.go", "", "resolveMathMultiply", c10SkelOpt{rets: true}},
	{"c10SkelMathClamp", c10DirComposite + "composition_transforms.go", "", "resolveMathClamp", c10SkelOpt{rets: true}},
	{"c10SkelResolveMap", c10DirComposite + "composition_transforms.go", "", "ResolveMap", c10SkelOpt{}},
	{"c10SkelResolveMatch", c10DirComposite + "composition_transforms.go", "", "ResolveMatch", c10SkelOpt{}},
	{"c10SkelMatches", c10DirComposite + "composition_transforms.go", "", "Matches", c10SkelOpt{}},
	{"c10SkelMatchesLiteral", c10DirComposite + "composition_transforms.go", "", "matchesLiteral", c10SkelOpt{rets: true}},
	{"c10SkelMatchesRegexp", c10DirComposite + "composition_transforms.go", "", "matchesRegexp", c10SkelOpt{rets: true}},
	{"c10SkelUnmarshalJSON", c10DirComposite + "composition_transforms.go", "", "unmarshalJSON", c10SkelOpt{rets: true}},
	{"c10SkelResolveString", c10DirComposite + "composition_transforms.go", "", "ResolveString", c10SkelOpt{}},
	{"c10SkelStringConvert", c10DirComposite + "composition_transforms.go", "", "stringConvertTransform", c10SkelOpt{}},
	{"c10SkelStringHash", c10DirComposite + "composition_transforms.go", "", "stringGenerateHash", c10SkelOpt{}},
	{"c10SkelStringTrim", c10DirComposite + "composition_transforms.go", "", "stringTrimTransform", c10SkelOpt{rets: true}},
	{"c10SkelStringRegexp", c10DirComposite + "composition_transforms.go", "", "stringRegexpTransform", c10SkelOpt{rets: true}},
	{"c10SkelStringJoin", c10DirComposite + "composition_transforms.go", "", "stringJoinTransform", c10SkelOpt{}},
	{"c10SkelResolveConvert", c10DirComposite + "composition_transforms.go", "", "ResolveConvert", c10SkelOpt{}},
	{"c10SkelGetConversionFunc", c10DirComposite + "composition_transforms.go", "", "GetConversionFunc", c10SkelOpt{rets: true}},
	// composition_render.go
	{"c10SkelRenderFromJSON", c10DirComposite + "composition_render.go", "", "RenderFromJSON", c10SkelOpt{}},
	{"c10SkelRenderFromXR", c10DirComposite + "composition_render.go", "", "RenderFromCompositePatches", c10SkelOpt{}},
	{"c10SkelRenderToXR", c10DirComposite + "composition_render.go", "", "RenderToCompositePatches", c10SkelOpt{}},
	{"c10SkelRenderMeta", c10DirComposite + "composition_render.go", "", "RenderComposedResourceMetadata", c10SkelOpt{}},
	// composition_pt.go
	{"c10SkelCompose", c10DirComposite + "composition_pt.go", "PTComposer", "Compose", c10SkelOpt{drop: c10ComposeDrop}},
	{"c10SkelToXRPatchesFromTAs", c10DirComposite + "composition_pt.go", "", "toXRPatchesFromTAs", c10SkelOpt{}},
	{"c10SkelFilterPatches", c10DirComposite + "composition_pt.go", "", "filterPatches", c10SkelOpt{rets: true}},
	// internal/names (the name generator Compose calls through c.composed.GenerateName)
	{"c10SkelGenerateName", "internal/names/generate.go", "nameGenerator", "GenerateName", c10SkelOpt{rets: true}},
	// apis/apiextensions/v1
	{"c10SkelPatchGetType", c10DirAPI + "composition_patches.go", "Patch", "GetType", c10SkelOpt{rets: true}},
	{"c10SkelMathGetType", c10DirAPI + "composition_transforms.go", "MathTransform", "GetType", c10SkelOpt{rets: true}},
	{"c10SkelMathValidate", c10DirAPI + "composition_transforms.go", "MathTransform", "Validate", c10SkelOpt{}},
	{"c10SkelConvertGetFormat", c10DirAPI + "composition_transforms.go", "ConvertTransform", "GetFormat", c10SkelOpt{rets: true}},
	{"c10SkelConvertValidate", c10DirAPI + "composition_transforms.go", "ConvertTransform", "Validate", c10SkelOpt{}},
	{"c10SkelIOTypeIsValid", c10DirAPI + "composition_transforms.go", "TransformIOType", "IsValid", c10SkelOpt{rets: true}},
	{"c10SkelFormatIsValid", c10DirAPI + "composition_transforms.go", "ConvertTransformFormat", "IsValid", c10SkelOpt{rets: true}},
}

func c10PatchTypeStrs(ts []v1.PatchType) []string {
	out := make([]string, len(ts))
	for i, t := range ts {
		out[i] = string(t)
	}
	return out
}

func init() {
	RegisterDump("C10Skel", func() string {
		var sb strings.Builder
		for _, s := range c10SkelFns {
			sk, err := c10Skel(s.file, s.recv, s.fn, s.opt)
			if err != nil {
				// a renamed / moved / unparsable function yields a list no declared skeleton equals
				sk = []string{"EXTRACTION FAILED: " + err.Error()}
			}
			who := s.fn
			if s.recv != "" {
				who = s.recv + "." + s.fn
			}
			fmt.Fprintf(&sb, "/-- case labels and calls of %s (%s), source order, regenerated from the current tree -/\ndef %s : List String := %s\n", who, s.file, s.lean, leanStrList(sk))
		}
		cv, err := c10SkelVar(c10DirComposite+"composition_transforms.go", "conversions", c10SkelOpt{rets: true})
		if err != nil {
			cv = []string{"EXTRACTION FAILED: " + err.Error()}
		}
		fmt.Fprintf(&sb, "/-- the `conversions` table (composition_transforms.go): per entry its key and the body of its closure -/\ndef c10SkelConversions : List String := %s\n", leanStrList(cv))
		// the values of the API constants the model's `match`es dispatch on (compiled from the current tree)
		consts := [][2]string{
			{"TransformTypeMap", string(v1.TransformTypeMap)}, {"TransformTypeMatch", string(v1.TransformTypeMatch)},
			{"TransformTypeMath", string(v1.TransformTypeMath)}, {"TransformTypeString", string(v1.TransformTypeString)},
			{"TransformTypeConvert", string(v1.TransformTypeConvert)},
			{"MathTransformTypeMultiply", string(v1.MathTransformTypeMultiply)}, {"MathTransformTypeClampMin", string(v1.MathTransformTypeClampMin)},
			{"MathTransformTypeClampMax", string(v1.MathTransformTypeClampMax)},
			{"MatchFallbackToTypeValue", string(v1.MatchFallbackToTypeValue)}, {"MatchFallbackToTypeInput", string(v1.MatchFallbackToTypeInput)},
			{"MatchTransformPatternTypeLiteral", string(v1.MatchTransformPatternTypeLiteral)}, {"MatchTransformPatternTypeRegexp", string(v1.MatchTransformPatternTypeRegexp)},
			{"StringTransformTypeFormat", string(v1.StringTransformTypeFormat)}, {"StringTransformTypeConvert", string(v1.StringTransformTypeConvert)},
			{"StringTransformTypeTrimPrefix", string(v1.StringTransformTypeTrimPrefix)}, {"StringTransformTypeTrimSuffix", string(v1.StringTransformTypeTrimSuffix)},
			{"StringTransformTypeRegexp", string(v1.StringTransformTypeRegexp)}, {"StringTransformTypeJoin", string(v1.StringTransformTypeJoin)},
			{"StringConversionTypeToUpper", string(v1.StringConversionTypeToUpper)}, {"StringConversionTypeToLower", string(v1.StringConversionTypeToLower)},
			{"StringConversionTypeToJSON", string(v1.StringConversionTypeToJSON)}, {"StringConversionTypeToBase64", string(v1.StringConversionTypeToBase64)},
			{"StringConversionTypeFromBase64", string(v1.StringConversionTypeFromBase64)}, {"StringConversionTypeToSHA1", string(v1.StringConversionTypeToSHA1)},
			{"StringConversionTypeToSHA256", string(v1.StringConversionTypeToSHA256)}, {"StringConversionTypeToSHA512", string(v1.StringConversionTypeToSHA512)},
			{"StringConversionTypeToAdler32", string(v1.StringConversionTypeToAdler32)},
			{"TransformIOTypeString", string(v1.TransformIOTypeString)}, {"TransformIOTypeBool", string(v1.TransformIOTypeBool)},
			{"TransformIOTypeInt", string(v1.TransformIOTypeInt)}, {"TransformIOTypeInt64", string(v1.TransformIOTypeInt64)},
			{"TransformIOTypeFloat64", string(v1.TransformIOTypeFloat64)}, {"TransformIOTypeObject", string(v1.TransformIOTypeObject)},
			{"TransformIOTypeArray", string(v1.TransformIOTypeArray)},
			{"ConvertTransformFormatNone", string(v1.ConvertTransformFormatNone)}, {"ConvertTransformFormatQuantity", string(v1.ConvertTransformFormatQuantity)},
			{"ConvertTransformFormatJSON", string(v1.ConvertTransformFormatJSON)},
			{"PatchTypeFromCompositeFieldPath", string(v1.PatchTypeFromCompositeFieldPath)}, {"PatchTypePatchSet", string(v1.PatchTypePatchSet)},
			{"PatchTypeToCompositeFieldPath", string(v1.PatchTypeToCompositeFieldPath)}, {"PatchTypeCombineFromComposite", string(v1.PatchTypeCombineFromComposite)},
			{"PatchTypeCombineToComposite", string(v1.PatchTypeCombineToComposite)},
			{"FromFieldPathPolicyOptional", string(v1.FromFieldPathPolicyOptional)}, {"FromFieldPathPolicyRequired", string(v1.FromFieldPathPolicyRequired)},
			{"CombineStrategyString", string(v1.CombineStrategyString)},
		}
		items := make([]string, len(consts))
		for i, c := range consts {
			items[i] = fmt.Sprintf("(%s, %s)", leanStr(c[0]), leanStr(c[1]))
		}
		fmt.Fprintf(&sb, "/-- values of the API constants (apis/apiextensions/v1) the model dispatches on -/\ndef c10Consts : List (String × String) := [\n  %s]\n", strings.Join(items, ",\n  "))
		fmt.Fprintf(&sb, "/-- patchTypesFromXR() (composite.go) -/\ndef c10PatchTypesFromXR : List String := %s\n", leanStrList(c10PatchTypeStrs(composite.VerifC10PatchTypesFromXR())))
		fmt.Fprintf(&sb, "/-- patchTypesToXR() (composite.go) -/\ndef c10PatchTypesToXR : List String := %s\n", leanStrList(c10PatchTypeStrs(composite.VerifC10PatchTypesToXR())))
		return sb.String()
	})
}

//go:build verif

package main

// C14: a package has at most one active revision, numbered last; history GC
// spares it.
//
// Drives the REAL manager.Reconciler (internal/controller/pkg/manager) built with
// the real NewReconciler, the real PackageRevisioner (pull-policy shortcuts,
// xpkg.FriendlyID) over a scripted xpkg.Fetcher (the fake registry: per reconcile it
// answers the HEAD for the package's source with a digest, a nil descriptor, or an
// error VALUE of a given class - opaque, *transport.Error temporary / permanent,
// other Temporary() error, context deadline / canceled - see c14ErrKinds), and the real
// xpkg.ImageConfigStore, all on top of simstore. A scenario is an initial store
// (one package, any revisions) and a history of steps: package edits, registry
// answers, environment steps (revision status/finalizer changes, finalisation of
// deleted revisions) and reconciles under a fault plan. After EVERY API call of
// every reconcile the PackageRevision objects are snapshotted (st.After); the
// sequence of distinct consecutive snapshots is the observation that is diffed
// against the Lean model's `reach`, and on which the monitors evaluate the
// property directly.

import (
	"context"
	"errors"
	"fmt"
	"os"
	"sort"
	"strings"
	"time"

	"github.com/google/go-containerregistry/pkg/name"
	ggcr "github.com/google/go-containerregistry/pkg/v1"
	"github.com/google/go-containerregistry/pkg/v1/remote/transport"
	corev1 "k8s.io/api/core/v1"
	metav1 "k8s.io/apimachinery/pkg/apis/meta/v1"
	"k8s.io/apimachinery/pkg/apis/meta/v1/unstructured"
	"k8s.io/apimachinery/pkg/runtime"
	"k8s.io/apimachinery/pkg/runtime/schema"
	"k8s.io/apimachinery/pkg/types"
	"k8s.io/utils/ptr"
	"sigs.k8s.io/controller-runtime/pkg/client"
	ctrlmanager "sigs.k8s.io/controller-runtime/pkg/manager"
	"sigs.k8s.io/controller-runtime/pkg/reconcile"

	xpv1 "github.com/crossplane/crossplane-runtime/apis/common/v1"
	xperrors "github.com/crossplane/crossplane-runtime/pkg/errors"
	"github.com/crossplane/crossplane-runtime/pkg/meta"

	pkgv1 "github.com/crossplane/crossplane/apis/pkg/v1"
	pkgv1beta1 "github.com/crossplane/crossplane/apis/pkg/v1beta1"
	"github.com/crossplane/crossplane/internal/controller/pkg/manager"
	"github.com/crossplane/crossplane/internal/xpkg"
)

// ---------------------------------------------------------------- scenario

type c14KV [2]string

type c14Spec struct {
	Source string  `json:"source"`
	Limit  *int64  `json:"limit"`  // null = unset
	Policy string  `json:"policy"` // "" | Automatic | Manual
	Pull   string  `json:"pull"`   // "" | Always | Never | IfNotPresent
	Paused bool    `json:"paused"`
	Labels []c14KV `json:"labels"` // commonLabels, sorted by key
	// the other spec fields Reconcile copies to the revision, as serialised JSON leaves sorted by path
	// (c14ExtraKeys without packagePullPolicy, which is Pull): absent = the field is not set
	Extra []c14KV `json:"extra,omitempty"`
}

type c14Pkg struct {
	Name       string  `json:"name"`
	UID        string  `json:"uid"`
	Spec       c14Spec `json:"spec"`
	CurRev     string  `json:"curRev"`
	CurID      string  `json:"curId"`
	PausedCond bool    `json:"pausedCond"`
}

type c14Rev struct {
	Name     string  `json:"name"`
	Parent   string  `json:"parent"` // value of the parent-package label, "" = none
	Number   int64   `json:"number"`
	State    string  `json:"state"` // Active | Inactive | ""
	Ctrl     string  `json:"ctrl"`  // controller owner uid, "" = none
	Image    string  `json:"image"`
	Labels   []c14KV `json:"labels"`
	Fin      bool    `json:"fin"`
	Deleting bool    `json:"deleting"`
	Extra    []c14KV `json:"extra"` // the copied spec leaves (c14ExtraKeys) the object serialises, sorted by path
}

type c14Fault struct {
	K int    `json:"k"`
	O string `json:"o"`
}

type c14Step struct {
	Op string `json:"op"` // edit | reconcile | finalize | addfin | revstatus | recreate | name
	// edit / reconcile / recreate: the package concerned ("" = the scenario's first package)
	Pkg string `json:"pkg,omitempty"`
	// edit
	Spec *c14Spec `json:"spec,omitempty"`
	// reconcile
	Faults  []c14Fault `json:"faults,omitempty"` // o: fail | conflict | crashBefore | crashAfter | fail:<class> (c14Classes)
	Head    string     `json:"head,omitempty"`   // registry answer for the package's source: hex digest | "nil" | "err" (opaque error) | "err:<kind>" (c14ErrKinds)
	ParseOK bool       `json:"parseOk,omitempty"`
	// reconcile on the REAL xpkg.K8sFetcher over the in-process registry (c14_reg.go): "<artefact>|<mode>",
	// artefact = image:<x> | index:<x>, mode = ok | head404 | head405 | head500 | down; Head is then the
	// digest the registry holds for the package's source (err:503 when down)
	Reg string `json:"reg,omitempty"`
	Acts    []c14Act   `json:"acts,omitempty"` // what OTHER clients do right before API call k of this reconcile (c14_world.go)
	Lag     *c14Lag    `json:"lag,omitempty"`  // how far the informer cache behind the reconciler's client is behind (generator's intent)
	View    *c14View   `json:"view,omitempty"` // what that cache holds (filled in by the harness from Lag; a parameter of the model)
	// recreate
	UID string `json:"uid,omitempty"`
	// addfin / revstatus
	Name   string `json:"name,omitempty"`
	Health string `json:"health,omitempty"`
}

type c14Scn struct {
	Kind  string    `json:"kind"` // Provider | Configuration | Function | name
	Pkg   c14Pkg    `json:"pkg"`
	More  []c14Pkg  `json:"more,omitempty"` // further packages of the same kind, reconciled by the SAME reconciler
	Revs  []c14Rev  `json:"revs"`
	Steps []c14Step `json:"steps"`
	// kind = "name": direct FriendlyID probes
	Probes [][2]string `json:"probes,omitempty"`
}

type c14PkgObs struct {
	Exists     bool   `json:"exists"`
	CurRev     string `json:"curRev"`
	CurID      string `json:"curId"`
	PausedCond bool   `json:"pausedCond"`
}

type c14RecObs struct {
	Res   string     `json:"res"` // ok | okAfter | requeue | err | crashed
	Trace [][]c14Rev `json:"trace"`
	Pkg   c14PkgObs  `json:"pkg"`
}

type c14Obs struct {
	Recs  []c14RecObs `json:"recs"`
	Revs  []c14Rev    `json:"revs"`
	Names []string    `json:"names"`
}

// ---------------------------------------------------------------- kinds

type c14Kind struct {
	pkgGK, revGK schema.GroupKind
	newPkg       func() pkgv1.Package
	newRev       func() pkgv1.PackageRevision
	newRevList   func() pkgv1.PackageRevisionList
}

var c14Kinds = map[string]c14Kind{
	"Provider": {
		pkgGK: schema.GroupKind{Group: pkgv1.Group, Kind: pkgv1.ProviderKind}, revGK: schema.GroupKind{Group: pkgv1.Group, Kind: pkgv1.ProviderRevisionKind},
		newPkg: func() pkgv1.Package { return &pkgv1.Provider{} }, newRev: func() pkgv1.PackageRevision { return &pkgv1.ProviderRevision{} },
		newRevList: func() pkgv1.PackageRevisionList { return &pkgv1.ProviderRevisionList{} },
	},
	"Configuration": {
		pkgGK: schema.GroupKind{Group: pkgv1.Group, Kind: pkgv1.ConfigurationKind}, revGK: schema.GroupKind{Group: pkgv1.Group, Kind: pkgv1.ConfigurationRevisionKind},
		newPkg: func() pkgv1.Package { return &pkgv1.Configuration{} }, newRev: func() pkgv1.PackageRevision { return &pkgv1.ConfigurationRevision{} },
		newRevList: func() pkgv1.PackageRevisionList { return &pkgv1.ConfigurationRevisionList{} },
	},
	"Function": {
		pkgGK: schema.GroupKind{Group: pkgv1.Group, Kind: pkgv1.FunctionKind}, revGK: schema.GroupKind{Group: pkgv1.Group, Kind: pkgv1.FunctionRevisionKind},
		newPkg: func() pkgv1.Package { return &pkgv1.Function{} }, newRev: func() pkgv1.PackageRevision { return &pkgv1.FunctionRevision{} },
		newRevList: func() pkgv1.PackageRevisionList { return &pkgv1.FunctionRevisionList{} },
	},
}

var c14Scheme = func() *runtime.Scheme {
	s := runtime.NewScheme()
	_ = pkgv1.AddToScheme(s)
	_ = pkgv1beta1.AddToScheme(s)
	return s
}()

// c14Mgr is the minimal ctrl.Manager NewReconciler needs (only GetClient is called).
type c14Mgr struct {
	ctrlmanager.Manager
	c client.Client
}

func (m c14Mgr) GetClient() client.Client { return m.c }

// c14Registry is the scripted xpkg.Fetcher (the fake registry).
type c14Registry struct {
	answer string   // hex digest | "nil" | "err" | "err:<kind>"
	heads  int      // Head calls since the counter was reset
	refs   []string // the references Head was asked about
}

func (f *c14Registry) Fetch(context.Context, name.Reference, ...string) (ggcr.Image, error) {
	return nil, errors.New("c14: Fetch not scripted")
}

func (f *c14Registry) Head(_ context.Context, ref name.Reference, _ ...string) (*ggcr.Descriptor, error) {
	f.heads++
	f.refs = append(f.refs, ref.String())
	if d, ok := c14HeadDigest(f.answer); ok {
		return &ggcr.Descriptor{Digest: ggcr.Hash{Algorithm: "sha256", Hex: d}}, nil
	}
	if f.answer == "nil" {
		return nil, nil
	}
	return nil, c14HeadErr(f.answer)
}

// c14HeadDigest: is the scripted answer a digest?
func c14HeadDigest(a string) (string, bool) {
	if a == "" || a == "nil" || strings.HasPrefix(a, "err") {
		return "", false
	}
	return a, true
}

// c14NetErr is a temporary error that is not a registry (*transport.Error) error.
type c14NetErr struct{}

func (c14NetErr) Error() string   { return "c14: dial tcp: i/o timeout" }
func (c14NetErr) Timeout() bool   { return true }
func (c14NetErr) Temporary() bool { return true }

// c14ErrKinds: the kinds of error the fake registry can answer a HEAD with. "err" is an
// opaque error; the others are the values the real xpkg.K8sFetcher.Head can return: a
// *transport.Error (HTTP status + registry diagnostics) wrapped the way K8sFetcher wraps the
// error of its GET fallback ("err:503b": bare), a network error, the context's error.
var c14ErrKinds = []string{"err", "err:503", "err:503b", "err:504", "err:429", "err:net", "err:401", "err:403", "err:404", "err:deadline", "err:canceled"}

func c14HeadErr(a string) error {
	te := func(code int, diag ...transport.ErrorCode) error {
		e := &transport.Error{StatusCode: code}
		for _, d := range diag {
			e.Errors = append(e.Errors, transport.Diagnostic{Code: d, Message: "scripted"})
		}
		return e
	}
	wrap := func(e error) error {
		return xperrors.Wrapf(e, "failed to fetch package descriptor with a GET request after a previous HEAD request failure: %v", e)
	}
	switch a {
	case "err:503":
		return wrap(te(503))
	case "err:503b":
		return te(503)
	case "err:504":
		return wrap(te(504))
	case "err:429":
		return wrap(te(429, transport.TooManyRequestsErrorCode))
	case "err:net":
		return wrap(c14NetErr{})
	case "err:401":
		return wrap(te(401, transport.UnauthorizedErrorCode))
	case "err:403":
		return wrap(te(403, transport.DeniedErrorCode))
	case "err:404":
		return wrap(te(404, transport.ManifestUnknownErrorCode))
	case "err:deadline":
		return wrap(context.DeadlineExceeded)
	case "err:canceled":
		return context.Canceled
	}
	return errors.New("c14: registry unavailable")
}

// c14ErrClass classifies an error value the way a caller of Fetcher.Head could: by the
// error's own methods (tabulated into lean/Xp/Gen/PkgNames.lean, where the model's
// ErrClass.ofKind must reproduce it).
func c14ErrClass(err error) string {
	var te *transport.Error
	if errors.As(err, &te) {
		if te.Temporary() {
			return "temporary"
		}
		return "permanent"
	}
	if errors.Is(err, context.DeadlineExceeded) || errors.Is(err, context.Canceled) {
		return "timeout"
	}
	var tmp interface{ Temporary() bool }
	if errors.As(err, &tmp) && tmp.Temporary() {
		return "temporary"
	}
	return "plain"
}

// c14HeadClass: the class of a scripted registry answer (for cls / generator bookkeeping).
func c14HeadClass(a string) string {
	if _, ok := c14HeadDigest(a); ok {
		return "digest"
	}
	if a == "nil" {
		return "nil"
	}
	return c14ErrClass(c14HeadErr(a))
}

// c14Expect is the property's own statement of what PackageRevisioner.Revision may answer,
// from the package as stored (name, spec, recorded current revision/identifier) and the
// registry's answer for the package's CURRENT source. It is independent of the code under
// test. kind: never | recorded | digest | nodigest | error.
func c14Expect(pn string, sp c14Spec, pre c14PkgObs, head string, parseOK bool) (string, string) {
	switch {
	case sp.Pull == string(corev1.PullNever):
		return xpkg.FriendlyID(pn, sp.Source), "never"
	case sp.Pull == string(corev1.PullIfNotPresent) && pre.CurID == sp.Source:
		return pre.CurRev, "recorded"
	case !parseOK:
		return "", "error"
	}
	if d, ok := c14HeadDigest(head); ok {
		return xpkg.FriendlyID(pn, d), "digest"
	}
	if head == "nil" {
		return "", "nodigest"
	}
	return "", "error"
}

func (f *c14Registry) Tags(context.Context, name.Reference, ...string) ([]string, error) {
	return nil, errors.New("c14: Tags not scripted")
}

// ---------------------------------------------------------------- object construction / canonical form

func c14LabelsMap(kv []c14KV) map[string]string {
	if len(kv) == 0 {
		return nil
	}
	m := map[string]string{}
	for _, p := range kv {
		m[p[0]] = p[1]
	}
	return m
}

// c14ExtraKeys: the revision spec leaves (other than image, commonLabels and the two TLS secret names)
// written by the package -> revision copies of Reconcile (lean/Xp/Gen/C14Skel.lean c14CopiedFields;
// Xp.C14.extraKeys; tied by copied_fields_match_source / extra_keys_are_the_copied_leaves).
var c14ExtraKeys = []string{"controllerConfigRef.name", "ignoreCrossplaneConstraints", "packagePullPolicy", "packagePullSecrets",
	"runtimeConfigRef.apiVersion", "runtimeConfigRef.kind", "runtimeConfigRef.name", "skipDependencyResolution"}

// c14ExtraOf reads the copied leaves from a serialised spec. withPull=false leaves packagePullPolicy out
// (for the package it is c14Spec.Pull).
func c14ExtraOf(spec map[string]any, withPull bool) []c14KV {
	out := []c14KV{}
	for _, k := range c14ExtraKeys {
		if k == "packagePullPolicy" && !withPull {
			continue
		}
		var v any = spec
		ok := true
		for _, part := range strings.Split(k, ".") {
			m, isMap := v.(map[string]any)
			if !isMap {
				ok = false
				break
			}
			if v, ok = m[part]; !ok {
				break
			}
		}
		if !ok || v == nil {
			continue
		}
		switch t := v.(type) {
		case string:
			out = append(out, c14KV{k, t})
		case bool:
			out = append(out, c14KV{k, fmt.Sprint(t)})
		case []any:
			names := []string{}
			for _, e := range t {
				if em, isMap := e.(map[string]any); isMap {
					names = append(names, fmt.Sprint(em["name"]))
				}
			}
			out = append(out, c14KV{k, strings.Join(names, ",")})
		default:
			out = append(out, c14KV{k, fmt.Sprint(t)})
		}
	}
	return out
}

func c14ExtraGet(kv []c14KV, k string) (string, bool) {
	for _, e := range kv {
		if e[0] == k {
			return e[1], true
		}
	}
	return "", false
}

// c14ApplyExtra sets the copied spec fields of a package or a revision (both have the same setters) from leaves.
func c14ApplyExtra(o interface {
	SetPackagePullSecrets([]corev1.LocalObjectReference)
	SetIgnoreCrossplaneConstraints(*bool)
	SetSkipDependencyResolution(*bool)
}, kv []c14KV) {
	var secrets []corev1.LocalObjectReference
	if v, ok := c14ExtraGet(kv, "packagePullSecrets"); ok && v != "" {
		for _, n := range strings.Split(v, ",") {
			secrets = append(secrets, corev1.LocalObjectReference{Name: n})
		}
	}
	o.SetPackagePullSecrets(secrets)
	b := func(k string) *bool {
		if v, ok := c14ExtraGet(kv, k); ok {
			return ptr.To(v == "true")
		}
		return nil
	}
	o.SetIgnoreCrossplaneConstraints(b("ignoreCrossplaneConstraints"))
	o.SetSkipDependencyResolution(b("skipDependencyResolution"))
	if rt, ok := o.(interface {
		SetRuntimeConfigRef(*pkgv1.RuntimeConfigReference)
		SetControllerConfigRef(*pkgv1.ControllerConfigReference)
	}); ok {
		var rc *pkgv1.RuntimeConfigReference
		if n, ok := c14ExtraGet(kv, "runtimeConfigRef.name"); ok {
			rc = &pkgv1.RuntimeConfigReference{Name: n}
			if v, ok := c14ExtraGet(kv, "runtimeConfigRef.apiVersion"); ok {
				rc.APIVersion = ptr.To(v)
			}
			if v, ok := c14ExtraGet(kv, "runtimeConfigRef.kind"); ok {
				rc.Kind = ptr.To(v)
			}
		}
		rt.SetRuntimeConfigRef(rc)
		var cc *pkgv1.ControllerConfigReference
		if n, ok := c14ExtraGet(kv, "controllerConfigRef.name"); ok {
			cc = &pkgv1.ControllerConfigReference{Name: n}
		}
		rt.SetControllerConfigRef(cc)
	}
}

func c14ApplySpec(p pkgv1.Package, s c14Spec) {
	p.SetSource(s.Source)
	c14ApplyExtra(p, s.Extra)
	if s.Limit != nil {
		p.SetRevisionHistoryLimit(ptr.To(*s.Limit))
	} else {
		p.SetRevisionHistoryLimit(nil)
	}
	if s.Policy != "" {
		p.SetActivationPolicy(ptr.To(pkgv1.RevisionActivationPolicy(s.Policy)))
	} else {
		p.SetActivationPolicy(nil)
	}
	if s.Pull != "" {
		p.SetPackagePullPolicy(ptr.To(corev1.PullPolicy(s.Pull)))
	} else {
		p.SetPackagePullPolicy(nil)
	}
	p.SetCommonLabels(c14LabelsMap(s.Labels))
	a := p.GetAnnotations()
	if s.Paused {
		if a == nil {
			a = map[string]string{}
		}
		a[meta.AnnotationKeyReconciliationPaused] = "true"
	} else {
		delete(a, meta.AnnotationKeyReconciliationPaused)
	}
	p.SetAnnotations(a)
}

func c14SeedRev(st *Store, k c14Kind, r c14Rev) {
	o := k.newRev()
	o.SetName(r.Name)
	if r.Parent != "" {
		o.SetLabels(map[string]string{pkgv1.LabelParentPackage: r.Parent})
	}
	o.SetRevision(r.Number)
	o.SetDesiredState(pkgv1.PackageRevisionDesiredState(r.State))
	o.SetSource(r.Image)
	o.SetCommonLabels(c14LabelsMap(r.Labels))
	c14ApplyExtra(o, r.Extra)
	if v, ok := c14ExtraGet(r.Extra, "packagePullPolicy"); ok {
		o.SetPackagePullPolicy(ptr.To(corev1.PullPolicy(v)))
	}
	if r.Ctrl != "" {
		o.SetOwnerReferences([]metav1.OwnerReference{{APIVersion: pkgv1.SchemeGroupVersion.String(), Kind: k.pkgGK.Kind, Name: "owner-" + r.Ctrl, UID: types.UID(r.Ctrl), Controller: ptr.To(true), BlockOwnerDeletion: ptr.To(true)}})
	}
	if r.Fin || r.Deleting {
		o.SetFinalizers([]string{"revision.pkg.crossplane.io"})
	}
	if r.Deleting {
		t := metav1.NewTime(time.Unix(1700000000, 0).UTC())
		o.SetDeletionTimestamp(&t)
	}
	o.GetObjectKind().SetGroupVersionKind(pkgv1.SchemeGroupVersion.WithKind(k.revGK.Kind))
	st.Seed(o)
}

func c14RevOf(u *unstructured.Unstructured) c14Rev {
	r := c14Rev{Name: u.GetName(), Labels: []c14KV{}, Extra: []c14KV{}}
	if sp, ok := u.Object["spec"].(map[string]any); ok {
		r.Extra = c14ExtraOf(sp, true)
	}
	r.Parent = u.GetLabels()[pkgv1.LabelParentPackage]
	switch n := func() any { v, _, _ := unstructured.NestedFieldNoCopy(u.Object, "spec", "revision"); return v }().(type) {
	case int64:
		r.Number = n
	case float64:
		r.Number = int64(n)
	}
	r.State, _, _ = unstructured.NestedString(u.Object, "spec", "desiredState")
	r.Image, _, _ = unstructured.NestedString(u.Object, "spec", "image")
	cl, _, _ := unstructured.NestedStringMap(u.Object, "spec", "commonLabels")
	for k, v := range cl {
		r.Labels = append(r.Labels, c14KV{k, v})
	}
	sort.Slice(r.Labels, func(i, j int) bool { return r.Labels[i][0] < r.Labels[j][0] })
	for _, or := range u.GetOwnerReferences() {
		if or.Controller != nil && *or.Controller {
			r.Ctrl = string(or.UID)
		}
	}
	r.Fin = len(u.GetFinalizers()) > 0
	r.Deleting = u.GetDeletionTimestamp() != nil
	return r
}

func c14Snapshot(st *Store, k c14Kind) []c14Rev {
	out := []c14Rev{}
	for _, u := range st.OfKind(k.revGK) {
		out = append(out, c14RevOf(u))
	}
	return out
}

func c14PkgObsOf(st *Store, k c14Kind, pname string) c14PkgObs {
	u := st.Peek(k.pkgGK, "", pname)
	if u == nil {
		return c14PkgObs{}
	}
	o := c14PkgObs{Exists: true}
	o.CurRev, _, _ = unstructured.NestedString(u.Object, "status", "currentRevision")
	o.CurID, _, _ = unstructured.NestedString(u.Object, "status", "currentIdentifier")
	conds, _, _ := unstructured.NestedSlice(u.Object, "status", "conditions")
	for _, c := range conds {
		cm, _ := c.(map[string]any)
		if cm["type"] == string(xpv1.TypeSynced) && cm["reason"] == string(xpv1.ReasonReconcilePaused) {
			o.PausedCond = true
		}
	}
	return o
}

// c14CondStatus: the status of condition `typ` of an object ("" = no such condition).
func c14CondStatus(u *unstructured.Unstructured, typ string) string {
	conds, _, _ := unstructured.NestedSlice(u.Object, "status", "conditions")
	for _, c := range conds {
		if cm, ok := c.(map[string]any); ok && cm["type"] == typ {
			return fmt.Sprint(cm["status"])
		}
	}
	return ""
}

func c14NonNil(kv []c14KV) []c14KV {
	if kv == nil {
		return []c14KV{}
	}
	return kv
}

func c14SameRevs(a, b []c14Rev) bool { return mustJSON(a) == mustJSON(b) }

func c14Outcome(s string) Outcome {
	switch s {
	case "fail":
		return Fail
	case "conflict":
		return Conflict
	case "crashBefore":
		return CrashBefore
	case "crashAfter":
		return CrashAfter
	}
	return OK
}

func c14ParseOK(src string) bool {
	_, err := name.ParseReference(src, name.WithDefaultRegistry(xpkg.DefaultRegistry))
	return err == nil
}

func c14ActiveCount(revs []c14Rev, pname string) int {
	n := 0
	for _, r := range revs {
		if r.Parent == pname && r.State == string(pkgv1.PackageRevisionActive) {
			n++
		}
	}
	return n
}

// ---------------------------------------------------------------- run

// c14LogTap, when set, receives the call log of every reconcile (used by the skeleton dump).
var c14LogTap func([]CallInfo)

func c14Run(s *c14Scn) (c14Obs, []Mon, string) {
	obs := c14Obs{Recs: []c14RecObs{}, Revs: []c14Rev{}, Names: []string{}}
	var mons []Mon
	addMon := func(sig, why string) {
		for _, m := range mons {
			if m.Sig == sig {
				return
			}
		}
		mons = append(mons, Mon{Sig: sig, Why: why})
	}
	if s.Kind == "name" {
		for _, p := range s.Probes {
			var got string
			if pan := Guard(func() { got = xpkg.FriendlyID(p[0], p[1]) }); pan != "" {
				addMon("C14:panic", pan)
			}
			var again string
			_ = Guard(func() { again = xpkg.FriendlyID(p[0], p[1]) })
			if again != got {
				addMon("C14:name-not-function", fmt.Sprintf("FriendlyID(%q,%q) gave %q then %q", p[0], p[1], got, again))
			}
			obs.Names = append(obs.Names, got)
		}
		return obs, mons, fmt.Sprintf("name/n=%d", len(s.Probes))
	}
	k, ok := c14Kinds[s.Kind]
	if !ok {
		return obs, mons, "trivial/badkind"
	}
	st := NewStore(c14Scheme)
	seedPkg := func(pk c14Pkg) {
		p := k.newPkg()
		p.SetName(pk.Name)
		p.SetUID(types.UID(pk.UID))
		c14ApplySpec(p, pk.Spec)
		p.SetCurrentRevision(pk.CurRev)
		p.SetCurrentIdentifier(pk.CurID)
		if pk.PausedCond {
			p.SetConditions(xpv1.ReconcilePaused())
		}
		p.GetObjectKind().SetGroupVersionKind(pkgv1.SchemeGroupVersion.WithKind(k.pkgGK.Kind))
		st.Seed(p)
	}
	// live spec of every package, as the scenario's edits leave it
	specs := map[string]c14Spec{s.Pkg.Name: s.Pkg.Spec}
	uids := map[string]string{s.Pkg.Name: s.Pkg.UID}
	seedPkg(s.Pkg)
	for _, m := range s.More {
		if _, dup := specs[m.Name]; dup {
			continue
		}
		specs[m.Name], uids[m.Name] = m.Spec, m.UID
		seedPkg(m)
	}
	for _, r := range s.Revs {
		c14SeedRev(st, k, r)
	}

	// ONE reconciler, revisioner, applicator and image-config store per process (as
	// manager.Setup* builds them), on the cached client, for every package of the kind
	cl := &c14Client{Store: st, k: k}
	cl.reset()
	reg := &c14Registry{}
	rec := manager.NewReconciler(c14Mgr{c: cl},
		manager.WithNewPackageFn(k.newPkg),
		manager.WithNewPackageRevisionFn(k.newRev),
		manager.WithNewPackageRevisionListFn(k.newRevList),
		manager.WithRevisioner(manager.NewPackageRevisioner(reg, manager.WithDefaultRegistry(xpkg.DefaultRegistry))),
		manager.WithConfigStore(xpkg.NewImageConfigStore(cl, "crossplane-system")),
	)
	// the same reconciler on the REAL K8sFetcher over an in-process registry, for steps with `reg`
	var regSrv *c14Reg
	var realFetcher xpkg.Fetcher
	var recReal *manager.Reconciler
	needReal := false
	for _, stp := range s.Steps {
		if stp.Reg != "" {
			needReal = true
		}
	}
	if needReal {
		regSrv = newC14Reg()
		if f, ferr := c14RealFetcher(regSrv); ferr == nil {
			realFetcher = f
			recReal = manager.NewReconciler(c14Mgr{c: cl},
				manager.WithNewPackageFn(k.newPkg),
				manager.WithNewPackageRevisionFn(k.newRev),
				manager.WithNewPackageRevisionListFn(k.newRevList),
				manager.WithRevisioner(manager.NewPackageRevisioner(f, manager.WithDefaultRegistry(xpkg.DefaultRegistry))),
				manager.WithConfigStore(xpkg.NewImageConfigStore(cl, "crossplane-system")),
			)
		} else {
			addMon("C14:panic", "cannot build the real K8sFetcher: "+ferr.Error())
		}
	}
	// an independent instance of the real revisioner, used by the monitors only
	monReg := &c14Registry{}
	monRev := manager.NewPackageRevisioner(monReg, manager.WithDefaultRegistry(xpkg.DefaultRegistry))

	// every version of the world, oldest first (what a lagging informer cache may still hold)
	vers := []c14Ver{c14TakeVer(st, k)}
	needVers := false // only a scenario with a lagging reconcile needs the history
	for _, stp := range s.Steps {
		if stp.Lag != nil {
			needVers = true
		}
	}
	note := func() {
		if !needVers {
			return
		}
		if v := c14TakeVer(st, k); v.key != vers[len(vers)-1].key {
			vers = append(vers, v)
		}
	}
	touchN := 0

	nameOf := map[string]string{} // (package name, digest) -> revision name seen
	nRec, nGC, lastRes, lastFault := 0, 0, "none", "none"
	fetchCls, srcEdited := "none", false // class of the first failed fetch, "@edit" if it hit the first reconcile after a source edit
	world := map[string]bool{}           // which of the new dimensions the scenario exercised (for cls)
	pkgsSeen := map[string]bool{}
	stepPkg := func(step *c14Step) string {
		if step.Pkg != "" {
			return step.Pkg
		}
		return s.Pkg.Name
	}
	for i := range s.Steps {
		step := &s.Steps[i]
		pn := stepPkg(step)
		switch step.Op {
		case "edit":
			if step.Spec == nil {
				continue
			}
			if _, known := specs[pn]; !known {
				continue
			}
			if step.Spec.Source != specs[pn].Source {
				srcEdited = true
			}
			specs[pn] = *step.Spec
			c14EditPkg(st, k, pn, *step.Spec)
		case "recreate":
			// the package is deleted and created again under the same name: a NEW uid, no status;
			// its old revisions are still there, controlled by the old uid
			if _, known := specs[pn]; !known || step.UID == "" {
				continue
			}
			st.Remove(k.pkgGK, "", pn)
			seedPkg(c14Pkg{Name: pn, UID: step.UID, Spec: specs[pn]})
			uids[pn] = step.UID
			world["recreated"] = true
		case "finalize":
			// the revision reconciler removes its finalizer from deleted revisions
			for _, u := range st.OfKind(k.revGK) {
				if u.GetDeletionTimestamp() != nil {
					st.Remove(k.revGK, "", u.GetName())
				}
			}
		case "addfin":
			st.Mutate(k.revGK, "", step.Name, func(u *unstructured.Unstructured) {
				if len(u.GetFinalizers()) == 0 {
					u.SetFinalizers([]string{"revision.pkg.crossplane.io"})
				}
			})
		case "revstatus":
			st.Mutate(k.revGK, "", step.Name, func(u *unstructured.Unstructured) {
				_ = unstructured.SetNestedSlice(u.Object, []any{map[string]any{"type": "Healthy", "status": step.Health, "reason": "Env", "lastTransitionTime": "2024-01-01T00:00:00Z"}}, "status", "conditions")
			})
		case "reconcile":
			note()
			curSpec, known := specs[pn]
			if !known {
				continue
			}
			nRec++
			pkgsSeen[pn] = true
			theRec := rec
			if step.Reg != "" && recReal != nil {
				// the registry holds the step's artefact under the package's source and treats HEAD as told
				art, mode := c14RegStep(step.Reg)
				step.Head = c14RegHead(step.Reg)
				world["registry"] = true
				if perr := regSrv.push(curSpec.Source, art); perr == nil {
					regSrv.mode = mode
					// direct monitor on the fetcher: the digest it reports is the digest of the manifest the
					// registry holds for the reference, whether or not HEAD is served
					if mode != "down" {
						var got string
						var herr error
						if pan := Guard(func() { got, herr = c14ProbeHead(realFetcher, curSpec.Source, step.Head) }); pan != "" {
							addMon("C14:panic", pan)
						} else if herr != nil {
							addMon("C14:fetcher-digest-depends-on-head-support", fmt.Sprintf("reconcile %d: Head(%s) failed (%v) although the registry serves GET (HEAD mode %s)", nRec, curSpec.Source, herr, mode))
						} else if got != step.Head {
							addMon("C14:fetcher-digest-depends-on-head-support", fmt.Sprintf("reconcile %d: Head(%s) reported digest %.12s, the registry holds %s with digest %.12s (HEAD mode %s)", nRec, curSpec.Source, got, art, step.Head, mode))
						}
					}
					theRec = recReal
				}
			}
			if hc := c14HeadClass(step.Head); hc != "digest" && fetchCls == "none" {
				fetchCls = hc
				if srcEdited {
					fetchCls += "@edit"
				}
			}
			srcEdited = false
			reg.answer = step.Head
			plan := map[int]Outcome{}
			cl.reset()
			for _, f := range step.Faults {
				if _, dup := plan[f.K]; !dup {
					o, class := c14FaultOutcome(f.O)
					plan[f.K] = o
					if class != "" {
						cl.classAt[f.K] = class
						world["class"] = true
					}
				}
			}
			step.View = nil
			if step.Lag != nil {
				step.View = c14MakeView(cl, vers, *step.Lag, pn)
				if step.View != nil {
					world["lag"] = true
				}
			}
			if len(step.Acts) > 0 {
				world["acts"] = true
			}
			st.Revive()
			st.Log = nil
			st.Plan = func(c CallInfo) Outcome { return plan[c.Index] }
			before := c14Snapshot(st, k)
			trace := [][]c14Rev{before}
			pre := c14PkgObsOf(st, k, pn)
			preHealth := map[string]string{} // Healthy status of every revision of the package as stored before the reconcile
			for _, u := range st.OfKind(k.revGK) {
				if u.GetLabels()[pkgv1.LabelParentPackage] == pn {
					preHealth[u.GetName()] = c14CondStatus(u, "Healthy")
				}
			}
			preSnap := map[int][]c14Rev{} // the revisions right before API call k (after what other clients did)
			preRV := map[int]map[string]string{}
			postRV := map[int]map[string]string{}
			st.Before = func(c CallInfo) {
				for _, a := range step.Acts {
					if a.K == c.Index {
						c14DoAct(st, cl, k, pn, a, &touchN)
						if a.Op == "edit" && a.Spec != nil {
							specs[pn] = *a.Spec
						}
					}
				}
				if len(step.Acts) > 0 {
					note()
				}
				preSnap[c.Index] = c14Snapshot(st, k)
				preRV[c.Index] = c14RVs(st, k)
			}
			postSnap := map[int][]c14Rev{} // ... and right after it
			st.After = func(c CallInfo) {
				now := c14Snapshot(st, k)
				postSnap[c.Index] = now
				postRV[c.Index] = c14RVs(st, k)
				if !c14SameRevs(trace[len(trace)-1], now) {
					trace = append(trace, now)
				}
				note()
			}
			// the real revisioner on the package as stored, checked against the property's own
			// statement of what it may answer (c14Expect)
			if pu := st.Peek(k.pkgGK, "", pn); pu != nil {
				po := k.newPkg()
				_ = runtime.DefaultUnstructuredConverter.FromUnstructured(pu.Object, po)
				lvName, lvKind := c14Expect(pn, curSpec, pre, step.Head, c14ParseOK(curSpec.Source))
				lvRef := ""
				if ref, perr := name.ParseReference(curSpec.Source, name.WithDefaultRegistry(xpkg.DefaultRegistry)); perr == nil {
					lvRef = ref.String()
				}
				monReg.answer = step.Head
				monReg.refs = nil
				var monErr error
				var gotName string
				if pan := Guard(func() { gotName, monErr = monRev.Revision(context.Background(), po) }); pan != "" {
					addMon("C14:panic", pan)
				} else {
					switch {
					case lvKind == "error" && monErr == nil:
						addMon("C14:revisioner-ignored-fetch-error", fmt.Sprintf("reconcile %d: Revision returned (%q, nil) although the fetch for source %q failed (%s, class %s; pull %q, recorded %q for %q)", nRec, gotName, curSpec.Source, step.Head, c14HeadClass(step.Head), curSpec.Pull, pre.CurRev, pre.CurID))
					case lvKind != "error" && monErr != nil:
						addMon("C14:revisioner-unexpected-error", fmt.Sprintf("reconcile %d: Revision failed (%v) although %s (pull %q, registry answer %s)", nRec, monErr, lvKind, curSpec.Pull, c14HeadClass(step.Head)))
					case monErr == nil && gotName != lvName:
						addMon("C14:revisioner-name-not-from-digest", fmt.Sprintf("reconcile %d: Revision returned %q for package %s, the property allows only %q (%s; pull %q, source %q, recorded %q for %q)", nRec, gotName, pn, lvName, lvKind, curSpec.Pull, curSpec.Source, pre.CurRev, pre.CurID))
					}
					for _, asked := range monReg.refs {
						if asked != lvRef {
							addMon("C14:fetched-other-source", fmt.Sprintf("reconcile %d: the registry was asked about %q, the package's source is %q", nRec, asked, lvRef))
						}
					}
					if (lvKind == "never" || lvKind == "recorded") && len(monReg.refs) > 0 {
						addMon("C14:fetched-despite-pull-policy", fmt.Sprintf("reconcile %d: the registry was asked although the pull policy %q lets Revision answer from the package", nRec, curSpec.Pull))
					}
				}
			}
			reg.refs = nil
			var res reconcile.Result
			var err error
			if pan := Guard(func() {
				res, err = theRec.Reconcile(context.Background(), reconcile.Request{NamespacedName: types.NamespacedName{Name: pn}})
			}); pan != "" {
				addMon("C14:panic", pan)
				err = errors.New("panic")
			}
			st.After, st.Before = nil, nil
			if regSrv != nil {
				regSrv.mode = "ok"
			}
			ro := c14RecObs{Trace: trace}
			switch {
			case st.Crashed():
				ro.Res = "crashed"
			case err != nil:
				ro.Res = "err"
			case res.Requeue:
				ro.Res = "requeue"
			case res.RequeueAfter > 0:
				ro.Res = "okAfter"
			default:
				ro.Res = "ok"
			}
			lastRes = ro.Res
			log := append([]CallInfo{}, st.Log...)
			if os.Getenv("C14_DEBUG") != "" {
				fmt.Fprintf(os.Stderr, "C14 reconcile %d of %s: res=%v err=%v\n", nRec, pn, res, err)
				for _, c := range log {
					fmt.Fprintf(os.Stderr, "   %s\n", mustJSON(c))
				}
			}
			if c14LogTap != nil {
				c14LogTap(log)
			}
			for _, c := range log {
				if c.Outcome != "" && c.Outcome != "ok" {
					lastFault = c.Outcome // a fault that actually hit a call, and how that reconcile ended
					if cls := cl.classAt[c.Index]; cls != "" && c.Outcome == "fail" {
						lastFault += ":" + cls
					}
					lastFault += "->" + ro.Res
				}
			}
			st.Revive()
			ro.Pkg = c14PkgObsOf(st, k, pn)
			obs.Recs = append(obs.Recs, ro)
			note()

			// ---- direct monitors on the real run ----
			// The reconcile is judged against the package it was HANDED by its Get (through a lagging
			// cache an older version; before another client's edit the version before it): that is
			// "the package's current source" as far as this reconcile can know.
			seenSpec, seen := curSpec, pre
			if len(step.Acts) > 0 || step.View != nil {
				if cl.servedPkg != nil {
					seenSpec = c14SpecOfU(cl.servedPkg)
					seen = c14PkgObsOfU(cl.servedPkg)
				}
			}
			step.ParseOK = c14ParseOK(seenSpec.Source)
			wantName, wantKind := c14Expect(pn, seenSpec, seen, step.Head, step.ParseOK)
			wantRef := ""
			if ref, perr := name.ParseReference(seenSpec.Source, name.WithDefaultRegistry(xpkg.DefaultRegistry)); perr == nil {
				wantRef = ref.String()
			}
			curName := ""
			if wantKind == "never" || wantKind == "recorded" || wantKind == "digest" {
				curName = wantName
			}
			// The recorded findings D28 / D29: the reconcile decided on a revision list that was not the
			// stored one (served by a lagging cache / a NotFound answer taken as "no revisions"). A
			// violation of a clause judged against the STORED revisions is reported under the finding's
			// signature ONLY when that list explains it: the revision left (or found) Active was missing
			// from the served list or shown not Active there; the numbers (name, number) the list showed
			// differ from the stored ones. Everything else keeps its own signature, as do the clauses
			// judged against the list the reconciler was served.
			staleSig := ""
			switch {
			case cl.listNotFound:
				staleSig = c14ListNotFoundSig
			case cl.lagging:
				staleSig = c14StaleListSig
			}
			servedAs := map[string]c14Rev{}
			for _, l := range cl.listed {
				servedAs[l.Name] = l
			}
			// the served list hid that x is Active
			hidActive := func(x string) bool {
				if staleSig == "" {
					return false
				}
				l, ok := servedAs[x]
				return !ok || l.State != string(pkgv1.PackageRevisionActive)
			}
			// the served list showed other (name, number) pairs of the package than were stored
			hidNumbers := false
			if staleSig != "" {
				a, b := []string{}, []string{}
				for _, l := range cl.listed {
					if l.Parent == pn {
						a = append(a, fmt.Sprintf("%s#%d", l.Name, l.Number))
					}
				}
				for _, l := range cl.liveAtList {
					if l.Parent == pn {
						b = append(b, fmt.Sprintf("%s#%d", l.Name, l.Number))
					}
				}
				sort.Strings(a)
				sort.Strings(b)
				hidNumbers = strings.Join(a, ",") != strings.Join(b, ",")
			}
			sigIf := func(explained bool, sig string) string {
				if explained {
					return staleSig
				}
				return sig
			}
			// some Active revision of the snapshot other than `but` was hidden by the served list
			anyHidden := func(snap []c14Rev, but string) bool {
				for _, r := range snap {
					if r.Parent == pn && r.State == string(pkgv1.PackageRevisionActive) && r.Name != but && hidActive(r.Name) {
						return true
					}
				}
				return false
			}
			actNames := c14ActNames(step.Acts)
			quietActs := c14ActsBenign(step.Acts)
			// (1) never two Active at any instant (given at most one to start with); none of the other
			// clients' actions activates a revision
			if c14ActiveCount(before, pn) <= 1 {
				for ti, snap := range trace {
					if c14ActiveCount(snap, pn) > 1 {
						addMon(sigIf(anyHidden(snap, curName), "C14:two-active"), fmt.Sprintf("reconcile %d: %d revisions of %s Active at instant %d", nRec, c14ActiveCount(snap, pn), pn, ti))
						break
					}
				}
			}
			// (1b) ... stated on the reconciler's own writes: no write of its own leaves a second
			// revision of the package Active
			// (1c) ... and against what it was served: when it writes the current revision Active, every
			// other revision its List showed Active has been written Inactive by it (or is no longer Active)
			deactivated := map[string]bool{}
			held := map[string]string{} // listed revision -> the resourceVersion the reconciler holds of it
			for n, rv := range cl.listedRV {
				held[n] = rv
			}
			for _, c := range log {
				if !c.IsWrite() || !c.Applied || c.GK != k.revGK.String() {
					continue
				}
				preS, okPre := preSnap[c.Index]
				if !okPre {
					continue
				}
				postS, okPost := postSnap[c.Index]
				if !okPost {
					continue
				}
				stOf := func(snap []c14Rev, n string) string {
					for _, r := range snap {
						if r.Name == n && r.Parent == pn {
							return r.State
						}
					}
					return ""
				}
				// (1d) ... and keeping the API server's optimistic concurrency: a revision the reconciler
				// LISTED is not written Active by it once it has changed since it was handed out (the
				// write carries the listed resourceVersion and must conflict; a retry that re-reads and
				// keeps the earlier decision bypasses exactly that)
				if h, listedIt := held[c.Name]; listedIt && preRV[c.Index][c.Name] != "" && preRV[c.Index][c.Name] != h &&
					stOf(postS, c.Name) == string(pkgv1.PackageRevisionActive) && stOf(preS, c.Name) != string(pkgv1.PackageRevisionActive) {
					addMon("C14:activated-over-newer-version", fmt.Sprintf("reconcile %d: %s made %s Active although it had changed (resourceVersion %s -> %s) since the reconciler was handed it", nRec, c.Verb, c.Name, h, preRV[c.Index][c.Name]))
				}
				if rv, ok := postRV[c.Index][c.Name]; ok {
					if _, listedIt := held[c.Name]; listedIt {
						held[c.Name] = rv
					}
				}
				if c14ActiveCount(postS, pn) >= 2 && c14ActiveCount(postS, pn) > c14ActiveCount(preS, pn) {
					addMon(sigIf(anyHidden(postS, c.Name), "C14:activated-second-revision"), fmt.Sprintf("reconcile %d: %s %s made %d revisions of %s Active", nRec, c.Verb, c.Name, c14ActiveCount(postS, pn), pn))
				}
				if stOf(preS, c.Name) == string(pkgv1.PackageRevisionActive) && stOf(postS, c.Name) != string(pkgv1.PackageRevisionActive) {
					deactivated[c.Name] = true
				}
				if stOf(postS, c.Name) == string(pkgv1.PackageRevisionActive) && stOf(preS, c.Name) != string(pkgv1.PackageRevisionActive) && cl.listedOK {
					for _, l := range cl.listed {
						if l.Name != c.Name && l.Parent == pn && l.State == string(pkgv1.PackageRevisionActive) && !deactivated[l.Name] && stOf(preS, l.Name) == string(pkgv1.PackageRevisionActive) {
							addMon("C14:activated-before-deactivating-listed", fmt.Sprintf("reconcile %d: %s activated by %s while %s, which the List showed Active, is still Active and was not deactivated", nRec, c.Name, c.Verb, l.Name))
						}
					}
				}
			}
			// (2) after a successful full reconcile the current revision exists, is highest, is Active unless manual
			final := trace[len(trace)-1]
			wroteStatus := false
			for _, c := range log {
				if c.Verb == "update" && c.Sub == "status" && c.Applied && c.Err == "" {
					wroteStatus = true
				}
			}
			full := (ro.Res == "ok" || ro.Res == "okAfter") && wroteStatus && curName != "" && pre.Exists && !seenSpec.Paused && !seen.PausedCond && ro.Pkg.CurRev == curName && quietActs
			if full {
				var cur *c14Rev
				for ri := range final {
					if final[ri].Name == curName && final[ri].Parent == pn {
						cur = &final[ri]
					}
				}
				if cur == nil {
					addMon("C14:current-missing", fmt.Sprintf("reconcile %d succeeded but revision %s does not exist", nRec, curName))
				} else {
					// "numbered last": strictly when the numbers were distinct before the reconcile
					distinct := true
					seenNum := map[int64]bool{}
					for _, r := range before {
						if r.Parent == pn {
							if seenNum[r.Number] {
								distinct = false
							}
							seenNum[r.Number] = true
						}
					}
					for _, r := range final {
						if r.Parent == pn && r.Name != curName && (r.Number > cur.Number || (distinct && r.Number == cur.Number)) {
							addMon(sigIf(hidNumbers, "C14:current-not-highest"), fmt.Sprintf("current %s has number %d, %s has %d", curName, cur.Number, r.Name, r.Number))
						}
						// every OTHER revision has been deactivated, however many were Active to start with
						if r.Parent == pn && r.Name != curName && r.State == string(pkgv1.PackageRevisionActive) {
							addMon(sigIf(hidActive(r.Name), "C14:other-left-active"), fmt.Sprintf("reconcile %d of %s succeeded, %s is current, %s is still Active", nRec, pn, curName, r.Name))
						}
					}
					if seenSpec.Policy != string(pkgv1.ManualActivation) && cur.State != string(pkgv1.PackageRevisionActive) {
						addMon("C14:current-not-active", fmt.Sprintf("current %s is %q under automatic activation", curName, cur.State))
					}
					if cur.Image != seenSpec.Source {
						addMon("C14:current-wrong-image", fmt.Sprintf("current %s has image %q, package source %q", curName, cur.Image, seenSpec.Source))
					}
					// the spec copy: every leaf the package serialises for a copied field is on the current
					// revision with the package's value (current_revision_carries_package_fields), and its
					// commonLabels are exactly the package's
					wantLeaves := append([]c14KV{}, seenSpec.Extra...)
					if seenSpec.Pull != "" {
						wantLeaves = append(wantLeaves, c14KV{"packagePullPolicy", seenSpec.Pull})
					}
					for _, kv := range wantLeaves {
						if got, ok := c14ExtraGet(cur.Extra, kv[0]); !ok || got != kv[1] {
							addMon("C14:copied-field-differs", fmt.Sprintf("reconcile %d of %s succeeded, package spec %s = %q, current revision %s has %q (set: %v)", nRec, pn, kv[0], kv[1], curName, got, ok))
						}
					}
					// the package's conditions (Xp.C14.pkgConditions): Installed=True iff the current revision is
					// Active; Healthy = the listed current revision's Healthy status, left alone if it has none
					if pu := st.Peek(k.pkgGK, "", pn); pu != nil {
						inst := c14CondStatus(pu, "Installed")
						if (inst == "True") != (cur.State == string(pkgv1.PackageRevisionActive)) || inst == "" {
							addMon("C14:package-condition-wrong", fmt.Sprintf("reconcile %d of %s succeeded, current revision %s is %q, the package reports Installed=%q", nRec, pn, curName, cur.State, inst))
						}
						if len(step.Acts) == 0 && step.View == nil && !cl.listNotFound {
							want := preHealth[curName]
							if want == "" {
								want = "Unknown" // GetCondition answers Unknown for a condition that is not there
							}
							if got := c14CondStatus(pu, "Healthy"); got != want {
								addMon("C14:package-condition-wrong", fmt.Sprintf("reconcile %d of %s succeeded, current revision %s was listed with Healthy=%q, the package reports Healthy=%q", nRec, pn, curName, preHealth[curName], got))
							}
						}
					}
					if mustJSON(c14NonNil(cur.Labels)) != mustJSON(c14NonNil(seenSpec.Labels)) {
						addMon("C14:copied-field-differs", fmt.Sprintf("reconcile %d of %s succeeded, package commonLabels %v, current revision %s has %v", nRec, pn, seenSpec.Labels, curName, cur.Labels))
					}
				}
			}
			// (3) the name is a function of (package name, digest); re-resolving creates nothing new
			if curName != "" && len(step.Head) == 64 && wantKind == "digest" {
				key := pn + "|" + step.Head
				if prev, ok := nameOf[key]; ok && prev != curName {
					addMon("C14:name-not-function", fmt.Sprintf("(%s,%s) named %s earlier and %s now", pn, step.Head[:12], prev, curName))
				}
				nameOf[key] = curName
			}
			monReg.heads = 0
			for _, c := range log {
				if c.Verb == "create" && c.Applied && c.GK == k.revGK.String() {
					if c.Name != curName {
						addMon("C14:created-non-current", fmt.Sprintf("created %s while the current revision name is %q", c.Name, curName))
					}
					// re-resolving an image whose revision exists creates no second revision of the package
					for _, r := range preSnap[c.Index] {
						if r.Parent == pn && r.Name == curName && curName != "" {
							addMon("C14:second-revision-for-same-image", fmt.Sprintf("reconcile %d created %s although revision %s of %s exists", nRec, c.Name, r.Name, pn))
						}
					}
				}
			}
			// (3b) the revisioner clauses, evaluated on what the reconcile did. consulted =
			// the reconcile got as far as asking the revisioner (package read, not paused).
			revWrites := []CallInfo{}
			for _, c := range log {
				if c.IsWrite() && c.Applied && c.GK == k.revGK.String() {
					revWrites = append(revWrites, c)
				}
			}
			for _, asked := range reg.refs {
				if asked != wantRef {
					addMon("C14:fetched-other-source", fmt.Sprintf("reconcile %d: the registry was asked about %q, the package's source is %q", nRec, asked, wantRef))
				}
			}
			statusMoved := pre.Exists && ro.Pkg.Exists && (ro.Pkg.CurRev != pre.CurRev || ro.Pkg.CurID != pre.CurID)
			if wantKind == "error" || wantKind == "nodigest" {
				// no name may be resolved: nothing may be written to any revision, the recorded
				// current revision / identifier must stay
				sig := "C14:write-after-fetch-error"
				if wantKind == "nodigest" {
					sig = "C14:write-without-digest"
				}
				if len(revWrites) > 0 {
					addMon(sig, fmt.Sprintf("reconcile %d: %s %s although the registry gave no digest for source %q (answer %s, class %s)", nRec, revWrites[0].Verb, revWrites[0].Name, seenSpec.Source, step.Head, c14HeadClass(step.Head)))
				} else if len(trace) > 1 && len(actNames) == 0 {
					addMon(sig, fmt.Sprintf("reconcile %d: revisions changed although the registry gave no digest for source %q (class %s)", nRec, seenSpec.Source, c14HeadClass(step.Head)))
				}
				if statusMoved {
					addMon(sig, fmt.Sprintf("reconcile %d: status moved from (%q for %q) to (%q for %q) although the registry gave no digest for source %q (class %s)", nRec, pre.CurRev, pre.CurID, ro.Pkg.CurRev, ro.Pkg.CurID, seenSpec.Source, c14HeadClass(step.Head)))
				}
				if wantKind == "error" && cl.servedPkg != nil && !seenSpec.Paused && !seen.PausedCond && ro.Res != "err" && ro.Res != "crashed" {
					addMon("C14:fetch-error-not-reported", fmt.Sprintf("reconcile %d returned %s although the fetch for source %q failed (class %s)", nRec, ro.Res, seenSpec.Source, c14HeadClass(step.Head)))
				}
			}
			// the recorded current revision is the one resolved for the recorded identifier
			if statusMoved && !(ro.Pkg.CurID == seenSpec.Source && (wantKind == "never" || wantKind == "recorded" || wantKind == "digest") && ro.Pkg.CurRev == wantName) {
				addMon("C14:current-revision-for-other-source", fmt.Sprintf("reconcile %d recorded current revision %q for identifier %q; source %q resolves to %q (%s)", nRec, ro.Pkg.CurRev, ro.Pkg.CurID, seenSpec.Source, wantName, wantKind))
			}
			// ... and for the source the package has AT THAT MOMENT: the status write carries the
			// resourceVersion of the package the reconciler was handed, so it cannot land on a package
			// somebody edited since (or on one newer than a lagging cache served)
			if statusMoved && ro.Pkg.CurID != specs[pn].Source {
				addMon("C14:recorded-identifier-not-live-source", fmt.Sprintf("reconcile %d recorded current revision %q for identifier %q, the package's source is %q by then", nRec, ro.Pkg.CurRev, ro.Pkg.CurID, specs[pn].Source))
			}
			// a revision whose image this reconcile wrote (created, or spec.image changed) is
			// named after the digest the registry serves for that image now
			beforeImg := map[string]string{}
			for _, r := range before {
				beforeImg[r.Name] = r.Image
			}
			for _, snap := range trace[1:] {
				for _, r := range snap {
					if old, existed := beforeImg[r.Name]; r.Parent != pn || (existed && old == r.Image) || actNames[r.Name] {
						continue
					}
					bad := ""
					switch wantKind {
					case "never":
						if r.Name != xpkg.FriendlyID(pn, r.Image) {
							bad = "pull policy Never names revisions after the source string"
						}
					case "recorded":
						// the recorded revision of the same identifier is trusted: nothing to compare with
					case "digest":
						if r.Image != seenSpec.Source || r.Name != wantName {
							bad = fmt.Sprintf("the registry serves digest %.12s for source %q, i.e. revision %q", step.Head, seenSpec.Source, wantName)
						}
					default:
						bad = fmt.Sprintf("the registry served no digest for %q in this reconcile (class %s)", r.Image, c14HeadClass(step.Head))
					}
					if bad != "" {
						addMon("C14:revision-name-not-digest-of-its-image", fmt.Sprintf("reconcile %d: revision %s got image %q: %s", nRec, r.Name, r.Image, bad))
					}
				}
			}
			// (3c) a reconcile of one package writes no revision of ANOTHER package of the kind
			for _, c := range revWrites {
				for _, r := range preSnap[c.Index] {
					if r.Name == c.Name && r.Parent != "" && r.Parent != pn && r.Ctrl != "" && r.Ctrl != uids[pn] {
						if _, other := specs[r.Parent]; other {
							addMon("C14:wrote-revision-of-other-package", fmt.Sprintf("reconcile %d of %s: %s %s, a revision of package %s", nRec, pn, c.Verb, c.Name, r.Parent))
						}
					}
				}
			}
			// (4) history GC, judged against the revisions the reconciler was served (and, when that
			// list was not the stored one, against the stored ones under the finding's signature)
			gcCheck := func(listed []c14Rev, sigOf func(string) string) {
				dels := 0
				for _, c := range log {
					if c.Verb != "delete" || !c.Applied || c.GK != k.revGK.String() {
						continue
					}
					dels++
					if c.Name == curName {
						addMon(sigOf("C14:gc-deleted-current"), fmt.Sprintf("reconcile %d deleted the current revision %s", nRec, curName))
					}
					var victim *c14Rev
					for ri := range listed {
						if listed[ri].Name == c.Name {
							victim = &listed[ri]
						}
					}
					if victim == nil {
						addMon(sigOf("C14:gc-foreign"), fmt.Sprintf("deleted %s which is not a revision of %s", c.Name, pn))
					} else {
						for _, r := range listed {
							if r.Name != curName && r.Number < victim.Number && victim.Name != curName {
								addMon(sigOf("C14:gc-not-oldest"), fmt.Sprintf("deleted %s (#%d) although %s (#%d) is older", victim.Name, victim.Number, r.Name, r.Number))
							}
						}
					}
					if seenSpec.Limit == nil || int64(len(listed)) <= *seenSpec.Limit+1 {
						addMon(sigOf("C14:gc-under-limit"), fmt.Sprintf("deleted %s with %d revisions and limit %v", c.Name, len(listed), c14LimitStr(seenSpec.Limit)))
					}
					if seenSpec.Limit != nil && *seenSpec.Limit == 0 {
						addMon(sigOf("C14:gc-at-zero"), "deleted "+c.Name+" although revisionHistoryLimit is 0")
					}
				}
				if dels > 1 {
					addMon(sigOf("C14:gc-multiple"), fmt.Sprintf("reconcile %d deleted %d revisions", nRec, dels))
				}
			}
			ofPkg := func(l []c14Rev) []c14Rev {
				out := []c14Rev{}
				for _, r := range l {
					if r.Parent == pn {
						out = append(out, r)
					}
				}
				return out
			}
			for _, c := range log {
				if c.Verb == "delete" && c.Applied && c.GK == k.revGK.String() {
					nGC++
				}
			}
			served := ofPkg(before)
			if cl.listedOK {
				served = ofPkg(cl.listed)
			} else if cl.listNotFound {
				served = []c14Rev{}
			}
			gcCheck(served, func(s string) string { return s })
			if hidNumbers {
				gcCheck(ofPkg(cl.liveAtList), func(string) string { return staleSig })
			}
		}
	}
	obs.Revs = c14Snapshot(st, k)
	gc := "0"
	if nGC > 0 {
		gc = "1+"
	}
	last := specs[s.Pkg.Name]
	cls := fmt.Sprintf("rec=%d/pull=%s/policy=%s/gc=%s/fetch=%s/fault=%s/res=%s", nRec, last.Pull, last.Policy, gc, fetchCls, lastFault, lastRes)
	if len(pkgsSeen) > 1 {
		cls += fmt.Sprintf("/pkgs=%d", len(pkgsSeen))
	}
	var dims []string
	for d := range world {
		dims = append(dims, d)
	}
	sort.Strings(dims)
	if len(dims) > 0 {
		cls += "/world=" + strings.Join(dims, "+")
	}
	if nRec == 0 {
		cls = "trivial/no-reconcile"
	}
	return obs, mons, cls
}

// the recorded findings of the unchanged tree: a reconcile that decided on a revision list
// which was not the stored one
const (
	c14StaleListSig    = "C14:decided-on-stale-revision-list"
	c14ListNotFoundSig = "C14:revision-list-notfound-taken-as-empty"
)

func c14LimitStr(l *int64) string {
	if l == nil {
		return "unset"
	}
	return fmt.Sprint(*l)
}

// ---------------------------------------------------------------- generator

var c14Digests = []string{
	"1111111111aa" + strings.Repeat("0", 52),
	"2222222222bb" + strings.Repeat("1", 52),
	"3333333333cc" + strings.Repeat("2", 52),
	"4444444444dd" + strings.Repeat("3", 52),
	"5555555555ee" + strings.Repeat("4", 52),
	// shares the first 12 hex digits with the first one: FriendlyID collides by design
	"1111111111aa" + strings.Repeat("f", 52),
}

var c14Names = []string{"p", "provider-aws", "my.pkg.name", "a-very-long-package-name-that-exceeds-the-fifty-character-limit-x"}

var c14Sources = []string{"xpkg.io/org/pkg:v1", "xpkg.io/org/pkg:v2", "xpkg.io/org/pkg:v3", "org/pkg:v4", "xpkg.io/org/pkg@sha256:" + "3333333333cc" + "222222222222222222222222222222222222222222222222222222", "Bad Ref!!", "xpkg.io/org/pkg:v1.2.3"}

func c14GenLabels(r *Rng) []c14KV {
	switch r.Intn(6) {
	case 0:
		return []c14KV{{"a", "1"}}
	case 1:
		return []c14KV{{"a", "2"}, {"b", "1"}}
	case 2:
		return []c14KV{{"b", "1"}}
	}
	return []c14KV{}
}

// c14GenExtra draws the copied spec fields of a package (pull secrets, the two flags, and - for kinds with a
// runtime - the runtime config reference and, cc, the controller config reference: only a Provider has one, a
// Function's accessor is a no-op, a FunctionRevision has the field); nil (nothing set) half of the time, so that edits
// CLEAR fields as often as they set them. Leaves in path order (c14ExtraKeys).
func c14GenExtra(r *Rng, runtime, cc bool) []c14KV {
	if r.Chance(2, 5) {
		return nil
	}
	out := []c14KV{}
	if runtime && cc && r.Chance(1, 4) {
		out = append(out, c14KV{"controllerConfigRef.name", Pick(r, []string{"cc1", "cc2"})})
	}
	if r.Chance(1, 3) {
		out = append(out, c14KV{"ignoreCrossplaneConstraints", Pick(r, []string{"true", "false"})})
	}
	if r.Chance(1, 2) {
		out = append(out, c14KV{"packagePullSecrets", Pick(r, []string{"s1", "s2", "s1,s2"})})
	}
	if runtime && r.Chance(1, 3) {
		if r.Chance(1, 3) {
			out = append(out, c14KV{"runtimeConfigRef.apiVersion", Pick(r, []string{"pkg.crossplane.io/v1beta1", "x/v1"})})
		}
		if r.Chance(1, 3) {
			out = append(out, c14KV{"runtimeConfigRef.kind", "DeploymentRuntimeConfig"})
		}
		out = append(out, c14KV{"runtimeConfigRef.name", Pick(r, []string{"default", "rc1"})})
	}
	if r.Chance(1, 3) {
		out = append(out, c14KV{"skipDependencyResolution", Pick(r, []string{"true", "false"})})
	}
	if len(out) == 0 {
		return nil
	}
	return out
}

// c14SetKV sets key k in a path-sorted leaf list.
func c14SetKV(kv []c14KV, k, v string) []c14KV {
	out := []c14KV{}
	done := false
	for _, e := range kv {
		if e[0] == k {
			continue
		}
		if !done && k < e[0] {
			out = append(out, c14KV{k, v})
			done = true
		}
		out = append(out, e)
	}
	if !done {
		out = append(out, c14KV{k, v})
	}
	return out
}

func c14GenLimit(r *Rng) *int64 {
	switch r.Intn(12) {
	case 0:
		return nil
	case 1, 2:
		return ptr.To(int64(0))
	case 3, 4, 5, 6:
		return ptr.To(int64(1))
	case 7, 8:
		return ptr.To(int64(2))
	case 9:
		return ptr.To(int64(3))
	case 10:
		return ptr.To(int64(-1))
	}
	return ptr.To(int64(-2))
}

func c14GenSpec(r *Rng) c14Spec {
	return c14Spec{
		Source: Pick(r, c14Sources[:4+r.Intn(len(c14Sources)-3)]),
		Limit:  c14GenLimit(r),
		Policy: Pick(r, []string{"", "", "Automatic", "Automatic", "Manual"}),
		Pull:   Pick(r, []string{"", "", "Always", "IfNotPresent", "IfNotPresent", "Never"}),
		Paused: r.Chance(1, 14),
		Labels: c14GenLabels(r),
	}
}

func c14GenFaults(r *Rng, tier string) []c14Fault {
	os := []string{"fail", "conflict", "crashBefore", "crashAfter"}
	switch x := r.Intn(20); {
	case x < 10:
		return nil
	case x < 18:
		return []c14Fault{{K: r.Intn(13), O: Pick(r, os)}}
	}
	a := r.Intn(10)
	return []c14Fault{{K: a, O: Pick(r, []string{"fail", "conflict"})}, {K: a + 1 + r.Intn(4), O: Pick(r, os)}}
}

func c14Gen(r *Rng, tier string) c14Scn {
	s := c14Scn{Kind: Pick(r, []string{"Provider", "Provider", "Configuration", "Function"}), Revs: []c14Rev{}, Steps: []c14Step{}}
	pn := Pick(r, c14Names)
	uid := "u-" + pn[:1]
	s.Pkg = c14Pkg{Name: pn, UID: uid, Spec: c14GenSpec(r)}
	s.Pkg.Spec.Paused = r.Chance(1, 20)
	rt := s.Kind != "Configuration" // Configurations have no runtime fields
	s.Pkg.Spec.Extra = c14GenExtra(r, rt, s.Kind == "Provider")
	// registry: tag -> digest; tags may share a digest; tags may move later
	tagDigest := map[string]string{}
	for _, src := range c14Sources {
		tagDigest[src] = Pick(r, c14Digests[:3+r.Intn(4)])
	}
	// pre-existing revisions of this package
	n := r.Intn(6)
	perm := r.Perm(len(c14Digests))
	nums := r.Perm(n + 2)
	activeDone := false
	for i := 0; i < n && i < len(perm); i++ {
		d := c14Digests[perm[i]]
		rv := c14Rev{Name: xpkgFriendly(pn, d), Parent: pn, Number: int64(nums[i] + 1), State: "Inactive", Ctrl: uid, Image: Pick(r, c14Sources[:4]), Labels: c14GenLabels(r)}
		dup := false
		for _, e := range s.Revs {
			if e.Name == rv.Name {
				dup = true
			}
		}
		if dup {
			continue
		}
		if !activeDone && r.Chance(1, 2) {
			rv.State, activeDone = "Active", true
		}
		switch r.Intn(30) {
		case 0:
			rv.State = "Active" // possibly a second active one: the precondition of the theorem is then false
		case 1:
			rv.Ctrl = ""
		case 2:
			rv.Ctrl = "u-other"
		case 3:
			rv.State = ""
		case 4:
			rv.Number = int64(r.Intn(3)) // duplicates / zero
		case 5:
			rv.Parent = "" // same name, not labelled
		case 6:
			rv.Deleting, rv.Fin = true, true
		}
		if r.Chance(2, 3) {
			rv.Fin = true
		}
		if r.Chance(1, 3) {
			// copied fields of an earlier package spec (possibly since cleared / changed on the package)
			rv.Extra = c14GenExtra(r, rt, true)
			if r.Chance(1, 3) {
				rv.Extra = c14SetKV(rv.Extra, "packagePullPolicy", Pick(r, []string{"Always", "IfNotPresent", "Never"}))
			}
		}
		s.Revs = append(s.Revs, rv)
	}
	if r.Chance(1, 5) {
		s.Revs = append(s.Revs, c14Rev{Name: "zz-other-" + c14Digests[0][:12], Parent: "q", Number: 1, State: "Active", Ctrl: "u-other", Image: "x/y:v1", Labels: []c14KV{}})
	}
	// status of the package: mostly consistent with an earlier successful reconcile
	switch r.Intn(4) {
	case 0:
	case 1:
		s.Pkg.CurID = s.Pkg.Spec.Source
		s.Pkg.CurRev = xpkgFriendly(pn, tagDigest[s.Pkg.Spec.Source])
	case 2:
		s.Pkg.CurID = Pick(r, c14Sources[:4])
		s.Pkg.CurRev = xpkgFriendly(pn, Pick(r, c14Digests))
	case 3:
		s.Pkg.CurID = s.Pkg.Spec.Source
		if len(s.Revs) > 0 {
			s.Pkg.CurRev = Pick(r, s.Revs).Name
		}
	}
	s.Pkg.PausedCond = r.Chance(1, 25)

	cur := s.Pkg.Spec
	steps := r.Range(2, 7)
	if tier == "thorough" {
		steps = r.Range(2, 10)
	}
	for i := 0; i < steps; i++ {
		switch x := r.Intn(20); {
		case x < 6: // edit
			ns := cur
			switch r.Intn(8) {
			case 0, 1, 2:
				ns.Source = Pick(r, c14Sources[:4]) // includes rollbacks to earlier tags
			case 3:
				ns.Limit = c14GenLimit(r)
			case 4:
				ns.Source = Pick(r, c14Sources[:4])
				ns.Limit = c14GenLimit(r) // rollback + lowered limit in one edit (D5 shape)
			case 5:
				ns.Policy = Pick(r, []string{"", "Automatic", "Manual"})
			case 6:
				ns.Pull = Pick(r, []string{"", "Always", "IfNotPresent", "Never"})
			case 7:
				if r.Bool() {
					ns.Paused = !ns.Paused
				} else {
					ns.Labels = c14GenLabels(r)
				}
			}
			if r.Chance(1, 12) {
				ns = c14GenSpec(r)
			}
			if r.Chance(1, 4) {
				ns.Extra = c14GenExtra(r, rt, s.Kind == "Provider") // set, change or CLEAR copied fields
			}
			cur = ns
			s.Steps = append(s.Steps, c14Step{Op: "edit", Spec: &ns})
		case x < 7:
			s.Steps = append(s.Steps, c14Step{Op: "finalize"})
		case x < 8:
			if len(s.Revs) > 0 {
				s.Steps = append(s.Steps, c14Step{Op: "addfin", Name: Pick(r, s.Revs).Name})
			}
		case x < 9:
			if len(s.Revs) > 0 {
				s.Steps = append(s.Steps, c14Step{Op: "revstatus", Name: Pick(r, s.Revs).Name, Health: Pick(r, []string{"True", "False", "Unknown"})})
			}
		case x < 10: // the tag moves in the registry
			tagDigest[cur.Source] = Pick(r, c14Digests)
		default:
			head := tagDigest[cur.Source]
			switch r.Intn(16) {
			case 0, 1:
				head = Pick(r, c14ErrKinds)
			case 2:
				head = "nil"
			}
			s.Steps = append(s.Steps, c14Step{Op: "reconcile", Head: head, Faults: c14GenFaults(r, tier)})
		}
	}
	return s
}

// c14GenRollback produces the shape behind D5 and its neighbours: a package with
// several revisions whose source is rolled back to the image of the oldest one,
// with the history limit (possibly lowered in the same edit) already exceeded.
func c14GenRollback(r *Rng) c14Scn {
	pn := Pick(r, c14Names[:3])
	uid := "u-" + pn[:1]
	limit := int64(r.Range(1, 2))
	n := int(limit) + 2 + r.Intn(2)
	s := c14Scn{Kind: Pick(r, []string{"Provider", "Configuration", "Function"}), Revs: []c14Rev{}, Steps: []c14Step{}}
	perm := r.Perm(5)
	for i := 0; i < n && i < 5; i++ {
		st := "Inactive"
		if i == n-1 {
			st = "Active"
		}
		s.Revs = append(s.Revs, c14Rev{Name: xpkgFriendly(pn, c14Digests[perm[i]]), Parent: pn, Number: int64(i + 1), State: st, Ctrl: uid, Image: c14Sources[i%4], Labels: []c14KV{}, Fin: r.Bool()})
	}
	target := r.Intn(len(s.Revs)) // which earlier revision the package is rolled back to; 0 = the oldest
	if r.Chance(1, 2) {
		target = 0
	}
	last := len(s.Revs) - 1
	s.Pkg = c14Pkg{Name: pn, UID: uid, Spec: c14Spec{Source: c14Sources[last%4], Limit: ptr.To(limit + 5), Policy: Pick(r, []string{"", "Manual", "Automatic"}), Pull: Pick(r, []string{"", "Always"}), Labels: []c14KV{}},
		CurRev: s.Revs[last].Name, CurID: c14Sources[last%4]}
	ns := s.Pkg.Spec
	ns.Source = c14Sources[(target+1)%4]
	ns.Limit = ptr.To(limit)
	s.Steps = append(s.Steps, c14Step{Op: "edit", Spec: &ns})
	// the digest behind the new source is the one of revision `target`
	var dig string
	for _, d := range c14Digests {
		if xpkgFriendly(pn, d) == s.Revs[target].Name {
			dig = d
		}
	}
	s.Steps = append(s.Steps, c14Step{Op: "reconcile", Head: dig, Faults: c14GenFaults(r, "quick")})
	if r.Bool() {
		s.Steps = append(s.Steps, c14Step{Op: "finalize"})
	}
	s.Steps = append(s.Steps, c14Step{Op: "reconcile", Head: dig})
	s.Steps = append(s.Steps, c14Step{Op: "reconcile", Head: dig, Faults: c14GenFaults(r, "quick")})
	return s
}

// c14GenFetchErr produces the shape "the registry fails while the package is being moved":
// a package installed at source v1 (revision named after v1's digest, recorded as current for
// identifier v1, possibly with older history), a source edit v1 -> v2 (sometimes none,
// sometimes with a pull-policy change in the same edit), a fetch error of EVERY class on the
// first reconcile after the edit (optionally under API faults, optionally a second error of
// another class), then the registry recovers; sometimes a rollback to v1 with another error.
// All pull policies.
func c14GenFetchErr(r *Rng) c14Scn {
	pn := Pick(r, c14Names[:3])
	uid := "u-" + pn[:1]
	valid := []string{c14Sources[0], c14Sources[1], c14Sources[2], c14Sources[3], c14Sources[4], c14Sources[6]}
	sp := r.Perm(len(valid))
	v1, v2 := valid[sp[0]], valid[sp[1]]
	dp := r.Perm(5)
	d1, d2 := c14Digests[dp[0]], c14Digests[dp[1]]
	if v2 == c14Sources[4] { // a digest reference resolves to its own digest
		d2 = c14Digests[2]
		if d1 == d2 {
			d1 = c14Digests[dp[2]]
		}
	}
	if v1 == c14Sources[4] {
		d1 = c14Digests[2]
		if d2 == d1 {
			d2 = c14Digests[dp[2]]
		}
	}
	pull := Pick(r, []string{"", "Always", "IfNotPresent", "IfNotPresent", "IfNotPresent", "Never"})
	policy := Pick(r, []string{"", "", "Automatic", "Manual"})
	s := c14Scn{Kind: Pick(r, []string{"Provider", "Configuration", "Function"}), Revs: []c14Rev{}, Steps: []c14Step{}}
	nameFor := func(src, dig, pl string) string {
		if pl == "Never" {
			return xpkgFriendly(pn, src)
		}
		return xpkgFriendly(pn, dig)
	}
	// older history
	nOld := r.Intn(3)
	for i := 0; i < nOld; i++ {
		s.Revs = append(s.Revs, c14Rev{Name: xpkgFriendly(pn, c14Digests[dp[2+i]]), Parent: pn, Number: int64(i + 1), State: "Inactive", Ctrl: uid, Image: valid[sp[2+i]], Labels: []c14KV{}, Fin: r.Bool()})
	}
	curState := "Active"
	if policy == "Manual" && r.Bool() {
		curState = "Inactive"
	}
	r1 := c14Rev{Name: nameFor(v1, d1, pull), Parent: pn, Number: int64(nOld + 1), State: curState, Ctrl: uid, Image: v1, Labels: []c14KV{}, Fin: r.Bool()}
	dup := false
	for _, e := range s.Revs {
		if e.Name == r1.Name {
			dup = true
		}
	}
	if !dup {
		s.Revs = append(s.Revs, r1)
	}
	s.Pkg = c14Pkg{Name: pn, UID: uid, Spec: c14Spec{Source: v1, Limit: Pick(r, []*int64{nil, ptr.To(int64(0)), ptr.To(int64(1)), ptr.To(int64(2)), ptr.To(int64(3))}), Policy: policy, Pull: pull, Labels: []c14KV{}},
		CurRev: r1.Name, CurID: v1}
	switch r.Intn(10) {
	case 0: // never reconciled: no recorded revision
		s.Pkg.CurRev, s.Pkg.CurID = "", ""
	case 1: // recorded revision, identifier lost
		s.Pkg.CurID = ""
	case 2: // identifier already the new source (e.g. a crash between the writes of an earlier run)
		s.Pkg.CurID = v2
	}
	faults := func(p int) []c14Fault {
		if r.Chance(1, p) {
			return c14GenFaults(r, "quick")
		}
		return nil
	}
	if r.Bool() {
		s.Steps = append(s.Steps, c14Step{Op: "reconcile", Head: d1})
	}
	cur := s.Pkg.Spec
	move := func(to string) {
		ns := cur
		ns.Source = to
		if r.Chance(1, 5) {
			ns.Pull = Pick(r, []string{"", "Always", "IfNotPresent", "Never"})
		}
		cur = ns
		s.Steps = append(s.Steps, c14Step{Op: "edit", Spec: &ns})
	}
	target, dig := v2, d2
	if r.Chance(5, 6) {
		move(v2)
	} else {
		target, dig = v1, d1 // the registry fails while the source is unchanged
	}
	_ = target
	s.Steps = append(s.Steps, c14Step{Op: "reconcile", Head: Pick(r, c14ErrKinds), Faults: faults(3)})
	if r.Chance(1, 3) {
		s.Steps = append(s.Steps, c14Step{Op: "reconcile", Head: Pick(r, append([]string{"nil"}, c14ErrKinds...)), Faults: faults(4)})
	}
	for i, n := 0, r.Range(1, 3); i < n; i++ {
		var f []c14Fault
		if i == 0 {
			f = faults(3)
		}
		s.Steps = append(s.Steps, c14Step{Op: "reconcile", Head: dig, Faults: f})
	}
	if r.Chance(1, 3) {
		back, bd := v1, d1
		if cur.Source == v1 {
			back, bd = v2, d2
		}
		move(back)
		s.Steps = append(s.Steps, c14Step{Op: "reconcile", Head: Pick(r, c14ErrKinds), Faults: faults(4)})
		s.Steps = append(s.Steps, c14Step{Op: "reconcile", Head: bd})
		s.Steps = append(s.Steps, c14Step{Op: "reconcile", Head: bd})
	}
	return s
}

// c14GenTerminating produces the shape "the collected revision is still there": more than limit+1 revisions,
// the lowest-numbered non-current one (sometimes two of them) already deleted but held by its finalizer
// (deletionTimestamp set), reconciled 2-4 times, the revision controller letting it go at some point or never:
// the List keeps showing the terminating revision, it still counts, and it stays the oldest non-current one.
func c14GenTerminating(r *Rng) c14Scn {
	pn := Pick(r, c14Names[:3])
	uid := "u-" + pn[:1]
	limit := int64(r.Range(1, 2))
	n := int(limit) + 2 + r.Intn(2)
	s := c14Scn{Kind: Pick(r, []string{"Provider", "Configuration", "Function"}), Revs: []c14Rev{}, Steps: []c14Step{}}
	perm := r.Perm(5)
	for i := 0; i < n && i < 5; i++ {
		st := "Inactive"
		if i == n-1 {
			st = "Active"
		}
		rv := c14Rev{Name: xpkgFriendly(pn, c14Digests[perm[i]]), Parent: pn, Number: int64(i + 1), State: st, Ctrl: uid, Image: c14Sources[i%4], Labels: []c14KV{}, Fin: r.Chance(2, 3)}
		if i == 0 || (i == 1 && r.Chance(1, 3)) {
			rv.Fin, rv.Deleting = true, true
		}
		s.Revs = append(s.Revs, rv)
	}
	last := len(s.Revs) - 1
	var dig string
	for _, d := range c14Digests {
		if xpkgFriendly(pn, d) == s.Revs[last].Name {
			dig = d
		}
	}
	s.Pkg = c14Pkg{Name: pn, UID: uid, Spec: c14Spec{Source: c14Sources[last%4], Limit: ptr.To(limit), Policy: Pick(r, []string{"", "Manual", "Automatic"}), Pull: Pick(r, []string{"", "Always"}), Labels: []c14KV{}},
		CurRev: s.Revs[last].Name, CurID: c14Sources[last%4]}
	for i, m := 0, r.Range(2, 4); i < m; i++ {
		s.Steps = append(s.Steps, c14Step{Op: "reconcile", Head: dig, Faults: func() []c14Fault {
			if r.Chance(1, 4) {
				return c14GenFaults(r, "quick")
			}
			return nil
		}()})
		if r.Chance(1, 4) {
			s.Steps = append(s.Steps, c14Step{Op: "finalize"})
		}
	}
	return s
}

func c14GenName(r *Rng) c14Scn {
	s := c14Scn{Kind: "name", Revs: []c14Rev{}, Steps: []c14Step{}}
	alpha := "abcxyz019-./:_ABZ@~ "
	for i, n := 0, r.Range(1, 6); i < n; i++ {
		mk := func(max int) string {
			l := r.Intn(max)
			if r.Chance(1, 6) {
				l = max + r.Intn(20)
			}
			b := make([]byte, l)
			for j := range b {
				if r.Chance(3, 4) {
					b[j] = alpha[r.Intn(9)]
				} else {
					b[j] = alpha[r.Intn(len(alpha))]
				}
			}
			return string(b)
		}
		nm, h := mk(60), mk(16)
		if r.Chance(1, 3) {
			nm = Pick(r, c14Names)
		}
		if r.Chance(1, 3) {
			h = Pick(r, c14Digests)
		}
		s.Probes = append(s.Probes, [2]string{nm, h})
	}
	return s
}

// xpkgFriendly is the generator's use of the real naming function, so that seeded
// revisions carry the names the reconciler will look for.
func xpkgFriendly(n, d string) string { return xpkg.FriendlyID(n, d) }

// c14Exhaust: every fault position x outcome for the last reconcile of a scenario.
func c14Exhaust(base c14Scn, emit func(c14Scn)) {
	last := -1
	for i, st := range base.Steps {
		if st.Op == "reconcile" {
			last = i
		}
	}
	c14ExhaustAt(base, last, emit)
}

// c14FirstFailedFetch: index of the first reconcile step whose registry answer is not a digest.
func c14FirstFailedFetch(s c14Scn) int {
	for i, st := range s.Steps {
		if _, ok := c14HeadDigest(st.Head); st.Op == "reconcile" && !ok {
			return i
		}
	}
	return -1
}

// c14ExhaustAt: every fault position x outcome for reconcile step `at`; a clean reconcile with
// the same registry answer is appended.
func c14ExhaustAt(base c14Scn, at int, emit func(c14Scn)) {
	if at < 0 {
		return
	}
	for k := 0; k < 14; k++ {
		for _, o := range []string{"fail", "conflict", "crashBefore", "crashAfter"} {
			c := base
			c.Steps = append([]c14Step{}, base.Steps...)
			st := c.Steps[at]
			st.Faults = []c14Fault{{K: k, O: o}}
			c.Steps[at] = st
			c.Steps = append(c.Steps, c14Step{Op: "reconcile", Head: c.Steps[len(c.Steps)-1].Head})
			emit(c)
		}
	}
}

// c14Probes: inputs on which the naming function of the current tree is tabulated
// into lean/Xp/Gen/PkgNames.lean (the Lean model must reproduce the table by `decide`).
var c14Probes = [][2]string{
	{"p", c14Digests[0]},
	{"provider-aws", c14Digests[1]},
	{"my.pkg.name", c14Digests[2]},
	{c14Names[3], c14Digests[3]},
	{"UPPER.lower/x:y", "abc"},
	{"-lead.trail-", "-h-"},
	{"", ""},
	{"a", ""},
	{strings.Repeat("ab.", 30), strings.Repeat("9", 70)},
	{strings.Repeat("x", 49) + ".", "0123456789abcdef"},
	{"xpkg.io/org/pkg:v1", "deadbeefdeadbeef"},
}

// c14SkeletonScn exercises every API call of Reconcile once: r2 is Active and not current
// (deactivated), r1 is the oldest non-current (collected, limit 1), r3 is current and carries
// commonLabels the package no longer has (Update after Apply). Xp.C14.skelStore is the same state.
func c14SkeletonScn() c14Scn {
	one := int64(1)
	rev := func(n string, num int64, st string, lb []c14KV) c14Rev {
		return c14Rev{Name: n, Parent: "p", Number: num, State: st, Ctrl: "u-p", Image: "img", Labels: lb}
	}
	return c14Scn{Kind: "Provider",
		Pkg: c14Pkg{Name: "p", UID: "u-p", Spec: c14Spec{Source: "xpkg.io/org/pkg:v3", Limit: &one, Labels: []c14KV{}}},
		Revs: []c14Rev{rev("p-1111111111aa", 1, "Inactive", []c14KV{}), rev("p-2222222222bb", 2, "Active", []c14KV{}), rev("p-3333333333cc", 3, "Inactive", []c14KV{{"a", "1"}})},
		Steps: []c14Step{{Op: "reconcile", Head: c14Digests[2]}}}
}

func c14CallTag(c CallInfo) string {
	kind := "other"
	switch {
	case strings.HasSuffix(strings.SplitN(c.GK, ".", 2)[0], "Revision"):
		kind = "rev " + c.Name
	case strings.HasPrefix(c.GK, "ImageConfig"):
		kind = "imageconfigs"
	case strings.HasPrefix(c.GK, "Provider"), strings.HasPrefix(c.GK, "Configuration"), strings.HasPrefix(c.GK, "Function"):
		kind = "pkg"
	}
	v := c.Verb
	if c.Sub != "" {
		v = c.Sub
	}
	return strings.TrimSpace(v + " " + kind)
}

func init() {
	RegisterDump("PkgNames", func() string {
		var tags []string
		c14LogTap = func(l []CallInfo) {
			for _, c := range l {
				tags = append(tags, c14CallTag(c))
			}
		}
		s := c14SkeletonScn()
		c14Run(&s)
		c14LogTap = nil
		return "/-- the API calls manager.Reconciler.Reconcile of the current tree issues, in order, on the skeleton scenario (harness/main/c14.go c14SkeletonScn) -/\n" +
			"def pkgReconcileSkeleton : List String := " + leanStrList(tags) + "\n"
	})
	RegisterDump("PkgNames", func() string {
		var sb strings.Builder
		sb.WriteString("/-- xpkg.FriendlyID of the current tree on fixed probes: (name, hash, result) -/\n")
		sb.WriteString("def friendlyProbes : List (String × String × String) := [\n")
		for i, p := range c14Probes {
			sep := ","
			if i == len(c14Probes)-1 {
				sep = ""
			}
			sb.WriteString("  (" + leanStr(p[0]) + ", " + leanStr(p[1]) + ", " + leanStr(xpkg.FriendlyID(p[0], p[1])) + ")" + sep + "\n")
		}
		sb.WriteString("]\n")
		sb.WriteString("/-- the kinds of error the fake registry answers a HEAD with, and the class of each as the error value itself reports it (errors.As *transport.Error + Temporary(), context errors, Temporary() of other errors) -/\n")
		sb.WriteString("def fetchErrKinds : List (String × String) := [")
		for i, kd := range c14ErrKinds {
			if i > 0 {
				sb.WriteString(", ")
			}
			sb.WriteString("(" + leanStr(kd) + ", " + leanStr(c14ErrClass(c14HeadErr(kd))) + ")")
		}
		sb.WriteString("]\n")
		sb.WriteString("/-- pkgv1.LabelParentPackage, PackageRevisionActive, PackageRevisionInactive, AutomaticActivation, ManualActivation -/\n")
		sb.WriteString("def pkgConstants : List String := " + leanStrList([]string{pkgv1.LabelParentPackage, string(pkgv1.PackageRevisionActive), string(pkgv1.PackageRevisionInactive), string(pkgv1.AutomaticActivation), string(pkgv1.ManualActivation)}) + "\n")
		return sb.String()
	})
	Register("C14", func(c *Ctx) {
		run := func(s c14Scn, cls string) {
			obs, mons, k := c14Run(&s)
			if cls != "" {
				k = cls + "/" + k
			}
			c.Emit(s, obs, mons, k)
		}
		for _, raw := range c.Corpus {
			var s c14Scn
			if err := jsonUnmarshalStrict(raw, &s); err == nil {
				run(s, "corpus")
			}
		}
		for i := 0; i < c.N; {
			switch x := c.Rng.Intn(60); {
			case x >= 40 && x < 49:
				run(c14GenWorld(c.Rng, c.Tier), "world")
				i++
			case x >= 49 && x < 53:
				run(c14GenStale(c.Rng), "stale")
				i++
			case x >= 53 && x < 59:
				run(c14GenMulti(c.Rng, c.Tier), "multi")
				i++
			case x == 59 && c.N-i > 200 && c.Rng.Chance(1, 6):
				base := c14GenWorld(c.Rng, c.Tier)
				at := -1
				for j, st := range base.Steps {
					if st.Op == "reconcile" && (at < 0 || c.Rng.Bool()) {
						at = j
					}
				}
				c14ExhaustWorld(c.Rng, base, at, func(s c14Scn) { run(s, "exhaust-world"); i++ })
			case x == 59:
				run(c14GenWorld(c.Rng, c.Tier), "world")
				i++
			case x < 3:
				run(c14GenName(c.Rng), "")
				i++
			case x < 9:
				run(c14GenRollback(c.Rng), "rollback")
				i++
			case x >= 10 && x < 16:
				run(c14GenFetchErr(c.Rng), "fetcherr")
				i++
			case x >= 16 && x < 19:
				run(c14GenRealReg(c.Rng), "registry")
				i++
			case x == 19:
				run(c14GenTerminating(c.Rng), "terminating")
				i++
			case x == 9 && c.N-i > 60 && c.Rng.Chance(1, 3):
				base := c14Gen(c.Rng, c.Tier)
				switch c.Rng.Intn(3) {
				case 0:
					base = c14GenRollback(c.Rng)
				case 1:
					base = c14GenFetchErr(c.Rng)
					if at := c14FirstFailedFetch(base); at >= 0 && c.Rng.Bool() {
						c14ExhaustAt(base, at, func(s c14Scn) { run(s, "exhaust-fetcherr"); i++ })
						continue
					}
				}
				c14Exhaust(base, func(s c14Scn) { run(s, "exhaust"); i++ })
			default:
				run(c14Gen(c.Rng, c.Tier), "")
				i++
			}
		}
	})
}

//go:build verif

package main

// C07 direct monitors: the field partition, stated here as literals
// (independently of internal/xcrd's tables), evaluated on what the REAL syncers
// wrote and on the stored objects before and after every sync.

import (
	"reflect"
	"strings"
)

// owner classes of top-level spec keys.
const (
	c07User      = "user"      // XRD author's field: claim -> XR, never XR -> claim
	c07Shared    = "shared"    // composition selection: claim -> XR; compositionRef XR -> claim only when the claim has none
	c07Revision  = "revision"  // compositionRevisionRef: XR -> claim iff the XR's update policy is Automatic
	c07ClaimOnly = "claimOnly" // never copied to the XR
	c07XROnly    = "xrOnly"    // never asserted from the claim, never copied to the claim
	c07EachSide  = "eachSide"  // both sides have their own; never copied either way
)

func c07Owner(k string) string {
	switch k {
	case "resourceRef", "compositeDeletePolicy":
		return c07ClaimOnly
	case "claimRef", "resourceRefs":
		return c07XROnly
	case "writeConnectionSecretToRef", "publishConnectionDetailsTo":
		return c07EachSide
	case "compositionRef", "compositionSelector", "compositionUpdatePolicy", "compositionRevisionSelector":
		return c07Shared
	case "compositionRevisionRef":
		return c07Revision
	}
	return c07User
}

// status machinery: never copied from the XR into the claim.
func c07StatusMachinery(k string) bool {
	return k == "conditions" || k == "connectionDetails" || k == "claimConditionTypes"
}

// c07Reserved: the part before the first "/" ends in kubernetes.io or k8s.io.
func c07Reserved(k string) bool {
	p := k
	if i := strings.Index(k, "/"); i >= 0 {
		p = k[:i]
	}
	return strings.HasSuffix(p, "kubernetes.io") || strings.HasSuffix(p, "k8s.io")
}

const (
	c07ExtName   = "crossplane.io/external-name"
	c07LblName   = "crossplane.io/claim-name"
	c07LblNS     = "crossplane.io/claim-namespace"
	c07SigBackfl = "C07:csa-xr-spec-backflow"
)

func c07Map(v any) map[string]any {
	m, _ := v.(map[string]any)
	return m
}

func c07Has(m map[string]any, k string) bool {
	_, ok := m[k]
	return ok
}

func c07Eq(a, b any) bool { return reflect.DeepEqual(c07CanonOrNil(a), c07CanonOrNil(b)) }

// c07Contains: is every leaf of `sub` present with the same value in `sup` (maps recursively, everything else equal)?
func c07Contains(sup, sub any) bool {
	sm, ok1 := sub.(map[string]any)
	pm, ok2 := sup.(map[string]any)
	if ok1 && ok2 {
		for k, v := range sm {
			pv, ok := pm[k]
			if v == nil {
				// a null leaf deletes under a merge patch and is stored as null by an apply
				if ok && pv != nil {
					return false
				}
				continue
			}
			if !ok || !c07Contains(pv, v) {
				return false
			}
		}
		return true
	}
	return c07Eq(sup, sub)
}

// c07LeafMiss: the path of a non-null scalar / list leaf of xv (descending through maps
// only) that cv does not hold with the same value; "" if there is none.
func c07LeafMiss(xv, cv any) string {
	xm, ok := xv.(map[string]any)
	if !ok {
		if xv == nil || c07Eq(xv, cv) {
			return ""
		}
		return " "
	}
	cm, _ := cv.(map[string]any)
	for _, k := range c07SortedKeys(xm) {
		var c any
		if cm != nil {
			c = cm[k]
		}
		if p := c07LeafMiss(xm[k], c); p != "" {
			return "." + k + strings.TrimSpace(p)
		}
	}
	return ""
}

func c07Policy(o *c07Obj) string {
	if o == nil {
		return ""
	}
	p, _ := c07Map(o.Spec)["compositionUpdatePolicy"].(string)
	return p
}

func c07Ann(o *c07Obj, k string) string {
	if o == nil || o.Annotations == nil {
		return ""
	}
	return o.Annotations[k]
}

// c07Monitor checks one sync step.
//   served = the claim and XR the reconciler's (cached) reads handed to Sync: every
//            decision the syncer takes, hence every request body, is judged against these;
//   pre    = the stored objects before the sync, step = writes + stored objects after:
//            the stored-object clauses are judged against these when the world was quiet
//            (no third-party write, no failing call, reads not stale); in every other
//            world c07WorldMon judges each write against the true store around it.
func c07Monitor(op c07Op, served, pre c07Pre, step c07Step, quiet bool) []Mon {
	var mons []Mon
	add := func(sig, why string) { mons = append(mons, Mon{Sig: sig, Why: op.Syncer + ": " + why}) }
	ns := served.NS
	if step.Err != "" {
		// Only the documented malformed-input errors are expected in a quiet world, and a
		// failing sync before any write must not have changed anything.
		if strings.HasPrefix(step.Err, "other:") || (quiet && strings.HasPrefix(step.Err, "api:")) {
			add("C07:unexpected-error", step.Err)
		}
		if quiet && len(step.Writes) == 0 && (mustJSON(pre.Claim) != mustJSON(step.Claim) || mustJSON(pre.XR) != mustJSON(step.XR)) {
			add("C07:error-changed-state", "sync returned "+step.Err+" without a write but the store changed")
		}
	}
	stored := quiet && step.Err == ""
	cmSpec := c07Map(served.Claim.Spec)
	if cmSpec == nil {
		return mons
	}
	ssa := op.Syncer == "ssa"
	post := step.XR
	if stored && post == nil {
		add("C07:no-xr-after-sync", "no XR named by the claim's resourceRef exists after a successful sync")
		return mons
	}
	var postSpec map[string]any
	if post != nil {
		postSpec = c07Map(post.Spec)
	}
	var preXRSpec map[string]any
	if served.XR != nil {
		preXRSpec = c07Map(served.XR.Spec)
	}

	// ---- the XR write bodies
	var xrBodies []c07Write
	for _, w := range step.Writes {
		if strings.HasPrefix(w.T, "xr.") && w.T != "xr.jsonpatch" {
			xrBodies = append(xrBodies, w)
		}
	}
	manual := c07Policy(served.XR) == "Manual"

	// ---- claim -> XR
	for k, v := range cmSpec {
		switch c07Owner(k) {
		case c07User, c07Shared:
			for _, w := range xrBodies {
				if bs := c07Map(w.Body.Spec); !c07Has(bs, k) || !c07Eq(bs[k], v) {
					add("C07:claim-field-not-propagated", "spec."+k+" of the claim is not asserted unchanged by "+w.T)
				}
			}
			// stored: equal, except that map values merge with what the XR already holds
			if stored && (!c07Has(postSpec, k) || !c07Contains(postSpec[k], v)) {
				add("C07:claim-field-not-propagated", "spec."+k+" of the claim did not reach the stored XR")
			}
		case c07ClaimOnly:
			for _, w := range xrBodies {
				if c07Has(c07Map(w.Body.Spec), k) {
					add("C07:claim-only-field-on-xr", "claim-only spec."+k+" asserted by "+w.T)
				}
			}
			if stored && c07Has(postSpec, k) && !c07Has(preXRSpec, k) {
				add("C07:claim-only-field-on-xr", "claim-only spec."+k+" stored on the XR")
			}
		case c07EachSide:
			for _, w := range xrBodies {
				if bs := c07Map(w.Body.Spec); c07Has(bs, k) && c07Eq(bs[k], v) {
					add("C07:claim-only-field-on-xr", "the claim's own spec."+k+" asserted by "+w.T)
				}
			}
		case c07Revision:
			if manual {
				for _, w := range xrBodies {
					if bs := c07Map(w.Body.Spec); !c07Has(bs, k) || !c07Eq(bs[k], v) {
						add("C07:revision-not-pushed-under-manual", "spec."+k+" of the claim is not asserted by "+w.T+" although the XR's update policy is Manual")
					}
				}
			}
			if !manual {
				for _, w := range xrBodies {
					if c07Has(c07Map(w.Body.Spec), k) {
						add("C07:revision-pushed-without-manual-policy", "spec."+k+" asserted by "+w.T+" although the XR's update policy is not Manual")
					}
				}
			}
		}
	}
	// Nothing but claim-derived fields is ever asserted: every top-level spec key of an XR
	// request body is claimRef (naming the claim) or a user / composition-selection key of
	// the claim with the claim's value (the revision reference only under Manual).
	for _, w := range xrBodies {
		for k, v := range c07Map(w.Body.Spec) {
			cv, has := cmSpec[k]
			switch {
			case k == "claimRef":
				if cr := c07Map(v); cr["name"] != served.Claim.Name || cr["namespace"] != ns || cr["kind"] != c07ClaimGVK.Kind || cr["apiVersion"] != c07ClaimGVK.GroupVersion().String() {
					add("C07:claimref-wrong", "the claimRef asserted by "+w.T+" does not name the claim: "+mustJSON(v))
				}
			case !has:
				add("C07:xr-body-field-not-from-claim", "spec."+k+" asserted by "+w.T+" is not a field of the claim")
			case c07Owner(k) == c07User || c07Owner(k) == c07Shared || (c07Owner(k) == c07Revision && manual):
				if !c07Eq(cv, v) {
					add("C07:xr-body-field-not-from-claim", "spec."+k+" asserted by "+w.T+" is not the claim's value")
				}
			}
		}
		if !c07Has(c07Map(w.Body.Spec), "claimRef") {
			add("C07:claimref-wrong", w.T+" asserts no claimRef")
		}
	}
	// ---- compositionRevisionRef on the STORED XR, for every value of the XR's update
	// policy (this sync's inputs only): under Manual the claim's reference reaches the XR;
	// under Automatic / unset / anything else the XR side owns the field, so the sync may
	// leave it alone (or drop what the claim controller itself applied earlier) but can
	// never set it - neither to the claim's value nor to anything else.
	if stored {
		const k = "compositionRevisionRef"
		pol := c07Policy(pre.XR)
		if pol == "" {
			pol = "unset"
		}
		if manual {
			if v, ok := cmSpec[k]; ok && v != nil && (!c07Has(postSpec, k) || !c07Contains(postSpec[k], v)) {
				add("C07:revision-not-pushed-under-manual", "spec."+k+" of the claim did not reach the stored XR although the XR's update policy is Manual")
			}
		} else if c07Has(postSpec, k) && (!c07Has(preXRSpec, k) || !c07Eq(postSpec[k], preXRSpec[k])) {
			what := "a value that is neither the XR's nor the claim's"
			if v, ok := cmSpec[k]; ok && c07Eq(postSpec[k], v) {
				what = "the claim's value"
			}
			add("C07:revision-ref-flowed-to-xr-without-manual-policy", "spec."+k+" of the stored XR was set to "+what+" ("+mustJSON(postSpec[k])+", before: "+mustJSON(preXRSpec[k])+") although the XR's update policy is "+pol)
		}
	}
	// marker scan: claim-only values anywhere in what was sent to / stored on the XR
	for _, w := range xrBodies {
		if strings.Contains(mustJSON(w.Body), "cm-only-") {
			add("C07:claim-only-field-on-xr", "claim-only value in the body of "+w.T)
		}
	}
	if post != nil && (strings.Contains(mustJSON(post), "cm-only-") || strings.Contains(mustJSON(post), "cms-")) {
		add("C07:claim-only-field-on-xr", "claim-only value stored on the XR")
	}

	// ---- labels / annotations claim -> XR
	preLbl := map[string]string{}
	var preAnn map[string]string
	if served.XR != nil {
		preLbl = served.XR.Labels
		preAnn = served.XR.Annotations
	}
	for k, v := range served.Claim.Labels {
		if k == c07LblName || k == c07LblNS {
			continue
		}
		if c07Reserved(k) {
			for _, w := range xrBodies {
				// the client-side body is the whole XR: only a value the XR did not already hold counts
				if bv, ok := w.Body.Labels[k]; ok && (ssa || preLbl[k] != bv) {
					add("C07:reserved-meta-propagated", "reserved label "+k+" asserted by "+w.T)
				}
			}
			if pv, ok := post.labelsOf()[k]; stored && ok && preLbl[k] != pv {
				add("C07:reserved-meta-propagated", "reserved label "+k+" stored on the XR")
			}
		} else {
			for _, w := range xrBodies {
				if w.Body.Labels[k] != v {
					add("C07:meta-not-propagated", "label "+k+" of the claim is not asserted by "+w.T)
				}
			}
			if stored && post.Labels[k] != v {
				add("C07:meta-not-propagated", "label "+k+" of the claim did not reach the XR")
			}
		}
	}
	for _, w := range xrBodies {
		if w.Body.Labels[c07LblName] != served.Claim.Name || w.Body.Labels[c07LblNS] != ns {
			add("C07:claim-labels-wrong", w.T+" does not assert the claim-name/claim-namespace labels of the claim")
		}
	}
	if stored && (post.Labels[c07LblName] != pre.Claim.Name || post.Labels[c07LblNS] != ns) {
		add("C07:claim-labels-wrong", "the XR does not carry the claim-name/claim-namespace labels of its claim")
	}
	for k, v := range served.Claim.Annotations {
		if c07Reserved(k) {
			for _, w := range xrBodies {
				if bv, ok := w.Body.Annotations[k]; ok && (ssa || preAnn[k] != bv) {
					add("C07:reserved-meta-propagated", "reserved annotation "+k+" asserted by "+w.T)
				}
			}
			if pv, ok := post.annsOf()[k]; stored && ok && preAnn[k] != pv {
				add("C07:reserved-meta-propagated", "reserved annotation "+k+" stored on the XR")
			}
		} else if k == c07ExtName && c07Ann(served.XR, c07ExtName) != "" {
			// the XR's existing external name wins (checked below)
		} else {
			for _, w := range xrBodies {
				if w.Body.Annotations[k] != v {
					add("C07:meta-not-propagated", "annotation "+k+" of the claim is not asserted by "+w.T)
				}
			}
			if stored && post.Annotations[k] != v {
				add("C07:meta-not-propagated", "annotation "+k+" of the claim did not reach the XR")
			}
		}
	}
	// an external name the XR (as read) already has is what every request body asserts
	if en := c07Ann(served.XR, c07ExtName); en != "" {
		for _, w := range xrBodies {
			if w.Body.Annotations[c07ExtName] != en {
				add("C07:external-name-changed", w.T+" asserts the external name "+w.Body.Annotations[c07ExtName]+" although the XR already has "+en)
			}
		}
	}
	// Nothing but claim-derived metadata: a label / annotation of a request body is the
	// claim's (not reserved), one of the two claim labels, the XR's existing external
	// name, or (client-side: the body is the whole XR) what the XR already held.
	for _, w := range xrBodies {
		for k, v := range w.Body.Labels {
			switch {
			case k == c07LblName || k == c07LblNS:
			case !c07Reserved(k) && served.Claim.Labels[k] == v && c07HasStr(served.Claim.Labels, k):
			case !ssa && c07HasStr(preLbl, k) && preLbl[k] == v:
			default:
				add("C07:xr-body-meta-not-from-claim", "label "+k+"="+v+" asserted by "+w.T+" comes neither from the claim nor (client-side) from the XR")
			}
		}
		for k, v := range w.Body.Annotations {
			switch {
			case k == c07ExtName && c07Ann(served.XR, c07ExtName) == v:
			case !c07Reserved(k) && c07HasStr(served.Claim.Annotations, k) && served.Claim.Annotations[k] == v:
			case !ssa && c07HasStr(preAnn, k) && preAnn[k] == v:
			default:
				add("C07:xr-body-meta-not-from-claim", "annotation "+k+"="+v+" asserted by "+w.T+" comes neither from the claim nor (client-side) from the XR")
			}
		}
	}

	// ---- what the XR side owns is never asserted by server-side apply
	if ssa {
		for _, k := range []string{"resourceRefs", "writeConnectionSecretToRef", "publishConnectionDetailsTo"} {
			for _, w := range xrBodies {
				if c07Has(c07Map(w.Body.Spec), k) {
					add("C07:ssa-asserts-xr-owned-field", "the server-side apply body asserts spec."+k)
				}
			}
		}
		for _, w := range xrBodies {
			if w.Body.Status != nil {
				add("C07:ssa-asserts-xr-owned-field", "the server-side apply body carries a status")
			}
		}
	}
	// ---- claim write bodies: never XR machinery (markers), in any world
	for _, w := range step.Writes {
		if !strings.HasPrefix(w.T, "claim.") {
			continue
		}
		if j := mustJSON(w.Body); strings.Contains(j, "xrs-") {
			add("C07:xr-status-machinery-on-claim", "an XR status machinery value in the body of "+w.T)
		} else if strings.Contains(j, "xr-only-") {
			add("C07:xr-only-field-on-claim", "an XR-only machinery value in the body of "+w.T)
		}
	}
	// ---- claim write bodies of the server-side syncer, in any world: the metadata of the
	// claim AS SERVED, the external name being the served XR's when it has one (theorem
	// meta_xr_to_claim_every_world). No other label / annotation of the XR reaches the claim.
	if ssa {
		sen := ""
		if served.XR != nil {
			sen = served.XR.Annotations[c07ExtName]
		}
		for _, w := range step.Writes {
			if !strings.HasPrefix(w.T, "claim.") {
				continue
			}
			want := map[string]string{}
			for k, v := range served.Claim.Annotations {
				want[k] = v
			}
			if sen != "" {
				want[c07ExtName] = sen
			}
			got := w.Body.Annotations
			if got == nil {
				got = map[string]string{}
			}
			wl := served.Claim.Labels
			if wl == nil {
				wl = map[string]string{}
			}
			gl := w.Body.Labels
			if gl == nil {
				gl = map[string]string{}
			}
			if mustJSON(gl) != mustJSON(wl) || mustJSON(got) != mustJSON(want) {
				add("C07:claim-body-meta-not-from-claim", "the body of "+w.T+" carries labels "+mustJSON(gl)+" / annotations "+mustJSON(got)+", the claim as served has "+mustJSON(wl)+" / "+mustJSON(want)+" (with the served XR's external name)")
			}
		}
	}
	if j := mustJSON(step.Claim); strings.Contains(j, "xrs-") {
		add("C07:xr-status-machinery-on-claim", "an XR status machinery value is stored on the claim")
	} else if strings.Contains(j, "xr-only-") {
		add("C07:xr-only-field-on-claim", "an XR-only machinery value is stored on the claim")
	}
	if !stored {
		return mons
	}

	// ================= stored objects, quiet world =================
	// ---- what the XR side owns is preserved
	for _, k := range []string{"resourceRefs", "writeConnectionSecretToRef", "publishConnectionDetailsTo"} {
		if c07Has(preXRSpec, k) != c07Has(postSpec, k) || !c07Eq(preXRSpec[k], postSpec[k]) {
			add("C07:xr-owned-field-changed", "spec."+k+" of the XR changed across the sync")
		}
	}
	if cr := c07Map(postSpec["claimRef"]); cr["name"] != pre.Claim.Name || cr["namespace"] != ns || cr["kind"] != c07ClaimGVK.Kind || cr["apiVersion"] != c07ClaimGVK.GroupVersion().String() {
		add("C07:claimref-wrong", "the XR's claimRef does not name the claim")
	}
	if en := c07Ann(pre.XR, c07ExtName); en != "" && c07Ann(post, c07ExtName) != en {
		add("C07:external-name-changed", "the XR's existing external name "+en+" was replaced by "+c07Ann(post, c07ExtName))
	}
	if pre.XR != nil && !c07Eq(pre.XR.Status, post.Status) {
		add("C07:xr-owned-field-changed", "the XR's status changed across the sync")
	}
	// the stored XR's metadata: what was there, what the claim has, nothing else
	for k, v := range post.Labels {
		switch {
		case k == c07LblName || k == c07LblNS:
		case c07HasStr(preLbl, k) && preLbl[k] == v:
		case !c07Reserved(k) && c07HasStr(pre.Claim.Labels, k) && pre.Claim.Labels[k] == v:
		default:
			add("C07:unexpected-xr-meta", "label "+k+"="+v+" of the stored XR comes neither from the XR nor from the claim")
		}
	}
	for k, v := range post.Annotations {
		switch {
		case c07HasStr(preAnn, k) && preAnn[k] == v:
		case !c07Reserved(k) && c07HasStr(pre.Claim.Annotations, k) && pre.Claim.Annotations[k] == v:
		default:
			add("C07:unexpected-xr-meta", "annotation "+k+"="+v+" of the stored XR comes neither from the XR nor from the claim")
		}
	}
	// Kubernetes-reserved labels / annotations the XR held (a user's, another controller's)
	// are neither changed nor removed (theorems reserved_meta_untouched[_csa])
	if pre.XR != nil {
		for k, v := range preLbl {
			if w, ok := post.Labels[k]; c07Reserved(k) && (!ok || w != v) {
				add("C07:xr-reserved-meta-changed", "the XR's reserved label "+k+"="+v+" was changed or removed by the sync")
			}
		}
		for k, v := range preAnn {
			if w, ok := post.Annotations[k]; c07Reserved(k) && (!ok || w != v) {
				add("C07:xr-reserved-meta-changed", "the XR's reserved annotation "+k+"="+v+" was changed or removed by the sync")
			}
		}
	}
	// the XR the claim is bound to: the one it referenced, else the generated name
	wantName := c07XRNameOf(pre.Claim)
	if wantName == "" {
		wantName = op.Gen
	}
	if post.Name != wantName {
		add("C07:resourceref-rebound", "the claim referenced the XR "+wantName+" (or was to create it) but is bound to "+post.Name+" after the sync")
	}

	// ---- XR -> claim
	pc := step.Claim
	pcSpec := c07Map(pc.Spec)
	pcStatus := c07Map(pc.Status)
	preStatus := c07Map(pre.Claim.Status)
	// status machinery is the claim's own
	for _, k := range []string{"conditions", "connectionDetails", "claimConditionTypes"} {
		if !c07Has(pcStatus, k) {
			continue
		}
		if k == "claimConditionTypes" && !c07Has(preStatus, k) {
			add("C07:xr-status-machinery-on-claim", "status."+k+" appeared on the claim")
		} else if c07Has(preStatus, k) && !c07Contains(preStatus[k], pcStatus[k]) {
			add("C07:xr-status-machinery-on-claim", "status."+k+" of the claim changed across the sync")
		} else if !c07Has(preStatus, k) {
			add("C07:xr-status-machinery-on-claim", "status."+k+" appeared on the claim")
		}
	}
	// ... and the claim keeps it: its own conditions and its own lastPublishedTime survive
	if v, ok := preStatus["conditions"]; ok && !c07Eq(pcStatus["conditions"], v) {
		add("C07:claim-status-machinery-lost", "the claim's own status.conditions did not survive the sync")
	}
	if t, ok := c07Map(preStatus["connectionDetails"])["lastPublishedTime"]; ok && !c07Eq(c07Map(pcStatus["connectionDetails"])["lastPublishedTime"], t) {
		add("C07:claim-status-machinery-lost", "the claim's own status.connectionDetails.lastPublishedTime did not survive the sync")
	}
	// user status fields reach the claim
	postXRStatus := c07Map(post.Status)
	if postXRStatus != nil && (ssa || preStatus != nil) {
		for k, v := range postXRStatus {
			if c07StatusMachinery(k) {
				continue
			}
			if ssa {
				if !c07Has(pcStatus, k) || !c07Eq(pcStatus[k], v) {
					add("C07:status-not-propagated", "status."+k+" of the XR did not reach the claim")
				}
			} else if _, isMap := v.(map[string]any); !isMap && v != nil {
				if !c07Has(pcStatus, k) || !c07Eq(pcStatus[k], v) {
					add("C07:status-not-propagated", "status."+k+" of the XR did not reach the claim")
				}
			} else if isMap {
				// the override merge descends into maps: every scalar and every list (lists are
				// atoms: merge_lists_are_atoms) below a user status field reaches the claim as it is
				if path := c07LeafMiss(v, pcStatus[k]); path != "" {
					add("C07:status-not-propagated", "status."+k+path+" of the XR did not reach the claim unchanged")
				}
			}
		}
		if ssa {
			for k := range pcStatus {
				if !c07StatusMachinery(k) && !c07Has(postXRStatus, k) {
					add("C07:stale-claim-status", "status."+k+" of the claim is not a status field of the XR")
				}
			}
		}
	}
	// claim spec: nothing but the documented back-propagation
	auto := c07Policy(post) == "Automatic"
	if ssa {
		auto = c07Policy(pre.XR) == "Automatic"
	}
	refXR := preXRSpec
	if !ssa {
		refXR = postSpec
	}
	for k, v := range pcSpec {
		old, had := cmSpec[k]
		switch {
		case k == "resourceRef":
			if r := c07Map(v); r["name"] != post.Name || r["kind"] != c07XRGVK.Kind || r["apiVersion"] != c07XRGVK.GroupVersion().String() {
				add("C07:resourceref-wrong", "the claim's resourceRef does not name its XR: "+mustJSON(v))
			}
		case k == "compositionRef" && !had:
			if !c07Has(refXR, k) || !c07Eq(refXR[k], v) {
				add("C07:xr-field-in-claim-spec", "spec.compositionRef of the claim is not the XR's")
			}
		case k == "compositionRevisionRef" && v == nil:
			// The client-side syncer writes an explicit null when the XR's policy is
			// Automatic and the XR has no revision yet; an API server drops it.
			if (ssa || !auto) && !(had && old == nil) {
				add("C07:claim-spec-changed", "spec.compositionRevisionRef of the claim was nulled")
			}
		case k == "compositionRevisionRef" && !c07Eq(old, v):
			if !auto {
				add("C07:revision-pulled-without-automatic-policy", "spec.compositionRevisionRef of the claim changed although the XR's update policy is not Automatic")
			} else if v != nil && !c07Eq(refXR[k], v) {
				add("C07:xr-field-in-claim-spec", "spec.compositionRevisionRef of the claim is not the XR's")
			}
		case !had:
			o := c07Owner(k)
			if !ssa && (o == c07User || o == c07Shared) {
				add(c07SigBackfl, "spec."+k+" was copied from the XR into the claim, which did not have it")
			} else {
				add("C07:xr-field-in-claim-spec", "spec."+k+" ("+o+") appeared in the claim's spec")
			}
		case !c07Eq(old, v):
			o := c07Owner(k)
			if !ssa && (o == c07User || o == c07Shared) && c07Contains(v, c07StripEmpty(old)) {
				add(c07SigBackfl, "spec."+k+" of the claim was filled from the XR")
			} else {
				add("C07:claim-spec-changed", "spec."+k+" ("+o+") of the claim changed across the sync")
			}
		}
	}
	// the documented back-propagation does happen
	if v, ok := refXR["compositionRef"]; ok && !c07Has(cmSpec, "compositionRef") && !c07Eq(pcSpec["compositionRef"], v) {
		add("C07:composition-ref-not-pulled", "the claim has no compositionRef but did not receive the XR's")
	}
	if v, ok := refXR["compositionRevisionRef"]; ok && v != nil && auto && !c07Eq(pcSpec["compositionRevisionRef"], v) {
		add("C07:revision-not-pulled-under-automatic", "the XR's update policy is Automatic but the claim's compositionRevisionRef is not the XR's")
	}
	if en := c07Ann(post, c07ExtName); en != "" && pc.Annotations[c07ExtName] != en {
		add("C07:external-name-not-propagated", "the claim's external name is not the XR's "+en)
	}
	for k := range cmSpec {
		if k == "compositionRevisionRef" && !ssa && auto {
			// Under Automatic the XR is authoritative for the revision: the client-side
			// syncer mirrors "the XR has none yet" as null, which the API server prunes.
			continue
		}
		if !c07Has(pcSpec, k) {
			add("C07:claim-spec-changed", "spec."+k+" disappeared from the claim")
		}
	}
	// claim metadata: only the external name may change
	for k, v := range pre.Claim.Labels {
		if pc.Labels[k] != v {
			add("C07:claim-meta-changed", "label "+k+" of the claim changed")
		}
	}
	if len(pc.Labels) != len(pre.Claim.Labels) {
		add("C07:claim-meta-changed", "the claim's labels changed")
	}
	for k, v := range pc.Annotations {
		if k == c07ExtName {
			if en := c07Ann(post, c07ExtName); en != "" && v != en {
				add("C07:external-name-not-propagated", "the claim's external name is not the XR's")
			}
			continue
		}
		if ov, ok := pre.Claim.Annotations[k]; !ok || ov != v {
			add("C07:claim-meta-changed", "annotation "+k+" of the claim changed")
		}
	}
	for k := range pre.Claim.Annotations {
		if _, ok := pc.Annotations[k]; !ok {
			add("C07:claim-meta-changed", "annotation "+k+" disappeared from the claim")
		}
	}
	return mons
}

func c07HasStr(m map[string]string, k string) bool {
	_, ok := m[k]
	return ok
}

// nil-safe accessors
func (o *c07Obj) labelsOf() map[string]string {
	if o == nil {
		return nil
	}
	return o.Labels
}

func (o *c07Obj) annsOf() map[string]string {
	if o == nil {
		return nil
	}
	return o.Annotations
}

// c07StripEmpty removes mergo-"empty" leaves (the client-side merge may fill
// them): "", 0, false, null, [] and {}.
func c07StripEmpty(v any) any {
	switch t := v.(type) {
	case map[string]any:
		out := map[string]any{}
		for k, x := range t {
			if c07IsEmpty(x) {
				continue
			}
			out[k] = c07StripEmpty(x)
		}
		return out
	}
	return v
}

func c07IsEmpty(v any) bool {
	switch t := v.(type) {
	case nil:
		return true
	case string:
		return t == ""
	case bool:
		return !t
	case int64:
		return t == 0
	case float64:
		return t == 0
	case []any:
		return len(t) == 0
	case map[string]any:
		return len(t) == 0
	}
	return false
}

//go:build verif

package main

// C07 direct monitors: the field partition, stated here as literals
// (independently of internal/xcrd's tables), evaluated on what the REAL syncers
// wrote and on the stored objects before and after every sync.

import (
	"reflect"
	"strings"
)

// owner classes of top-level spec keys.
const (
	c07User      = "user"      // XRD author's field: claim -> XR, never XR -> claim
	c07Shared    = "shared"    // composition selection: claim -> XR; compositionRef XR -> claim only when the claim has none
	c07Revision  = "revision"  // compositionRevisionRef: XR -> claim iff the XR's update policy is Automatic
	c07ClaimOnly = "claimOnly" // never copied to the XR
	c07XROnly    = "xrOnly"    // never asserted from the claim, never copied to the claim
	c07EachSide  = "eachSide"  // both sides have their own; never copied either way
)

func c07Owner(k string) string {
	switch k {
	case "resourceRef", "compositeDeletePolicy":
		return c07ClaimOnly
	case "claimRef", "resourceRefs":
		return c07XROnly
	case "writeConnectionSecretToRef", "publishConnectionDetailsTo":
		return c07EachSide
	case "compositionRef", "compositionSelector", "compositionUpdatePolicy", "compositionRevisionSelector":
		return c07Shared
	case "compositionRevisionRef":
		return c07Revision
	}
	return c07User
}

// status machinery: never copied from the XR into the claim.
func c07StatusMachinery(k string) bool {
	return k == "conditions" || k == "connectionDetails" || k == "claimConditionTypes"
}

// c07Reserved: the part before the first "/" ends in kubernetes.io or k8s.io.
func c07Reserved(k string) bool {
	p := k
	if i := strings.Index(k, "/"); i >= 0 {
		p = k[:i]
	}
	return strings.HasSuffix(p, "kubernetes.io") || strings.HasSuffix(p, "k8s.io")
}

const (
	c07ExtName   = "crossplane.io/external-name"
	c07LblName   = "crossplane.io/claim-name"
	c07LblNS     = "crossplane.io/claim-namespace"
	c07SigBackfl = "C07:csa-xr-spec-backflow"
)

func c07Map(v any) map[string]any {
	m, _ := v.(map[string]any)
	return m
}

func c07Has(m map[string]any, k string) bool {
	_, ok := m[k]
	return ok
}

func c07Eq(a, b any) bool { return reflect.DeepEqual(c07CanonOrNil(a), c07CanonOrNil(b)) }

// c07Contains: is every leaf of `sub` present with the same value in `sup` (maps recursively, everything else equal)?
func c07Contains(sup, sub any) bool {
	sm, ok1 := sub.(map[string]any)
	pm, ok2 := sup.(map[string]any)
	if ok1 && ok2 {
		for k, v := range sm {
			pv, ok := pm[k]
			if v == nil {
				// a null leaf deletes under a merge patch and is stored as null by an apply
				if ok && pv != nil {
					return false
				}
				continue
			}
			if !ok || !c07Contains(pv, v) {
				return false
			}
		}
		return true
	}
	return c07Eq(sup, sub)
}

func c07Policy(o *c07Obj) string {
	if o == nil {
		return ""
	}
	p, _ := c07Map(o.Spec)["compositionUpdatePolicy"].(string)
	return p
}

func c07Ann(o *c07Obj, k string) string {
	if o == nil || o.Annotations == nil {
		return ""
	}
	return o.Annotations[k]
}

// c07Monitor checks one sync step. pre = stored objects before, step = writes + stored objects after.
func c07Monitor(s c07Scn, op c07Op, pre c07Pre, step c07Step) []Mon {
	var mons []Mon
	add := func(sig, why string) { mons = append(mons, Mon{Sig: sig, Why: op.Syncer + ": " + why}) }
	if step.Err != "" {
		// Only the two documented malformed-input errors are expected, and a failing sync
		// before any write must not have changed anything.
		if strings.HasPrefix(step.Err, "other:") {
			add("C07:unexpected-error", step.Err)
		}
		if len(step.Writes) == 0 && (mustJSON(pre.Claim) != mustJSON(step.Claim) || mustJSON(pre.XR) != mustJSON(step.XR)) {
			add("C07:error-changed-state", "sync returned "+step.Err+" without a write but the store changed")
		}
		return mons
	}
	cmSpec := c07Map(pre.Claim.Spec)
	if cmSpec == nil {
		return mons
	}
	ssa := op.Syncer == "ssa"
	post := step.XR
	if post == nil {
		add("C07:no-xr-after-sync", "no XR named by the claim's resourceRef exists after a successful sync")
		return mons
	}
	postSpec := c07Map(post.Spec)
	var preXRSpec, preXRStatus map[string]any
	if pre.XR != nil {
		preXRSpec = c07Map(pre.XR.Spec)
		preXRStatus = c07Map(pre.XR.Status)
	}

	// ---- the XR write bodies
	var xrBodies []c07Write
	for _, w := range step.Writes {
		if strings.HasPrefix(w.T, "xr.") {
			xrBodies = append(xrBodies, w)
		}
	}
	manual := c07Policy(pre.XR) == "Manual"

	// ---- claim -> XR
	for k, v := range cmSpec {
		switch c07Owner(k) {
		case c07User, c07Shared:
			for _, w := range xrBodies {
				if bs := c07Map(w.Body.Spec); !c07Has(bs, k) || !c07Eq(bs[k], v) {
					add("C07:claim-field-not-propagated", "spec."+k+" of the claim is not asserted unchanged by "+w.T)
				}
			}
			// stored: equal, except that map values merge with what the XR already holds
			if !c07Has(postSpec, k) || !c07Contains(postSpec[k], v) {
				add("C07:claim-field-not-propagated", "spec."+k+" of the claim did not reach the stored XR")
			}
		case c07ClaimOnly:
			for _, w := range xrBodies {
				if c07Has(c07Map(w.Body.Spec), k) {
					add("C07:claim-only-field-on-xr", "claim-only spec."+k+" asserted by "+w.T)
				}
			}
			if c07Has(postSpec, k) && !c07Has(preXRSpec, k) {
				add("C07:claim-only-field-on-xr", "claim-only spec."+k+" stored on the XR")
			}
		case c07EachSide:
			for _, w := range xrBodies {
				if bs := c07Map(w.Body.Spec); c07Has(bs, k) && c07Eq(bs[k], v) {
					add("C07:claim-only-field-on-xr", "the claim's own spec."+k+" asserted by "+w.T)
				}
			}
		case c07Revision:
			if manual {
				for _, w := range xrBodies {
					if bs := c07Map(w.Body.Spec); !c07Has(bs, k) || !c07Eq(bs[k], v) {
						add("C07:revision-not-pushed-under-manual", "spec."+k+" of the claim is not asserted by "+w.T+" although the XR's update policy is Manual")
					}
				}
			}
			if !manual {
				for _, w := range xrBodies {
					if c07Has(c07Map(w.Body.Spec), k) {
						add("C07:revision-pushed-without-manual-policy", "spec."+k+" asserted by "+w.T+" although the XR's update policy is not Manual")
					}
				}
			}
		}
	}
	// ---- compositionRevisionRef on the STORED XR, for every value of the XR's update
	// policy (this sync's inputs only): under Manual the claim's reference reaches the XR;
	// under Automatic / unset / anything else the XR side owns the field, so the sync may
	// leave it alone (or drop what the claim controller itself applied earlier) but can
	// never set it - neither to the claim's value nor to anything else.
	{
		const k = "compositionRevisionRef"
		pol := c07Policy(pre.XR)
		if pol == "" {
			pol = "unset"
		}
		if manual {
			if v, ok := cmSpec[k]; ok && v != nil && (!c07Has(postSpec, k) || !c07Contains(postSpec[k], v)) {
				add("C07:revision-not-pushed-under-manual", "spec."+k+" of the claim did not reach the stored XR although the XR's update policy is Manual")
			}
		} else if c07Has(postSpec, k) && (!c07Has(preXRSpec, k) || !c07Eq(postSpec[k], preXRSpec[k])) {
			what := "a value that is neither the XR's nor the claim's"
			if v, ok := cmSpec[k]; ok && c07Eq(postSpec[k], v) {
				what = "the claim's value"
			}
			add("C07:revision-ref-flowed-to-xr-without-manual-policy", "spec."+k+" of the stored XR was set to "+what+" ("+mustJSON(postSpec[k])+", before: "+mustJSON(preXRSpec[k])+") although the XR's update policy is "+pol)
		}
	}
	// marker scan: claim-only values anywhere in what was sent to / stored on the XR
	for _, w := range xrBodies {
		if strings.Contains(mustJSON(w.Body), "cm-only-") {
			add("C07:claim-only-field-on-xr", "claim-only value in the body of "+w.T)
		}
	}
	if strings.Contains(mustJSON(post), "cm-only-") || strings.Contains(mustJSON(post), "cms-") {
		add("C07:claim-only-field-on-xr", "claim-only value stored on the XR")
	}

	// ---- labels / annotations claim -> XR
	preLbl := map[string]string{}
	var preAnn map[string]string
	if pre.XR != nil {
		preLbl = pre.XR.Labels
		preAnn = pre.XR.Annotations
	}
	for k, v := range pre.Claim.Labels {
		if k == c07LblName || k == c07LblNS {
			continue
		}
		if c07Reserved(k) {
			for _, w := range xrBodies {
				// the client-side body is the whole XR: only a value the XR did not already hold counts
				if bv, ok := w.Body.Labels[k]; ok && (ssa || preLbl[k] != bv) {
					add("C07:reserved-meta-propagated", "reserved label "+k+" asserted by "+w.T)
				}
			}
			if pv, ok := post.Labels[k]; ok && preLbl[k] != pv {
				add("C07:reserved-meta-propagated", "reserved label "+k+" stored on the XR")
			}
		} else if post.Labels[k] != v {
			add("C07:meta-not-propagated", "label "+k+" of the claim did not reach the XR")
		}
	}
	if post.Labels[c07LblName] != pre.Claim.Name || post.Labels[c07LblNS] != c07NS {
		add("C07:claim-labels-wrong", "the XR does not carry the claim-name/claim-namespace labels of its claim")
	}
	for k, v := range pre.Claim.Annotations {
		if c07Reserved(k) {
			for _, w := range xrBodies {
				if bv, ok := w.Body.Annotations[k]; ok && (ssa || preAnn[k] != bv) {
					add("C07:reserved-meta-propagated", "reserved annotation "+k+" asserted by "+w.T)
				}
			}
			if pv, ok := post.Annotations[k]; ok && preAnn[k] != pv {
				add("C07:reserved-meta-propagated", "reserved annotation "+k+" stored on the XR")
			}
		} else if k == c07ExtName && c07Ann(pre.XR, c07ExtName) != "" {
			// the XR's existing external name wins (checked below)
		} else if post.Annotations[k] != v {
			add("C07:meta-not-propagated", "annotation "+k+" of the claim did not reach the XR")
		}
	}

	// ---- what the XR side owns is preserved
	for _, k := range []string{"resourceRefs", "writeConnectionSecretToRef", "publishConnectionDetailsTo"} {
		if c07Has(preXRSpec, k) != c07Has(postSpec, k) || !c07Eq(preXRSpec[k], postSpec[k]) {
			add("C07:xr-owned-field-changed", "spec."+k+" of the XR changed across the sync")
		}
		if ssa {
			for _, w := range xrBodies {
				if c07Has(c07Map(w.Body.Spec), k) {
					add("C07:ssa-asserts-xr-owned-field", "the server-side apply body asserts spec."+k)
				}
			}
		}
	}
	if cr := c07Map(postSpec["claimRef"]); cr["name"] != pre.Claim.Name || cr["namespace"] != c07NS || cr["kind"] != c07ClaimGVK.Kind {
		add("C07:claimref-wrong", "the XR's claimRef does not name the claim")
	}
	if en := c07Ann(pre.XR, c07ExtName); en != "" && c07Ann(post, c07ExtName) != en {
		add("C07:external-name-changed", "the XR's existing external name "+en+" was replaced by "+c07Ann(post, c07ExtName))
	}
	if pre.XR != nil && !c07Eq(pre.XR.Status, post.Status) {
		add("C07:xr-owned-field-changed", "the XR's status changed across the sync")
	}
	if ssa {
		for _, w := range xrBodies {
			if w.Body.Status != nil {
				add("C07:ssa-asserts-xr-owned-field", "the server-side apply body carries a status")
			}
		}
	}

	// ---- XR -> claim
	pc := step.Claim
	pcSpec := c07Map(pc.Spec)
	pcStatus := c07Map(pc.Status)
	preStatus := c07Map(pre.Claim.Status)
	// status machinery is the claim's own
	for _, k := range []string{"conditions", "connectionDetails", "claimConditionTypes"} {
		if !c07Has(pcStatus, k) {
			continue
		}
		if k == "claimConditionTypes" && !c07Has(preStatus, k) {
			add("C07:xr-status-machinery-on-claim", "status."+k+" appeared on the claim")
		} else if c07Has(preStatus, k) && !c07Contains(preStatus[k], pcStatus[k]) {
			add("C07:xr-status-machinery-on-claim", "status."+k+" of the claim changed across the sync")
		} else if !c07Has(preStatus, k) {
			add("C07:xr-status-machinery-on-claim", "status."+k+" appeared on the claim")
		}
	}
	if j := mustJSON(pc); strings.Contains(j, "xrs-") {
		add("C07:xr-status-machinery-on-claim", "an XR status machinery value is stored on the claim")
	}
	if j := mustJSON(pc); strings.Contains(j, "xr-only-") {
		add("C07:xr-only-field-on-claim", "an XR-only machinery value is stored on the claim")
	}
	// user status fields reach the claim
	postXRStatus := c07Map(post.Status)
	if postXRStatus != nil && (ssa || preStatus != nil) {
		for k, v := range postXRStatus {
			if c07StatusMachinery(k) {
				continue
			}
			if ssa {
				if !c07Has(pcStatus, k) || !c07Eq(pcStatus[k], v) {
					add("C07:status-not-propagated", "status."+k+" of the XR did not reach the claim")
				}
			} else if _, isMap := v.(map[string]any); !isMap && v != nil {
				if !c07Has(pcStatus, k) || !c07Eq(pcStatus[k], v) {
					add("C07:status-not-propagated", "status."+k+" of the XR did not reach the claim")
				}
			}
		}
		if ssa {
			for k := range pcStatus {
				if !c07StatusMachinery(k) && !c07Has(postXRStatus, k) {
					add("C07:stale-claim-status", "status."+k+" of the claim is not a status field of the XR")
				}
			}
		}
	}
	_ = preXRStatus
	// claim spec: nothing but the documented back-propagation
	auto := c07Policy(post) == "Automatic"
	if ssa {
		auto = c07Policy(pre.XR) == "Automatic"
	}
	refXR := preXRSpec
	if !ssa {
		refXR = postSpec
	}
	for k, v := range pcSpec {
		old, had := cmSpec[k]
		switch {
		case k == "resourceRef":
			if r := c07Map(v); r["name"] != post.Name || r["kind"] != c07XRGVK.Kind {
				add("C07:resourceref-wrong", "the claim's resourceRef does not name its XR")
			}
		case k == "compositionRef" && !had:
			if !c07Has(refXR, k) || !c07Eq(refXR[k], v) {
				add("C07:xr-field-in-claim-spec", "spec.compositionRef of the claim is not the XR's")
			}
		case k == "compositionRevisionRef" && v == nil:
			// The client-side syncer writes an explicit null when the XR's policy is
			// Automatic and the XR has no revision yet; an API server drops it.
			if (ssa || !auto) && !(had && old == nil) {
				add("C07:claim-spec-changed", "spec.compositionRevisionRef of the claim was nulled")
			}
		case k == "compositionRevisionRef" && !c07Eq(old, v):
			if !auto {
				add("C07:revision-pulled-without-automatic-policy", "spec.compositionRevisionRef of the claim changed although the XR's update policy is not Automatic")
			} else if v != nil && !c07Eq(refXR[k], v) {
				add("C07:xr-field-in-claim-spec", "spec.compositionRevisionRef of the claim is not the XR's")
			}
		case !had:
			o := c07Owner(k)
			if !ssa && (o == c07User || o == c07Shared) {
				add(c07SigBackfl, "spec."+k+" was copied from the XR into the claim, which did not have it")
			} else {
				add("C07:xr-field-in-claim-spec", "spec."+k+" ("+o+") appeared in the claim's spec")
			}
		case !c07Eq(old, v):
			o := c07Owner(k)
			if !ssa && (o == c07User || o == c07Shared) && c07Contains(v, c07StripEmpty(old)) {
				add(c07SigBackfl, "spec."+k+" of the claim was filled from the XR")
			} else {
				add("C07:claim-spec-changed", "spec."+k+" ("+o+") of the claim changed across the sync")
			}
		}
	}
	// the documented back-propagation does happen
	if v, ok := refXR["compositionRef"]; ok && !c07Has(cmSpec, "compositionRef") && !c07Eq(pcSpec["compositionRef"], v) {
		add("C07:composition-ref-not-pulled", "the claim has no compositionRef but did not receive the XR's")
	}
	if v, ok := refXR["compositionRevisionRef"]; ok && v != nil && auto && !c07Eq(pcSpec["compositionRevisionRef"], v) {
		add("C07:revision-not-pulled-under-automatic", "the XR's update policy is Automatic but the claim's compositionRevisionRef is not the XR's")
	}
	if en := c07Ann(post, c07ExtName); en != "" && pc.Annotations[c07ExtName] != en {
		add("C07:external-name-not-propagated", "the claim's external name is not the XR's "+en)
	}
	for k := range cmSpec {
		if k == "compositionRevisionRef" && !ssa && auto {
			// Under Automatic the XR is authoritative for the revision: the client-side
			// syncer mirrors "the XR has none yet" as null, which the API server prunes.
			continue
		}
		if !c07Has(pcSpec, k) {
			add("C07:claim-spec-changed", "spec."+k+" disappeared from the claim")
		}
	}
	// claim metadata: only the external name may change
	for k, v := range pre.Claim.Labels {
		if pc.Labels[k] != v {
			add("C07:claim-meta-changed", "label "+k+" of the claim changed")
		}
	}
	if len(pc.Labels) != len(pre.Claim.Labels) {
		add("C07:claim-meta-changed", "the claim's labels changed")
	}
	for k, v := range pc.Annotations {
		if k == c07ExtName {
			if en := c07Ann(post, c07ExtName); en != "" && v != en {
				add("C07:external-name-not-propagated", "the claim's external name is not the XR's")
			}
			continue
		}
		if ov, ok := pre.Claim.Annotations[k]; !ok || ov != v {
			add("C07:claim-meta-changed", "annotation "+k+" of the claim changed")
		}
	}
	for k := range pre.Claim.Annotations {
		if _, ok := pc.Annotations[k]; !ok {
			add("C07:claim-meta-changed", "annotation "+k+" disappeared from the claim")
		}
	}
	return mons
}

// c07StripEmpty removes mergo-"empty" leaves (the client-side merge may fill
// them): "", 0, false, null, [] and {}.
func c07StripEmpty(v any) any {
	switch t := v.(type) {
	case map[string]any:
		out := map[string]any{}
		for k, x := range t {
			if c07IsEmpty(x) {
				continue
			}
			out[k] = c07StripEmpty(x)
		}
		return out
	}
	return v
}

func c07IsEmpty(v any) bool {
	switch t := v.(type) {
	case nil:
		return true
	case string:
		return t == ""
	case bool:
		return !t
	case int64:
		return t == 0
	case float64:
		return t == 0
	case []any:
		return len(t) == 0
	case map[string]any:
		return len(t) == 0
	}
	return false
}

//go:build verif

package main

// C06 regenerated facts: the ordered skeleton of API calls of the functions the
// C06 model mirrors, extracted with go/ast from the CURRENT source tree
// (VERIF_REPO, default /repo) on every check run, and the constants the harness
// and model rely on. lean/Xp/Props/C06.lean states that the model's declared
// skeletons equal these lists (by `decide`), so inserting, removing or reordering
// an API call in one of these functions breaks an obligation before any scenario
// is run.

import (
	"fmt"
	"go/ast"
	"go/parser"
	"go/token"
	"os"
	"path/filepath"
	"strings"

	"github.com/crossplane/crossplane/internal/controller/apiextensions/claim"
	"github.com/crossplane/crossplane/internal/features"
)

var c06SkeletonVerbs = map[string]bool{
	"Get": true, "List": true, "Create": true, "Update": true, "Patch": true, "Delete": true, "Apply": true,
	"GenerateName": true, "Upgrade": true, "Sync": true, "AddFinalizer": true, "RemoveFinalizer": true,
	"UnpublishConnection": true, "PropagateConnection": true,
}

// c06Chain renders r.client.Status().Update as "client.Status.Update" if rooted at ident root.
func c06Chain(e ast.Expr, root string) (string, bool) {
	switch t := e.(type) {
	case *ast.Ident:
		return "", t.Name == root
	case *ast.SelectorExpr:
		p, ok := c06Chain(t.X, root)
		if !ok {
			return "", false
		}
		if p == "" {
			return t.Sel.Name, true
		}
		return p + "." + t.Sel.Name, true
	case *ast.CallExpr:
		return c06Chain(t.Fun, root)
	}
	return "", false
}

// c06Skeleton lists, in source order, the calls of method recvType.name that go through
// a field of the receiver and end in an API verb.
func c06Skeleton(file, recvType, name string) ([]string, error) {
	fset := token.NewFileSet()
	f, err := parser.ParseFile(fset, file, nil, 0)
	if err != nil {
		return nil, err
	}
	for _, d := range f.Decls {
		fd, ok := d.(*ast.FuncDecl)
		if !ok || fd.Name.Name != name || fd.Recv == nil || len(fd.Recv.List) != 1 || fd.Body == nil {
			continue
		}
		rt := fd.Recv.List[0].Type
		if st, ok := rt.(*ast.StarExpr); ok {
			rt = st.X
		}
		if id, ok := rt.(*ast.Ident); !ok || id.Name != recvType {
			continue
		}
		if len(fd.Recv.List[0].Names) != 1 {
			continue
		}
		root := fd.Recv.List[0].Names[0].Name
		out := []string{}
		ast.Inspect(fd.Body, func(n ast.Node) bool {
			ce, ok := n.(*ast.CallExpr)
			if !ok {
				return true
			}
			sel, ok := ce.Fun.(*ast.SelectorExpr)
			if !ok || !c06SkeletonVerbs[sel.Sel.Name] {
				return true
			}
			if ch, ok := c06Chain(ce.Fun, root); ok && strings.Contains(ch, ".") {
				out = append(out, ch)
			}
			return true
		})
		return out, nil
	}
	return nil, fmt.Errorf("method %s.%s not found in %s", recvType, name, file)
}

func init() {
	RegisterDump("C06", func() string {
		repo := os.Getenv("VERIF_REPO")
		if repo == "" {
			repo = "/repo"
		}
		dir := filepath.Join(repo, "internal", "controller", "apiextensions", "claim")
		var sb strings.Builder
		emit := func(lean, file, recv, fn string) {
			sk, err := c06Skeleton(file, recv, fn)
			if err != nil {
				// an unparsable / renamed function yields a list no model skeleton equals
				sk = []string{"EXTRACTION FAILED: " + err.Error()}
			}
			fmt.Fprintf(&sb, "/-- API-call skeleton of %s.%s (%s), source order -/\ndef %s : List String := %s\n", recv, fn, filepath.Base(file), lean, leanStrList(sk))
		}
		emit("c06SkelReconcile", filepath.Join(dir, "reconciler.go"), "Reconciler", "Reconcile")
		emit("c06SkelSsaSync", filepath.Join(dir, "syncer_ssa.go"), "ServerSideCompositeSyncer", "Sync")
		emit("c06SkelUpgrade", filepath.Join(dir, "syncer_ssa.go"), "PatchingManagedFieldsUpgrader", "Upgrade")
		emit("c06SkelCsaSync", filepath.Join(dir, "syncer_csa.go"), "ClientSideCompositeSyncer", "Sync")
		emit("c06SkelGenerateName", filepath.Join(repo, "internal", "names", "generate.go"), "nameGenerator", "GenerateName")
		fmt.Fprintf(&sb, "def c06FieldOwnerXR : String := %s\n", leanStr(claim.FieldOwnerXR))
		fmt.Fprintf(&sb, "def c06FlagClaimSSA : String := %s\n", leanStr(string(features.EnableBetaClaimSSA)))
		return sb.String()
	})
}

//go:build verif

package main

// C06 regenerated facts: the ordered skeleton of API calls of the functions the
// C06 model mirrors, extracted with go/ast from the CURRENT source tree
// (VERIF_REPO, default /repo) on every check run, and the constants the harness
// and model rely on. lean/Xp/Props/C06.lean states that the model's declared
// skeletons equal these lists (by `decide`), so inserting, removing or reordering
// an API call in one of these functions breaks an obligation before any scenario
// is run.

import (
	"fmt"
	"go/ast"
	"go/parser"
	"go/token"
	"os"
	"path/filepath"
	"reflect"
	"runtime"
	"strings"

	"github.com/crossplane/crossplane-runtime/pkg/resource"

	"github.com/crossplane/crossplane/internal/controller/apiextensions/claim"
	"github.com/crossplane/crossplane/internal/features"
)

var c06SkeletonVerbs = map[string]bool{
	"Get": true, "List": true, "Create": true, "Update": true, "Patch": true, "Delete": true, "Apply": true,
	"GenerateName": true, "Upgrade": true, "Sync": true, "AddFinalizer": true, "RemoveFinalizer": true,
	"UnpublishConnection": true, "PropagateConnection": true,
}

// c06Chain renders r.client.Status().Update as "client.Status.Update" if rooted at ident root.
func c06Chain(e ast.Expr, root string) (string, bool) {
	switch t := e.(type) {
	case *ast.Ident:
		return "", t.Name == root
	case *ast.SelectorExpr:
		p, ok := c06Chain(t.X, root)
		if !ok {
			return "", false
		}
		if p == "" {
			return t.Sel.Name, true
		}
		return p + "." + t.Sel.Name, true
	case *ast.CallExpr:
		return c06Chain(t.Fun, root)
	}
	return "", false
}

// c06Skeleton lists, in source order, the calls of method recvType.name that go through
// a field of the receiver and end in an API verb.
func c06Skeleton(file, recvType, name string) ([]string, error) {
	fset := token.NewFileSet()
	f, err := parser.ParseFile(fset, file, nil, 0)
	if err != nil {
		return nil, err
	}
	for _, d := range f.Decls {
		fd, ok := d.(*ast.FuncDecl)
		if !ok || fd.Name.Name != name || fd.Recv == nil || len(fd.Recv.List) != 1 || fd.Body == nil {
			continue
		}
		rt := fd.Recv.List[0].Type
		if st, ok := rt.(*ast.StarExpr); ok {
			rt = st.X
		}
		if id, ok := rt.(*ast.Ident); !ok || id.Name != recvType {
			continue
		}
		if len(fd.Recv.List[0].Names) != 1 {
			continue
		}
		root := fd.Recv.List[0].Names[0].Name
		out := []string{}
		ast.Inspect(fd.Body, func(n ast.Node) bool {
			ce, ok := n.(*ast.CallExpr)
			if !ok {
				return true
			}
			sel, ok := ce.Fun.(*ast.SelectorExpr)
			if !ok || !c06SkeletonVerbs[sel.Sel.Name] {
				return true
			}
			if ch, ok := c06Chain(ce.Fun, root); ok && strings.Contains(ch, ".") {
				out = append(out, ch)
			}
			return true
		})
		return out, nil
	}
	return nil, fmt.Errorf("method %s.%s not found in %s", recvType, name, file)
}

// c06SourceOf: the file a function of a dependency was COMPILED from (the module cache copy that is
// linked into this binary), so that skeletons of crossplane-runtime helpers the model mirrors are read
// from the code that actually runs.
func c06SourceOf(fn any) string {
	f := runtime.FuncForPC(reflect.ValueOf(fn).Pointer())
	if f == nil {
		return ""
	}
	file, _ := f.FileLine(f.Entry())
	return file
}

// c06Wiring lists, in source order, the `claim.With…(claim.New…(…))` reconciler options that
// offered/reconciler.go appends inside `if …Features.Enabled(features.<flag>) { … }`.
func c06Wiring(file, flag string) ([]string, error) {
	fset := token.NewFileSet()
	f, err := parser.ParseFile(fset, file, nil, 0)
	if err != nil {
		return nil, err
	}
	out := []string{}
	found := false
	ast.Inspect(f, func(n ast.Node) bool {
		is, ok := n.(*ast.IfStmt)
		if !ok {
			return true
		}
		ce, ok := is.Cond.(*ast.CallExpr)
		if !ok || len(ce.Args) != 1 {
			return true
		}
		if sel, ok := ce.Fun.(*ast.SelectorExpr); !ok || sel.Sel.Name != "Enabled" {
			return true
		}
		arg, ok := ce.Args[0].(*ast.SelectorExpr)
		if !ok || arg.Sel.Name != flag {
			return true
		}
		found = true
		ast.Inspect(is.Body, func(m ast.Node) bool {
			c, ok := m.(*ast.CallExpr)
			if !ok {
				return true
			}
			sel, ok := c.Fun.(*ast.SelectorExpr)
			if !ok || !strings.HasPrefix(sel.Sel.Name, "With") {
				return true
			}
			if x, ok := sel.X.(*ast.Ident); !ok || x.Name != "claim" {
				return true
			}
			arg := "?"
			if len(c.Args) == 1 {
				if ac, ok := c.Args[0].(*ast.CallExpr); ok {
					if as, ok := ac.Fun.(*ast.SelectorExpr); ok {
						arg = as.Sel.Name
					}
				}
			}
			out = append(out, sel.Sel.Name+":"+arg)
			return true
		})
		return false
	})
	if !found {
		return nil, fmt.Errorf("no `if ….Enabled(features.%s)` in %s", flag, file)
	}
	return out, nil
}

// c06Defaults lists the `field: value` pairs of the literals in defaultCRComposite and claim.NewReconciler for the
// fields the model depends on (the syncer and upgrader used when no option overrides them).
func c06Defaults(file string) ([]string, error) {
	fset := token.NewFileSet()
	f, err := parser.ParseFile(fset, file, nil, 0)
	if err != nil {
		return nil, err
	}
	out := []string{}
	for _, d := range f.Decls {
		fd, ok := d.(*ast.FuncDecl)
		if !ok || (fd.Name.Name != "NewReconciler" && fd.Name.Name != "defaultCRComposite") || fd.Body == nil {
			continue
		}
		ast.Inspect(fd.Body, func(n ast.Node) bool {
			kv, ok := n.(*ast.KeyValueExpr)
			if !ok {
				return true
			}
			k, ok := kv.Key.(*ast.Ident)
			if !ok || (k.Name != "managedFields" && k.Name != "composite" && k.Name != "CompositeSyncer") {
				return true
			}
			v := "?"
			switch t := kv.Value.(type) {
			case *ast.CallExpr:
				if id, ok := t.Fun.(*ast.Ident); ok {
					v = id.Name
				}
			case *ast.UnaryExpr:
				if cl, ok := t.X.(*ast.CompositeLit); ok {
					if id, ok := cl.Type.(*ast.Ident); ok {
						v = id.Name
					}
				}
			}
			out = append(out, k.Name+":"+v)
			return true
		})
	}
	if len(out) == 0 {
		return nil, fmt.Errorf("NewReconciler / defaultCRComposite literals not found in %s", file)
	}
	return out, nil
}

func init() {
	RegisterDump("C06", func() string {
		repo := os.Getenv("VERIF_REPO")
		if repo == "" {
			repo = "/repo"
		}
		dir := filepath.Join(repo, "internal", "controller", "apiextensions", "claim")
		var sb strings.Builder
		emit := func(lean, file, recv, fn string) {
			sk, err := c06Skeleton(file, recv, fn)
			if err != nil {
				// an unparsable / renamed function yields a list no model skeleton equals
				sk = []string{"EXTRACTION FAILED: " + err.Error()}
			}
			fmt.Fprintf(&sb, "/-- API-call skeleton of %s.%s (%s), source order -/\ndef %s : List String := %s\n", recv, fn, filepath.Base(file), lean, leanStrList(sk))
		}
		emit("c06SkelReconcile", filepath.Join(dir, "reconciler.go"), "Reconciler", "Reconcile")
		emit("c06SkelSsaSync", filepath.Join(dir, "syncer_ssa.go"), "ServerSideCompositeSyncer", "Sync")
		emit("c06SkelUpgrade", filepath.Join(dir, "syncer_ssa.go"), "PatchingManagedFieldsUpgrader", "Upgrade")
		emit("c06SkelCsaSync", filepath.Join(dir, "syncer_csa.go"), "ClientSideCompositeSyncer", "Sync")
		emit("c06SkelGenerateName", filepath.Join(repo, "internal", "names", "generate.go"), "nameGenerator", "GenerateName")
		// crossplane-runtime helpers the model mirrors call by call (csaApply, bindPath's AddFinalizer, finalizeClaim),
		// read from the module source this binary was compiled from
		api := c06SourceOf(resource.NewAPIPatchingApplicator)
		emit("c06SkelApply", api, "APIPatchingApplicator", "Apply")
		emit("c06SkelAddFinalizer", api, "APIFinalizer", "AddFinalizer")
		emit("c06SkelRemoveFinalizer", api, "APIFinalizer", "RemoveFinalizer")
		list := func(lean, doc string, l []string, err error) {
			if err != nil {
				l = []string{"EXTRACTION FAILED: " + err.Error()}
			}
			fmt.Fprintf(&sb, "/-- %s -/\ndef %s : List String := %s\n", doc, lean, leanStrList(l))
		}
		w, err := c06Wiring(filepath.Join(repo, "internal", "controller", "apiextensions", "offered", "reconciler.go"), "EnableBetaClaimSSA")
		list("c06WiringSSA", "claim reconciler options offered/reconciler.go adds under features.EnableBetaClaimSSA", w, err)
		dflt, err := c06Defaults(filepath.Join(dir, "reconciler.go"))
		list("c06WiringDefault", "claim.NewReconciler's default syncer and managed-fields upgrader", dflt, err)
		fmt.Fprintf(&sb, "def c06FieldOwnerXR : String := %s\n", leanStr(claim.FieldOwnerXR))
		fmt.Fprintf(&sb, "def c06FlagClaimSSA : String := %s\n", leanStr(string(features.EnableBetaClaimSSA)))
		return sb.String()
	})
}

//go:build verif

package main

// C14 regenerated facts (tie "a"), extracted with go/ast from the CURRENT source tree
// (VERIF_REPO, default /repo) on every check run into lean/Xp/Gen/C14Skel.lean:
//
//   * the ordered call skeletons of the Go functions the C14 model mirrors
//     (manager.Reconciler.Reconcile, manager.PackageRevisioner.Revision, xpkg.FriendlyID,
//     xpkg.ToDNSLabel, xpkg.K8sFetcher.Head, manager.pullBasedRequeue and - from the crossplane-runtime module source
//     this binary is linked against - resource.APIPatchingApplicator.Apply and
//     resource.MustBeControllableBy);
//   * the table of package -> revision field copies of Reconcile (`pr.SetX(p.GetX())`), each
//     with the JSON path the setter writes on the revision and the getter reads on the package,
//     found by RUNNING the setter / getter of the current tree on probe objects.
//
// lean/Xp/Props/C14.lean states that the model's declared skeletons / copy table equal these
// lists (`skeleton_*`, `copied_fields_match_source`, by `decide`), so inserting, removing or
// reordering a call, or adding / dropping a copied field, breaks an obligation before any
// scenario is run.

import (
	"encoding/json"
	"fmt"
	"go/ast"
	"go/parser"
	"go/token"
	"path/filepath"
	"reflect"
	"runtime"
	"sort"
	"strings"

	"github.com/crossplane/crossplane-runtime/pkg/resource"

	pkgv1 "github.com/crossplane/crossplane/apis/pkg/v1"
)

const (
	c14ReconcilerFile = "internal/controller/pkg/manager/reconciler.go"
	c14RevisionerFile = "internal/controller/pkg/manager/revisioner.go"
	c14NameFile       = "internal/xpkg/name.go"
)

// c14SourceOf: the file a function linked into this binary was compiled from.
func c14SourceOf(fn any) string {
	f := runtime.FuncForPC(reflect.ValueOf(fn).Pointer())
	if f == nil {
		return ""
	}
	file, _ := f.FileLine(f.Entry())
	return file
}

// c14RelToRepo renders an absolute path relative to the tree SkelOf reads (SkelOf joins its
// argument with the repo root).
func c14RelToRepo(abs string) string {
	rel, err := filepath.Rel(SkelRepo(), abs)
	if err != nil {
		return abs
	}
	return rel
}

// c14Copies lists, in source order, the statements `X.SetF(Y.GetG())` of Reconciler.Reconcile
// whose argument is a getter of the package (p / pwr) and whose receiver is the revision being
// built (pr / prwr): the fields the reconciler copies package -> revision.
func c14Copies() ([][2]string, error) {
	fset := token.NewFileSet()
	f, err := parser.ParseFile(fset, filepath.Join(SkelRepo(), c14ReconcilerFile), nil, 0)
	if err != nil {
		return nil, err
	}
	var out [][2]string
	found := false
	for _, d := range f.Decls {
		fd, ok := d.(*ast.FuncDecl)
		if !ok || fd.Name.Name != "Reconcile" || fd.Recv == nil || fd.Body == nil {
			continue
		}
		found = true
		ast.Inspect(fd.Body, func(n ast.Node) bool {
			call, ok := n.(*ast.CallExpr)
			if !ok || len(call.Args) != 1 {
				return true
			}
			set, ok := call.Fun.(*ast.SelectorExpr)
			if !ok || !strings.HasPrefix(set.Sel.Name, "Set") {
				return true
			}
			to, ok := set.X.(*ast.Ident)
			if !ok || (to.Name != "pr" && to.Name != "prwr") {
				return true
			}
			arg, ok := call.Args[0].(*ast.CallExpr)
			if !ok || len(arg.Args) != 0 {
				return true
			}
			get, ok := arg.Fun.(*ast.SelectorExpr)
			if !ok || !strings.HasPrefix(get.Sel.Name, "Get") {
				return true
			}
			from, ok := get.X.(*ast.Ident)
			if !ok || (from.Name != "p" && from.Name != "pwr") {
				return true
			}
			out = append(out, [2]string{to.Name + "." + set.Sel.Name, from.Name + "." + get.Sel.Name})
			return true
		})
	}
	if !found {
		return nil, fmt.Errorf("Reconciler.Reconcile not found")
	}
	return out, nil
}

// c14ProbePkg is a Provider whose every spec field carries a distinct recognisable value.
func c14ProbePkg() *pkgv1.Provider {
	p := &pkgv1.Provider{}
	_ = json.Unmarshal([]byte(`{"spec":{
		"package":"probe/package:v1","revisionActivationPolicy":"Manual","revisionHistoryLimit":7,
		"packagePullSecrets":[{"name":"probe-secret"}],"packagePullPolicy":"Never",
		"ignoreCrossplaneConstraints":true,"skipDependencyResolution":false,
		"commonLabels":{"probe":"label"},
		"controllerConfigRef":{"name":"probe-cc"},
		"runtimeConfigRef":{"apiVersion":"probe/v1","kind":"ProbeKind","name":"probe-rc"}}}`), p)
	p.SetName("probe-pkg") // the TLS secret names are derived from the package's name
	return p
}

// c14Leaves flattens a JSON value to path=value leaves (arrays are leaves).
func c14Leaves(prefix string, v any, out map[string]string) {
	if m, ok := v.(map[string]any); ok {
		for k, x := range m {
			p := k
			if prefix != "" {
				p = prefix + "." + k
			}
			c14Leaves(p, x, out)
		}
		return
	}
	b, _ := json.Marshal(v)
	out[prefix] = string(b)
}

func c14SpecLeaves(o any) map[string]string {
	b, _ := json.Marshal(o)
	var m map[string]any
	_ = json.Unmarshal(b, &m)
	out := map[string]string{}
	if sp, ok := m["spec"]; ok {
		c14Leaves("", sp, out)
	}
	return out
}

// c14CopyPaths runs getter `get` on the probe package and setter `set` with its result on an
// empty ProviderRevision: the revision spec leaves that appear, and the package spec leaves
// holding the same values. A method the current types do not have yields "?".
func c14CopyPaths(set, get string) (revPaths, pkgPaths []string) {
	p := c14ProbePkg()
	gm := reflect.ValueOf(p).MethodByName(get)
	r := &pkgv1.ProviderRevision{}
	sm := reflect.ValueOf(r).MethodByName(set)
	if !gm.IsValid() || !sm.IsValid() {
		return []string{"?"}, []string{"?"}
	}
	base := c14SpecLeaves(r)
	pan := Guard(func() { sm.Call(gm.Call(nil)) })
	if pan != "" {
		return []string{"?"}, []string{"?"}
	}
	after := c14SpecLeaves(r)
	pl := c14SpecLeaves(p)
	var rp, pp []string
	for k, v := range after {
		if base[k] == v {
			continue
		}
		rp = append(rp, k)
		for pk, pv := range pl {
			if pv == v {
				pp = append(pp, pk)
			}
		}
	}
	sort.Strings(rp)
	sort.Strings(pp)
	if len(pp) == 0 {
		// not a spec field of the package: derived from its name?
		for _, k := range rp {
			if strings.Contains(after[k], p.GetName()) {
				pp = []string{"(metadata.name)"}
			}
		}
	}
	return rp, pp
}

func c14SkelDump() string {
	var sb strings.Builder
	api := SkelOpts{
		Verbs: SkelVerbs("Revision", "PullSecretFor", "IsPaused", "IgnoreNotFound", "IsConflict", "MustBeControllableBy",
			"CleanConditions", "SetConditions", "GetCondition", "WasDeleted", "GetDeletionTimestamp", "SetCurrentRevision", "SetCurrentIdentifier", "GetRevisions", "SetRevision", "SetDesiredState",
			"AddOwnerReference"),
		Idents:   map[string]bool{"pullBasedRequeue": true},
		DropRecv: true,
	}
	sb.WriteString(SkelDef("c14SkelReconcile", c14ReconcilerFile, "Reconciler", "Reconcile", api))
	sb.WriteString(SkelDef("c14SkelRevision", c14RevisionerFile, "PackageRevisioner", "Revision", SkelOpts{
		Verbs: map[string]bool{"GetPackagePullPolicy": true, "FriendlyID": true, "GetName": true, "GetSource": true,
			"GetCurrentIdentifier": true, "GetCurrentRevision": true, "ParseReference": true, "WithDefaultRegistry": true,
			"RefNames": true, "GetPackagePullSecrets": true, "Head": true},
		DropRecv: true, Returns: true,
	}))
	sb.WriteString(SkelDef("c14SkelFriendlyID", c14NameFile, "", "FriendlyID", SkelOpts{
		Verbs: map[string]bool{"Join": true}, Idents: map[string]bool{"truncate": true, "ToDNSLabel": true},
	}))
	sb.WriteString(SkelDef("c14SkelToDNSLabel", c14NameFile, "", "ToDNSLabel", SkelOpts{
		Verbs: map[string]bool{"WriteByte": true, "Trim": true, "String": true, "WriteString": true, "WriteRune": true, "ToLower": true},
		Idents: map[string]bool{"len": true}, Returns: true,
	}))
	sb.WriteString(SkelDef("c14SkelPullBasedRequeue", c14ReconcilerFile, "", "pullBasedRequeue", SkelOpts{
		Verbs: map[string]bool{}, Returns: true,
	}))
	sb.WriteString(SkelDef("c14SkelFetcherHead", "internal/xpkg/fetch.go", "K8sFetcher", "Head", SkelOpts{
		Verbs: map[string]bool{"New": true, "Head": true, "Get": true, "Fetch": true, "Image": true, "Descriptor": true, "Index": true, "Wrapf": true, "Wrap": true},
		DropRecv: true, Returns: true,
	}))
	// crossplane-runtime, the module source this binary is linked against
	applyFile := c14RelToRepo(c14SourceOf((*resource.APIPatchingApplicator).Apply))
	sb.WriteString(SkelDef("c14SkelApply", applyFile, "APIPatchingApplicator", "Apply", SkelOpts{
		Verbs: SkelVerbs("IsNotFound", "DeepCopyObject"), Idents: map[string]bool{"fn": true}, DropRecv: true,
	}))
	mbcFile := c14RelToRepo(c14SourceOf(resource.MustBeControllableBy))
	sb.WriteString(SkelDef("c14SkelMustBeControllableBy", mbcFile, "", "MustBeControllableBy", SkelOpts{
		Verbs: map[string]bool{"GetControllerOf": true}, Returns: true,
	}))
	// the package -> revision copies
	cp, err := c14Copies()
	sb.WriteString("/-- the package -> revision field copies of Reconciler.Reconcile, source order: (setter on the revision, getter on the package, revision spec JSON leaves the setter writes, package spec JSON leaves the getter reads) - the first two by go/ast, the last two by running the methods of the current tree on probe objects -/\n")
	sb.WriteString("def c14CopiedFields : List (String × String × List String × List String) := [")
	if err != nil {
		sb.WriteString(fmt.Sprintf("(%s, \"\", [], [])", leanStr("EXTRACTION FAILED: "+err.Error())))
	}
	for i, c := range cp {
		if i > 0 {
			sb.WriteString(", ")
		}
		set := c[0][strings.Index(c[0], ".")+1:]
		get := c[1][strings.Index(c[1], ".")+1:]
		rp, pp := c14CopyPaths(set, get)
		sb.WriteString(fmt.Sprintf("(%s, %s, %s, %s)", leanStr(c[0]), leanStr(c[1]), leanStrList(rp), leanStrList(pp)))
	}
	sb.WriteString("]\n")
	return sb.String()
}

func init() {
	RegisterDump("C14Skel", c14SkelDump)
}

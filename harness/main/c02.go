//go:build verif

package main

// C02: Crossplane never modifies, adopts or deletes what another owner controls.
// A site aggregator: every scenario plants a controller reference to a foreign UID at one
// of the placements the property names, runs the REAL code of that site and checks that the
// foreign object is byte-for-byte unchanged after every API call and that no write was
// addressed to it. Each scenario is wrapped as {"site": <driver id>, "scn": <its scenario>}
// so that the Lean side can dispatch to the model of that site.

import (
	"encoding/json"
	"fmt"
	"k8s.io/apimachinery/pkg/runtime/schema"
	"strings"
)

type c02Scn struct {
	Site string `json:"site"`
	Scn  any    `json:"scn"`
}

// c02ForeignBytes returns the stored bytes of every composed-kind object controlled by the foreign UID.
func c02ForeignBytes(w *xwWorld) map[string]string {
	out := map[string]string{}
	for k, v := range w.St.Snapshot() {
		if strings.Contains(v, xwForeignUID) && !strings.HasPrefix(k, "XThing") {
			out[k] = v
		}
	}
	return out
}

// c02GenXW: XR worlds where foreign-controlled objects sit at the placements of the property:
// named in spec.resourceRefs (desired or not desired), and bearing a template / resource name.
func c02GenXW(r *Rng) xwScn {
	s := c01Gen(r)
	// force at least one foreign object, referenced or not
	for i := 0; i < r.Range(1, 2); i++ {
		n := Pick(r, c01RNames)
		o := xwObj{Kind: c01KindOf[n], Name: fmt.Sprintf("xr-foreign%d", i), Annot: Pick(r, []string{n, n, "zz", ""}), Ctrl: "other", Content: r.Intn(3), Fin: r.Chance(1, 4)}
		if o.Annot == "" && (s.Mode == "pt" || r.Chance(3, 4)) {
			// (P&T falls back to by-order association for annotation-less resources: outside the model)
			o.Annot = n
		}
		dup := false
		for _, e := range s.Objs {
			if e.Annot == o.Annot && o.Annot != "" {
				dup = true
			}
		}
		if dup {
			continue
		}
		s.Objs = append(s.Objs, o)
		if r.Chance(3, 4) {
			s.Refs = append(s.Refs, xwRef{Kind: o.Kind, Name: o.Name})
			// the foreign object exists but the informer cache of this reconcile has not seen it: the
			// cached Get of ObserveComposedResources / AssociateTemplates / Apply answers NotFound
			if r.Chance(1, 2) && len(s.Rounds) > 0 {
				k := 0
				if r.Chance(1, 3) {
					k = r.Intn(len(s.Rounds))
				}
				s.Rounds[k].MissSel = nil
				s.Rounds[k].Miss = append(s.Rounds[k].Miss, xwRef{Kind: o.Kind, Name: o.Name})
			}
		}
	}
	for i := range s.Rounds {
		// (selectors are resolved against random names by C01's own driver only)
		s.Rounds[i].MissSel = nil
	}
	return s
}

func c02RunXW(s *xwScn) (c01Obs, []Mon) {
	w := xwNewWorld(*s)
	obs := c01Obs{}
	want := c02ForeignBytes(w)
	var mons []Mon
	seen := map[string]bool{}
	check := func() {
		got := c02ForeignBytes(w)
		for k, v := range want {
			if got[k] != v && !seen[k] {
				seen[k] = true
				what := "modified"
				if _, ok := got[k]; !ok {
					what = "deleted"
				}
				mons = append(mons, Mon{Sig: "C02:composer-foreign-" + what, Why: "object " + k + " controlled by another owner was " + what})
			}
		}
	}
	for i := range s.Rounds {
		o := w.xwRunRound(s.Mode, &s.Rounds[i], check)
		// no applied write may be addressed to a foreign object
		for _, c := range o.Calls {
			f := strings.Fields(c)
			if f[0] == "get" || strings.HasPrefix(f[1], "XThing/") {
				continue
			}
			// answered without an error, or the process died after the API server took the call (a
			// Create addressed to an object that exists is answered AlreadyExists: never applied)
			applied := strings.Contains(c, " ok>") && !strings.HasSuffix(c, ">notFound") && !strings.HasSuffix(c, ">invalid") &&
				!strings.HasSuffix(c, ">alreadyExists") && !strings.HasSuffix(c, ">conflict") ||
				strings.Contains(c, " crashAfter>") && f[0] != "create"
			for k := range want {
				parts := strings.SplitN(k, "/", 3) // Kind.group / ns / name
				pgk := schema.ParseGroupKind(parts[0])
				kind := xwModelKind(pgk.Group, pgk.Kind)
				if applied && f[1] == kind+"/"+parts[2] && (f[0] == "delete" || f[0] == "update" || f[0] == "create") {
					mons = append(mons, Mon{Sig: "C02:composer-write-to-foreign", Why: c})
				}
			}
		}
		obs.Rounds = append(obs.Rounds, o)
	}
	check()
	return obs, mons
}

func c02GenSecret(r *Rng) c09Scn {
	s := c09Gen(r)
	for s.Op == "extract" {
		s = c09Gen(r)
	}
	s.Wants, s.FromWants = true, true
	// a foreign destination
	s.Dest = c09Secret{Present: true, Conn: r.Bool(), Ctrl: Pick(r, []string{"other", "xr", "none"}), Data: []c09KV{{K: "keep", V: "me"}}}
	if s.Dest.Ctrl == "none" {
		s.Dest.Conn = false
	}
	if s.Op == "propagate" && r.Chance(3, 4) {
		s.Src.Present, s.Src.Ctrl = true, "xr"
	}
	return s
}

func init() {
	Register("C02", func(c *Ctx) {
		for _, raw := range c.Corpus {
			var w struct {
				Site string          `json:"site"`
				Scn  json.RawMessage `json:"scn"`
			}
			if json.Unmarshal(raw, &w) != nil {
				continue
			}
			switch w.Site {
			case "C01":
				var s xwScn
				if json.Unmarshal(w.Scn, &s) == nil {
					obs, mons := c02RunXW(&s)
					c.Emit(c02Scn{"C01", s}, obs, mons, "corpus")
				}
			case "C09":
				var s c09Scn
				if json.Unmarshal(w.Scn, &s) == nil {
					obs, mons := c09Run(s)
					c.Emit(c02Scn{"C09", s}, obs, c02Remap(mons), "corpus")
				}
			case "crd":
				var s c02CrdScn
				if json.Unmarshal(w.Scn, &s) == nil {
					obs, mons := c02CrdRun(s)
					c.Emit(c02Scn{"crd", s}, obs, c02Remap(mons), "corpus")
				}
			case "unpub":
				var s c02UnpubScn
				if json.Unmarshal(w.Scn, &s) == nil {
					obs, mons := c02UnpubRun(s)
					c.Emit(c02Scn{"unpub", s}, obs, mons, "corpus")
				}
			case "two":
				var s c02TwoScn
				if json.Unmarshal(w.Scn, &s) == nil && len(s.XRs) == 2 {
					obs, mons := c02TwoRun(s)
					c.Emit(c02Scn{"two", s}, obs, mons, "corpus")
				}
			case "xwE":
				var s c02XwEScn
				if json.Unmarshal(w.Scn, &s) == nil {
					obs, mons, _ := c02RunXwE(&s)
					c.Emit(c02Scn{"xwE", s}, obs, mons, "corpus")
				}
			}
		}
		for i := 0; i < c.N; i++ {
			switch i % 8 {
			case 3:
				// package manager: Apply(revision, MustBeControllableBy(package)); history GC never deletes a foreign revision
				ps := c14Gen(c.Rng, c.Tier)
				po, pm, k := c14Run(&ps)
				c.Emit(c02Scn{"C14", ps}, po, c02Remap(pm), "pkgmanager/"+k)
			case 4:
				// establisher: objects controlled by another package / owner are never taken over
				es, k := c16Gen(c.Rng)
				eo, em := c16Run(&es)
				c.Emit(c02Scn{"C16", es}, eo, c02Remap(em), "establisher/"+k)
			case 5:
				// RBAC manager: roles and bindings controlled by someone else
				var rs c18Scn
				if c.Rng.Bool() {
					rs = c18GenReconcile(c.Rng)
				} else if c.Rng.Bool() {
					rs = c18GenXRD(c.Rng)
				} else {
					rs = c18GenBinding(c.Rng)
				}
				c18Normalize(&rs)
				ro, rm := c18Run(rs)
				c.Emit(c02Scn{"C18", rs}, ro, c02Remap(rm), "rbac/"+c18Cls(rs, ro))
			case 6:
				// claim -> XR binding: an XR bound to another claim is never written or deleted
				cs := c06Gen(c.Rng, c.Tier)
				co, cm := c06Run(&cs)
				c.Emit(c02Scn{"C06", cs}, co, c02Remap(cm), "claim/"+c06Cls(&cs, co))
			case 7:
				// an XRD defining its CRDs: definition / offered reconcilers, Apply(crd, MustBeControllableBy(xrd))
				ds := c02CrdGen(c.Rng)
				do, dm := c02CrdRun(ds)
				c.Emit(c02Scn{"crd", ds}, do, c02Remap(dm), "crd/"+c02CrdCls(ds, do))
			case 1:
				// a third party takes a composed resource over between two calls of one reconcile
				as := c02XwEGen(c.Rng)
				aobs, amons, acls := c02RunXwE(&as)
				c.Emit(c02Scn{"xwE", as}, aobs, amons, fmt.Sprintf("adopt/%s/%s", as.Xw.Mode, acls))
			case 0:
				if (i/8)%3 == 1 {
					// two XRs, explicit composed-resource names: the server-side-apply guard
					ts := c02TwoGen(c.Rng)
					tobs, tmons := c02TwoRun(ts)
					c.Emit(c02Scn{"two", ts}, tobs, tmons, "twoxr/"+c02TwoCls(ts, tobs))
					continue
				}
				s := c02GenXW(c.Rng)
				obs, mons := c02RunXW(&s)
				nf := 0
				for _, o := range s.Objs {
					if o.Ctrl == "other" {
						nf++
					}
				}
				c.Emit(c02Scn{"C01", s}, obs, mons, fmt.Sprintf("composer/%s/foreign=%d/refs=%d", s.Mode, nf, len(s.Refs)))
			case 2:
				if (i/8)%3 == 1 {
					// the claim's connection secret on the delete path of the claim reconciler
					us := c02UnpubGen(c.Rng)
					uobs, umons := c02UnpubRun(us)
					c.Emit(c02Scn{"unpub", us}, uobs, umons, c02UnpubCls(us))
					continue
				}
				s := c02GenSecret(c.Rng)
				obs, mons := c09Run(s)
				c.Emit(c02Scn{"C09", s}, obs, c02Remap(mons), fmt.Sprintf("secret/%s/dest=%s:%v", s.Op, s.Dest.Ctrl, s.Dest.Conn))
			}
		}
	})
}

// c02Remap keeps the foreign-object monitors of another site's driver under a C02 signature.
func c02Remap(mons []Mon) []Mon {
	var out []Mon
	for _, m := range mons {
		switch m.Sig {
		case "C09:wrote-foreign-secret":
			out = append(out, Mon{Sig: "C02:secret-foreign-written", Why: m.Why})
		case "C14:gc-foreign", "C14:created-non-current":
			out = append(out, Mon{Sig: "C02:pkgmanager-" + m.Sig[4:], Why: m.Why})
		case "C16:established-despite-blocked", "C16:partial-establish", "C16:two-controllers":
			out = append(out, Mon{Sig: "C02:establisher-" + m.Sig[4:], Why: m.Why})
		case "C18:foreign-role-touched", "C18:foreign-binding-touched", "C18:role-wrong-owner":
			out = append(out, Mon{Sig: "C02:rbac-" + m.Sig[4:], Why: m.Why})
		case "C06:hijack":
			out = append(out, Mon{Sig: "C02:claim-hijack", Why: m.Why})
		case "C02:crd-foreign-modified", "C02:crd-foreign-deleted", "C02:crd-foreign-adopted", "C02:crd-write-to-foreign", "C02:crd-conflict-not-surfaced", "C02:crd-deleted-after-taken-over-since-read", "C02:panic":
			out = append(out, m)
		case "C09:panic", "C14:panic", "C16:panic", "C18:panic", "C06:panic":
			out = append(out, Mon{Sig: "C02:panic", Why: m.Why})
		}
	}
	return out
}

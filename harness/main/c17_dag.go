//go:build verif

package main

// C17, DAG scenarios: real dag.MapDag / dag.MapUpgradingDag on lock contents.

import (
	"fmt"
	"sort"
	"strings"

	"github.com/Masterminds/semver"
	"k8s.io/utils/ptr"

	"github.com/crossplane/crossplane/apis/pkg/v1beta1"
	"github.com/crossplane/crossplane/internal/dag"
)

type c17DagScn struct {
	Kind  string   `json:"kind"` // "dag"
	Upg   bool     `json:"upg"`
	Pkgs  []c17Pkg `json:"pkgs"`
	Roots []string `json:"roots"`
	Order []string `json:"order"` // map iteration order to replay in the model: Go's own Sort result when it succeeded
	// Warm: the lock contents the SAME DAG object was initialised with before (Resolve re-runs Init
	// on its DAG after RemoveSelf); the model is per call and never sees it.
	Warm   []c17Pkg  `json:"warm,omitempty"`
	Oracle c17Oracle `json:"oracle"`
}

type c17NodeObs struct {
	ID      string   `json:"id"`
	IsPkg   bool     `json:"isPkg"`
	Con     string   `json:"con"`
	Parents []string `json:"parents"`
}

type c17TraceObs struct {
	Root string   `json:"root"`
	Err  string   `json:"err"`
	IDs  []string `json:"ids"`
}

type c17DagObs struct {
	InitErr string        `json:"initErr"`
	Implied []c17Dep      `json:"implied"`
	Nodes   []c17NodeObs  `json:"nodes"`
	SortErr string        `json:"sortErr"`
	Sorted  []string      `json:"sorted"`
	Trace   []c17TraceObs `json:"trace"`
}

func c17LockPackages(pkgs []c17Pkg) []v1beta1.LockPackage {
	out := make([]v1beta1.LockPackage, len(pkgs))
	for i, p := range pkgs {
		lp := v1beta1.LockPackage{Name: p.Name, Source: p.Source, Version: p.Version}
		if p.Typed {
			lp.Type = ptr.To(v1beta1.ProviderPackageType)
		}
		for _, d := range p.Deps {
			lp.Dependencies = append(lp.Dependencies, v1beta1.Dependency{Package: d.Pkg, Constraints: d.Con, Type: ptr.To(v1beta1.ProviderPackageType)})
		}
		out[i] = lp
	}
	return out
}

func c17DagStrings(pkgs []c17Pkg) []string {
	var s []string
	for _, p := range pkgs {
		s = append(s, p.Version)
		for _, d := range p.Deps {
			s = append(s, d.Con)
		}
	}
	return s
}

func c17NewDag(upg bool) dag.DAG {
	if upg {
		return dag.NewUpgradingMapDag()
	}
	return dag.NewMapDag()
}

func c17DagErrKind(err error) string {
	switch t := c17ErrText(err); {
	case t == "":
		return ""
	case strings.Contains(t, "already exists"):
		return "exists"
	case strings.Contains(t, "detected cycle"):
		return "cycle"
	case strings.Contains(t, "missing node in tree"):
		return "missing"
	case strings.Contains(t, "does not exist"):
		return "missing"
	default:
		return "other:" + t
	}
}

// independent reachability over the scenario's edges (for the direct monitors only)
func c17Edges(pkgs []c17Pkg) map[string][]string {
	e := map[string][]string{}
	seen := map[string]bool{}
	for _, p := range pkgs {
		if seen[p.Source] {
			continue // duplicates make Init fail; irrelevant
		}
		seen[p.Source] = true
		for _, d := range p.Deps {
			e[p.Source] = append(e[p.Source], d.Pkg)
		}
	}
	return e
}

func c17Reach(e map[string][]string, from string) map[string]bool {
	out := map[string]bool{}
	var q []string
	q = append(q, e[from]...)
	for len(q) > 0 {
		x := q[0]
		q = q[1:]
		if out[x] {
			continue
		}
		out[x] = true
		q = append(q, e[x]...)
	}
	return out
}

func c17HasCycle(e map[string][]string) bool {
	for n := range e {
		if c17Reach(e, n)[n] {
			return true
		}
	}
	return false
}

func c17DagRun(s *c17DagScn) (c17DagObs, []Mon, string) {
	obs := c17DagObs{Implied: []c17Dep{}, Nodes: []c17NodeObs{}, Sorted: []string{}, Trace: []c17TraceObs{}}
	var mons []Mon
	lps := c17LockPackages(s.Pkgs)
	d := c17NewDag(s.Upg)
	var implied []dag.Node
	var err error
	if len(s.Warm) > 0 {
		wl := c17LockPackages(s.Warm)
		_ = Guard(func() { _, _ = d.Init(v1beta1.ToNodes(wl...)); _, _ = d.Sort() })
	}
	if p := Guard(func() { implied, err = d.Init(v1beta1.ToNodes(lps...)) }); p != "" {
		obs.InitErr = "panic"
		return obs, append(mons, Mon{Sig: "C17:dag-panic", Why: p}), "init-panic"
	}
	obs.InitErr = c17DagErrKind(err)
	if err != nil {
		s.Order = nil
		return obs, mons, "initErr=" + obs.InitErr
	}
	for _, n := range implied {
		obs.Implied = append(obs.Implied, c17Dep{Pkg: n.Identifier(), Con: n.GetConstraints()})
	}
	// all identifiers of the scenario
	idset := map[string]bool{}
	inLock := map[string]bool{}
	for _, p := range s.Pkgs {
		idset[p.Source] = true
		inLock[p.Source] = true
		for _, dp := range p.Deps {
			idset[dp.Pkg] = true
		}
	}
	var ids []string
	for id := range idset {
		ids = append(ids, id)
	}
	sort.Strings(ids)
	for _, id := range ids {
		n, err := d.GetNode(id)
		if err != nil {
			mons = append(mons, Mon{Sig: "C17:dag-node-lost", Why: "node " + id + " not in the DAG after Init"})
			continue
		}
		_, isPkg := n.(*v1beta1.LockPackage)
		pc := n.GetParentConstraints()
		if pc == nil {
			pc = []string{}
		}
		obs.Nodes = append(obs.Nodes, c17NodeObs{ID: id, IsPkg: isPkg, Con: n.GetConstraints(), Parents: pc})
	}

	edges := c17Edges(s.Pkgs)
	cyclic := c17HasCycle(edges)

	// monitor: implied = dependencies absent from the lock (MapDag: each exactly once)
	if !s.Upg {
		want := map[string]bool{}
		for _, p := range s.Pkgs {
			for _, dp := range p.Deps {
				if !inLock[dp.Pkg] {
					want[dp.Pkg] = true
				}
			}
		}
		got := map[string]int{}
		for _, n := range implied {
			got[n.Identifier()]++
		}
		for id := range want {
			if got[id] != 1 {
				mons = append(mons, Mon{Sig: "C17:implied-mismatch", Why: fmt.Sprintf("dependency %q absent from the lock implied %d times", id, got[id])})
			}
		}
		for id := range got {
			if !want[id] {
				mons = append(mons, Mon{Sig: "C17:implied-mismatch", Why: fmt.Sprintf("%q implied although present in the lock or not a dependency", id)})
			}
		}
	}

	// monitor (upgrading DAG): a lock package whose version does not satisfy an incoming
	// constraint is returned for an upgrade check
	if s.Upg {
		got := map[string]bool{}
		for _, n := range implied {
			got[n.Identifier()] = true
		}
		ver := map[string]string{}
		for _, p := range s.Pkgs {
			ver[p.Source] = p.Version
		}
		for _, p := range s.Pkgs {
			for _, dp := range p.Deps {
				v, present := ver[dp.Pkg]
				if !present || v == dp.Con {
					continue
				}
				con, cerr := semver.NewConstraint(dp.Con)
				sv, verr := semver.NewVersion(v)
				if (cerr != nil || verr != nil || !con.Check(sv)) && !got[dp.Pkg] {
					mons = append(mons, Mon{Sig: "C17:upg-violated-constraint-not-implied", Why: fmt.Sprintf("%s@%s violates %q of %s but is not returned by Init", dp.Pkg, v, dp.Con, p.Source)})
				}
			}
		}
	}

	// Sort
	var sorted []string
	if p := Guard(func() { sorted, err = d.Sort() }); p != "" {
		obs.SortErr = "panic"
		mons = append(mons, Mon{Sig: "C17:dag-panic", Why: p})
	} else {
		obs.SortErr = c17DagErrKind(err)
	}
	s.Order = nil
	if obs.SortErr == "" {
		obs.Sorted = append([]string{}, sorted...)
		s.Order = append([]string{}, sorted...)
		if cyclic {
			mons = append(mons, Mon{Sig: "C17:cycle-undetected", Why: "Sort succeeded on a graph with a cycle"})
		}
		pos := map[string]int{}
		for i, x := range sorted {
			if _, dup := pos[x]; dup {
				mons = append(mons, Mon{Sig: "C17:sort-not-topological", Why: "node " + x + " listed twice"})
			}
			pos[x] = i
		}
		// Props sort_any_identifier: one entry per node; the nodes with a non-empty identifier are
		// listed dependencies-first; the empty identifier, if it is a node, never occupies a slot
		// of the results slice and is therefore what the last (unused) slot holds
		_, hasEmpty := idset[""]
		for _, id := range ids {
			if _, ok := pos[id]; !ok {
				mons = append(mons, Mon{Sig: "C17:sort-not-topological", Why: "node " + id + " not in the order"})
			}
		}
		for u, vs := range edges {
			for _, v := range vs {
				if u == "" || v == "" {
					continue
				}
				if pos[v] >= pos[u] {
					mons = append(mons, Mon{Sig: "C17:sort-not-topological", Why: fmt.Sprintf("%s depends on %s but is not after it", u, v)})
				}
			}
		}
		if hasEmpty && len(sorted) > 0 && sorted[len(sorted)-1] != "" {
			mons = append(mons, Mon{Sig: "C17:sort-not-topological", Why: "the empty identifier is a node but the last slot holds " + sorted[len(sorted)-1]})
		}
		if len(sorted) != len(ids) {
			mons = append(mons, Mon{Sig: "C17:sort-not-topological", Why: fmt.Sprintf("%d nodes, %d entries", len(ids), len(sorted))})
		}
	} else if obs.SortErr == "cycle" {
		if !cyclic {
			mons = append(mons, Mon{Sig: "C17:false-cycle", Why: "Sort reported a cycle on an acyclic graph: " + err.Error()})
		} else {
			on := strings.TrimPrefix(err.Error(), "detected cycle on: ")
			if !c17Reach(edges, on)[on] {
				mons = append(mons, Mon{Sig: "C17:false-cycle", Why: "reported node " + on + " is not on a cycle"})
			}
		}
	} else {
		mons = append(mons, Mon{Sig: "C17:sort-unexpected-error", Why: obs.SortErr})
	}

	// TraceNode
	for _, root := range s.Roots {
		t := c17TraceObs{Root: root, IDs: []string{}}
		var tree map[string]dag.Node
		if p := Guard(func() { tree, err = d.TraceNode(root) }); p != "" {
			t.Err = "panic"
			mons = append(mons, Mon{Sig: "C17:dag-panic", Why: p})
		} else {
			t.Err = c17DagErrKind(err)
		}
		for id := range tree {
			t.IDs = append(t.IDs, id)
		}
		sort.Strings(t.IDs)
		obs.Trace = append(obs.Trace, t)
		if idset[root] {
			want := c17Reach(edges, root)
			if t.Err != "" {
				mons = append(mons, Mon{Sig: "C17:trace-not-closure", Why: "TraceNode failed on existing node " + root + ": " + t.Err})
			} else {
				for id := range want {
					if _, ok := tree[id]; !ok {
						mons = append(mons, Mon{Sig: "C17:trace-not-closure", Why: root + " reaches " + id + " but TraceNode omits it"})
					}
				}
				for id := range tree {
					if !want[id] {
						mons = append(mons, Mon{Sig: "C17:trace-not-closure", Why: "TraceNode(" + root + ") contains unreachable " + id})
					}
				}
			}
		}
	}
	cls := fmt.Sprintf("n=%d/implied=%d/%s", len(s.Pkgs), len(obs.Implied), map[bool]string{true: "cyclic", false: "acyclic"}[cyclic])
	return obs, mons, cls
}

func c17DagEmit(c *Ctx, s c17DagScn, prefix string) {
	s.Kind = "dag"
	if s.Pkgs == nil {
		s.Pkgs = []c17Pkg{}
	}
	for i := range s.Pkgs {
		if s.Pkgs[i].Deps == nil {
			s.Pkgs[i].Deps = []c17Dep{}
		}
	}
	if s.Roots == nil {
		s.Roots = []string{}
	}
	s.Oracle = c17MkOracle(c17DagStrings(s.Pkgs))
	obs, mons, cls := c17DagRun(&s)
	kind := "mapdag"
	if s.Upg {
		kind = "upgdag"
	}
	c.Emit(s, obs, mons, prefix+"/"+kind+"/"+cls)
}

var c17Repos = []string{"xpkg.io/o/a", "xpkg.io/o/b", "xpkg.io/o/c", "xpkg.io/o/d", "xpkg.io/o/e", "xpkg.io/o/f", "xpkg.io/o/g", "xpkg.io/o/h"}

// identifiers that differ in one identity dimension only: a string prefix of another, a trailing
// separator, case, the registry, no registry, '-' versus '.', a tag
var c17NearRepos = []string{"xpkg.io/o/a", "xpkg.io/o/ab", "xpkg.io/o/a/", "xpkg.io/O/a", "index.docker.io/o/a", "o/a", "xpkg.io/o/a-b", "xpkg.io/o/a.b"}

func c17DagRandom(c *Ctx) {
	r := c.Rng
	s := c17DagScn{Upg: r.Bool()}
	k := r.Range(1, 8) // universe of package identifiers
	m := r.Range(1, k) // of which in the lock
	perm := r.Perm(k)
	density := r.Range(1, 4)
	c17Repos := c17Repos
	if r.Chance(1, 4) {
		c17Repos = c17NearRepos
	}
	for i := 0; i < m; i++ {
		p := c17Pkg{Name: fmt.Sprintf("p%d", perm[i]), Source: c17Repos[perm[i]], Version: c17GenVersion(r), Typed: r.Chance(1, 8)}
		if r.Chance(1, 12) {
			p.Version = Pick(r, []string{c17DigestA, "latest", ""})
		}
		for j := 0; j < k; j++ {
			if r.Chance(density, 10) {
				p.Deps = append(p.Deps, c17Dep{Pkg: c17Repos[j], Con: c17GenConstraint(r)})
			}
		}
		// the same dependency listed twice, possibly with another constraint
		if len(p.Deps) > 0 && r.Chance(1, 10) {
			d := Pick(r, p.Deps)
			if r.Bool() {
				d.Con = c17GenConstraint(r)
			}
			p.Deps = append(p.Deps, d)
		}
		// shuffle the dependency order
		q := r.Perm(len(p.Deps))
		deps := make([]c17Dep, len(p.Deps))
		for a, b := range q {
			deps[a] = p.Deps[b]
		}
		p.Deps = deps
		s.Pkgs = append(s.Pkgs, p)
	}
	// malformed stream
	switch r.Intn(30) {
	case 0: // duplicate source in the lock
		dup := s.Pkgs[r.Intn(len(s.Pkgs))]
		dup.Name += "x"
		s.Pkgs = append(s.Pkgs, dup)
	case 1: // empty identifier
		s.Pkgs[r.Intn(len(s.Pkgs))].Source = ""
	case 2: // dependency on the empty identifier
		i := r.Intn(len(s.Pkgs))
		s.Pkgs[i].Deps = append(s.Pkgs[i].Deps, c17Dep{Pkg: "", Con: "*"})
	}
	if r.Chance(1, 4) { // the DAG object has been used before
		for i, n := 0, r.Range(1, 3); i < n; i++ {
			w := c17Pkg{Name: fmt.Sprintf("w%d", i), Source: c17Repos[r.Intn(len(c17Repos))], Version: c17GenVersion(r)}
			for j := 0; j < 2; j++ {
				if r.Bool() {
					w.Deps = append(w.Deps, c17Dep{Pkg: c17Repos[r.Intn(len(c17Repos))], Con: c17GenConstraint(r)})
				}
			}
			s.Warm = append(s.Warm, w)
		}
	}
	nroots := r.Intn(4)
	for i := 0; i < nroots; i++ {
		if r.Chance(1, 10) {
			s.Roots = append(s.Roots, "xpkg.io/o/nowhere")
		} else {
			s.Roots = append(s.Roots, c17Repos[r.Intn(k)])
		}
	}
	c17DagEmit(c, s, "rnd")
}

// every digraph (self loops included) on k <= 4 packages that are all in the lock, and for
// k <= 3 additionally every choice of packages absent from the lock (their out-edges vanish),
// for both DAG implementations; every node traced.
func c17DagExhaustive(c *Ctx) {
	for k := 1; k <= 4; k++ {
		maxAbsent := 1
		if k <= 3 {
			maxAbsent = 1 << k
		}
		for absent := 0; absent < maxAbsent; absent++ {
			seen := map[string]bool{}
			for g := 0; g < 1<<(k*k); g++ {
				var pkgs []c17Pkg
				for i := 0; i < k; i++ {
					if absent&(1<<i) != 0 {
						continue
					}
					p := c17Pkg{Name: fmt.Sprintf("p%d", i), Source: c17Repos[i], Version: "1.0.0"}
					for j := 0; j < k; j++ {
						if g&(1<<(i*k+j)) != 0 {
							p.Deps = append(p.Deps, c17Dep{Pkg: c17Repos[j], Con: ">=1.0.0"})
						}
					}
					pkgs = append(pkgs, p)
				}
				if len(pkgs) == 0 {
					continue
				}
				key := mustJSON(pkgs)
				if seen[key] {
					continue
				}
				seen[key] = true
				for _, upg := range []bool{false, true} {
					c17DagEmit(c, c17DagScn{Upg: upg, Pkgs: pkgs, Roots: c17Repos[:k]}, fmt.Sprintf("exh/k=%d/absent=%d", k, c17AbsentCount(absent)))
				}
			}
		}
	}
}

func c17AbsentCount(m int) int {
	n := 0
	for ; m != 0; m &= m - 1 {
		n++
	}
	return n
}

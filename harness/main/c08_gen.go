//go:build verif

package main

// C08 generators: initial worlds (claims/XRs, XRD teardown, package revisions,
// Usages, mixed), adaptive random schedules, and the exhaustive small-scope
// enumeration of the thorough tier.

import (
	"fmt"
	"sort"
	"strings"

	"github.com/crossplane/crossplane/internal/controller/apiextensions/claim"
	"github.com/crossplane/crossplane/internal/controller/apiextensions/composite"
	"github.com/crossplane/crossplane/internal/controller/apiextensions/definition"
	"github.com/crossplane/crossplane/internal/controller/apiextensions/offered"
	usagectrl "github.com/crossplane/crossplane/internal/controller/apiextensions/usage"
	"github.com/crossplane/crossplane/internal/controller/pkg/revision"

	v1 "github.com/crossplane/crossplane/apis/apiextensions/v1"
)

type c08Builder struct {
	r    *Rng
	objs []c08Obj
}

func (b *c08Builder) add(o c08Obj) int {
	if o.Fins == nil {
		o.Fins = []string{}
	}
	if o.Owners == nil {
		o.Owners = []c08Owner{}
	}
	if o.Pkgs == nil {
		o.Pkgs = []string{}
	}
	if o.Del && len(o.Fins) == 0 {
		o.Del = false // a terminating object without finalizers does not exist
	}
	b.objs = append(b.objs, o)
	return len(b.objs) - 1
}

func (b *c08Builder) fins(own string, pOwn, pHold int) []string {
	f := []string{}
	if b.r.Chance(pOwn, 100) {
		f = append(f, own)
	}
	if b.r.Chance(pHold, 100) {
		if b.r.Bool() {
			f = append(f, c08Hold)
		} else {
			f = append([]string{c08Hold}, f...)
		}
	}
	return f
}

func (b *c08Builder) claimsAndXRs(n int, pDel int) {
	r := b.r
	for i := 1; i <= n; i++ {
		cn := fmt.Sprintf("ns/c%d", i)
		xn := fmt.Sprintf("x%d", i)
		ref := xn
		switch {
		case r.Chance(12, 100):
			ref = ""
		case r.Chance(12, 100):
			ref = "xgone"
		}
		b.add(c08Obj{Kind: "claim", Name: cn, Fins: b.fins(claim.VerifC08Finalizer, 88, 18), Del: r.Chance(pDel, 100),
			Flag: r.Bool(), Paused: r.Chance(4, 100), Ref: ref})
		if ref == xn || r.Chance(50, 100) {
			cref := cn
			switch {
			case r.Chance(8, 100):
				cref = ""
			case r.Chance(8, 100):
				cref = "ns/other"
			}
			xi := b.add(c08Obj{Kind: "xr", Name: xn, Fins: b.fins(composite.VerifC08Finalizer, 88, 15), Del: r.Chance(20, 100),
				Paused: r.Chance(3, 100), Ref: cref})
			for j, m := 0, r.Intn(3); j < m; j++ {
				b.add(c08Obj{Kind: "res", Name: fmt.Sprintf("%s-r%d", xn, j), Fins: b.fins(c08Hold, 30, 0), Del: r.Chance(10, 100),
					Owners: []c08Owner{{Idx: xi, Ctrl: true, Block: r.Chance(80, 100)}}})
			}
		}
	}
}

func (b *c08Builder) xrd(pDel int) {
	r := b.r
	f := []string{}
	if r.Chance(90, 100) {
		f = append(f, definition.VerifC08Finalizer)
	}
	if r.Chance(90, 100) {
		f = append(f, offered.VerifC08Finalizer)
	}
	if r.Chance(10, 100) {
		f = append(f, c08Hold)
	}
	xi := b.add(c08Obj{Kind: "xrd", Name: c08XRDName, Fins: f, Del: r.Chance(pDel, 100), Ref: c08XRCRD, Of: c08ClaimCRD})
	for _, n := range []string{c08XRCRD, c08ClaimCRD} {
		if !r.Chance(82, 100) {
			continue
		}
		ow := []c08Owner{}
		switch {
		case r.Chance(75, 100):
			ow = append(ow, c08Owner{Idx: xi, Ctrl: true, Block: true})
		case r.Chance(50, 100):
			ow = append(ow, c08Owner{Idx: -1, Ctrl: true, Block: true})
		case r.Chance(50, 100):
			ow = append(ow, c08Owner{Idx: xi, Ctrl: false})
		}
		b.add(c08Obj{Kind: "crd", Name: n, Fins: b.fins(c08Hold, 8, 0), Del: r.Chance(4, 100), Owners: ow})
	}
}

func (b *c08Builder) revs() {
	r := b.r
	n := r.Range(1, 2)
	for i := 1; i <= n; i++ {
		// desiredState and skipDependencyResolution are drawn independently of Lock
		// membership: a revision marked Inactive whose deactivation never completed, or one
		// that switched dependency resolution off after resolving, is still in the Lock.
		b.add(c08Obj{Kind: "rev", Name: fmt.Sprintf("p%d", i), Fins: b.fins(revision.VerifC08Finalizer, 90, 15), Del: r.Chance(80, 100), Paused: r.Chance(5, 100),
			Inactive: r.Chance(40, 100), SkipDeps: r.Chance(30, 100)})
	}
	if r.Chance(85, 100) {
		pk := []string{}
		for _, p := range []string{"p1", "p2", "p3"} {
			if r.Chance(65, 100) {
				pk = append(pk, p)
			}
		}
		b.add(c08Obj{Kind: "lock", Name: revision.VerifC08LockName, Fins: b.fins(c08Hold, 5, 0), Pkgs: pk})
	}
}

func (b *c08Builder) usages() {
	r := b.r
	by := "using1"
	if r.Chance(20, 100) {
		by = ""
	}
	b.add(c08Obj{Kind: "usage", Name: "u1", Fins: b.fins(usagectrl.VerifC08Finalizer, 90, 12), Del: r.Chance(80, 100),
		Flag: r.Chance(75, 100), Ref: by, Of: "used1"})
	if r.Chance(35, 100) {
		b.add(c08Obj{Kind: "usage", Name: "u2", Fins: b.fins(usagectrl.VerifC08Finalizer, 90, 5), Del: r.Chance(40, 100),
			Flag: r.Bool(), Ref: "", Of: "used1"})
	}
	if r.Chance(78, 100) {
		b.add(c08Obj{Kind: "res", Name: "used1", Fins: b.fins(c08Hold, 15, 0), Del: r.Chance(10, 100), Inuse: r.Chance(75, 100)})
	}
	if by != "" && r.Chance(65, 100) {
		b.add(c08Obj{Kind: "res", Name: by, Fins: b.fins(c08Hold, 40, 0), Del: r.Chance(30, 100)})
	}
}

func (b *c08Builder) running() []string {
	out := []string{}
	for _, n := range c08CtrlNames() {
		if b.r.Chance(80, 100) {
			out = append(out, n)
		}
	}
	return out
}

func c08GenWorld(r *Rng) (c08Scn, string) {
	b := &c08Builder{r: r}
	fam := ""
	switch x := r.Intn(100); {
	case x < 30:
		fam = "claims"
		b.claimsAndXRs(r.Range(1, 2), 80)
	case x < 62:
		fam = "xrd"
		b.xrd(80)
		b.claimsAndXRs(r.Intn(3), 25)
	case x < 74:
		fam = "rev"
		b.revs()
	case x < 86:
		fam = "usage"
		b.usages()
	default:
		fam = "mixed"
		b.xrd(60)
		b.claimsAndXRs(r.Range(1, 2), 50)
		b.revs()
		b.usages()
	}
	return c08Scn{Objs: b.objs, Running: b.running(), Steps: []c08Step{}}, fam
}

var c08Ctls = map[string][]string{"claim": {"claim"}, "xr": {"xr"}, "xrd": {"defined", "offered"}, "rev": {"rev"}, "usage": {"usage"}}

type c08Live struct {
	ctl, name string
}

// c08RandomSchedule returns an adaptive step chooser: it only starts reconciles of
// objects that are being deleted (or are gone), one at a time per (controller, key).
func c08RandomSchedule(r *Rng, n int, liveClaims bool) func(w *c08World, i int) (c08Step, bool) {
	live := map[int]c08Live{}
	return func(w *c08World, i int) (c08Step, bool) {
		if i >= n {
			return c08Step{}, false
		}
		s := w.snap()
		busy := map[c08Live]bool{}
		var liveIDs []int
		for id, t := range w.threads {
			if !t.fin {
				busy[live[id]] = true
				liveIDs = append(liveIDs, id)
			}
		}
		keys := make([]string, 0, len(s.objs))
		for k := range s.objs {
			keys = append(keys, k)
		}
		sort.Strings(keys)
		var spawns []c08Live
		var dels, unfins []c08View
		for _, k := range keys {
			v := s.objs[k]
			if v.Del {
				for _, c := range c08Ctls[v.Kind] {
					if !busy[c08Live{c, v.Name}] {
						spawns = append(spawns, c08Live{c, v.Name})
					}
				}
			} else if v.Kind != "crd" && v.Kind != "lock" {
				dels = append(dels, v)
			}
			if v.hasFin(c08Hold) {
				unfins = append(unfins, v)
			}
		}
		if liveClaims {
			// Known finding C08:instance-recreated-during-xrd-teardown: while the XRD is being
			// torn down, a reconcile of a claim that is NOT being deleted may re-create its XR.
			// That path (bind/sync) is outside the model: such scenarios are skipped by the
			// model and judged by the monitors only.
			xrdDeleting := false
			for _, v := range s.ofKind("xrd") {
				xrdDeleting = xrdDeleting || v.Del
			}
			if xrdDeleting {
				for _, k := range keys {
					v := s.objs[k]
					if v.Kind == "claim" && !v.Del && v.Ref != "" && !busy[c08Live{"claim", v.Name}] {
						if _, ok := s.objs["xr/"+v.Ref]; !ok {
							// weight: as likely as the other reconciles together, so that the window is hit
							for j, m := 0, len(spawns); j <= m; j++ {
								spawns = append(spawns, c08Live{"claim", v.Name})
							}
							break
						}
					}
				}
			}
		}
		if r.Chance(4, 100) {
			// a reconcile of an object that no longer exists
			c := Pick(r, []c08Live{{"claim", "ns/c1"}, {"xr", "x1"}, {"defined", c08XRDName}, {"offered", c08XRDName}, {"rev", "p1"}, {"usage", "u1"}})
			if _, ok := s.objs[map[string]string{"claim": "claim", "xr": "xr", "defined": "xrd", "offered": "xrd", "rev": "rev", "usage": "usage"}[c.ctl]+"/"+c.name]; !ok && !busy[c] {
				spawns = append(spawns, c)
			}
		}
		if len(liveIDs) == 0 && len(spawns) == 0 && len(dels) == 0 && len(unfins) == 0 && i > 0 {
			return c08Step{}, false
		}
		for tries := 0; tries < 20; tries++ {
			switch x := r.Intn(100); {
			case x < 55:
				if len(liveIDs) == 0 {
					continue
				}
				o := "ok"
				switch y := r.Intn(100); {
				case y < 8:
					o = "fail"
				case y < 13:
					o = "conflict"
				case y < 15:
					o = "crashBefore"
				case y < 18:
					o = "crashAfter"
				}
				return c08Step{Op: "step", T: Pick(r, liveIDs), O: o}, true
			case x < 77:
				if len(spawns) == 0 || len(liveIDs) >= 4 {
					continue
				}
				c := Pick(r, spawns)
				live[len(w.threads)] = c
				return c08Step{Op: "spawn", C: c.ctl, Name: c.name}, true
			case x < 85:
				if len(dels) == 0 {
					continue
				}
				v := Pick(r, dels)
				return c08Step{Op: "del", Kind: v.Kind, Name: v.Name}, true
			case x < 93:
				return c08Step{Op: "gc"}, true
			default:
				if len(unfins) == 0 {
					continue
				}
				v := Pick(r, unfins)
				return c08Step{Op: "unfin", Kind: v.Kind, Name: v.Name, Fin: c08Hold}, true
			}
		}
		return c08Step{Op: "gc"}, true
	}
}

// c08RaceWorld / c08RaceSchedule: the neighbourhood of the known finding
// C08:instance-recreated-during-xrd-teardown. The XRD is being deleted while a claim is
// still live; the schedule lets the definition reconcile get some way, possibly lets the
// XR controller finalize the XR, then runs a reconcile of the LIVE claim (real bind/sync
// path, outside the model) for a random number of calls before the definition reconcile
// continues. Whether the window is hit depends on the drawn counts.
func c08RaceWorld(r *Rng) c08Scn {
	b := &c08Builder{r: r}
	f := []string{definition.VerifC08Finalizer}
	if r.Bool() {
		f = append(f, offered.VerifC08Finalizer)
	}
	xi := b.add(c08Obj{Kind: "xrd", Name: c08XRDName, Fins: f, Del: true, Ref: c08XRCRD, Of: c08ClaimCRD})
	b.add(c08Obj{Kind: "crd", Name: c08XRCRD, Owners: []c08Owner{{Idx: xi, Ctrl: true, Block: true}}})
	if r.Bool() {
		b.add(c08Obj{Kind: "crd", Name: c08ClaimCRD, Owners: []c08Owner{{Idx: xi, Ctrl: true, Block: true}}})
	}
	b.add(c08Obj{Kind: "claim", Name: "ns/c1", Fins: []string{claim.VerifC08Finalizer}, Ref: "x1", Flag: r.Bool()})
	if r.Chance(2, 3) {
		b.add(c08Obj{Kind: "xr", Name: "x1", Fins: []string{composite.VerifC08Finalizer}, Del: r.Bool(), Ref: "ns/c1"})
	}
	return c08Scn{Objs: b.objs, Running: c08CtrlNames(), Steps: []c08Step{}}
}

func c08RaceSchedule(r *Rng) func(w *c08World, i int) (c08Step, bool) {
	var script []c08Step
	tid := 0
	run := func(ctl, name string, steps int) {
		script = append(script, c08Step{Op: "spawn", C: ctl, Name: name})
		for j := 0; j < steps; j++ {
			script = append(script, c08Step{Op: "step", T: tid, O: "ok"})
		}
		tid++
	}
	run("defined", c08XRDName, r.Range(0, 6))
	if r.Chance(3, 4) {
		run("xr", "x1", r.Range(1, 3))
	}
	d2 := tid
	run("defined", c08XRDName, r.Range(3, 6))
	if r.Chance(1, 4) {
		script = append(script, c08Step{Op: "gc"})
	}
	run("claim", "ns/c1", r.Range(0, 9))
	for j, m := 0, r.Range(0, 3); j < m; j++ {
		script = append(script, c08Step{Op: "step", T: d2, O: "ok"})
	}
	return func(w *c08World, i int) (c08Step, bool) {
		if i >= len(script) {
			return c08Step{}, false
		}
		return script[i], true
	}
}

// c08Class classifies a run by ONE of its features: its family, a teardown write or wait
// that happened ("did:"), an environment step that had an effect ("env:"), or a fault
// kind that was injected ("fault:"). A run in which no teardown write and no wait
// happened is trivial.
func c08Class(fam string, s c08Scn, o c08Obs) string {
	tags := map[string]bool{}
	env := map[string]bool{}
	for i, st := range o.Steps {
		sp := s.Steps[i]
		switch sp.Op {
		case "del":
			if len(st.Chg) > 0 {
				env["d:"+sp.Kind] = true
			}
		case "gc":
			if len(st.Chg) > 0 {
				env["g"] = true
			}
		case "unfin":
			if len(st.Chg) > 0 {
				env["u"] = true
			}
		}
		if sp.Op != "step" {
			continue
		}
		if st.Resp == "crashed" {
			env["c"] = true
		}
		if (sp.O == "fail" || sp.O == "conflict") && st.Call != "" {
			env["f"] = true
		}
		if st.Resp == "notFound" && strings.HasPrefix(st.Call, "get:") && st.Res == "ok" {
			env["x"] = true
		}
		if st.Resp == "conflict" && sp.O == "ok" {
			tags["staleconflict"] = true
		}
		switch {
		case strings.HasPrefix(st.Call, "stop:"):
			if st.Resp == "ok" && len(st.Chg) > 0 {
				tags["stop"] = true
			}
		case strings.HasPrefix(st.Call, "delete:crd") && st.Resp == "ok":
			tags["crddel"] = true
		case strings.HasPrefix(st.Call, "delete:xr") && st.Resp == "ok":
			if strings.HasSuffix(st.Call, ":fg") {
				tags["xrdel-fg"] = true
			} else {
				tags["xrdel"] = true
			}
		case strings.HasPrefix(st.Call, "delete:claim") && st.Resp == "ok":
			tags["claimdel"] = true
		case strings.HasPrefix(st.Call, "update:claim") && st.Resp == "ok" && !strings.HasSuffix(st.Call, ":status"):
			tags["claimfin"] = true
		case strings.HasPrefix(st.Call, "update:xr:") && st.Resp == "ok" && !strings.HasSuffix(st.Call, ":status"):
			tags["xrfin"] = true
		case strings.HasPrefix(st.Call, "update:xrd") && st.Resp == "ok" && !strings.HasSuffix(st.Call, ":status"):
			tags["xrdfin"] = true
		case strings.HasPrefix(st.Call, "update:rev") && st.Resp == "ok" && !strings.HasSuffix(st.Call, ":status"):
			tags["revfin"] = true
		case strings.HasPrefix(st.Call, "update:lock") && st.Resp == "ok":
			tags["lockrm"] = true
		case strings.HasPrefix(st.Call, "update:usage") && st.Resp == "ok":
			tags["usagefin"] = true
		case strings.HasPrefix(st.Call, "deleteAllOf:") && st.Resp == "ok":
			tags["deleteall"] = true
		}
		if st.Res == "requeue" {
			tags["wait"] = true
		}
	}
	// One feature of the run is reported as its class, chosen round-robin by the emission
	// counter, so that the (truncated) class histogram of the evidence shows every kind of
	// write, wait, environment step and fault that the runs contain.
	feats := []string{"family:" + fam}
	for _, m := range []map[string]bool{tags, env} {
		var ts []string
		for t := range m {
			ts = append(ts, t)
		}
		sort.Strings(ts)
		for _, t := range ts {
			switch {
			case strings.HasPrefix(t, "d:"):
				feats = append(feats, "env:user-delete-"+t[2:])
			case t == "g":
				feats = append(feats, "env:gc-step")
			case t == "u":
				feats = append(feats, "env:finalizer-removed-by-third-party")
			case t == "c":
				feats = append(feats, "fault:crash")
			case t == "f":
				feats = append(feats, "fault:error-or-conflict")
			case t == "x":
				feats = append(feats, "env:reconcile-of-absent-object")
			default:
				feats = append(feats, "did:"+t)
			}
		}
	}
	c08Emitted++
	f := feats[c08Emitted%len(feats)]
	if len(tags) == 0 {
		return "trivial/" + fam
	}
	return f
}

var c08Emitted int

// ---------------------------------------------------------------- exhaustive small scopes

func c08ExhWorlds() []c08Scn {
	cf, xf := claim.VerifC08Finalizer, composite.VerifC08Finalizer
	run := c08CtrlNames()
	mk := func(kind, name string, fins []string, del bool) c08Obj {
		return c08Obj{Kind: kind, Name: name, Fins: fins, Del: del, Owners: []c08Owner{}, Pkgs: []string{}}
	}
	with := func(o c08Obj, f func(*c08Obj)) c08Obj { f(&o); return o }
	xrd := with(mk("xrd", c08XRDName, []string{definition.VerifC08Finalizer, offered.VerifC08Finalizer}, true), func(o *c08Obj) { o.Ref, o.Of = c08XRCRD, c08ClaimCRD })
	ours := []c08Owner{{Idx: 0, Ctrl: true, Block: true}}
	crdX := with(mk("crd", c08XRCRD, []string{}, false), func(o *c08Obj) { o.Owners = ours })
	crdC := with(mk("crd", c08ClaimCRD, []string{}, false), func(o *c08Obj) { o.Owners = ours })
	return []c08Scn{
		// 0: background claim and its XR
		{Running: run, Objs: []c08Obj{
			with(mk("claim", "ns/c1", []string{cf}, true), func(o *c08Obj) { o.Ref = "x1" }),
			with(mk("xr", "x1", []string{xf}, false), func(o *c08Obj) { o.Ref = "ns/c1" })}},
		// 1: foreground claim, XR with a composed child that blocks owner deletion
		{Running: run, Objs: []c08Obj{
			with(mk("claim", "ns/c1", []string{cf}, true), func(o *c08Obj) { o.Ref, o.Flag = "x1", true }),
			with(mk("xr", "x1", []string{xf}, false), func(o *c08Obj) { o.Ref = "ns/c1" }),
			with(mk("res", "x1-r0", []string{}, false), func(o *c08Obj) { o.Owners = []c08Owner{{Idx: 1, Ctrl: true, Block: true}} })}},
		// 2: foreground claim whose XR is already being deleted and carries a third-party finalizer
		{Running: run, Objs: []c08Obj{
			with(mk("claim", "ns/c1", []string{cf, c08Hold}, true), func(o *c08Obj) { o.Ref, o.Flag = "x1", true }),
			with(mk("xr", "x1", []string{xf, c08Hold}, true), func(o *c08Obj) { o.Ref = "ns/c1" })}},
		// 3: two claims (background, foreground) and their XRs
		{Running: run, Objs: []c08Obj{
			with(mk("claim", "ns/c1", []string{cf}, true), func(o *c08Obj) { o.Ref = "x1" }),
			with(mk("xr", "x1", []string{xf}, false), func(o *c08Obj) { o.Ref = "ns/c1" }),
			with(mk("claim", "ns/c2", []string{cf}, false), func(o *c08Obj) { o.Ref, o.Flag = "x2", true }),
			with(mk("xr", "x2", []string{xf}, true), func(o *c08Obj) { o.Ref = "ns/c2" })}},
		// 4: XRD teardown, composite side: one XR instance
		{Running: run, Objs: []c08Obj{xrd, crdX, mk("xr", "x1", []string{xf}, false)}},
		// 5: XRD teardown, claim side: one claim bound to one XR
		{Running: run, Objs: []c08Obj{xrd, crdX, crdC,
			with(mk("claim", "ns/c1", []string{cf}, false), func(o *c08Obj) { o.Ref = "x1" }),
			with(mk("xr", "x1", []string{xf}, false), func(o *c08Obj) { o.Ref = "ns/c1" })}},
		// 6: XRD teardown with no instance left and with a CRD that is not ours
		{Running: run, Objs: []c08Obj{xrd, crdX, with(mk("crd", c08ClaimCRD, []string{}, false), func(o *c08Obj) { o.Owners = []c08Owner{{Idx: -1, Ctrl: true}} })}},
		// 7: two package revisions and the Lock; a composed Usage with its using and used resources
		{Running: []string{}, Objs: []c08Obj{
			with(mk("rev", "p1", []string{revision.VerifC08Finalizer}, true), func(o *c08Obj) { o.Inactive, o.SkipDeps = true, true }),
			with(mk("lock", revision.VerifC08LockName, []string{}, false), func(o *c08Obj) { o.Pkgs = []string{"p1", "p2"} }),
			with(mk("usage", "u1", []string{usagectrl.VerifC08Finalizer}, true), func(o *c08Obj) { o.Ref, o.Of, o.Flag = "using1", "used1", true }),
			mk("res", "using1", []string{}, false),
			with(mk("res", "used1", []string{}, false), func(o *c08Obj) { o.Inuse = true })}},
	}
}

// c08Enabled lists the schedule steps the exhaustive enumeration branches on in the
// current state of the world.
func c08Enabled(w *c08World, spawned []c08Live, outcomes []string) []c08Step {
	s := w.snap()
	busy := map[c08Live]bool{}
	var out []c08Step
	nlive := 0
	for id, t := range w.threads {
		if !t.fin {
			nlive++
			busy[spawned[id]] = true
			for _, o := range outcomes {
				out = append(out, c08Step{Op: "step", T: id, O: o})
			}
		}
	}
	keys := make([]string, 0, len(s.objs))
	for k := range s.objs {
		keys = append(keys, k)
	}
	sort.Strings(keys)
	gc := false
	for _, k := range keys {
		v := s.objs[k]
		if v.Del {
			if nlive < 2 {
				for _, c := range c08Ctls[v.Kind] {
					if !busy[c08Live{c, v.Name}] {
						out = append(out, c08Step{Op: "spawn", C: c, Name: v.Name})
					}
				}
			}
		} else if v.Kind != "crd" && v.Kind != "lock" && v.Kind != "xrd" {
			out = append(out, c08Step{Op: "del", Kind: v.Kind, Name: v.Name})
		}
		if v.hasFin(c08Hold) {
			out = append(out, c08Step{Op: "unfin", Kind: v.Kind, Name: v.Name, Fin: c08Hold})
		}
		if v.hasFin(c08FgFin) {
			gc = true
		}
	}
	for _, u := range w.st.All() {
		for _, r := range u.GetOwnerReferences() {
			alive := false
			for _, v := range s.objs {
				if v.UID == string(r.UID) {
					alive = true
				}
			}
			if !alive {
				gc = true
			}
		}
	}
	if gc {
		out = append(out, c08Step{Op: "gc"})
	}
	return out
}

// c08Exhaustive enumerates every schedule of exactly `depth` enabled steps (or shorter
// when nothing is enabled) over one small world and emits each as a scenario.
func c08Exhaustive(c *Ctx, variant int, base c08Scn, depth int, outcomes []string, limit int) int {
	count := 0
	var rec func(prefix []c08Step)
	rec = func(prefix []c08Step) {
		if count >= limit {
			return
		}
		var spawned []c08Live
		var enabled []c08Step
		s := base
		s.Steps = prefix
		n := len(prefix)
		s2, obs, mons := c08Run(s, func(w *c08World, i int) (c08Step, bool) {
			if i < n {
				if prefix[i].Op == "spawn" {
					spawned = append(spawned, c08Live{prefix[i].C, prefix[i].Name})
				}
				return prefix[i], true
			}
			if n < depth {
				enabled = c08Enabled(w, spawned, outcomes)
			}
			return c08Step{}, false
		})
		if n >= depth || len(enabled) == 0 {
			count++
			cls := c08Class(fmt.Sprintf("world%d", variant), s2, obs)
			if !strings.HasPrefix(cls, "trivial") {
				cls = "exhaustive:" + cls
			}
			c.Emit(s2, obs, mons, cls)
			return
		}
		for _, e := range enabled {
			rec(append(append([]c08Step{}, prefix...), e))
		}
	}
	rec([]c08Step{})
	return count
}

func init() {
	Register("C08", func(c *Ctx) {
		for _, raw := range c.Corpus {
			var s c08Scn
			if err := jsonUnmarshalStrict(raw, &s); err == nil {
				s2, obs, mons := c08Run(s, nil)
				c.Emit(s2, obs, mons, "corpus")
			}
		}
		if c.Tier == "thorough" {
			// exhaustive small scopes: shard j (= seed mod 1000) enumerates world j
			ws := c08ExhWorlds()
			j := int(c.Seed % 1000)
			deep := []int{14, 10, 9, 8, 10, 8, 10, 9}
			for v := j; v < len(ws); v += 8 {
				// every schedule of 6 enabled steps, every step of a reconcile with all 5 outcomes
				c08Exhaustive(c, v, ws[v], 6, []string{"ok", "fail", "conflict", "crashBefore", "crashAfter"}, 60000)
				// every fault-free schedule to a larger depth (world 0 is exhausted: nothing is enabled any more)
				c08Exhaustive(c, v, ws[v], deep[v%len(deep)], []string{"ok"}, 60000)
			}
		}
		for i := 0; i < c.N; i++ {
			r := c.Rng.Fork()
			if r.Chance(1, 60) {
				s2, obs, mons := c08Run(c08RaceWorld(r), c08RaceSchedule(r))
				_ = c08Class("race", s2, obs)
				c.Emit(s2, obs, mons, "liveclaim:race-neighbourhood")
				continue
			}
			s, fam := c08GenWorld(r)
			n := r.Range(8, 45)
			// 1 scenario in 40 of the families with an XRD also schedules live-claim reconciles
			liveClaims := (fam == "xrd" || fam == "mixed") && r.Chance(1, 16)
			s2, obs, mons := c08Run(s, c08RandomSchedule(r, n, liveClaims))
			cls := c08Class(fam, s2, obs)
			if liveClaims {
				cls = "liveclaim:" + fam
			}
			c.Emit(s2, obs, mons, cls)
		}
	})
	RegisterDump("C08Consts", func() string {
		var sb strings.Builder
		def := func(name, val string) { fmt.Fprintf(&sb, "def %s : String := %s\n", name, leanStr(val)) }
		def("c08ClaimFinalizer", claim.VerifC08Finalizer)
		def("c08XRFinalizer", composite.VerifC08Finalizer)
		def("c08DefinedFinalizer", definition.VerifC08Finalizer)
		def("c08OfferedFinalizer", offered.VerifC08Finalizer)
		def("c08RevisionFinalizer", revision.VerifC08Finalizer)
		def("c08UsageFinalizer", usagectrl.VerifC08Finalizer)
		def("c08LockName", revision.VerifC08LockName)
		def("c08CompositeControllerPrefix", strings.TrimSuffix(composite.ControllerName("x"), "x"))
		def("c08ClaimControllerPrefix", strings.TrimSuffix(claim.ControllerName("x"), "x"))
		def("c08ReasonTerminatingComposite", string(v1.TerminatingComposite().Reason))
		def("c08ReasonTerminatingClaim", string(v1.TerminatingClaim().Reason))
		return sb.String()
	})
}

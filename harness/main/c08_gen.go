//go:build verif

package main

// C08 generators: initial worlds (claims/XRs, XRD teardown, package revisions,
// Usages, mixed), adaptive random schedules, and the exhaustive small-scope
// enumeration of the thorough tier.

import (
	"fmt"
	"sort"
	"strings"

	"github.com/crossplane/crossplane/internal/controller/apiextensions/claim"
	"github.com/crossplane/crossplane/internal/controller/apiextensions/composite"
	"github.com/crossplane/crossplane/internal/controller/apiextensions/definition"
	"github.com/crossplane/crossplane/internal/controller/apiextensions/offered"
	usagectrl "github.com/crossplane/crossplane/internal/controller/apiextensions/usage"
	"github.com/crossplane/crossplane/internal/controller/pkg/revision"

	v1 "github.com/crossplane/crossplane/apis/apiextensions/v1"
)

type c08Builder struct {
	r    *Rng
	objs []c08Obj
}

func (b *c08Builder) add(o c08Obj) int {
	if o.Fins == nil {
		o.Fins = []string{}
	}
	if o.Owners == nil {
		o.Owners = []c08Owner{}
	}
	if o.Pkgs == nil {
		o.Pkgs = []string{}
	}
	if o.Del && len(o.Fins) == 0 {
		o.Del = false // a terminating object without finalizers does not exist
	}
	b.objs = append(b.objs, o)
	return len(b.objs) - 1
}

func (b *c08Builder) fins(own string, pOwn, pHold int) []string {
	f := []string{}
	if b.r.Chance(pOwn, 100) {
		f = append(f, own)
	}
	if b.r.Chance(pHold, 100) {
		if b.r.Bool() {
			f = append(f, c08Hold)
		} else {
			f = append([]string{c08Hold}, f...)
		}
	}
	return f
}

// Names are drawn so that the identity dimensions of every lookup are exercised: the same
// claim name in two namespaces, names that are string prefixes of one another (c1 / c10 /
// c1-a, x1 / x10 / x1-a, p1 / p10 / p1-a), and numbering that differs from name order.
var (
	c08ClaimNames = []string{"ns/c1", "ns2/c1", "ns/c10", "ns/c1-a", "ns2/c2", "ns/c"}
	c08XRNames    = []string{"x1", "x10", "x1-a", "x", "x2", "x11"}
	c08RevNames   = []string{"p1", "p10", "p1-a", "p", "p2"}
)

func (b *c08Builder) claimsAndXRs(n int, pDel int) {
	r := b.r
	cns := r.Perm(len(c08ClaimNames))
	xns := r.Perm(len(c08XRNames))
	for i := 0; i < n && i < len(cns) && i < len(xns); i++ {
		cn := c08ClaimNames[cns[i]]
		xn := c08XRNames[xns[i]]
		ref := xn
		switch {
		case r.Chance(10, 100):
			ref = ""
		case r.Chance(8, 100):
			ref = "xgone"
		case r.Chance(8, 100):
			// the XR of another pair (exists or not): a name related to ours by a prefix
			ref = c08XRNames[xns[(i+1)%len(xns)]]
		}
		// one reference in four was written for another version of the XR kind (the XRD's
		// referenceable version changed since) or names another kind altogether
		refVer := ""
		if ref != "" {
			switch x := r.Intn(100); {
			case x < 16:
				refVer = "old"
			case x < 25:
				refVer = "other"
			}
		}
		b.add(c08Obj{Kind: "claim", Name: cn, Fins: b.fins(claim.VerifC08Finalizer, 88, 18), Del: r.Chance(pDel, 100),
			Flag: r.Bool(), Paused: r.Chance(4, 100), Ref: ref, RefVer: refVer})
		if ref == xn || r.Chance(50, 100) {
			cref := cn
			switch {
			case r.Chance(7, 100):
				cref = ""
			case r.Chance(6, 100):
				cref = "ns/other"
			case r.Chance(8, 100):
				// the claim of the same name in the other namespace
				cns2, cn2 := c08NsName("claim", cn)
				if cns2 == "ns" {
					cref = "ns2/" + cn2
				} else {
					cref = "ns/" + cn2
				}
			}
			xi := b.add(c08Obj{Kind: "xr", Name: xn, Fins: b.fins(composite.VerifC08Finalizer, 88, 15), Del: r.Chance(20, 100),
				Paused: r.Chance(3, 100), Ref: cref})
			for j, m := 0, r.Intn(3); j < m; j++ {
				b.add(c08Obj{Kind: "res", Name: fmt.Sprintf("%s-r%d", xn, j), Fins: b.fins(c08Hold, 30, 0), Del: r.Chance(10, 100),
					Owners: []c08Owner{{Idx: xi, Ctrl: true, Block: r.Chance(80, 100)}}})
			}
		}
	}
}

func (b *c08Builder) xrd(pDel int) {
	r := b.r
	f := []string{}
	if r.Chance(90, 100) {
		f = append(f, definition.VerifC08Finalizer)
	}
	if r.Chance(90, 100) {
		f = append(f, offered.VerifC08Finalizer)
	}
	if r.Chance(10, 100) {
		f = append(f, c08Hold)
	}
	xi := b.add(c08Obj{Kind: "xrd", Name: c08XRDName, Fins: f, Del: r.Chance(pDel, 100), Ref: c08XRCRD, Of: c08ClaimCRD})
	for _, n := range []string{c08XRCRD, c08ClaimCRD} {
		if !r.Chance(82, 100) {
			continue
		}
		ow := []c08Owner{}
		switch {
		case r.Chance(75, 100):
			ow = append(ow, c08Owner{Idx: xi, Ctrl: true, Block: true})
		case r.Chance(50, 100):
			// controlled by somebody else; half of the time by an earlier incarnation of this
			// very XRD (same apiVersion, kind and name, another UID)
			ow = append(ow, c08Owner{Idx: -1, Ctrl: true, Block: true, Twin: r.Bool()})
		case r.Chance(50, 100):
			ow = append(ow, c08Owner{Idx: xi, Ctrl: false})
		}
		b.add(c08Obj{Kind: "crd", Name: n, Fins: b.fins(c08Hold, 8, 0), Del: r.Chance(4, 100), Owners: ow, Flag: r.Chance(60, 100)})
	}
}

func (b *c08Builder) revs() {
	r := b.r
	n := r.Range(1, 3)
	ns := r.Perm(len(c08RevNames))
	for i := 0; i < n; i++ {
		// desiredState and skipDependencyResolution are drawn independently of Lock
		// membership: a revision marked Inactive whose deactivation never completed, or one
		// that switched dependency resolution off after resolving, is still in the Lock.
		b.add(c08Obj{Kind: "rev", Name: c08RevNames[ns[i]], Fins: b.fins(revision.VerifC08Finalizer, 90, 15), Del: r.Chance(80, 100), Paused: r.Chance(5, 100),
			Inactive: r.Chance(40, 100), SkipDeps: r.Chance(30, 100)})
	}
	if r.Chance(85, 100) {
		pk := []string{}
		for _, j := range r.Perm(len(c08RevNames)) { // Lock order differs from name order
			if r.Chance(60, 100) {
				pk = append(pk, c08RevNames[j])
			}
		}
		b.add(c08Obj{Kind: "lock", Name: revision.VerifC08LockName, Fins: b.fins(c08Hold, 5, 0), Pkgs: pk})
	}
}

// usages: 1-3 Usages; using / used resources of three kinds (the same Kind in two API
// groups, two Kinds in one group) that may share a name; two Usages may share a using or
// a used resource.
func (b *c08Builder) usages() {
	r := b.r
	kinds := []string{"", "", "res2", "res3"}
	if r.Chance(25, 100) {
		// twins: two (or three) terminating composed Usages whose using resources share a
		// NAME across kinds, some of them gone and some present
		ks := r.Perm(3)
		all := []string{"", "res2", "res3"}
		for i, n := 0, r.Range(2, 3); i < n; i++ {
			k := all[ks[i]]
			b.add(c08Obj{Kind: "usage", Name: fmt.Sprintf("u%d", i+1), Fins: []string{usagectrl.VerifC08Finalizer}, Del: true,
				Flag: true, Ref: "using1", RefKind: k, Of: "used1", OfKind: Pick(r, kinds)})
			if r.Bool() {
				b.add(c08Obj{Kind: c08ResKind(k), Name: "using1", Fins: b.fins(c08Hold, 30, 0), Del: r.Chance(20, 100)})
			}
		}
		if r.Chance(70, 100) {
			b.add(c08Obj{Kind: "res", Name: "used1", Inuse: true})
		}
		b.usageOwners()
		return
	}
	n := 1
	if r.Chance(45, 100) {
		n = r.Range(2, 3)
	}
	type rk struct{ kind, name string }
	var using, used []rk
	for i := 1; i <= n; i++ {
		by, byKind := Pick(r, []string{"using1", "using1", "using10", "using"}), Pick(r, kinds)
		if r.Chance(18, 100) {
			by, byKind = "", ""
		}
		of, ofKind := Pick(r, []string{"used1", "used1", "used10"}), Pick(r, kinds)
		del := 80
		if i > 1 {
			del = 45
		}
		// one Usage in seven names its using resource by a resourceSelector that was never
		// resolved (deleted before its first successful reconcile)
		b.add(c08Obj{Kind: "usage", Name: fmt.Sprintf("u%d", i), Fins: b.fins(usagectrl.VerifC08Finalizer, 90, 10), Del: r.Chance(del, 100),
			Flag: r.Chance(75, 100), Ref: by, RefKind: byKind, Of: of, OfKind: ofKind, Sel: by != "" && r.Chance(15, 100)})
		if by != "" {
			using = append(using, rk{c08ResKind(byKind), by})
		}
		used = append(used, rk{c08ResKind(ofKind), of})
	}
	have := map[rk]bool{}
	addRes := func(x rk, p int, o c08Obj) {
		if have[x] || !r.Chance(p, 100) {
			return
		}
		have[x] = true
		o.Kind, o.Name = x.kind, x.name
		b.add(o)
	}
	for _, x := range used {
		addRes(x, 78, c08Obj{Fins: b.fins(c08Hold, 15, 0), Del: r.Chance(10, 100), Inuse: r.Chance(75, 100)})
	}
	for _, x := range using {
		addRes(x, 60, c08Obj{Fins: b.fins(c08Hold, 40, 0), Del: r.Chance(30, 100)})
		// an object of ANOTHER kind with the name of the using resource
		if r.Chance(35, 100) {
			addRes(rk{Pick(r, []string{"res", "res2", "res3"}), x.name}, 100, c08Obj{Fins: b.fins(c08Hold, 20, 0)})
		}
	}
	b.usageOwners()
}

// usageOwners gives Usages the owner references the Usage reconciler's configure path and a
// composition leave behind: the composite (gone or never there), the using resource as it is
// now, and — the using resource having been deleted and re-created under the same name — a
// STALE reference to an earlier incarnation of it (same type and name, another UID), before
// or after the current one, or alone.
func (b *c08Builder) usageOwners() {
	r := b.r
	for i := range b.objs {
		u := &b.objs[i]
		if u.Kind != "usage" || u.Ref == "" || !r.Chance(45, 100) {
			continue
		}
		cur := -1
		for j, o := range b.objs {
			if o.Kind == c08ResKind(u.RefKind) && o.Name == u.Ref {
				cur = j
			}
		}
		var ow []c08Owner
		if r.Chance(40, 100) {
			ow = append(ow, c08Owner{Idx: -1, Ctrl: true, Block: true}) // the composite
		}
		stale := c08Owner{Idx: -1, Stale: true}
		switch x := r.Intn(100); {
		case x < 45 && cur >= 0:
			ow = append(ow, stale, c08Owner{Idx: cur})
		case x < 60 && cur >= 0:
			ow = append(ow, c08Owner{Idx: cur}, stale)
		case x < 80 && cur >= 0:
			ow = append(ow, c08Owner{Idx: cur})
		default:
			ow = append(ow, stale)
		}
		u.Owners = ow
	}
}

func (b *c08Builder) running() []string {
	out := []string{}
	for _, n := range c08CtrlNames() {
		if b.r.Chance(80, 100) {
			out = append(out, n)
		}
	}
	return out
}

func c08GenWorld(r *Rng) (c08Scn, string) {
	b := &c08Builder{r: r}
	fam := ""
	switch x := r.Intn(100); {
	case x < 30:
		fam = "claims"
		b.claimsAndXRs(r.Range(1, 4), 80)
	case x < 62:
		fam = "xrd"
		b.xrd(80)
		b.claimsAndXRs(r.Intn(4), 25)
	case x < 74:
		fam = "rev"
		b.revs()
	case x < 86:
		fam = "usage"
		b.usages()
	default:
		fam = "mixed"
		b.xrd(60)
		b.claimsAndXRs(r.Range(1, 3), 50)
		b.revs()
		b.usages()
	}
	return c08Scn{Objs: b.objs, Running: b.running(), Steps: []c08Step{}}, fam
}

var c08Ctls = map[string][]string{"claim": {"claim"}, "xr": {"xr"}, "xrd": {"defined", "offered"}, "rev": {"rev"}, "usage": {"usage"}}

type c08Live struct {
	ctl, name string
}

// c08RandomSchedule returns an adaptive step chooser: it only starts reconciles of
// objects that are being deleted (or are gone), one at a time per (controller, key).
//
// atomicLive: in addition, whole reconciles of LIVE objects (claims with a resourceRef, the
// XRD by either of its controllers, Usages, the Lock part of package revisions) are run
// atomically between the steps of the teardown reconciles (op "live"); the model executes
// the abstract creating steps they amount to (Xp.C08.liveActs). No lagging caches in these
// schedules: a cache older than a creation is the recorded cache-miss finding.
func c08RandomSchedule(r *Rng, n int, liveClaims, atomicLive bool) func(w *c08World, i int) (c08Step, bool) {
	live := map[int]c08Live{}
	// one scenario in three has lagging informer caches, one in three third-party edits;
	// never together with live-claim reconciles (those are outside the model already)
	lagging := !liveClaims && !atomicLive && r.Chance(1, 3)
	editing := !liveClaims && r.Chance(1, 3)
	calls := map[int]int{} // thread -> calls made so far
	return func(w *c08World, i int) (c08Step, bool) {
		if i >= n {
			return c08Step{}, false
		}
		if i == 0 {
			w.keepSnaps = lagging
		}
		s := w.snap()
		busy := map[c08Live]bool{}
		var liveIDs []int
		for id, t := range w.threads {
			if !t.fin {
				busy[live[id]] = true
				liveIDs = append(liveIDs, id)
			}
		}
		keys := make([]string, 0, len(s.objs))
		for k := range s.objs {
			keys = append(keys, k)
		}
		sort.Strings(keys)
		var spawns, lives []c08Live
		var dels, unfins []c08View
		var edits []c08Step
		xrNames, claimNames := []string{"", "xgone"}, []string{"", "ns/other"}
		for _, k := range keys {
			switch v := s.objs[k]; v.Kind {
			case "xr":
				xrNames = append(xrNames, v.Name)
			case "claim":
				claimNames = append(claimNames, v.Name)
			}
		}
		for _, k := range keys {
			v := s.objs[k]
			if editing {
				switch v.Kind {
				case "claim":
					edits = append(edits, c08Step{Op: "edit", Kind: v.Kind, Name: v.Name, W: "flip"},
						c08Step{Op: "edit", Kind: v.Kind, Name: v.Name, W: "ref=" + Pick(r, xrNames)})
				case "xr":
					edits = append(edits, c08Step{Op: "edit", Kind: v.Kind, Name: v.Name, W: "ref=" + Pick(r, claimNames)})
				case "usage":
					edits = append(edits, c08Step{Op: "edit", Kind: v.Kind, Name: v.Name, W: "flip"},
						c08Step{Op: "edit", Kind: v.Kind, Name: v.Name, W: "ref=" + Pick(r, []string{"using1", "using10", "using"})})
				}
			}
			if v.Del {
				for _, c := range c08Ctls[v.Kind] {
					if !busy[c08Live{c, v.Name}] {
						spawns = append(spawns, c08Live{c, v.Name})
					}
				}
			} else if v.Kind != "crd" && v.Kind != "lock" {
				dels = append(dels, v)
			}
			if atomicLive && !v.Del {
				switch v.Kind {
				case "claim":
					if v.Ref != "" {
						lives = append(lives, c08Live{"claim", v.Name})
					}
				case "xrd":
					lives = append(lives, c08Live{"defined", v.Name}, c08Live{"offered", v.Name})
				case "usage":
					if !v.Sel {
						lives = append(lives, c08Live{"usage", v.Name})
					}
				case "rev":
					if !v.SkipDeps {
						lives = append(lives, c08Live{"rev", v.Name})
					}
				}
			}
			if v.hasFin(c08Hold) {
				unfins = append(unfins, v)
			}
		}
		if liveClaims {
			// Known finding C08:instance-recreated-during-xrd-teardown: while the XRD is being
			// torn down, a reconcile of a claim that is NOT being deleted may re-create its XR.
			// That path (bind/sync) is outside the model: such scenarios are skipped by the
			// model and judged by the monitors only.
			xrdDeleting := false
			for _, v := range s.ofKind("xrd") {
				xrdDeleting = xrdDeleting || v.Del
			}
			if xrdDeleting {
				for _, k := range keys {
					v := s.objs[k]
					if v.Kind == "claim" && !v.Del && v.Ref != "" && !busy[c08Live{"claim", v.Name}] {
						if _, ok := s.objs["xr/"+v.Ref]; !ok {
							// weight: as likely as the other reconciles together, so that the window is hit
							for j, m := 0, len(spawns); j <= m; j++ {
								spawns = append(spawns, c08Live{"claim", v.Name})
							}
							break
						}
					}
				}
			}
		}
		if r.Chance(4, 100) {
			// a reconcile of an object that no longer exists
			c := Pick(r, []c08Live{{"claim", "ns/c1"}, {"xr", "x1"}, {"defined", c08XRDName}, {"offered", c08XRDName}, {"rev", "p1"}, {"usage", "u1"}})
			if _, ok := s.objs[map[string]string{"claim": "claim", "xr": "xr", "defined": "xrd", "offered": "xrd", "rev": "rev", "usage": "usage"}[c.ctl]+"/"+c.name]; !ok && !busy[c] {
				spawns = append(spawns, c)
			}
		}
		if len(liveIDs) == 0 && len(spawns) == 0 && len(dels) == 0 && len(unfins) == 0 && i > 0 {
			return c08Step{}, false
		}
		for tries := 0; tries < 20; tries++ {
			switch x := r.Intn(100); {
			case x < 55:
				if len(liveIDs) == 0 {
					continue
				}
				st := c08Step{Op: "step", T: Pick(r, liveIDs), O: "ok"}
				switch y := r.Intn(100); {
				case y < 9:
					// an error of one of the classes an API server or the transport can answer
					// with whatever the state of the object
					st.O, st.E = "fail", Pick(r, c08WriteClasses)
				case y < 14:
					st.O = "conflict"
				case y < 16:
					st.O = "crashBefore"
				case y < 19:
					st.O = "crashAfter"
				case lagging && y < 50 && i > 0:
					// the cache shows the store as it was a few (or many) steps ago
					back := 1 + r.Intn(4)
					if r.Chance(1, 4) {
						back = 1 + r.Intn(i)
					}
					if back > i {
						back = i
					}
					st.At = i - back + 1
					// The first read of a reconcile fetches the object itself: a cache in which it
					// is not yet being deleted sends the reconcile down the live path (outside
					// the model), so that read only lags back to where the deletion was visible.
					if calls[st.T] == 0 && !c08Terminating(w.snaps[st.At-1], live[st.T]) {
						st.At = 0
					}
				}
				calls[st.T]++
				return st, true
			case editing && x >= 55 && x < 61:
				if len(edits) == 0 {
					continue
				}
				return Pick(r, edits), true
			case atomicLive && x >= 61 && x < 69:
				if len(lives) == 0 {
					continue
				}
				l := Pick(r, lives)
				return c08Step{Op: "live", C: l.ctl, Name: l.name}, true
			case x < 77:
				if len(spawns) == 0 || len(liveIDs) >= 4 {
					continue
				}
				c := Pick(r, spawns)
				live[len(w.threads)] = c
				return c08Step{Op: "spawn", C: c.ctl, Name: c.name}, true
			case x < 85:
				if len(dels) == 0 {
					continue
				}
				v := Pick(r, dels)
				return c08Step{Op: "del", Kind: v.Kind, Name: v.Name}, true
			case x < 93:
				return c08Step{Op: "gc"}, true
			default:
				if len(unfins) == 0 {
					continue
				}
				v := Pick(r, unfins)
				return c08Step{Op: "unfin", Kind: v.Kind, Name: v.Name, Fin: c08Hold}, true
			}
		}
		return c08Step{Op: "gc"}, true
	}
}

// c08SeqSchedule: the reconciles of all terminating objects run one after the other, each
// to its end, over up to three rounds, on the long-lived reconcilers of one process; one or
// two of the API calls (uniformly chosen among the first 24) fail with an error of a
// uniformly chosen class (or a conflict). This covers every (call, error class) pair of
// every deletion branch with high probability per run of the check, and drives each
// long-lived reconciler through a sequence of different objects.
func c08SeqSchedule(r *Rng, maxSteps int) func(w *c08World, i int) (c08Step, bool) {
	faults := map[int]c08Step{}
	for j, m := 0, r.Range(1, 2); j < m; j++ {
		f := c08Step{O: "fail", E: Pick(r, c08WriteClasses)}
		if r.Chance(1, 8) {
			f = c08Step{O: "conflict"}
		}
		faults[r.Intn(24)] = f
	}
	calls, cur, gcs := 0, -1, 0
	ran := map[c08Live]int{}
	return func(w *c08World, i int) (c08Step, bool) {
		if i >= maxSteps {
			return c08Step{}, false
		}
		if cur >= 0 && cur < len(w.threads) && !w.threads[cur].fin {
			st := c08Step{Op: "step", T: cur, O: "ok"}
			if f, ok := faults[calls]; ok {
				st.O, st.E = f.O, f.E
			}
			calls++
			return st, true
		}
		s := w.snap()
		keys := make([]string, 0, len(s.objs))
		for k := range s.objs {
			keys = append(keys, k)
		}
		sort.Strings(keys)
		var cands []c08Live
		for _, k := range keys {
			if v := s.objs[k]; v.Del {
				for _, c := range c08Ctls[v.Kind] {
					if ran[c08Live{c, v.Name}] < 3 {
						cands = append(cands, c08Live{c, v.Name})
					}
				}
			}
		}
		if (len(cands) == 0 || r.Chance(1, 8)) && gcs < 4 {
			gcs++
			return c08Step{Op: "gc"}, true
		}
		if len(cands) == 0 {
			return c08Step{}, false
		}
		c := Pick(r, cands)
		ran[c]++
		cur = len(w.threads)
		return c08Step{Op: "spawn", C: c.ctl, Name: c.name}, true
	}
}

var c08CtlKind = map[string]string{"claim": "claim", "xr": "xr", "defined": "xrd", "offered": "xrd", "rev": "rev", "usage": "usage"}

// c08Terminating: in this store the object a reconcile of l serves is being deleted or gone.
func c08Terminating(st *Store, l c08Live) bool {
	kind := c08CtlKind[l.ctl]
	ns, n := c08NsName(kind, l.name)
	u := st.Peek(c08GVK(kind).GroupKind(), ns, n)
	return u == nil || u.GetDeletionTimestamp() != nil
}

// c08RaceWorld / c08RaceSchedule: the neighbourhood of the known finding
// C08:instance-recreated-during-xrd-teardown. The XRD is being deleted while a claim is
// still live; the schedule lets the definition reconcile get some way, possibly lets the
// XR controller finalize the XR, then runs a reconcile of the LIVE claim (real bind/sync
// path, outside the model) for a random number of calls before the definition reconcile
// continues. Whether the window is hit depends on the drawn counts.
func c08RaceWorld(r *Rng) c08Scn {
	b := &c08Builder{r: r}
	f := []string{definition.VerifC08Finalizer}
	if r.Bool() {
		f = append(f, offered.VerifC08Finalizer)
	}
	xi := b.add(c08Obj{Kind: "xrd", Name: c08XRDName, Fins: f, Del: true, Ref: c08XRCRD, Of: c08ClaimCRD})
	b.add(c08Obj{Kind: "crd", Name: c08XRCRD, Owners: []c08Owner{{Idx: xi, Ctrl: true, Block: true}}})
	if r.Bool() {
		b.add(c08Obj{Kind: "crd", Name: c08ClaimCRD, Owners: []c08Owner{{Idx: xi, Ctrl: true, Block: true}}})
	}
	b.add(c08Obj{Kind: "claim", Name: "ns/c1", Fins: []string{claim.VerifC08Finalizer}, Ref: "x1", Flag: r.Bool()})
	if r.Chance(2, 3) {
		b.add(c08Obj{Kind: "xr", Name: "x1", Fins: []string{composite.VerifC08Finalizer}, Del: r.Bool(), Ref: "ns/c1"})
	}
	return c08Scn{Objs: b.objs, Running: c08CtrlNames(), Steps: []c08Step{}}
}

func c08RaceSchedule(r *Rng) func(w *c08World, i int) (c08Step, bool) {
	var script []c08Step
	tid := 0
	run := func(ctl, name string, steps int) {
		script = append(script, c08Step{Op: "spawn", C: ctl, Name: name})
		for j := 0; j < steps; j++ {
			script = append(script, c08Step{Op: "step", T: tid, O: "ok"})
		}
		tid++
	}
	run("defined", c08XRDName, r.Range(0, 6))
	if r.Chance(3, 4) {
		run("xr", "x1", r.Range(1, 3))
	}
	d2 := tid
	run("defined", c08XRDName, r.Range(3, 6))
	if r.Chance(1, 4) {
		script = append(script, c08Step{Op: "gc"})
	}
	run("claim", "ns/c1", r.Range(0, 9))
	for j, m := 0, r.Range(0, 3); j < m; j++ {
		script = append(script, c08Step{Op: "step", T: d2, O: "ok"})
	}
	return func(w *c08World, i int) (c08Step, bool) {
		if i >= len(script) {
			return c08Step{}, false
		}
		return script[i], true
	}
}

// c08MissWorld / c08MissSchedule: an object that was created so recently that the informer
// cache of the reconciling controller has not seen it yet (recorded findings
// C08:claim-finalized-xr-missing-from-cache, C08:xrd-torn-down-crd-missing-from-cache). A
// cache older than the initial world is a creation step in disguise, so these runs are
// outside the model and judged by the monitors only.
func c08MissWorld(r *Rng) (c08Scn, c08Live) {
	b := &c08Builder{r: r}
	if r.Chance(2, 3) {
		b.add(c08Obj{Kind: "claim", Name: "ns/c1", Fins: b.fins(claim.VerifC08Finalizer, 100, 15), Del: true, Flag: r.Bool(), Ref: "x1"})
		b.add(c08Obj{Kind: "xr", Name: "x1", Fins: []string{composite.VerifC08Finalizer}, Ref: "ns/c1"})
		if r.Bool() {
			b.add(c08Obj{Kind: "claim", Name: "ns2/c1", Fins: []string{claim.VerifC08Finalizer}, Del: r.Bool(), Flag: r.Bool(), Ref: "x10"})
			b.add(c08Obj{Kind: "xr", Name: "x10", Fins: []string{composite.VerifC08Finalizer}, Ref: "ns2/c1"})
		}
		return c08Scn{Objs: b.objs, Running: c08CtrlNames(), Steps: []c08Step{}}, c08Live{"claim", "ns/c1"}
	}
	xi := b.add(c08Obj{Kind: "xrd", Name: c08XRDName, Fins: []string{definition.VerifC08Finalizer, offered.VerifC08Finalizer}, Del: true, Ref: c08XRCRD, Of: c08ClaimCRD})
	b.add(c08Obj{Kind: "crd", Name: c08XRCRD, Owners: []c08Owner{{Idx: xi, Ctrl: true, Block: true}}})
	b.add(c08Obj{Kind: "crd", Name: c08ClaimCRD, Owners: []c08Owner{{Idx: xi, Ctrl: true, Block: true}}})
	b.add(c08Obj{Kind: "xr", Name: "x1", Fins: []string{composite.VerifC08Finalizer}})
	b.add(c08Obj{Kind: "claim", Name: "ns/c1", Fins: []string{claim.VerifC08Finalizer}})
	return c08Scn{Objs: b.objs, Running: c08CtrlNames(), Steps: []c08Step{}}, c08Live{Pick(r, []string{"defined", "offered"}), c08XRDName}
}

func c08MissSchedule(r *Rng, l c08Live) func(w *c08World, i int) (c08Step, bool) {
	// the miss hits the read of the dependent object: the claim's second call (Get XR), the
	// XRD reconcilers' third (Get CRD); sometimes an earlier or later call instead
	at := map[string]int{"claim": 2, "defined": 3, "offered": 3}[l.ctl]
	if r.Chance(1, 4) {
		at = r.Range(1, 5)
	}
	n := r.Range(at+1, at+5)
	return func(w *c08World, i int) (c08Step, bool) {
		switch {
		case i == 0:
			return c08Step{Op: "spawn", C: l.ctl, Name: l.name}, true
		case i > n:
			return c08Step{}, false
		}
		return c08Step{Op: "step", T: 0, O: "ok", Miss: i == at}, true
	}
}

// c08MultiWorld / c08MultiSchedule: XRD teardown with 2-4 instances per CRD of which some
// are already terminating (so that their own reconciles can finalize them), in a list order
// that differs from creation order. The XRD reconcile is paused after a drawn number of
// calls (typically right after its List), a drawn subset of the instance reconciles runs to
// the end (instances vanish between the List and the per-item Deletes / the Stop), the XRD
// reconcile goes on; then everything once more. Some reads of the second round lag.
func c08MultiWorld(r *Rng) c08Scn {
	b := &c08Builder{r: r}
	xi := b.add(c08Obj{Kind: "xrd", Name: c08XRDName, Fins: []string{definition.VerifC08Finalizer, offered.VerifC08Finalizer}, Del: true, Ref: c08XRCRD, Of: c08ClaimCRD})
	b.add(c08Obj{Kind: "crd", Name: c08XRCRD, Owners: []c08Owner{{Idx: xi, Ctrl: true, Block: true}}})
	b.add(c08Obj{Kind: "crd", Name: c08ClaimCRD, Owners: []c08Owner{{Idx: xi, Ctrl: true, Block: true}}})
	cns, xns := r.Perm(len(c08ClaimNames)), r.Perm(len(c08XRNames))
	for i, n := 0, r.Range(2, 4); i < n; i++ {
		// unbound claims and XRs: each can be finalized by its own reconcile alone
		b.add(c08Obj{Kind: "claim", Name: c08ClaimNames[cns[i]], Fins: b.fins(claim.VerifC08Finalizer, 90, 10), Del: r.Chance(60, 100), Flag: r.Bool()})
	}
	for i, n := 0, r.Range(1, 3); i < n; i++ {
		b.add(c08Obj{Kind: "xr", Name: c08XRNames[xns[i]], Fins: b.fins(composite.VerifC08Finalizer, 90, 10), Del: r.Chance(60, 100)})
	}
	return c08Scn{Objs: b.objs, Running: c08CtrlNames(), Steps: []c08Step{}}
}

func c08MultiSchedule(r *Rng) func(w *c08World, i int) (c08Step, bool) {
	var queue []c08Step
	round := 0
	lag := r.Bool()
	return func(w *c08World, i int) (c08Step, bool) {
		if i == 0 {
			w.keepSnaps = lag
		}
		for len(queue) == 0 {
			if round >= 3 || i > 110 {
				return c08Step{}, false
			}
			round++
			// plan one round from the live world
			s := w.snap()
			var insts []c08Live
			for _, k := range []string{"claim", "xr"} {
				vs := s.ofKind(k)
				sort.Slice(vs, func(a, b int) bool { return vs[a].Name < vs[b].Name })
				for _, v := range vs {
					if v.Del && r.Chance(2, 3) {
						insts = append(insts, c08Live{k, v.Name})
					}
				}
			}
			tid := len(w.threads)
			ctl := Pick(r, []string{"offered", "offered", "defined"})
			queue = append(queue, c08Step{Op: "spawn", C: ctl, Name: c08XRDName})
			pause := r.Range(3, 6)
			for j := 0; j < pause; j++ {
				st := c08Step{Op: "step", T: tid, O: "ok"}
				if lag && round > 1 && j >= 3 && r.Chance(1, 3) {
					st.At = 1 + r.Intn(i+len(queue))
				}
				queue = append(queue, st)
			}
			for n, l := range insts {
				queue = append(queue, c08Step{Op: "spawn", C: l.ctl, Name: l.name})
				for j := 0; j < 5; j++ {
					queue = append(queue, c08Step{Op: "step", T: tid + 1 + n, O: "ok"})
				}
			}
			for j := 0; j < 8; j++ {
				queue = append(queue, c08Step{Op: "step", T: tid, O: "ok"})
			}
		}
		st := queue[0]
		queue = queue[1:]
		return st, true
	}
}

// c08StaleWorld / c08StaleSchedule: the neighbourhood of "an older version served": a third
// party edits a terminating claim (delete policy, XR reference) or Usage (using resource,
// composite label), then the reconcile runs with its FIRST read answered from the cache as
// it was before the edit and every later call fresh. The unchanged code takes its decision
// on the stale copy and is stopped by the resourceVersion precondition of its write.
func c08StaleWorld(r *Rng) (c08Scn, c08Live, []c08Step) {
	b := &c08Builder{r: r}
	if r.Chance(2, 3) {
		fg := r.Bool()
		b.add(c08Obj{Kind: "claim", Name: "ns/c1", Fins: b.fins(claim.VerifC08Finalizer, 100, 10), Del: true, Flag: fg, Ref: "x1"})
		b.add(c08Obj{Kind: "xr", Name: "x1", Fins: b.fins(composite.VerifC08Finalizer, 100, 30), Del: r.Chance(1, 3), Ref: "ns/c1"})
		b.add(c08Obj{Kind: "xr", Name: "x10", Fins: []string{composite.VerifC08Finalizer}, Ref: Pick(r, []string{"ns/c1", "", "ns2/c1"})})
		ed := []c08Step{{Op: "edit", Kind: "claim", Name: "ns/c1", W: "flip"}}
		if r.Chance(1, 3) {
			ed = []c08Step{{Op: "edit", Kind: "claim", Name: "ns/c1", W: "ref=x10"}}
		}
		return c08Scn{Objs: b.objs, Running: c08CtrlNames(), Steps: []c08Step{}}, c08Live{"claim", "ns/c1"}, ed
	}
	b.add(c08Obj{Kind: "usage", Name: "u1", Fins: []string{usagectrl.VerifC08Finalizer}, Del: true, Flag: r.Bool(), Ref: "using1", RefKind: Pick(r, []string{"", "res2"}), Of: "used1"})
	b.add(c08Obj{Kind: "res", Name: "used1", Inuse: true})
	b.add(c08Obj{Kind: Pick(r, []string{"res", "res2"}), Name: "using10", Fins: b.fins(c08Hold, 30, 0)})
	ed := []c08Step{{Op: "edit", Kind: "usage", Name: "u1", W: "ref=using10"}}
	if r.Bool() {
		ed = append(ed, c08Step{Op: "edit", Kind: "usage", Name: "u1", W: "flip"})
	}
	return c08Scn{Objs: b.objs, Running: []string{}, Steps: []c08Step{}}, c08Live{"usage", "u1"}, ed
}

func c08StaleSchedule(r *Rng, l c08Live, edits []c08Step) func(w *c08World, i int) (c08Step, bool) {
	script := append([]c08Step{}, edits...)
	for round := 0; round < 2; round++ {
		tid := round
		script = append(script, c08Step{Op: "spawn", C: l.ctl, Name: l.name})
		first := c08Step{Op: "step", T: tid, O: "ok"}
		if round == 0 || r.Chance(1, 3) {
			first.At = 1 // the cache as it was before the edit
		}
		script = append(script, first)
		for j, m := 0, r.Range(2, 7); j < m; j++ {
			st := c08Step{Op: "step", T: tid, O: "ok"}
			if r.Chance(1, 6) {
				st.At = 1 + r.Intn(len(script))
			}
			script = append(script, st)
		}
	}
	return func(w *c08World, i int) (c08Step, bool) {
		if i == 0 {
			w.keepSnaps = true
		}
		if i >= len(script) {
			return c08Step{}, false
		}
		return script[i], true
	}
}

// c08Class classifies a run by ONE of its features: its family, a teardown write or wait
// that happened ("did:"), an environment step that had an effect ("env:"), or a fault
// kind that was injected ("fault:"). A run in which no teardown write and no wait
// happened is trivial.
func c08Class(fam string, s c08Scn, o c08Obs) string {
	tags := map[string]bool{}
	env := map[string]bool{}
	for i, st := range o.Steps {
		sp := s.Steps[i]
		switch sp.Op {
		case "del":
			if len(st.Chg) > 0 {
				env["d:"+sp.Kind] = true
			}
		case "gc":
			if len(st.Chg) > 0 {
				env["g"] = true
			}
		case "unfin":
			if len(st.Chg) > 0 {
				env["u"] = true
			}
		case "edit":
			env["e"] = true
		}
		if sp.Op != "step" {
			continue
		}
		if sp.At > 0 && sp.O == "ok" && (strings.HasPrefix(st.Call, "get:") || strings.HasPrefix(st.Call, "list:")) {
			env["l"] = true
		}
		if sp.O == "fail" && sp.E != "" && st.Call != "" {
			env["k:"+sp.E] = true
		}
		if st.Resp == "crashed" {
			env["c"] = true
		}
		if (sp.O == "fail" || sp.O == "conflict") && st.Call != "" {
			env["f"] = true
		}
		if st.Resp == "notFound" && strings.HasPrefix(st.Call, "get:") && st.Res == "ok" {
			env["x"] = true
		}
		if st.Resp == "conflict" && sp.O == "ok" {
			tags["staleconflict"] = true
		}
		switch {
		case strings.HasPrefix(st.Call, "stop:"):
			if st.Resp == "ok" && len(st.Chg) > 0 {
				tags["stop"] = true
			}
		case strings.HasPrefix(st.Call, "delete:crd") && st.Resp == "ok":
			tags["crddel"] = true
		case strings.HasPrefix(st.Call, "delete:xr") && st.Resp == "ok":
			if strings.HasSuffix(st.Call, ":fg") {
				tags["xrdel-fg"] = true
			} else {
				tags["xrdel"] = true
			}
		case strings.HasPrefix(st.Call, "delete:claim") && st.Resp == "ok":
			tags["claimdel"] = true
		case strings.HasPrefix(st.Call, "update:claim") && st.Resp == "ok" && !strings.HasSuffix(st.Call, ":status"):
			tags["claimfin"] = true
		case strings.HasPrefix(st.Call, "update:xr:") && st.Resp == "ok" && !strings.HasSuffix(st.Call, ":status"):
			tags["xrfin"] = true
		case strings.HasPrefix(st.Call, "update:xrd") && st.Resp == "ok" && !strings.HasSuffix(st.Call, ":status"):
			tags["xrdfin"] = true
		case strings.HasPrefix(st.Call, "update:rev") && st.Resp == "ok" && !strings.HasSuffix(st.Call, ":status"):
			tags["revfin"] = true
		case strings.HasPrefix(st.Call, "update:lock") && st.Resp == "ok":
			tags["lockrm"] = true
		case strings.HasPrefix(st.Call, "update:usage") && st.Resp == "ok":
			tags["usagefin"] = true
		case strings.HasPrefix(st.Call, "deleteAllOf:") && st.Resp == "ok":
			tags["deleteall"] = true
		}
		if st.Res == "requeue" {
			tags["wait"] = true
		}
	}
	// One feature of the run is reported as its class, chosen round-robin by the emission
	// counter, so that the (truncated) class histogram of the evidence shows every kind of
	// write, wait, environment step and fault that the runs contain.
	feats := []string{"family:" + fam}
	for _, m := range []map[string]bool{tags, env} {
		var ts []string
		for t := range m {
			ts = append(ts, t)
		}
		sort.Strings(ts)
		for _, t := range ts {
			switch {
			case strings.HasPrefix(t, "d:"):
				feats = append(feats, "env:user-delete-"+t[2:])
			case t == "g":
				feats = append(feats, "env:gc-step")
			case t == "u":
				feats = append(feats, "env:finalizer-removed-by-third-party")
			case t == "c":
				feats = append(feats, "fault:crash")
			case t == "f":
				feats = append(feats, "fault:error-or-conflict")
			case t == "x":
				feats = append(feats, "env:reconcile-of-absent-object")
			case t == "e":
				feats = append(feats, "env:third-party-edit")
			case t == "l":
				feats = append(feats, "cache:lagging-read")
			case strings.HasPrefix(t, "k:"):
				feats = append(feats, "fault:error-class-"+t[2:])
			default:
				feats = append(feats, "did:"+t)
			}
		}
	}
	c08Emitted++
	f := feats[c08Emitted%len(feats)]
	if len(tags) == 0 {
		return "trivial/" + fam
	}
	return f
}

var c08Emitted int

// ---------------------------------------------------------------- exhaustive small scopes

func c08ExhWorlds() []c08Scn {
	cf, xf := claim.VerifC08Finalizer, composite.VerifC08Finalizer
	run := c08CtrlNames()
	mk := func(kind, name string, fins []string, del bool) c08Obj {
		return c08Obj{Kind: kind, Name: name, Fins: fins, Del: del, Owners: []c08Owner{}, Pkgs: []string{}}
	}
	with := func(o c08Obj, f func(*c08Obj)) c08Obj { f(&o); return o }
	xrd := with(mk("xrd", c08XRDName, []string{definition.VerifC08Finalizer, offered.VerifC08Finalizer}, true), func(o *c08Obj) { o.Ref, o.Of = c08XRCRD, c08ClaimCRD })
	ours := []c08Owner{{Idx: 0, Ctrl: true, Block: true}}
	crdX := with(mk("crd", c08XRCRD, []string{}, false), func(o *c08Obj) { o.Owners = ours })
	crdC := with(mk("crd", c08ClaimCRD, []string{}, false), func(o *c08Obj) { o.Owners = ours })
	return []c08Scn{
		// 0: background claim and its XR
		{Running: run, Objs: []c08Obj{
			with(mk("claim", "ns/c1", []string{cf}, true), func(o *c08Obj) { o.Ref = "x1" }),
			with(mk("xr", "x1", []string{xf}, false), func(o *c08Obj) { o.Ref = "ns/c1" })}},
		// 1: foreground claim, XR with a composed child that blocks owner deletion
		{Running: run, Objs: []c08Obj{
			with(mk("claim", "ns/c1", []string{cf}, true), func(o *c08Obj) { o.Ref, o.Flag = "x1", true }),
			with(mk("xr", "x1", []string{xf}, false), func(o *c08Obj) { o.Ref = "ns/c1" }),
			with(mk("res", "x1-r0", []string{}, false), func(o *c08Obj) { o.Owners = []c08Owner{{Idx: 1, Ctrl: true, Block: true}} })}},
		// 2: foreground claim whose XR is already being deleted and carries a third-party finalizer
		{Running: run, Objs: []c08Obj{
			with(mk("claim", "ns/c1", []string{cf, c08Hold}, true), func(o *c08Obj) { o.Ref, o.Flag = "x1", true }),
			with(mk("xr", "x1", []string{xf, c08Hold}, true), func(o *c08Obj) { o.Ref = "ns/c1" })}},
		// 3: two claims (background, foreground) and their XRs
		{Running: run, Objs: []c08Obj{
			with(mk("claim", "ns/c1", []string{cf}, true), func(o *c08Obj) { o.Ref = "x1" }),
			with(mk("xr", "x1", []string{xf}, false), func(o *c08Obj) { o.Ref = "ns/c1" }),
			with(mk("claim", "ns/c2", []string{cf}, false), func(o *c08Obj) { o.Ref, o.Flag = "x2", true }),
			with(mk("xr", "x2", []string{xf}, true), func(o *c08Obj) { o.Ref = "ns/c2" })}},
		// 4: XRD teardown, composite side: one XR instance
		{Running: run, Objs: []c08Obj{xrd, crdX, mk("xr", "x1", []string{xf}, false)}},
		// 5: XRD teardown, claim side: one claim bound to one XR
		{Running: run, Objs: []c08Obj{xrd, crdX, crdC,
			with(mk("claim", "ns/c1", []string{cf}, false), func(o *c08Obj) { o.Ref = "x1" }),
			with(mk("xr", "x1", []string{xf}, false), func(o *c08Obj) { o.Ref = "ns/c1" })}},
		// 6: XRD teardown with no instance left and with a CRD that is not ours
		{Running: run, Objs: []c08Obj{xrd, crdX, with(mk("crd", c08ClaimCRD, []string{}, false), func(o *c08Obj) { o.Owners = []c08Owner{{Idx: -1, Ctrl: true}} })}},
		// 7: two package revisions and the Lock; a composed Usage with its using and used resources
		{Running: []string{}, Objs: []c08Obj{
			with(mk("rev", "p1", []string{revision.VerifC08Finalizer}, true), func(o *c08Obj) { o.Inactive, o.SkipDeps = true, true }),
			with(mk("lock", revision.VerifC08LockName, []string{}, false), func(o *c08Obj) { o.Pkgs = []string{"p1", "p2"} }),
			with(mk("usage", "u1", []string{usagectrl.VerifC08Finalizer}, true), func(o *c08Obj) { o.Ref, o.Of, o.Flag = "using1", "used1", true }),
			mk("res", "using1", []string{}, false),
			with(mk("res", "used1", []string{}, false), func(o *c08Obj) { o.Inuse = true })}},
	}
}

// c08Enabled lists the schedule steps the exhaustive enumeration branches on in the
// current state of the world.
func c08Enabled(w *c08World, spawned []c08Live, outcomes []string, extra bool) []c08Step {
	s := w.snap()
	busy := map[c08Live]bool{}
	var out []c08Step
	nlive := 0
	for id, t := range w.threads {
		if !t.fin {
			nlive++
			busy[spawned[id]] = true
			for _, o := range outcomes {
				out = append(out, c08Step{Op: "step", T: id, O: o})
			}
			// the next call, if a read, answered from the cache as it was at the very start (the
			// reconcile's first read only if the object was terminating then, see c08RandomSchedule)
			if extra && len(w.snaps) > 0 && (t.calls > 0 || c08Terminating(w.snaps[0], spawned[id])) {
				out = append(out, c08Step{Op: "step", T: id, O: "ok", At: 1})
			}
		}
	}
	keys := make([]string, 0, len(s.objs))
	for k := range s.objs {
		keys = append(keys, k)
	}
	sort.Strings(keys)
	gc := false
	for _, k := range keys {
		v := s.objs[k]
		if v.Del {
			if nlive < 2 {
				for _, c := range c08Ctls[v.Kind] {
					if !busy[c08Live{c, v.Name}] {
						out = append(out, c08Step{Op: "spawn", C: c, Name: v.Name})
					}
				}
			}
		} else if v.Kind != "crd" && v.Kind != "lock" && v.Kind != "xrd" {
			out = append(out, c08Step{Op: "del", Kind: v.Kind, Name: v.Name})
		}
		if v.hasFin(c08Hold) {
			out = append(out, c08Step{Op: "unfin", Kind: v.Kind, Name: v.Name, Fin: c08Hold})
		}
		if extra && (v.Kind == "claim" || v.Kind == "usage") {
			out = append(out, c08Step{Op: "edit", Kind: v.Kind, Name: v.Name, W: "flip"})
		}
		if v.hasFin(c08FgFin) {
			gc = true
		}
	}
	for _, u := range w.st.All() {
		for _, r := range u.GetOwnerReferences() {
			alive := false
			for _, v := range s.objs {
				if v.UID == string(r.UID) {
					alive = true
				}
			}
			if !alive {
				gc = true
			}
		}
	}
	if gc {
		out = append(out, c08Step{Op: "gc"})
	}
	return out
}

// c08Exhaustive enumerates every schedule of exactly `depth` enabled steps (or shorter
// when nothing is enabled) over one small world and emits each as a scenario.
func c08Exhaustive(c *Ctx, variant int, base c08Scn, depth int, outcomes []string, extra bool, limit int) int {
	count := 0
	var rec func(prefix []c08Step)
	rec = func(prefix []c08Step) {
		if count >= limit {
			return
		}
		var spawned []c08Live
		var enabled []c08Step
		s := base
		s.Steps = prefix
		n := len(prefix)
		s2, obs, mons := c08Run(s, func(w *c08World, i int) (c08Step, bool) {
			if i == 0 {
				w.keepSnaps = extra
			}
			if i < n {
				if prefix[i].Op == "spawn" {
					spawned = append(spawned, c08Live{prefix[i].C, prefix[i].Name})
				}
				return prefix[i], true
			}
			if n < depth {
				enabled = c08Enabled(w, spawned, outcomes, extra)
			}
			return c08Step{}, false
		})
		if n >= depth || len(enabled) == 0 {
			count++
			cls := c08Class(fmt.Sprintf("world%d", variant), s2, obs)
			if !strings.HasPrefix(cls, "trivial") {
				cls = "exhaustive:" + cls
			}
			c.Emit(s2, obs, mons, cls)
			return
		}
		for _, e := range enabled {
			rec(append(append([]c08Step{}, prefix...), e))
		}
	}
	rec([]c08Step{})
	return count
}

// c08ClassSweep: deterministic sweep, part of every run: over the eight fixed small
// worlds, for every terminating object's reconcile, for every call position j and for
// every error class (and a conflict): the reconcile runs fault-free up to call j, call j
// fails with that class, the reconcile runs on to its end, then the same reconcile runs
// once more fault-free. Whatever class the code would be tempted to treat as "fine" at
// whatever call shows up here with a concrete failing input. Item k is run by shard k mod 8.
func c08ClassSweep(c *Ctx) {
	shard := int(c.Seed % 1000)
	classes := append([]string{}, c08WriteClasses...)
	k := 0
	for wi, base := range c08ExhWorlds() {
		var targets []c08Live
		for _, o := range base.Objs {
			if o.Del {
				for _, ctl := range c08Ctls[o.Kind] {
					targets = append(targets, c08Live{ctl, o.Name})
				}
			}
		}
		for _, tg := range targets {
			for j := 0; j < 12; j++ {
				landed := false
				for ci := -1; ci < len(classes); ci++ {
					k++
					if k%8 != shard%8 && !(ci == -1 && !landed) {
						continue
					}
					fault := c08Step{Op: "step", T: 0, O: "conflict"}
					if ci >= 0 {
						fault = c08Step{Op: "step", T: 0, O: "fail", E: classes[ci]}
					}
					steps := []c08Step{{Op: "spawn", C: tg.ctl, Name: tg.name}}
					for x := 0; x < j; x++ {
						steps = append(steps, c08Step{Op: "step", T: 0, O: "ok"})
					}
					steps = append(steps, fault)
					for x := 0; x < 8; x++ {
						steps = append(steps, c08Step{Op: "step", T: 0, O: "ok"})
					}
					steps = append(steps, c08Step{Op: "spawn", C: tg.ctl, Name: tg.name})
					for x := 0; x < 10; x++ {
						steps = append(steps, c08Step{Op: "step", T: 1, O: "ok"})
					}
					s := base
					s.Steps = steps
					s2, obs, mons := c08Run(s, nil)
					landed = obs.Steps[1+j].Call != ""
					if !landed {
						break // the reconcile has fewer than j+1 calls
					}
					if k%8 != shard%8 {
						continue // probe run of another shard's item
					}
					cls := "conflict"
					if ci >= 0 {
						cls = "class-" + classes[ci]
						if classes[ci] == "" {
							cls = "class-internal"
						}
					}
					_ = c08Class("sweep", s2, obs)
					_ = wi
					c.Emit(s2, obs, mons, fmt.Sprintf("sweep:%s:%s", tg.ctl, cls))
				}
				if !landed {
					break
				}
			}
		}
	}
}

func init() {
	Register("C08", func(c *Ctx) {
		for _, raw := range c.Corpus {
			var s c08Scn
			if err := jsonUnmarshalStrict(raw, &s); err == nil {
				s2, obs, mons := c08Run(s, nil)
				c.Emit(s2, obs, mons, "corpus")
			}
		}
		if c.N > 0 {
			c08ClassSweep(c)
		}
		if c.Tier == "thorough" {
			// exhaustive small scopes: shard j (= seed mod 1000) enumerates world j
			ws := c08ExhWorlds()
			j := int(c.Seed % 1000)
			deep := []int{14, 10, 9, 8, 10, 8, 10, 9}
			for v := j; v < len(ws); v += 8 {
				// every schedule of 6 enabled steps, every step of a reconcile with all 5 outcomes
				c08Exhaustive(c, v, ws[v], 6, []string{"ok", "fail", "conflict", "crashBefore", "crashAfter"}, false, 60000)
				// every fault-free schedule to a larger depth (world 0 is exhausted: nothing is enabled any more)
				c08Exhaustive(c, v, ws[v], deep[v%len(deep)], []string{"ok"}, false, 60000)
				// claim and Usage worlds: every fault-free schedule of 6 steps in which, in addition,
				// a third party may flip the claim's delete policy / the Usage's composite label at
				// any point and any read may be answered from the cache as it was at the start
				if v <= 2 || v == 7 {
					c08Exhaustive(c, v, ws[v], 6, []string{"ok"}, true, 30000)
				}
			}
		}
		for i := 0; i < c.N; i++ {
			r := c.Rng.Fork()
			if r.Chance(1, 60) {
				s2, obs, mons := c08Run(c08RaceWorld(r), c08RaceSchedule(r))
				_ = c08Class("race", s2, obs)
				c.Emit(s2, obs, mons, "liveclaim:race-neighbourhood")
				continue
			}
			if r.Chance(1, 120) {
				ws, l := c08MissWorld(r)
				s2, obs, mons := c08Run(ws, c08MissSchedule(r, l))
				_ = c08Class("cachemiss", s2, obs)
				c.Emit(s2, obs, mons, "cachemiss:"+l.ctl)
				continue
			}
			if r.Chance(1, 50) {
				s2, obs, mons := c08Run(c08MultiWorld(r), c08MultiSchedule(r))
				c.Emit(s2, obs, mons, c08Class("multi-instance-teardown", s2, obs))
				continue
			}
			if r.Chance(1, 100) {
				ws, l, ed := c08StaleWorld(r)
				s2, obs, mons := c08Run(ws, c08StaleSchedule(r, l, ed))
				_ = c08Class("stale", s2, obs)
				c.Emit(s2, obs, mons, "cache:stale-first-read:"+l.ctl)
				continue
			}
			s, fam := c08GenWorld(r)
			if r.Chance(1, 10) {
				s2, obs, mons := c08Run(s, c08SeqSchedule(r, 70))
				c.Emit(s2, obs, mons, c08Class("seq-"+fam, s2, obs))
				continue
			}
			n := r.Range(8, 45)
			// 1 scenario in 40 of the families with an XRD also schedules live-claim reconciles
			liveClaims := (fam == "xrd" || fam == "mixed") && r.Chance(1, 16)
			// 1 scenario in 8 runs whole reconciles of live objects atomically in between
			atomicLive := !liveClaims && r.Chance(1, 8)
			s2, obs, mons := c08Run(s, c08RandomSchedule(r, n, liveClaims, atomicLive))
			cls := c08Class(fam, s2, obs)
			if liveClaims {
				cls = "liveclaim:" + fam
			}
			if atomicLive {
				for _, st := range s2.Steps {
					if st.Op == "live" {
						cls = "live:" + st.C
					}
				}
			}
			c.Emit(s2, obs, mons, cls)
		}
	})
	RegisterDump("C08Consts", func() string {
		var sb strings.Builder
		def := func(name, val string) { fmt.Fprintf(&sb, "def %s : String := %s\n", name, leanStr(val)) }
		def("c08ClaimFinalizer", claim.VerifC08Finalizer)
		def("c08XRFinalizer", composite.VerifC08Finalizer)
		def("c08DefinedFinalizer", definition.VerifC08Finalizer)
		def("c08OfferedFinalizer", offered.VerifC08Finalizer)
		def("c08RevisionFinalizer", revision.VerifC08Finalizer)
		def("c08UsageFinalizer", usagectrl.VerifC08Finalizer)
		def("c08LockName", revision.VerifC08LockName)
		def("c08CompositeControllerPrefix", strings.TrimSuffix(composite.ControllerName("x"), "x"))
		def("c08ClaimControllerPrefix", strings.TrimSuffix(claim.ControllerName("x"), "x"))
		def("c08ReasonTerminatingComposite", string(v1.TerminatingComposite().Reason))
		def("c08ReasonTerminatingClaim", string(v1.TerminatingClaim().Reason))
		def("c08ReasonWatchingComposite", string(v1.WatchingComposite().Reason))
		def("c08ReasonWatchingClaim", string(v1.WatchingClaim().Reason))
		def("c08ReasonWaiting", string(claim.Waiting().Reason))
		return sb.String()
	})
}

//go:build verif

package main

// C05, family "fn": the REAL FunctionComposer behind the REAL Reconciler, both long-lived, driven
// through sequences of reconciles of several XRs. The scripted function runner plays pipelines of
// 1..3 steps; every step returns conditions (system and custom types, all four statuses, both
// targets), results (a FATAL one anywhere), desired composed resources with a readiness verdict
// (some rejected by the API server as invalid), the XR's explicit readiness and - the second way a
// function can write status.conditions - conditions inside the desired XR status. This is the
// PRODUCTION of the outcomes the scripted-Composer families feed to the reconciler directly.

import (
	"context"
	"errors"
	"fmt"
	"sort"

	"google.golang.org/protobuf/types/known/structpb"
	corev1 "k8s.io/api/core/v1"
	metav1 "k8s.io/apimachinery/pkg/apis/meta/v1"
	"k8s.io/apimachinery/pkg/apis/meta/v1/unstructured"
	"k8s.io/apimachinery/pkg/runtime"
	"k8s.io/apimachinery/pkg/types"
	"sigs.k8s.io/controller-runtime/pkg/reconcile"

	xpv1 "github.com/crossplane/crossplane-runtime/apis/common/v1"
	"github.com/crossplane/crossplane-runtime/pkg/reconciler/managed"
	"github.com/crossplane/crossplane-runtime/pkg/resource"
	ucomposite "github.com/crossplane/crossplane-runtime/pkg/resource/unstructured/composite"

	fnv1 "github.com/crossplane/crossplane/apis/apiextensions/fn/proto/v1"
	v1 "github.com/crossplane/crossplane/apis/apiextensions/v1"
	"github.com/crossplane/crossplane/internal/controller/apiextensions/composite"
)

type c05FnCond struct {
	Type   string `json:"type"`
	Status string `json:"status"` // True False Unknown Unspecified
	Reason string `json:"reason"`
	Claim  bool   `json:"claim"`
}

type c05FnRes struct {
	Name    string `json:"name"`
	Ready   string `json:"ready"`   // unspecified true false
	Invalid bool   `json:"invalid"` // the API server rejects the apply (422)
}

type c05FnStep struct {
	Conds   []c05FnCond `json:"conds"`
	Results []string    `json:"results"` // normal warning fatal unspecified
	Err     bool        `json:"err"`     // the runner returns an error
	Res     []c05FnRes  `json:"res"`
	XRReady string      `json:"xrReady"` // unspecified true false
	// conditions the function places in the DESIRED XR's status.conditions
	StatusConds []c05Cond `json:"statusConds"`
}

type c05FnRec struct {
	XR      int         `json:"xr"`
	Steps   []c05FnStep `json:"steps"`
	Publish string      `json:"publish"` // error class of PublishConnection ("" = ok)
	Lost    string      `json:"lost"`    // error class answering the final status update
	// Fault: a call of Compose AFTER the pipeline that fails ("" = none): "refs" the server-side apply
	// of spec.resourceRefs, "apply" the first apply of a desired composed resource (never class
	// invalid: that is a rejection, see c05FnRes.Invalid), "statusPatch" the apply of the desired XR
	// status; FaultErr its class
	Fault    string `json:"fault"`
	FaultErr string `json:"faultErr"`
}

type c05FnScn struct {
	Kind string     `json:"kind"` // "fn"
	XRs  []c05XR    `json:"xrs"`
	Recs []c05FnRec `json:"recs"`
}

var c05FnKindOf = map[string]string{"a": "KA", "b": "KB", "c": "KA", "d": "KB"}

func c05GenFnStep(r *Rng, last bool) c05FnStep {
	st := c05FnStep{Conds: []c05FnCond{}, Results: []string{}, Res: []c05FnRes{}, XRReady: Pick(r, []string{"unspecified", "unspecified", "true", "false"}), StatusConds: []c05Cond{}}
	for i, n := 0, r.Intn(4); i < n; i++ {
		st.Conds = append(st.Conds, c05FnCond{Type: Pick(r, c05CondUniverse()), Status: Pick(r, []string{"True", "False", "Unknown", "Unspecified"}), Reason: Pick(r, []string{"Fn", "Forged"}), Claim: r.Bool()})
	}
	for i, n := 0, r.Intn(3); i < n; i++ {
		st.Results = append(st.Results, Pick(r, []string{"normal", "normal", "warning", "unspecified"}))
	}
	if r.Chance(1, 10) {
		st.Results = append(st.Results, "fatal")
		if r.Bool() {
			st.Results = append(st.Results, "normal")
		}
	}
	st.Err = r.Chance(1, 25)
	names := []string{"a", "b", "c", "d"}
	p := r.Perm(4)
	n := r.Intn(5)
	bad := -1
	if n > 0 && r.Chance(1, 2) {
		bad = r.Intn(n)
	}
	for i := 0; i < n; i++ {
		rs := c05FnRes{Name: names[p[i]], Ready: Pick(r, []string{"true", "true", "true", "false", "unspecified"})}
		if i == bad {
			switch r.Intn(3) {
			case 0:
				rs.Ready = "false"
			case 1:
				rs.Ready = "unspecified"
			default:
				rs.Invalid = true
			}
		} else if bad >= 0 {
			rs.Ready = "true"
		}
		if r.Chance(1, 12) {
			rs.Invalid = true
		}
		st.Res = append(st.Res, rs)
	}
	_ = last
	return st
}

func c05GenFn(r *Rng) c05FnScn {
	s := c05FnScn{Kind: "fn"}
	names := r.Perm(len(c05XRNames))
	for i, n := 0, r.Range(1, 2); i < n; i++ {
		s.XRs = append(s.XRs, c05XR{Name: c05XRNames[names[i]], Fin: true, Old: c05GenConds(r, 4, []string{"Old", "Available", "Creating", "ReconcileSuccess"})})
	}
	for i, n := 0, r.Range(1, 4); i < n; i++ {
		rec := c05FnRec{XR: r.Intn(len(s.XRs))}
		for j, m := 0, r.Range(1, 3); j < m; j++ {
			rec.Steps = append(rec.Steps, c05GenFnStep(r, j == m-1))
		}
		if r.Chance(1, 8) {
			rec.Publish = Pick(r, c05ErrClasses)
		}
		if r.Chance(1, 10) {
			rec.Lost = Pick(r, c05ErrClasses)
		}
		if r.Chance(1, 8) {
			rec.Fault = Pick(r, []string{"refs", "apply", "apply", "statusPatch"})
			rec.FaultErr = Pick(r, c05ErrClasses)
			for rec.Fault == "apply" && rec.FaultErr == "invalid" {
				rec.FaultErr = Pick(r, c05ErrClasses)
			}
		}
		s.Recs = append(s.Recs, rec)
	}
	// a late failure's status update goes through only when the reference apply before it changed
	// nothing: craft a steady pair - two reconciles of one XR desiring the same, accepted resources,
	// the second one failing at the apply of a composed resource (or at the reference apply) after its
	// pipeline returned custom conditions
	if len(s.Recs) >= 2 && r.Chance(1, 3) {
		k := r.Range(1, len(s.Recs)-1)
		s.Recs[k].XR = s.Recs[k-1].XR
		names := []string{"a", "b", "c", "d"}
		p := r.Perm(4)
		res := []c05FnRes{}
		for j, m := 0, r.Range(1, 3); j < m; j++ {
			res = append(res, c05FnRes{Name: names[p[j]], Ready: Pick(r, []string{"true", "true", "false", "unspecified"})})
		}
		for _, q := range []int{k - 1, k} {
			for j := range s.Recs[q].Steps {
				s.Recs[q].Steps[j].Err = false
				keep := []string{}
				for _, sev := range s.Recs[q].Steps[j].Results {
					if sev != "fatal" {
						keep = append(keep, sev)
					}
				}
				s.Recs[q].Steps[j].Results = keep
			}
			last := &s.Recs[q].Steps[len(s.Recs[q].Steps)-1]
			last.Res = append([]c05FnRes{}, res...)
		}
		s.Recs[k-1].Fault, s.Recs[k-1].FaultErr = "", ""
		s.Recs[k].Fault = Pick(r, []string{"apply", "apply", "refs"})
		s.Recs[k].FaultErr = Pick(r, []string{"generic", "forbidden", "temporary", "deadline", "notFound", "alreadyExists"})
		if len(s.Recs[k].Steps[0].Conds) == 0 {
			s.Recs[k].Steps[0].Conds = append(s.Recs[k].Steps[0].Conds, c05FnCond{Type: Pick(r, []string{"Custom", "DatabaseReady", "NetworkOK"}), Status: "True", Reason: "Fn", Claim: r.Bool()})
		}
	}
	// a function may also write conditions through the desired XR's status: only in the last
	// reconcile of an XR (what server-side apply later removes again is not modelled)
	lastOf := map[int]int{}
	for i, rec := range s.Recs {
		lastOf[rec.XR] = i
	}
	for _, i := range lastOf {
		if r.Chance(1, 4) {
			st := &s.Recs[i].Steps[len(s.Recs[i].Steps)-1]
			seen := map[string]bool{}
			for k, n := 0, r.Range(1, 3); k < n; k++ {
				t := Pick(r, []string{"Ready", "Synced", "Custom", "DatabaseReady", "ready"})
				if seen[t] {
					continue
				}
				seen[t] = true
				st.StatusConds = append(st.StatusConds, c05Cond{Type: t, Status: Pick(r, []string{"True", "True", "False", "Unknown"}), Reason: "InStatus"})
			}
		}
	}
	return s
}

type c05FnWorld struct {
	st  *Store
	cl  *c05Client
	rec *composite.Reconciler
	cur *c05FnRec
}

func c05FnStatus(s string) fnv1.Status {
	switch s {
	case "True":
		return fnv1.Status_STATUS_CONDITION_TRUE
	case "False":
		return fnv1.Status_STATUS_CONDITION_FALSE
	case "Unknown":
		return fnv1.Status_STATUS_CONDITION_UNKNOWN
	}
	return fnv1.Status_STATUS_CONDITION_UNSPECIFIED
}

func c05FnReady(s string) fnv1.Ready {
	switch s {
	case "true":
		return fnv1.Ready_READY_TRUE
	case "false":
		return fnv1.Ready_READY_FALSE
	}
	return fnv1.Ready_READY_UNSPECIFIED
}

func c05FnResponse(step c05FnStep) (*fnv1.RunFunctionResponse, error) {
	if step.Err {
		return nil, errors.New("function failed")
	}
	rsp := &fnv1.RunFunctionResponse{Desired: &fnv1.State{Resources: map[string]*fnv1.Resource{}}}
	for _, c := range step.Conds {
		fc := &fnv1.Condition{Type: c.Type, Status: c05FnStatus(c.Status), Reason: c.Reason}
		t := fnv1.Target_TARGET_COMPOSITE
		if c.Claim {
			t = fnv1.Target_TARGET_COMPOSITE_AND_CLAIM
		}
		fc.Target = &t
		rsp.Conditions = append(rsp.Conditions, fc)
	}
	for _, sev := range step.Results {
		rs := &fnv1.Result{Message: "m"}
		switch sev {
		case "normal":
			rs.Severity = fnv1.Severity_SEVERITY_NORMAL
		case "warning":
			rs.Severity = fnv1.Severity_SEVERITY_WARNING
		case "fatal":
			rs.Severity = fnv1.Severity_SEVERITY_FATAL
		}
		rsp.Results = append(rsp.Results, rs)
	}
	for _, d := range step.Res {
		content := 1
		if d.Invalid {
			content = xwInvalidContent
		}
		kind := c05FnKindOf[d.Name]
		if kind == "" {
			kind = "KA"
		}
		s, _ := structpb.NewStruct(map[string]any{"apiVersion": xwGroup + "/v1", "kind": kind, "spec": map[string]any{"content": content}})
		rsp.Desired.Resources[d.Name] = &fnv1.Resource{Resource: s, Ready: c05FnReady(d.Ready)}
	}
	comp := &fnv1.Resource{Ready: c05FnReady(step.XRReady)}
	if len(step.StatusConds) > 0 {
		cs := []any{}
		for _, c := range step.StatusConds {
			cs = append(cs, map[string]any{"type": c.Type, "status": c.Status, "reason": c.Reason, "lastTransitionTime": "2024-01-01T00:00:00Z"})
		}
		s, _ := structpb.NewStruct(map[string]any{"apiVersion": xwGroup + "/v1", "kind": c05XRGVK.Kind, "status": map[string]any{"conditions": cs}})
		comp.Resource = s
	}
	rsp.Desired.Composite = comp
	return rsp, nil
}

func c05NewFnWorld(s c05FnScn) *c05FnWorld {
	st := NewStore(runtime.NewScheme())
	st.Reject = func(m map[string]any) bool {
		if k, _ := m["kind"].(string); k != "KA" && k != "KB" {
			return false
		}
		c, _, _ := unstructured.NestedInt64(m, "spec", "content")
		return c == xwInvalidContent
	}
	w := &c05FnWorld{st: st}
	w.cl = &c05Client{Store: st, StrictRV: true}
	for _, x := range s.XRs {
		xr := ucomposite.New(ucomposite.WithGroupVersionKind(c05XRGVK))
		xr.SetName(x.Name)
		xr.SetLabels(map[string]string{"crossplane.io/composite": x.Name})
		xr.SetCompositionReference(&corev1.ObjectReference{Name: "comp"})
		xr.SetFinalizers([]string{c05Finalizer})
		for _, c := range x.Old {
			xr.SetConditions(xpv1.Condition{Type: xpv1.ConditionType(c.Type), Status: corev1.ConditionStatus(c.Status), Reason: xpv1.ConditionReason(c.Reason), LastTransitionTime: metav1.Unix(1, 0)})
		}
		st.Seed(xr)
	}
	// the runner serves the pipeline of the reconcile in progress; steps are addressed by function name
	runner := composite.FunctionRunnerFn(func(_ context.Context, name string, _ *fnv1.RunFunctionRequest) (*fnv1.RunFunctionResponse, error) {
		var k int
		if _, err := fmt.Sscanf(name, "fn%d", &k); err != nil || w.cur == nil || k >= len(w.cur.Steps) {
			return nil, errors.New("no such function")
		}
		return c05FnResponse(w.cur.Steps[k])
	})
	fc := composite.NewFunctionComposer(w.cl, w.cl, runner)
	w.rec = composite.NewReconciler(w.cl, w.cl, resource.CompositeKind(c05XRGVK),
		composite.WithComposer(fc),
		composite.WithCompositionSelector(composite.CompositionSelectorFn(func(context.Context, resource.Composite) error { return nil })),
		composite.WithCompositionRevisionFetcher(composite.CompositionRevisionFetcherFn(func(context.Context, resource.Composite) (*v1.CompositionRevision, error) {
			rev := &v1.CompositionRevision{}
			m := v1.CompositionModePipeline
			rev.Spec.Mode = &m
			for i := range w.cur.Steps {
				rev.Spec.Pipeline = append(rev.Spec.Pipeline, v1.PipelineStep{Step: fmt.Sprintf("s%d", i), FunctionRef: v1.FunctionReference{Name: fmt.Sprintf("fn%d", i)}})
			}
			return rev, nil
		})),
		composite.WithCompositionRevisionValidator(composite.CompositionRevisionValidatorFn(func(*v1.CompositionRevision) error { return nil })),
		composite.WithConfigurator(composite.ConfiguratorFn(func(context.Context, resource.Composite, *v1.CompositionRevision) error { return nil })),
		composite.WithConnectionPublishers(managed.ConnectionPublisherFns{
			PublishConnectionFn: func(context.Context, resource.ConnectionSecretOwner, managed.ConnectionDetails) (bool, error) {
				return false, c05MkErr(w.cur.Publish, true)
			},
			UnpublishConnectionFn: func(context.Context, resource.ConnectionSecretOwner, managed.ConnectionDetails) error { return nil },
		}),
	)
	return w
}

func c05XRState(st *Store, name string) (map[string]c05OCond, []c05OCond, []string) {
	got := ucomposite.New()
	u := st.Peek(c05XRGVK.GroupKind(), "", name)
	if u == nil {
		return map[string]c05OCond{}, []c05OCond{}, []string{}
	}
	got.SetUnstructuredContent(u.Object)
	m := map[string]c05OCond{}
	l := []c05OCond{}
	for _, c := range got.GetConditions() {
		oc := c05OCond{Type: string(c.Type), Status: string(c.Status), Reason: string(c.Reason)}
		l = append(l, oc)
		m[oc.Type] = oc
	}
	sort.SliceStable(l, func(i, j int) bool { return l[i].Type < l[j].Type })
	ct := []string{}
	for _, t := range got.GetClaimConditionTypes() {
		ct = append(ct, string(t))
	}
	sort.Strings(ct)
	return m, l, ct
}

// c05FnOutcome is the harness's own reading of a pipeline (independent of the Lean model): how it
// ends, and the desired state of its last step.
func c05FnOutcome(rec c05FnRec) (fatal bool, last *c05FnStep) {
	for i := range rec.Steps {
		st := &rec.Steps[i]
		if st.Err {
			return true, nil
		}
		for _, sev := range st.Results {
			if sev == "fatal" {
				return true, nil
			}
		}
		last = st
	}
	return false, last
}

func c05RunFn(s c05FnScn) (c05SeqObs, []Mon) {
	w := c05NewFnWorld(s)
	st := w.st
	obs := c05SeqObs{Steps: []c05StepObs{}}
	var mons []Mon
	seen := map[string]bool{}
	mon := func(sig, why string) {
		if !seen[sig] {
			seen[sig] = true
			mons = append(mons, Mon{Sig: sig, Why: why})
		}
	}
	for i := range s.Recs {
		rec := &s.Recs[i]
		if rec.XR < 0 || rec.XR >= len(s.XRs) || len(rec.Steps) == 0 {
			continue
		}
		name := s.XRs[rec.XR].Name
		before := map[string]map[string]c05OCond{}
		for _, x := range s.XRs {
			before[x.Name], _, _ = c05XRState(st, x.Name)
		}
		w.cur = rec
		st.Log = nil
		applies := 0
		w.cl.Inject = func(c c05Call) error {
			switch {
			case c.Kind == c05XRGVK.Kind && c.Verb == "update" && c.Sub == "status" && rec.Lost != "":
				return c05MkErr(rec.Lost, false)
			case c.Kind == c05XRGVK.Kind && c.Verb == "patch" && c.Sub == "" && rec.Fault == "refs":
				return c05MkErr(rec.FaultErr, false)
			case c.Kind == c05XRGVK.Kind && c.Verb == "patch" && c.Sub == "status" && rec.Fault == "statusPatch":
				return c05MkErr(rec.FaultErr, false)
			case (c.Kind == "KA" || c.Kind == "KB") && c.Verb == "patch" && rec.Fault == "apply":
				applies++
				if applies == 1 {
					return c05MkErr(rec.FaultErr, false)
				}
			}
			return nil
		}
		// at NO instant of the reconcile may the stored XR carry a system condition a function put
		// into the desired XR status (it would be what a claim reconcile or a user observes)
		st.After = func(CallInfo) {
			now, _, _ := c05XRState(st, name)
			for _, t := range []string{"Ready", "Synced", "Healthy"} {
				if now[t].Reason == "InStatus" {
					mon("C05:system-condition-forged-via-desired-status", fmt.Sprintf("reconcile %d: during the reconcile the stored XR carries the %s=%s condition the function placed in the desired XR status", i, t, now[t].Status))
				}
			}
		}
		if p := Guard(func() {
			_, _ = w.rec.Reconcile(context.Background(), reconcile.Request{NamespacedName: types.NamespacedName{Name: name}})
		}); p != "" {
			mon("C05:panic", p)
		}
		w.cl.Inject, st.After = nil, nil
		after, list, ct := c05XRState(st, name)
		so := c05StepObs{Conds: list, ClaimTypes: ct}
		for _, l := range st.Log {
			if l.Verb == "update" && l.Sub == "status" && l.Applied {
				so.Wrote = true
			}
		}
		obs.Steps = append(obs.Steps, so)

		// ---- direct monitors
		fatal, last := c05FnOutcome(*rec)
		old := before[name]
		// Compose fails after the pipeline: the call is reached (and issued)
		late := !fatal && rec.Fault != "" && (rec.Fault != "apply" || len(last.Res) > 0)
		completed := !fatal && !late && rec.Publish == "" && rec.Lost == ""
		if completed {
			allReady, allSynced := true, true
			for _, d := range last.Res {
				allReady = allReady && d.Ready == "true"
				allSynced = allSynced && !d.Invalid
			}
			mayReady := last.XRReady == "true" || (last.XRReady == "unspecified" && allReady)
			if after["Ready"].Status == "True" && !mayReady {
				mon("C05:ready-overstated", fmt.Sprintf("reconcile %d: Ready=True although the pipeline did not mark the XR ready and some desired resource is not ready (or it marked the XR unready)", i))
			}
			if after["Synced"].Status == "True" && !allSynced {
				mon("C05:synced-overstated", fmt.Sprintf("reconcile %d: Synced=True although the apply of a desired resource was rejected", i))
			}
		} else {
			for _, t := range []string{"Ready", "Synced"} {
				if after[t].Status == "True" && old[t].Status != "True" {
					sig := "C05:ready-set-on-error"
					if t == "Synced" {
						sig = "C05:synced-set-on-error"
					}
					mon(sig, fmt.Sprintf("reconcile %d: a reconcile that did not complete (fatal %v fault %q/%q publish %q lost %q) left %s=True", i, fatal, rec.Fault, rec.FaultErr, rec.Publish, rec.Lost, t))
				}
			}
		}
		for _, t := range []string{"Ready", "Synced"} {
			switch r := after[t].Reason; {
			case r == "Fn" || r == "Forged":
				mon("C05:system-condition-forged", fmt.Sprintf("reconcile %d: %s carries the function-supplied reason %q", i, t, r))
			case r == "InStatus":
				mon("C05:system-condition-forged-via-desired-status", fmt.Sprintf("reconcile %d: %s is the condition the function placed in the desired XR status (%s)", i, t, after[t].Status))
			}
		}
		for _, t := range ct {
			if xpv1.IsSystemConditionType(xpv1.ConditionType(t)) {
				mon("C05:system-type-in-claim-condition-types", fmt.Sprintf("reconcile %d: status.claimConditionTypes lists the system type %q", i, t))
			}
		}
		// (a late failure's status update may not go through: the XR held by the reconciler is outdated
		// once the reference apply changed it; the clause is about what a status update stores)
		if (fatal && rec.Lost == "") || (late && so.Wrote) {
			// conditions returned before the failure (a runner error drops them all, and so does every
			// failure of Compose after the pipeline: it returns an empty result)
			fnLast := map[string]c05FnCond{}
			for _, stp := range rec.Steps {
				if late {
					break
				}
				if stp.Err {
					fnLast = map[string]c05FnCond{}
					break
				}
				for _, c := range stp.Conds {
					fnLast[c.Type] = c
				}
				isFatal := false
				for _, sev := range stp.Results {
					isFatal = isFatal || sev == "fatal"
				}
				if isFatal {
					break
				}
			}
			for t := range old {
				if xpv1.IsSystemConditionType(xpv1.ConditionType(t)) {
					continue
				}
				if f, ok := fnLast[t]; ok {
					want := f.Status
					if want == "Unspecified" {
						want = "Unknown"
					}
					if after[t].Status != want {
						mon("C05:reasserted-custom-not-function-value", fmt.Sprintf("reconcile %d: custom condition %q re-asserted as %s is %s after the fatal error", i, t, want, after[t].Status))
					}
					continue
				}
				if after[t].Status != "Unknown" {
					mon("C05:custom-not-unknown-on-fatal", fmt.Sprintf("reconcile %d: custom condition %q not re-asserted but %s, not Unknown", i, t, after[t].Status))
				}
			}
		}
		for _, x := range s.XRs {
			if x.Name == name {
				continue
			}
			now, _, _ := c05XRState(st, x.Name)
			if fmt.Sprint(now) != fmt.Sprint(before[x.Name]) {
				mon("C05:other-xr-changed", fmt.Sprintf("reconcile %d: reconciling %q changed the conditions of %q", i, name, x.Name))
			}
		}
	}
	return obs, mons
}

func c05FnCls(s c05FnScn) string {
	steps, fatal, inval, forge, pub, lost := 0, 0, 0, 0, 0, 0
	fault := "-"
	for _, r := range s.Recs {
		if r.Fault != "" {
			fault = r.Fault + "=" + r.FaultErr
		}
		if len(r.Steps) > steps {
			steps = len(r.Steps)
		}
		if f, _ := c05FnOutcome(r); f {
			fatal++
		}
		for _, st := range r.Steps {
			for _, d := range st.Res {
				if d.Invalid {
					inval++
				}
			}
			if len(st.StatusConds) > 0 {
				forge++
			}
		}
		if r.Publish != "" {
			pub++
		}
		if r.Lost != "" {
			lost++
		}
	}
	return fmt.Sprintf("fn/xrs=%d/recs=%d/maxsteps=%d/fatal=%d/rejected=%d/instatus=%d/publishErr=%d/lost=%d/fault=%s", len(s.XRs), len(s.Recs), steps, fatal, min(inval, 3), forge, pub, lost, fault)
}
